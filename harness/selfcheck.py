"""selfcheck.py -- validate the extraction + OCaml driver instead of trusting them:
the same event lines are evaluated (a) by the extracted runner ocaml/modelrun and
(b) inside Coq by `Eval vm_compute` on Render.process, and the outputs must be
equal line by line (the comparison itself is done inside Coq, on string literals,
so nothing depends on parsing Coq's pretty-printer).

The input histories are the committed files coq/selfcheck/*.lines (event lines
recorded from runs of the real server: corpus witnesses and generated histories).
Result cached by build.py on the hash of model sources + these files."""
import os, sys, glob, subprocess, tempfile, shutil, json, time

HERE = os.path.dirname(os.path.abspath(__file__))
VERIF = os.path.dirname(HERE)
COQ = os.path.join(VERIF, "coq")
MODELRUN = os.path.join(VERIF, "ocaml", "modelrun")
SCRATCH = "/dev/shm" if os.path.isdir("/dev/shm") else None


def coq_lit(s):
    assert all(32 <= ord(c) < 127 for c in s), "non-printable character in model I/O"
    return '"' + s.replace('"', '""') + '"'


def run_ocaml(lines):
    p = subprocess.run([MODELRUN], input=("\n".join(["RESET"] + lines) + "\n").encode("ascii"),
                       stdout=subprocess.PIPE, check=True, timeout=300)
    out = [l for l in p.stdout.decode("ascii").split("\n") if l]
    assert out and out[0] == "RESET"
    return out[1:]


def selfcheck(max_files=12, max_lines=45):
    """returns dict(ok, histories, lines, seconds, error)"""
    t0 = time.time()
    files = sorted(glob.glob(os.path.join(COQ, "selfcheck", "*.lines")))[:max_files]
    if not files:
        return {"ok": False, "error": "no coq/selfcheck/*.lines files", "histories": 0, "lines": 0}
    d = tempfile.mkdtemp(prefix="selfcheck-", dir=SCRATCH)
    try:
        src = ["From MW Require Import Base Render.", "Open Scope string_scope.",
               "Fixpoint leq (a b : list string) : bool := match a, b with",
               "  | [], [] => true | x :: a', y :: b' => String.eqb x y && leq a' b' | _, _ => false end."]
        total = 0
        for i, f in enumerate(files):
            lines = [l for l in open(f).read().split("\n") if l][:max_lines]
            expected = run_ocaml(lines)
            total += len(lines)
            src.append("Definition inp%d : list string := [%s]." % (i, "; ".join(coq_lit(l) for l in lines)))
            src.append("Definition exp%d : list string := [%s]." % (i, "; ".join(coq_lit(l) for l in expected)))
            src.append("Eval vm_compute in (leq (process inp%d) exp%d)." % (i, i))
        open(os.path.join(d, "cases.v"), "w").write("\n".join(src) + "\n")
        p = subprocess.run("ulimit -s unlimited; timeout 900 coqc -Q %s MW -Q %s MWGen cases.v"
                           % (os.path.join(COQ, "theories"), os.path.join(COQ, "gen")),
                           shell=True, cwd=d, stdout=subprocess.PIPE, stderr=subprocess.STDOUT, timeout=1000)
        out = p.stdout.decode("utf-8", "replace")
        trues = out.count("= true")
        ok = p.returncode == 0 and trues == len(files) and "= false" not in out
        return {"ok": ok, "histories": len(files), "lines": total, "seconds": round(time.time() - t0, 1),
                "error": None if ok else out[-1500:]}
    finally:
        shutil.rmtree(d, ignore_errors=True)


if __name__ == "__main__":
    r = selfcheck()
    print(json.dumps(r, indent=1))
    sys.exit(0 if r["ok"] else 1)
