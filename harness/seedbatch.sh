#!/bin/bash
# seedbatch.sh <round-suffix> [jobs]: confirm and check every finished sub-agent seed /tmp/seed-Cxx-<suffix>
# (those with _seed/patch.diff and not yet recorded), 3 at a time; one summary line each; worktree removed afterwards.
R=$1; J=${2:-3}
cd /verif
todo=()
for d in /tmp/seed-C*-$R; do
  [ -f $d/_seed/patch.diff ] || continue
  n=$(basename $d); n=${n#seed-}
  [ -f seeded/$n/.done ] && continue
  todo+=($n)
done
# a seed that changes what the Coq instances are generated from rebuilds the development in place: those run alone
par=(); alone=()
for n in "${todo[@]}"; do
  if grep -q '^+++ b/src/wormhole_mailbox_server/\(server_tap.py\|database.py\|db-schemas/\)' /tmp/seed-$n/_seed/patch.diff; then alone+=($n); else par+=($n); fi
done
one='n=$0; p=${n%%-*}; bash harness/seedtest2.sh $p $n > /tmp/seedtest-$n.log 2>&1; touch seeded/$n/.done;
  s=$(grep -c "^VIOLATION" /tmp/seedtest-$n.log); c=$(grep "^VIOLATION" /tmp/seedtest-$n.log | grep -vc no-failing-input-found);
  echo "$n: $(head -1 /tmp/seedtest-$n.log | cut -c1-90) | violations=$s concrete=$c | $(grep "^check" /tmp/seedtest-$n.log)";
  git -C /repo worktree remove --force /tmp/seed-$n 2>/dev/null'
[ ${#par[@]} -gt 0 ] && printf '%s\n' "${par[@]}" | xargs -P $J -I{} bash -c "$one" {}
for n in "${alone[@]}"; do bash -c "$one" $n; done
[ ${#alone[@]} -gt 0 ] && ./check build > /dev/null 2>&1
git -C /repo worktree prune
exit 0
printf '%s\n' "${todo[@]}" | xargs -P $J -I{} bash -c 'n={}; p=${n%%-*}; bash harness/seedtest2.sh $p $n > /tmp/seedtest-$n.log 2>&1; touch seeded/$n/.done;
  s=$(grep -c "^VIOLATION" /tmp/seedtest-$n.log); c=$(grep "^VIOLATION" /tmp/seedtest-$n.log | grep -vc no-failing-input-found);
  echo "$n: $(head -1 /tmp/seedtest-$n.log | cut -c1-90) | violations=$s concrete=$c | $(grep "^check" /tmp/seedtest-$n.log)";
  git -C /repo worktree remove --force /tmp/seed-$n 2>/dev/null'
git -C /repo worktree prune
