"""dbfiles.py -- C19 / C20: crash-point enumeration of the real database.py
and correspondence with the Coq model (coq/theories/DbFiles.v).

For every scenario (entry point + pre-existing directory content) the real
entry point is run in a forked child process that os._exit(9)s at the k-th
interception point, for EVERY k until the run completes.  Interception points:
before and after each file-system call database.py makes on the directory
(os.path.exists on dbfile, tempfile.mkstemp, os.close of the temp fd,
sqlite3.connect, Connection.close, os.rename, shutil.copy), before each SQL
statement SQLite starts (sqlite3 trace callback: "before statement i+1" is
"after statement i"), and the end of the call.  shutil.copy is NOT treated as
atomic: in the child it is replaced by a staged copy with the three steps of
the model (copy-create: destination created/truncated, 0 bytes; copy-partial:
a strict prefix of the bytes written, flushed and closed; copy: the real
shutil.copy completes), each with a kill point before and after it -- a kill
inside the copy leaves an empty or a truncated backup file on disk.  After each kill the directory
is listed, file bytes hashed, every survivor opened with a plain sqlite3
connection on a private copy (schema from sqlite_master, all rows), then the
next normal start (same entry point, no kill) is run in a fresh child and
observed the same way.

Two independent judgements per scenario:
  mon  the property text itself, evaluated on the real observations only
       (concrete violation: scenario, crash point, listing, what the next
       start did);
  div  the model's prediction (cases.v evaluated by coqc with vm_compute:
       step labels, file system after every step, outcome, outcome of the
       restart from every crash state) differs from the real code -- the
       theorems no longer carry over.
The mapping interception point -> model step is checked, not assumed: the
sequence of operations the real run performed must equal the model's label
sequence (a statement SQLite rejects while preparing it never reaches the
trace callback: the model's last, failing step may be missing), and the state
after every kill must equal the model's state after that many steps.
"""
import os, sys, re, json, time, hashlib, random, shutil, sqlite3, tempfile, subprocess, traceback
import multiprocessing
from collections import Counter

HERE = os.path.dirname(os.path.abspath(__file__))
VERIF = os.path.dirname(HERE)
sys.path.insert(0, HERE)
REPO_SRC = os.environ.get("VERIF_REPO_SRC", "/repo/src")
COQ = os.path.join(VERIF, "coq")
CORPUS = os.path.join(VERIF, "corpus-dbfiles")
MAIN = "db.sqlite"
SHM = "/dev/shm" if os.path.isdir("/dev/shm") else None

ENTRY_COQ = {"get_channel": "EGetChannel", "get_usage": "EGetUsage", "create_channel": "ECreateChannel",
             "create_usage": "ECreateUsage", "open_existing": "EOpenExisting"}
ENTRY_SCHEMA = {"get_channel": "channel", "get_usage": "usage", "create_channel": "channel",
                "create_usage": "usage"}


def _database():
    if REPO_SRC not in sys.path:
        sys.path.insert(0, REPO_SRC)
    import warnings
    warnings.simplefilter("ignore")
    from wormhole_mailbox_server import database
    return database


def sha(b):
    return hashlib.sha256(b).hexdigest()[:16]


# ---------------------------------------------------------------- SQL text
def strip_sql_comments(sql):
    return "\n".join(line[:line.find("--")] if "--" in line else line for line in sql.split("\n"))


def norm_ddl(sql):
    s = re.sub(r"\s+", " ", strip_sql_comments(sql)).strip().rstrip(";").strip()
    if re.match(r"^CREATE INDEX", s, re.I):
        s = s.replace(" on ", " ON ")
    return s


def sql_label(sql):
    s = re.sub(r"\s+", " ", strip_sql_comments(sql)).strip().rstrip(";").strip()
    u = s.upper()
    # identifier quoting and spacing around '=' do not change what a statement does
    bare = re.sub(r"\s*=\s*", "=", re.sub(r"[`\"\[\]]", "", u))
    if bare in ("PRAGMA FOREIGN_KEYS=ON", "PRAGMA FOREIGN_KEYS=1", "PRAGMA FOREIGN_KEYS=TRUE"):
        return "pragma_fk"
    if bare == "PRAGMA FOREIGN_KEY_CHECK":
        return "fk_check"
    if bare in ("SELECT VERSION FROM VERSION", "SELECT VERSION.VERSION FROM VERSION"):
        return "select_version"
    if re.match(r"^BEGIN( TRANSACTION)?$", u):
        return "sql:begin"
    if re.match(r"^(COMMIT|END)( TRANSACTION)?$", u):
        return "sql:commit"
    m = re.match(r"^CREATE TABLE `?(\w+)`?", s, re.I)
    if m:
        return "sql:create_table:" + m.group(1)
    m = re.match(r"^CREATE INDEX `?(\w+)`?", s, re.I)
    if m:
        return "sql:create_index:" + m.group(1)
    m = re.match(r"^DELETE FROM `?(\w+)`?$", s, re.I)
    if m:
        return "sql:delete_all:" + m.group(1)
    m = re.match(r"^INSERT INTO `?version`? \(`?version`?\) VALUES \((\d+)\)$", s, re.I)
    if m:
        return "sql:insert_version:" + m.group(1)
    return "sql?:" + s[:80]


# ---------------------------------------------------------------- the instrumented child
class _Killed(Exception):
    pass


def partial_len(n):
    """how many of n bytes the interrupted copy has written: half, at least one byte short"""
    return max(0, min(n // 2, n - 1))


def _child_body(entry, ddir, kill_at, logfd, resfd):
    """runs in a forked child; never returns"""
    D = _database()
    main = os.path.join(ddir, MAIN)
    st = {"n": 0, "op": -1}

    def point(phase, label):
        st["n"] += 1
        os.write(logfd, (json.dumps([st["n"], st["op"], phase, label]) + "\n").encode())
        if st["n"] == kill_at:
            os._exit(9)

    def fsop(label, fn, *a, **kw):
        if st.get("busy"):                 # an intercepted call made from inside an intercepted call
            return fn(*a, **kw)
        st["op"] += 1
        point("before", label)
        st["busy"] = True
        try:
            r = fn(*a, **kw)
        except BaseException:
            st["busy"] = False
            point("after", label + "!")
            raise
        st["busy"] = False
        point("after", label)
        return r

    def in_dir(p):
        try:
            p = os.fspath(p)
            return os.path.dirname(os.path.abspath(p)) == os.path.abspath(ddir)
        except Exception:
            return False

    temp_fds = set()
    o_mkstemp, o_close, o_rename, o_copy = tempfile.mkstemp, os.close, os.rename, shutil.copy
    o_connect, o_exists = sqlite3.connect, os.path.exists

    def mkstemp(*a, **kw):
        if kw.get("dir") and os.path.abspath(kw["dir"]) == os.path.abspath(ddir):
            fd, name = fsop("mkstemp", o_mkstemp, *a, **kw)
            temp_fds.add(fd)
            return fd, name
        return o_mkstemp(*a, **kw)

    def close(fd):
        if fd in temp_fds:
            temp_fds.discard(fd)
            return fsop("close_fd", o_close, fd)
        return o_close(fd)

    def rename(a, b, *r, **kw):
        if in_dir(a) or in_dir(b):
            return fsop("rename", o_rename, a, b, *r, **kw)
        return o_rename(a, b, *r, **kw)

    def make_copy(orig):
        def copy(a, b, *r, **kw):
            """shutil.copy in the three steps of the model (DbFiles.v: LCopyCreate, LCopyPartial,
            LCopyDone), each an interception point pair: what copyfile does -- open the source, create
            or truncate the destination, write, close, copymode -- with the process able to die after
            the truncation and after part of the bytes"""
            if st.get("busy") or not (in_dir(a) or in_dir(b)):
                return orig(a, b, *r, **kw)
            m = re.search(r"-backup-v(-?\d+)$", str(b))
            v = m.group(1) if m else "?"
            dst = os.path.join(b, os.path.basename(a)) if os.path.isdir(b) else b
            box = {}

            def create():
                with open(a, "rb") as f:              # no source: OSError, nothing is created
                    box["data"] = f.read()
                if o_exists(dst) and os.path.samefile(a, dst):
                    raise shutil.SameFileError("%r and %r are the same file" % (a, dst))
                fd = o_osopen(dst, os.O_WRONLY | os.O_CREAT | os.O_TRUNC, 0o666)
                os.fsync(fd)
                o_close(fd)

            def partial():
                data = box["data"]
                with open(dst, "r+b") as f:
                    f.write(data[:partial_len(len(data))])
                    f.flush()
                    os.fsync(f.fileno())

            fsop("copy-create:" + v, create)
            fsop("copy-partial:" + v, partial)
            return fsop("copy:" + v, orig, a, b, *r, **kw)     # the real shutil.copy: all bytes + mode bits
        return copy

    def exists(p):
        try:
            mine = os.path.abspath(os.fspath(p)) == main
        except Exception:
            mine = False
        if mine:
            return fsop("exists", o_exists, p)
        return o_exists(p)

    class TracedConn(sqlite3.Connection):
        def close(self):
            return fsop("db_close", super().close)

    def sqlop(s):
        st["op"] += 1
        point("before", sql_label(s))

    # the same operations reached through other doors of the standard library (pathlib, os.replace, copy2 ...):
    # an API migration must not take the crash points away
    import pathlib
    o_replace, o_pexists, o_pisfile, o_touch, o_unlink, o_remove, o_osopen = \
        os.replace, pathlib.Path.exists, pathlib.Path.is_file, pathlib.Path.touch, os.unlink, os.remove, os.open
    o_copy2, o_copyfile = shutil.copy2, shutil.copyfile

    def replace(a, b, *r, **kw):
        if in_dir(a) or in_dir(b):
            return fsop("rename", o_replace, a, b, *r, **kw)
        return o_replace(a, b, *r, **kw)

    def pexists(self, *a, **kw):
        try:
            mine = os.path.abspath(os.fspath(self)) == main
        except Exception:
            mine = False
        return fsop("exists", o_pexists, self, *a, **kw) if mine else o_pexists(self, *a, **kw)

    def pisfile(self, *a, **kw):
        try:
            mine = os.path.abspath(os.fspath(self)) == main
        except Exception:
            mine = False
        return fsop("exists", o_pisfile, self, *a, **kw) if mine else o_pisfile(self, *a, **kw)

    def touch(self, *a, **kw):
        return fsop("touch", o_touch, self, *a, **kw) if in_dir(self) else o_touch(self, *a, **kw)

    def unlink(p, *a, **kw):
        return fsop("unlink", o_unlink, p, *a, **kw) if in_dir(p) else o_unlink(p, *a, **kw)

    def remove(p, *a, **kw):
        return fsop("unlink", o_remove, p, *a, **kw) if in_dir(p) else o_remove(p, *a, **kw)

    def osopen(p, flags, *a, **kw):
        if (flags & os.O_CREAT) and in_dir(p):
            return fsop("os_open", o_osopen, p, flags, *a, **kw)
        return o_osopen(p, flags, *a, **kw)

    def connect(p, *a, **kw):
        if isinstance(p, os.PathLike):
            p = os.fspath(p)
        if isinstance(p, bytes):
            p = os.fsdecode(p)
        if isinstance(p, str) and p != ":memory:" and in_dir(p):
            kw.setdefault("factory", TracedConn)
            db = fsop("connect", o_connect, p, *a, **kw)
            db.set_trace_callback(sqlop)
            return db
        return o_connect(p, *a, **kw)

    tempfile.mkstemp, os.close, os.rename, shutil.copy = mkstemp, close, rename, make_copy(o_copy)
    sqlite3.connect, os.path.exists = connect, exists
    os.replace, pathlib.Path.exists, pathlib.Path.is_file, pathlib.Path.touch = replace, pexists, pisfile, touch
    os.unlink, os.remove, os.open = unlink, remove, osopen
    shutil.copy2, shutil.copyfile = make_copy(o_copy2), make_copy(o_copyfile)
    fn = {"get_channel": D.create_or_upgrade_channel_db, "get_usage": D.create_or_upgrade_usage_db,
          "create_channel": D.create_channel_db, "create_usage": D.create_usage_db,
          "open_existing": D.open_existing_db}[entry]
    res = {}
    db = None
    try:
        db = fn(main)
        res["outcome"] = "ok"
    except BaseException as e:
        res["outcome"] = "err"
        res["exc"] = exc_class(D, e)
        res["exc_type"] = type(e).__name__
        res["msg"] = str(e)[:300]
    st["op"] += 1
    point("end", "end")
    # past the last crash point: undo the patches, report what the caller got
    tempfile.mkstemp, os.close, os.rename, shutil.copy = o_mkstemp, o_close, o_rename, o_copy
    sqlite3.connect, os.path.exists = o_connect, o_exists
    os.replace, pathlib.Path.exists, pathlib.Path.is_file, pathlib.Path.touch = o_replace, o_pexists, o_pisfile, o_touch
    os.unlink, os.remove, os.open = o_unlink, o_remove, o_osopen
    shutil.copy2, shutil.copyfile = o_copy2, o_copyfile
    if db is not None:
        try:
            db.set_trace_callback(None)
            res["view"] = read_connection(db)
            try:
                res["dump_schema"] = [l for l in dump_lines(D, db) if not l.startswith("INSERT INTO")]
            except Exception as e:
                res["dump_schema"] = ["dump failed: %r" % (e,)]
            sqlite3.Connection.close(db)
        except BaseException as e:
            res["view_error"] = repr(e)
    os.write(resfd, json.dumps(res).encode())
    os._exit(0)


def exc_class(D, e):
    if isinstance(e, D.DBError):
        return "DBError"
    if isinstance(e, D.DBAlreadyExists):
        return "DBAlreadyExists"
    if isinstance(e, D.DBDoesntExist):
        return "DBDoesntExist"
    if isinstance(e, sqlite3.Error):
        return "sqlite3.Error"
    if isinstance(e, TypeError):
        return "TypeError"
    if isinstance(e, OSError):
        return "OSError"
    return type(e).__name__


def dump_lines(D, db):
    orig = db.row_factory
    try:
        db.row_factory = sqlite3.Row
        return list(db.iterdump())
    finally:
        db.row_factory = orig


def run_child(entry, ddir, kill_at, scratch):
    """fork; returns (exit status, points log, result dict or None)"""
    logp = os.path.join(scratch, "log-%d-%d" % (os.getpid(), random.getrandbits(48)))
    resp = logp + ".res"
    logfd = os.open(logp, os.O_WRONLY | os.O_CREAT | os.O_APPEND, 0o600)
    resfd = os.open(resp, os.O_WRONLY | os.O_CREAT, 0o600)
    pid = os.fork()
    if pid == 0:
        try:
            import signal
            signal.signal(signal.SIGALRM, signal.SIG_DFL)
            signal.alarm(120)            # a child that hangs is killed (exit status -14) and reported
            _child_body(entry, ddir, kill_at, logfd, resfd)
        except BaseException:
            try:
                os.write(resfd, json.dumps({"child_error": traceback.format_exc()}).encode())
            finally:
                os._exit(7)
        os._exit(8)
    os.close(logfd)
    os.close(resfd)
    _, status = os.waitpid(pid, 0)
    code = os.WEXITSTATUS(status) if os.WIFEXITED(status) else -os.WTERMSIG(status)
    log = [json.loads(l) for l in open(logp).read().splitlines() if l.strip()]
    raw = open(resp).read()
    res = json.loads(raw) if raw.strip() else None
    os.unlink(logp)
    os.unlink(resp)
    return code, log, res


# ---------------------------------------------------------------- observation
def read_connection(db):
    """abstract content seen through an open connection"""
    orig = db.row_factory
    db.row_factory = None
    try:
        objs = []
        tables = []
        for typ, name, sql in db.execute("SELECT type, name, sql FROM sqlite_master ORDER BY rowid").fetchall():
            if typ == "table":
                tables.append(name)
            if sql is None or name.startswith("sqlite_"):
                continue
            objs.append(["T" if typ == "table" else "I" if typ == "index" else typ, name, norm_ddl(sql)])
        if not objs and not tables:
            return {"kind": "empty"}
        versions = None
        if "version" in tables:
            versions = [r[0] for r in db.execute("SELECT version FROM version ORDER BY rowid").fetchall()]
        h = hashlib.sha256()
        nrows = 0
        rows_by_table = {}
        try:
            for t in sorted(tables):
                if t == "version":
                    continue
                rows = db.execute("SELECT * FROM `%s` ORDER BY rowid" % t).fetchall()
                if rows:
                    nrows += len(rows)
                    rb = repr(rows).encode()
                    h.update(t.encode() + b"\0" + rb)
                    rows_by_table[t] = sha(rb)
            payload = h.hexdigest()[:16] if nrows else "0"
        except sqlite3.DatabaseError as e:
            payload = "unreadable:" + str(e)[:40]
        try:
            fk_bad = bool(db.execute("PRAGMA foreign_key_check").fetchall())
        except sqlite3.DatabaseError:
            fk_bad = True
        return {"kind": "db", "objects": objs, "versions": versions, "payload": payload, "nrows": nrows,
                "tables": rows_by_table, "fk_bad": fk_bad}
    finally:
        db.row_factory = orig


def abstract_file(path, scratch):
    """what SQLite sees in the file (read on a private copy, journal included)"""
    tmpd = tempfile.mkdtemp(prefix="abs-", dir=scratch)
    try:
        cp = os.path.join(tmpd, "f")
        shutil.copyfile(path, cp)
        if os.path.exists(path + "-journal"):
            shutil.copyfile(path + "-journal", cp + "-journal")
        db = sqlite3.connect(cp)
        try:
            return read_connection(db)
        except sqlite3.DatabaseError as e:
            return {"kind": "junk", "why": str(e)[:60]}
        finally:
            db.close()
    finally:
        shutil.rmtree(tmpd, ignore_errors=True)


def observe_dir(ddir, scratch):
    out = {"files": {}, "journals": []}
    for name in sorted(os.listdir(ddir)):
        p = os.path.join(ddir, name)
        if name.endswith("-journal"):
            out["journals"].append(name)
            continue
        b = open(p, "rb").read()
        a = abstract_file(p, scratch)
        a["sha"] = sha(b)
        a["size"] = len(b)
        out["files"][name] = a
    return out


def role(name):
    if name == MAIN:
        return "main"
    m = re.match(re.escape(MAIN) + r"-backup-v(-?\d+)$", name)
    if m:
        return "backup" + m.group(1)
    if name.startswith(MAIN + "."):
        return "tmp"
    return "other:" + name


# ---------------------------------------------------------------- pre-existing contents
def schema_text(name, version):
    return open(os.path.join(REPO_SRC, "wormhole_mailbox_server", "db-schemas",
                             "%s-v%d.sql" % (name, version))).read()


def targets():
    D = _database()
    return {"channel": D.CHANNELDB_TARGET_VERSION, "usage": D.USAGEDB_TARGET_VERSION}


BIG = 2 ** 62


def rnd_int(r):
    return r.choice([None, 0, 1, -1, BIG, BIG + r.randrange(1000), -BIG, r.randrange(10 ** 9), r.randrange(10 ** 12)])


def rnd_str(r):
    return r.choice([None, "", "a", "appé中", "lonely", "happy", "x" * 200, "'; DROP TABLE nameplates; --",
                     "\x00nul", "%d" % r.randrange(10 ** 6)])


def fill_usage(db, r, n, current, with_client_versions=False):
    for _ in range(n):
        db.execute("INSERT INTO nameplates VALUES (?,?,?,?,?)",
                   (rnd_str(r), rnd_int(r), rnd_int(r), rnd_int(r), rnd_str(r)))
    for _ in range(n):
        db.execute("INSERT INTO mailboxes VALUES (?,?,?,?,?,?)",
                   (rnd_str(r), r.choice([None, 0, 1]), rnd_int(r), rnd_int(r), rnd_int(r), rnd_str(r)))
    for _ in range(current):
        db.execute("INSERT INTO current VALUES (?,?,?,?)", (rnd_int(r), rnd_int(r), rnd_int(r), rnd_int(r)))
    if with_client_versions:
        for _ in range(min(n, 20)):
            db.execute("INSERT INTO client_versions VALUES (?,?,?,?,?)",
                       (rnd_str(r), rnd_str(r), rnd_int(r), rnd_str(r), rnd_str(r)))


def fill_channel(db, r, n, fk_bad=False):
    mids = []
    for i in range(n):
        mid = "mb%d-%s" % (i, r.randrange(10 ** 6))
        mids.append(mid)
        db.execute("INSERT INTO mailboxes VALUES (?,?,?,?)", (rnd_str(r), mid, rnd_int(r), r.choice([0, 1, None])))
        db.execute("INSERT INTO mailbox_sides VALUES (?,?,?,?,?)", (mid, r.choice([0, 1]), rnd_str(r), rnd_int(r), rnd_str(r)))
        db.execute("INSERT INTO messages VALUES (?,?,?,?,?,?,?)",
                   (rnd_str(r), mid, rnd_str(r), rnd_str(r), rnd_str(r), rnd_int(r), rnd_str(r)))
    for i in range(n):
        cur = db.execute("INSERT INTO nameplates (app_id, name, mailbox_id, request_id) VALUES (?,?,?,?)",
                         (rnd_str(r), "%d" % r.randrange(1000), r.choice(mids), rnd_str(r)))
        db.execute("INSERT INTO nameplate_sides VALUES (?,?,?,?)", (cur.lastrowid, r.choice([0, 1]), rnd_str(r), rnd_int(r)))
    if fk_bad:
        db.execute("INSERT INTO mailbox_sides VALUES (?,?,?,?,?)", ("no-such-mailbox", 1, "s", 1, None))


def make_db(path, name, version, version_rows, fill=None):
    db = sqlite3.connect(path)
    db.executescript(schema_text(name, version))
    for v in version_rows:
        db.execute("INSERT INTO version (version) VALUES (?)", (v,))
    if fill:
        fill(db)
    db.commit()
    db.close()


def build_initial(spec, ddir, seed):
    """materialise the pre-existing content described by spec['initial'] in ddir"""
    r = random.Random("%s/%s" % (seed, spec.get("gen_name", spec["name"])))
    for f in spec.get("initial", []):
        p = os.path.join(ddir, f.get("file", MAIN))
        k = f["kind"]
        if k == "empty":
            open(p, "wb").close()
        elif k == "bytes":
            open(p, "wb").write(bytes.fromhex(f["hex"]))
        elif k == "random":
            open(p, "wb").write(bytes(r.getrandbits(8) for _ in range(f["size"])))
        elif k == "header_junk":
            open(p, "wb").write(b"SQLite format 3\0" + bytes(r.getrandbits(8) for _ in range(f["size"])))
        elif k in ("db", "truncated"):
            name, ver = f["schema"], f["schema_version"]
            n = f.get("rows", 0)
            if name == "usage":
                fill = (lambda db: fill_usage(db, r, n, f.get("current", 0), with_client_versions=(ver >= 2)))
            else:
                fill = (lambda db: fill_channel(db, r, n, fk_bad=f.get("fk_bad", False)))
            if f.get("explicit_rows") is not None:
                def fill(db, rows=f["explicit_rows"]):
                    for t, vals in rows:
                        db.execute("INSERT INTO `%s` VALUES (%s)" % (t, ",".join("?" * len(vals))), vals)
            make_db(p, name, ver, f.get("versions", [ver]), fill)
            if k == "truncated":
                b = open(p, "rb").read()
                open(p, "wb").write(b[:f["at"]])
        else:
            raise ValueError("unknown initial kind %r" % k)


# ---------------------------------------------------------------- scenarios
def scenarios(pid, tier, seed):
    T = targets()
    r = random.Random("scen/%s/%s" % (seed, pid))
    S = []
    thorough = tier == "thorough"

    def add(name, entry, initial, expect, **kw):
        S.append(dict(name=name, entry=entry, initial=initial, expect=expect, **kw))

    if pid == "C20":
        # corpus first (regression witnesses, e.g. D13)
        for f in sorted(os.listdir(CORPUS)) if os.path.isdir(CORPUS) else []:
            if f.endswith(".json"):
                c = json.load(open(os.path.join(CORPUS, f)))
                ev = c.get("events") if isinstance(c.get("events"), dict) else {}
                sc = c.get("scenario") or ev.get("scenario")
                if c.get("property", "C20") == "C20" and sc:
                    sc = dict(sc)
                    sc["gen_name"] = sc.get("gen_name", sc["name"])      # the generated rows depend on it
                    sc["name"] = "corpus:" + f
                    sc["corpus_seed"] = ev.get("seed", c.get("seed", 0))
                    S.append(sc)
        old = T["usage"] - 1
        if old >= 1:
            sizes = [(0, 0), (3, 1), (r.randrange(20, 60), 1), (200, 0)]
            if thorough:
                sizes += [(1, 0), (r.randrange(61, 199), 1), (200, 1), (r.randrange(2, 20), 0)]
            for n, cur in sizes:
                add("upgrade-v%d-rows%d-cur%d" % (old, n, cur), "get_usage",
                    [dict(kind="db", schema="usage", schema_version=old, rows=n, current=cur)], "upgrade")
            if thorough:
                add("upgrade-v%d-twice-crashed" % old, "get_usage",
                    [dict(kind="db", schema="usage", schema_version=old, rows=9, current=1)], "upgrade", double=True)
            add("upgrade-v%d-extra-version-rows" % old, "get_usage",
                [dict(kind="db", schema="usage", schema_version=old, rows=5, current=1, versions=[old, 7])], "upgrade")
            # something is already at the backup path (what a kill inside an earlier copy left, or a stale
            # backup of another database): it must be overwritten, not kept and not restored from
            bk = MAIN + "-backup-v%d" % old
            add("upgrade-v%d-backup-empty" % old, "get_usage",
                [dict(kind="db", schema="usage", schema_version=old, rows=6, current=1),
                 dict(kind="empty", file=bk)], "upgrade")
            add("upgrade-v%d-backup-truncated" % old, "get_usage",
                [dict(kind="db", schema="usage", schema_version=old, rows=40, current=1),
                 dict(kind="truncated", schema="usage", schema_version=old, rows=40, current=1, at=4096 + 1000, file=bk)],
                "upgrade")
            add("upgrade-v%d-backup-stale" % old, "get_usage",
                [dict(kind="db", schema="usage", schema_version=old, rows=8, current=1),
                 dict(kind="db", schema="usage", schema_version=old, rows=3, current=0, file=bk)], "upgrade")
            add("upgrade-v%d-with-leftovers" % old, "get_usage",
                [dict(kind="db", schema="usage", schema_version=old, rows=7, current=1),
                 dict(kind="random", size=700, file=MAIN + ".left0ver"),
                 dict(kind="random", size=300, file=MAIN + "-backup-v%d" % old)], "upgrade")
        return S

    # ---- C19
    for entry in ("get_channel", "get_usage", "create_channel", "create_usage"):
        add("create:%s" % entry, entry, [], "create")
        if thorough:
            add("create-twice-crashed:%s" % entry, entry, [], "create", double=True)
    add("create:get_channel:leftovers", "get_channel",
        [dict(kind="random", size=900, file=MAIN + ".abc123"), dict(kind="empty", file=MAIN + ".zzz999"),
         dict(kind="db", schema="channel", schema_version=T["channel"], rows=2, file=MAIN + ".old777")], "create")
    add("open-missing", "open_existing", [], "missing")
    for name, entry in (("channel", "get_channel"), ("usage", "get_usage")):
        for n in ([0, 25] if not thorough else [0, 1, 25, 200]):
            cur = dict(kind="db", schema=name, schema_version=T[name], rows=n, current=n % 2)
            add("open-current:%s:rows%d" % (name, n), entry, [cur], "preserve")
            add("open-existing:%s:rows%d" % (name, n), "open_existing", [cur], "open_only")
            add("create-only-refuses:%s:rows%d" % (name, n), "create_" + name, [cur], "refuse")
        for vs in ([], [0], [T[name] + 1], [T[name] + 1, T[name]], [T[name], T[name] + 1], [T[name], 0]) + \
                  (([3], [T[name] + 5]) if thorough else ()):
            add("version-rows:%s:%s" % (name, ",".join(map(str, vs)) or "none"), entry,
                [dict(kind="db", schema=name, schema_version=T[name], rows=4, versions=list(vs))], "versions")
    add("open-current:channel:fk-bad", "get_channel",
        [dict(kind="db", schema="channel", schema_version=T["channel"], rows=3, fk_bad=True)], "reject")
    add("open-existing:channel:fk-bad", "open_existing",
        [dict(kind="db", schema="channel", schema_version=T["channel"], rows=3, fk_bad=True)], "open_only")
    junk = [dict(kind="empty"), dict(kind="random", size=1), dict(kind="random", size=16),
            dict(kind="random", size=100), dict(kind="random", size=4096), dict(kind="random", size=5000),
            dict(kind="header_junk", size=3000)]
    if thorough:
        junk += [dict(kind="random", size=s) for s in (2, 99, 511, 512, 513, 8192, 70000)]
    for j in junk:
        tag = j["kind"] + (str(j.get("size", "")))
        for entry in ("get_channel", "get_usage"):
            add("reject:%s:%s" % (tag, entry), entry, [j], "reject")
        add("open-existing:%s" % tag, "open_existing", [j], "open_only")
        add("create-only-refuses:%s" % tag, r.choice(["create_channel", "create_usage"]), [j], "refuse")
    # truncations of a valid database
    probe = tempfile.mkdtemp(prefix="probe-", dir=SHM)
    try:
        sizes = {}
        for name in ("channel", "usage"):
            sp = dict(name="trunc-probe:" + name, initial=[dict(kind="db", schema=name, schema_version=T[name], rows=25)])
            d = os.path.join(probe, name)
            os.makedirs(d)
            build_initial(sp, d, seed)
            sizes[name] = os.path.getsize(os.path.join(d, MAIN))
    finally:
        shutil.rmtree(probe, ignore_errors=True)
    for name, entry in (("channel", "get_channel"), ("usage", "get_usage")):
        cuts = list(range(512, sizes[name], 512))
        if not thorough:
            cuts = sorted(set(r.sample(cuts, min(5, len(cuts))) + cuts[-2:] + cuts[:1]))
        for at in cuts:
            add("truncated:%s:%d" % (name, at), entry,
                [dict(kind="truncated", schema=name, schema_version=T[name], rows=25, at=at,
                      probe_name="trunc-probe:" + name)], "truncated")
    return S


# ---------------------------------------------------------------- model side
def coq_str(s):
    if any(ord(c) > 126 or ord(c) < 32 for c in s):
        raise ValueError("non-printable character in DDL text")
    return '"' + s.replace('"', '""') + '"'


def coq_file(a, tokens):
    if a["kind"] == "empty":
        return "Empty"
    if a["kind"] == "junk":
        return "Junk %d" % tokens.setdefault("junk:" + a["sha"], len(tokens) + 1)
    objs = "; ".join("(%s, %s, %s)" % ({"T": "KTable", "I": "KIndex"}[k], coq_str(n), coq_str(d))
                     for k, n, d in a["objects"])
    vers = "; ".join("(%d)%%Z" % v for v in (a["versions"] or []))
    return "Db (mkDb [%s] [%s] %d%%nat)" % (objs, vers, payload_token(a))


def payload_token(a):
    """0 = no rows; even = no foreign-key problem; odd = foreign_key_check reports one"""
    if a["payload"] == "0":
        return 0
    return 3 if a.get("fk_bad") else 2


def coq_path(name):
    ro = role(name)
    if ro == "main":
        return "Main"
    if ro.startswith("backup"):
        return "Backup (%s)" % ro[6:]
    return None


def model_supported(obs):
    """can this initial directory be handed to the model?"""
    for name, a in obs["files"].items():
        ro = role(name)
        if ro.startswith("other"):
            return "file %s has no model path" % name
        if a["kind"] == "db":
            if any(k not in ("T", "I") for k, _, _ in a["objects"]):
                return "object kind not modelled"
            if a["versions"] is not None and any(not isinstance(v, int) for v in a["versions"]):
                return "non-integer version row"
            if a["payload"].startswith("unreadable"):
                return "unreadable rows"
    return None


def coq_fs(obs):
    tokens = {}
    items = []
    ntmp = 0
    for name, a in sorted(obs["files"].items()):
        cp = coq_path(name)
        if cp is None:
            ntmp += 1
            cp = "Tmp %d" % (100 + ntmp)
        items.append("(%s, %s)" % (cp, coq_file(a, tokens)))
    return "[" + "; ".join(items) + "]", tokens


def eval_model(cases, scratch):
    """cases: list of (entry, coq fs text).  One coqc run; returns (list of parsed cases | None, error)"""
    vo = os.path.join(COQ, "theories", "DbFilesRun.vo")
    src = os.path.join(COQ, "theories", "DbFilesRun.v")
    if not os.path.exists(vo) or os.path.getmtime(vo) < os.path.getmtime(src):
        return None, "coq/theories/DbFilesRun.vo is not built from the current sources"
    lines = ["From Coq Require Import ZArith String List.", "From MW Require Import Sql DbFiles DbFilesRun.",
             "Import ListNotations.", "Open Scope string_scope.", "Open Scope Z_scope.",
             'Eval vm_compute in ("DDLTABLE" :: ddl_table ++ ["END"]).']
    for entry, fs in cases:
        lines.append("Eval vm_compute in (render_case %s %s)." % (ENTRY_COQ[entry], fs))
    d = tempfile.mkdtemp(prefix="cases-", dir=scratch)
    open(os.path.join(d, "cases.v"), "w").write("\n".join(lines) + "\n")
    p = subprocess.run("timeout 600 coqc -Q %s MW -Q %s MWGen cases.v" % (os.path.join(COQ, "theories"), os.path.join(COQ, "gen")),
                       shell=True, cwd=d, stdout=subprocess.PIPE, stderr=subprocess.STDOUT)
    out = p.stdout.decode("utf-8", "replace")
    if p.returncode != 0:
        return None, "coqc cases.v failed: " + out[-600:]
    strs = [m.group(1).replace('""', '"') for m in re.finditer(r'"((?:[^"]|"")*)"', out, re.S)]
    groups, cur = [], None
    for s in strs:
        if s == "DDLTABLE" or s.startswith("LABELS"):
            cur = [s]
        elif s == "END":
            groups.append(cur)
            cur = None
        elif cur is not None:
            cur.append(s)
    if len(groups) != len(cases) + 1:
        return None, "cases.v printed %d groups for %d cases" % (len(groups), len(cases))
    ddl = groups[0][1:]
    return [parse_case(g, ddl) for g in groups[1:]], None


def parse_file(txt, ddl):
    if txt == "empty":
        return {"kind": "empty"}
    if txt.startswith("junk"):
        return {"kind": "junk", "token": int(txt[4:])}
    m = re.match(r"^db\{(.*)\|([^|]*)\|(\d+)\}$", txt, re.S)
    objs = []
    for o in (m.group(1).split(";") if m.group(1) else []):
        k, n, d = o.split(":", 2)
        if d.startswith("#"):
            d = ddl[int(d[1:])]
        objs.append([k, n, d])
    vers = [int(v) for v in m.group(2).split(",")] if m.group(2) else []
    return {"kind": "db", "objects": objs, "versions": vers, "token": int(m.group(3))}


def parse_case(g, ddl):
    labels = g[0].split()[1:]
    files, states, retries, result = {}, [], [], None

    def fs_of(txt):
        out = {}
        for item in (txt.split(" && ") if txt else []):
            p, ref = item.split("=", 1)
            out[p] = files[int(ref[1:])]
        return out

    def run_of(txt):
        o, f = txt.split(" || ", 1) if " || " in txt else (txt.rstrip(" |"), "")
        o = o.strip()
        if o.startswith("ok "):
            return {"outcome": "ok", "view": files[int(o[4:])], "fs": fs_of(f.strip())}
        return {"outcome": "err", "exc": o[4:].strip(), "fs": fs_of(f.strip())}

    prev_s, prev_r = "", None
    for line in g[1:]:
        tag, _, rest = line.partition(" ")
        if tag == "FILE":
            i, _, txt = rest.partition(" ")
            files[int(i)] = parse_file(txt, ddl)
        elif tag == "STATE":
            _, _, txt = rest.partition(" ")
            if txt != "=":
                prev_s = txt
            states.append(fs_of(prev_s))
        elif tag == "RESULT":
            result = run_of(rest)
        elif tag == "RETRY":
            _, _, txt = rest.partition(" ")
            if txt != "=":
                prev_r = txt
            retries.append(run_of(prev_r))
    return {"labels": labels, "states": states, "result": result, "retries": retries}


def same_content(model_file, real, tokens, init_payloads):
    """model file vs observed abstract file"""
    if model_file["kind"] != real["kind"]:
        return False
    if real["kind"] == "empty":
        return True
    if real["kind"] == "junk":
        if model_file["token"] == 0:      # the model's partial_copy: the truncated copy of the initial main file
            return ("partial:" + real["sha"]) in tokens
        return tokens.get("junk:" + real["sha"]) == model_file["token"]
    if model_file["objects"] != real["objects"]:
        return False
    if model_file["versions"] != (real["versions"] or []):
        return False
    if real["versions"] is None and any(n == "version" for _, n, _ in model_file["objects"]):
        return False
    tok = model_file["token"]
    if tok == 0:
        return real["payload"] == "0"
    return real["payload"] in init_payloads and payload_token(real) == tok


def compare_dir(model_fs, obs, tokens, init_payloads):
    """None if the observed directory is the model's file system, else a description"""
    real_named, real_tmp = {}, []
    for name, a in obs["files"].items():
        ro = role(name)
        if ro == "tmp":
            real_tmp.append(a)
        else:
            real_named[ro] = a
    mod_named = {p: f for p, f in model_fs.items() if not p.startswith("tmp")}
    mod_tmp = [f for p, f in model_fs.items() if p.startswith("tmp")]
    if sorted(mod_named) != sorted(real_named):
        return "paths differ: model %s, real %s" % (sorted(model_fs), sorted(role(n) for n in obs["files"]))
    for p in mod_named:
        if not same_content(mod_named[p], real_named[p], tokens, init_payloads):
            return "content of %s differs: model %s, real %s" % (p, brief(mod_named[p]), brief(real_named[p]))
    if len(mod_tmp) != len(real_tmp):
        return "temp files differ: model %d, real %d" % (len(mod_tmp), len(real_tmp))
    rest = list(real_tmp)
    for f in mod_tmp:
        hit = [a for a in rest if same_content(f, a, tokens, init_payloads)]
        if not hit:
            return "no real temp file with content %s" % brief(f)
        rest.remove(hit[0])
    return None


def brief(a):
    if a["kind"] != "db":
        return {k: v for k, v in a.items() if k in ("kind", "token", "sha", "size", "why")}
    return {"kind": "db", "objects": [n for _, n, _ in a["objects"]], "versions": a["versions"],
            "payload": a.get("payload", a.get("token")), "nrows": a.get("nrows")}


def listing(obs):
    return {n: brief(a) | {"sha": a["sha"], "size": a["size"]} for n, a in obs["files"].items()} | \
        ({"journals": obs["journals"]} if obs["journals"] else {})


# ---------------------------------------------------------------- one scenario on the real code
def fresh_reference(name, scratch):
    """a database made directly with sqlite3 from the repo's schema script"""
    T = targets()
    d = tempfile.mkdtemp(prefix="ref-", dir=scratch)
    p = os.path.join(d, "ref.sqlite")
    make_db(p, name, T[name], [T[name]])
    a = abstract_file(p, scratch)
    D = _database()
    db = sqlite3.connect(p)
    dump = [l for l in dump_lines(D, db) if not l.startswith("INSERT INTO")]
    db.close()
    shutil.rmtree(d, ignore_errors=True)
    return a, dump


def is_complete(a, ref):
    return a["kind"] == "db" and a["objects"] == ref["objects"] and a["versions"] == ref["versions"] \
        and a["payload"] == "0"


def run_scenario(args):
    spec, seed = args
    try:
        return _run_scenario(spec, seed)
    except Exception:
        return {"profile": "dbfiles:" + spec["name"], "harness_error": traceback.format_exc()}


def _run_scenario(spec, seed):
    scratch = tempfile.mkdtemp(prefix="dbfiles-", dir=SHM)
    try:
        entry = spec["entry"]
        sseed = spec.get("corpus_seed", seed)
        template = os.path.join(scratch, "template")
        os.makedirs(template)
        bspec = dict(spec)
        if spec["initial"] and spec["initial"][0].get("probe_name"):
            bspec["gen_name"] = spec["initial"][0]["probe_name"]      # same rows as the size probe
        build_initial(bspec, template, sseed)
        init = observe_dir(template, scratch)
        init_bytes = {n: open(os.path.join(template, n), "rb").read() for n in os.listdir(template)}

        def fresh_dir(tag):
            d = os.path.join(scratch, "run-" + tag)
            shutil.copytree(template, d)
            return d

        # uninterrupted, traced
        d0 = fresh_dir("full")
        code, log, res = run_child(entry, d0, -1, scratch)
        if code != 0 or res is None or "child_error" in (res or {}):
            raise RuntimeError("uninterrupted child failed: code %s %s" % (code, res))
        full = {"log": log, "res": res, "obs": observe_dir(d0, scratch)}
        shutil.rmtree(d0)
        npoints = len(log)
        points = []
        only = spec.get("only_points")
        for k in range(1, npoints + 1):
            if only and k not in only:
                continue
            dk = fresh_dir("k%d" % k)
            code, klog, kres = run_child(entry, dk, k, scratch)
            pt = {"k": k, "at": log[k - 1][1:], "exit": code, "log_prefix_ok": klog == log[:k]}
            pt["obs"] = observe_dir(dk, scratch)
            pt["bytes_same"] = {n: (os.path.exists(os.path.join(dk, n)) and
                                    open(os.path.join(dk, n), "rb").read() == b) for n, b in init_bytes.items()}
            snap = None
            if spec.get("double"):
                snap = os.path.join(scratch, "snap-k%d" % k)
                shutil.copytree(dk, snap)
            rcode, rlog, rres = run_child(entry, dk, -1, scratch)
            pt["retry"] = {"exit": rcode, "res": rres, "obs": observe_dir(dk, scratch),
                           "backup_bytes": {n: sha(open(os.path.join(dk, n), "rb").read())
                                            for n in os.listdir(dk) if "-backup-v" in n and not n.endswith("-journal")}}
            shutil.rmtree(dk)
            if snap:
                # second crash: the restart itself is killed at each of its points, then started again
                pt["double"] = []
                for j in range(1, len(rlog) + 1):
                    dj = os.path.join(scratch, "run-k%d-j%d" % (k, j))
                    shutil.copytree(snap, dj)
                    run_child(entry, dj, j, scratch)
                    mid = observe_dir(dj, scratch)
                    c3, l3, r3 = run_child(entry, dj, -1, scratch)
                    pt["double"].append({"j": j, "at": rlog[j - 1][1:], "mid": mid, "res": r3,
                                         "obs": observe_dir(dj, scratch)})
                    shutil.rmtree(dj)
                shutil.rmtree(snap)
            points.append(pt)
        return {"spec": spec, "seed": sseed, "init": init, "init_sha": {n: sha(b) for n, b in init_bytes.items()},
                "partial_sha": {n: sha(b[:partial_len(len(b))]) for n, b in init_bytes.items()},
                "full": full, "points": points}
    finally:
        shutil.rmtree(scratch, ignore_errors=True)


# ---------------------------------------------------------------- judging
def model_prefix(at):
    """model step count reached at an interception point (op index, phase)"""
    op, phase, _ = at
    return op if phase in ("before", "end") else op + 1


def ops_of(log):
    ops = []
    for n, op, phase, label in log:
        if phase == "before":
            ops.append(label)
    return ops


def judge_property(run, refs):
    """the property text on the real observations.  Returns (pid -> detail) for concrete violations."""
    spec, full, points = run["spec"], run["full"], run["points"]
    exp = spec["expect"]
    entry = spec["entry"]
    mon = {}
    T = targets()

    def viol(pid, what, pt=None, **kw):
        if pid in mon:
            return
        d = {"scenario": spec["name"], "entry": entry, "what": what}
        if pt is not None:
            d.update({"crash_point_k": pt["k"], "crash_at": {"op_index": pt["at"][0], "phase": pt["at"][1], "op": pt["at"][2]},
                      "directory_after_crash": listing(pt["obs"]),
                      "next_start": {"exit": pt["retry"]["exit"],
                                     "outcome": (pt["retry"]["res"] or {}).get("outcome"),
                                     "exception": (pt["retry"]["res"] or {}).get("exc_type"),
                                     "message": (pt["retry"]["res"] or {}).get("msg")},
                      "directory_after_next_start": listing(pt["retry"]["obs"])})
        d.update(kw)
        mon[pid] = d

    def unchanged(pt):
        return all(pt["bytes_same"].values()) and sorted(pt["obs"]["files"]) == sorted(run["init"]["files"])

    fres = full["res"]
    if exp == "create":
        ref, _ = refs[ENTRY_SCHEMA[entry]]
        fm = full["obs"]["files"].get(MAIN)
        if fres["outcome"] != "ok" or fm is None or not is_complete(fm, ref):
            viol("C19", "first-time creation did not produce the complete, correctly versioned database",
                 result=fres, directory=listing(full["obs"]))
        for pt in points:
            m = pt["obs"]["files"].get(MAIN)
            if m is not None and not is_complete(m, ref):
                viol("C19", "a crash during first-time creation left an incomplete file at the database path", pt)
            rr = pt["retry"]["res"] or {}
            rm = pt["retry"]["obs"]["files"].get(MAIN)
            if entry.startswith("create_") and m is not None:
                if rr.get("exc") != "DBAlreadyExists":
                    viol("C19", "create-only entry point did not refuse the existing file", pt)
            elif rr.get("outcome") != "ok" or rm is None or not is_complete(rm, ref):
                viol("C19", "the start after a crash during first-time creation did not succeed", pt)
            for dbl in pt.get("double", []):
                mm = dbl["mid"]["files"].get(MAIN)
                fm3 = dbl["obs"]["files"].get(MAIN)
                r3 = dbl["res"] or {}
                if mm is not None and not is_complete(mm, ref):
                    viol("C19", "a second crash (during the restart) left an incomplete file at the database path", pt,
                         second_crash={"j": dbl["j"], "at": dbl["at"], "directory": listing(dbl["mid"])})
                elif entry.startswith("create_") and mm is not None:
                    if r3.get("exc") != "DBAlreadyExists":
                        viol("C19", "create-only entry point did not refuse the existing file", pt)
                elif r3.get("outcome") != "ok" or fm3 is None or not is_complete(fm3, ref):
                    viol("C19", "the start after two crashes during first-time creation did not succeed", pt,
                         second_crash={"j": dbl["j"], "at": dbl["at"], "directory": listing(dbl["mid"]),
                                       "third_start": {k2: v for k2, v in r3.items() if k2 in ("outcome", "exc_type", "msg")}})
    elif exp == "preserve":
        if fres["outcome"] != "ok" or full["obs"]["files"][MAIN]["payload"] != run["init"]["files"][MAIN]["payload"] \
                or fres.get("view", {}).get("payload") != run["init"]["files"][MAIN]["payload"]:
            viol("C19", "opening an existing current-version database did not keep its contents", result=fres)
        for pt in points:
            m = pt["obs"]["files"].get(MAIN)
            if m is None or m.get("payload") != run["init"]["files"][MAIN]["payload"] or m.get("versions") != run["init"]["files"][MAIN]["versions"]:
                viol("C19", "a crash while opening an existing current-version database changed its contents", pt)
            if (pt["retry"]["res"] or {}).get("outcome") != "ok":
                viol("C19", "the start after a crash while opening an existing database failed", pt)
    elif exp in ("reject", "truncated"):
        a = run["init"]["files"][MAIN]
        must_reject = exp == "reject" or a["kind"] == "junk"
        if must_reject and fres["outcome"] == "ok":
            viol("C19", "a file that is not an acceptable database was opened without error", result=fres,
                 initial=listing(run["init"]))
        if fres["outcome"] != "ok" or exp == "reject":
            if full["obs"]["files"].get(MAIN, {}).get("sha") != run["init_sha"][MAIN]:
                viol("C19", "a rejected file was not left byte-for-byte unchanged", result=fres,
                     directory=listing(full["obs"]))
            for pt in points:
                if not pt["bytes_same"].get(MAIN):
                    viol("C19", "a rejected file was modified (crash point inside the rejected open)", pt)
    elif exp == "refuse":
        if fres.get("exc") != "DBAlreadyExists":
            viol("C19", "create-only entry point did not raise DBAlreadyExists on an existing file", result=fres)
        if sorted(full["obs"]["files"]) != sorted(run["init"]["files"]) or \
                any(full["obs"]["files"][n]["sha"] != s for n, s in run["init_sha"].items()):
            viol("C19", "create-only entry point touched an existing file", result=fres, directory=listing(full["obs"]))
        for pt in points:
            if not unchanged(pt):
                viol("C19", "create-only entry point touched an existing file", pt)
    elif exp in ("missing", "open_only"):
        if exp == "missing" and fres.get("exc") != "DBDoesntExist":
            viol("C19", "open-only entry point did not raise DBDoesntExist on a missing file", result=fres)
        if sorted(full["obs"]["files"]) != sorted(run["init"]["files"]):
            viol("C19", "open-only entry point created a file", result=fres, directory=listing(full["obs"]))
        for pt in points:
            if sorted(pt["obs"]["files"]) != sorted(run["init"]["files"]) or not all(pt["bytes_same"].values()):
                viol("C19", "open-only entry point created or modified a file", pt)
    elif exp == "versions":
        a = run["init"]["files"][MAIN]
        vs = a["versions"] or []
        name = ENTRY_SCHEMA[entry]
        if vs and vs[0] > T[name]:
            if fres["outcome"] == "ok":
                viol("C19", "a database whose version is newer than the server knows was opened without error", result=fres)
            if full["obs"]["files"][MAIN]["sha"] != run["init_sha"][MAIN] or any(not pt["bytes_same"][MAIN] for pt in points):
                viol("C19", "a too-new database was not left byte-for-byte unchanged", result=fres)
        if vs and vs[0] == T[name]:
            if fres["outcome"] != "ok" or full["obs"]["files"][MAIN]["payload"] != a["payload"]:
                viol("C19", "opening an existing current-version database did not keep its contents", result=fres)
    elif exp == "upgrade":
        ref, refdump = refs["usage"]
        a = run["init"]["files"][MAIN]
        old_tables = a["tables"]
        backup = "%s-backup-v%d" % (MAIN, (a["versions"] or [0])[0])

        def rows_intact(x):
            return x is not None and x["kind"] == "db" and all(x["tables"].get(t) == h for t, h in old_tables.items()) \
                and x["nrows"] >= a["nrows"]

        def upgraded_ok(x, view, dump):
            probs = []
            if x is None or x["kind"] != "db":
                return ["no database at the path"]
            if x["versions"] != [T["usage"]]:
                probs.append("version rows %s" % (x["versions"],))
            if sorted(map(tuple, x["objects"])) != sorted(map(tuple, ref["objects"])):
                probs.append("schema objects differ from a freshly created database")
            if dump is not None and sorted(dump) != sorted(refdump):
                probs.append("database.dump_db schema differs from a freshly created database")
            if not rows_intact(x) or x["nrows"] != a["nrows"]:
                probs.append("pre-existing rows not intact")
            return probs

        fm = full["obs"]["files"].get(MAIN)
        probs = upgraded_ok(fm, fres.get("view"), fres.get("dump_schema")) if fres["outcome"] == "ok" else ["start failed"]
        fb = full["obs"]["files"].get(backup)
        if fb is None or fb["sha"] != run["init_sha"][MAIN]:
            probs.append("no byte-identical backup of the old file at %s" % backup)
        if probs:
            viol("C20", "uninterrupted upgrade: " + "; ".join(probs), result={k: v for k, v in fres.items() if k != "dump_schema"},
                 directory=listing(full["obs"]))
        for pt in points:
            m = pt["obs"]["files"].get(MAIN)
            if not rows_intact(m):
                viol("C20", "a record was lost: after the crash the database no longer holds every pre-existing row", pt)
                continue
            if not pt["bytes_same"].get(MAIN):
                # "after first saving a byte-identical copy": the file is not touched before the backup is complete
                cb = pt["obs"]["files"].get(backup)
                if cb is None or cb["sha"] != run["init_sha"][MAIN]:
                    viol("C20", "the database file was changed before a byte-identical backup of the old file was in place", pt)
                    continue
            rr = pt["retry"]["res"] or {}
            rm = pt["retry"]["obs"]["files"].get(MAIN)
            if rr.get("outcome") != "ok":
                viol("C20", "after an interrupted upgrade, starting again does not complete the upgrade: it fails", pt)
                continue
            probs = upgraded_ok(rm, rr.get("view"), rr.get("dump_schema"))
            rb = pt["retry"]["obs"]["files"].get(backup)
            if rb is None or rb["sha"] != run["init_sha"][MAIN]:
                probs.append("backup %s is not a byte-identical copy of the old file" % backup)
            if probs:
                viol("C20", "after an interrupted upgrade, starting again: " + "; ".join(probs), pt)
            for dbl in pt.get("double", []):
                r3 = dbl["res"] or {}
                if not rows_intact(dbl["mid"]["files"].get(MAIN)):
                    viol("C20", "a record was lost after a second crash (during the restart)", pt,
                         second_crash={"j": dbl["j"], "at": dbl["at"], "directory": listing(dbl["mid"])})
                    continue
                probs = ["third start failed"] if r3.get("outcome") != "ok" else \
                    upgraded_ok(dbl["obs"]["files"].get(MAIN), r3.get("view"), r3.get("dump_schema"))
                b3 = dbl["obs"]["files"].get(backup)
                if b3 is None or b3["sha"] != run["init_sha"][MAIN]:
                    probs.append("backup is not a byte-identical copy of the old file")
                if probs:
                    viol("C20", "after two interruptions, starting again: " + "; ".join(probs), pt,
                         second_crash={"j": dbl["j"], "at": dbl["at"], "directory": listing(dbl["mid"]),
                                       "third_start": {k2: v for k2, v in r3.items() if k2 in ("outcome", "exc_type", "msg")}})
    return mon


def judge_model(run, case, tokens):
    """model prediction vs real observations; returns (None | detail, step-mapping info)"""
    spec, full, points = run["spec"], run["full"], run["points"]
    init_payloads = {a["payload"] for a in run["init"]["files"].values() if a["kind"] == "db"}
    ops = ops_of(full["log"])
    labels = case["labels"]
    fres = full["res"]
    ok_steps = ops == labels or (fres["outcome"] == "err" and ops == labels[:-1] and
                                 (labels[-1].startswith("sql:") or labels[-1] in ("fk_check", "select_version")))
    if not ok_steps:
        return {"what": "step sequence differs", "model_steps": labels, "real_ops": ops}
    n = len(labels)
    if len(case["states"]) != n + 1:
        return {"what": "model printed %d states for %d steps" % (len(case["states"]), n)}

    def cmp_run(mrun, res, obs, where):
        if mrun["outcome"] != res.get("outcome"):
            return {"what": "%s: outcome differs" % where, "model": mrun["outcome"] + ":" + mrun.get("exc", ""),
                    "real": {k: v for k, v in res.items() if k in ("outcome", "exc", "exc_type", "msg")}}
        if mrun["outcome"] == "err" and mrun["exc"] != res.get("exc"):
            return {"what": "%s: exception differs" % where, "model": mrun["exc"],
                    "real": {k: v for k, v in res.items() if k in ("exc", "exc_type", "msg")}}
        if mrun["outcome"] == "ok":
            v = res.get("view")
            mv = mrun["view"]
            # a connection on a file with no objects: the model's empty_db
            empty_view = (v is not None and v["kind"] == "empty" and mv["kind"] == "db" and not mv["objects"]
                          and not mv["versions"] and mv["token"] == 0)
            if v is None or not (empty_view or same_content(mv, v | {"sha": "", "size": 0}, tokens, init_payloads)):
                return {"what": "%s: content behind the returned connection differs" % where,
                        "model": brief(mrun["view"]), "real": brief(v) if v else res.get("view_error")}
        d = compare_dir(mrun["fs"], obs, tokens, init_payloads)
        if d:
            return {"what": "%s: final directory differs: %s" % (where, d)}
        return None

    d = cmp_run(case["result"], fres, full["obs"], "uninterrupted run")
    if d:
        return d
    for pt in points:
        if not pt["log_prefix_ok"]:
            return {"what": "the killed run is not a prefix of the uninterrupted run (non-determinism)", "k": pt["k"]}
        if pt["exit"] != 9:
            return {"what": "child killed at point %d exited with %s" % (pt["k"], pt["exit"])}
        kk = min(model_prefix(pt["at"]), n)
        dd = compare_dir(case["states"][kk], pt["obs"], tokens, init_payloads)
        if dd:
            return {"what": "state after crash differs from the model's state after %d steps: %s" % (kk, dd),
                    "k": pt["k"], "at": pt["at"], "directory": listing(pt["obs"])}
        dd = cmp_run(case["retries"][kk], pt["retry"]["res"] or {}, pt["retry"]["obs"],
                     "restart after crash at point %d (model step %d)" % (pt["k"], kk))
        if dd:
            dd["k"] = pt["k"]
            dd["at"] = pt["at"]
            return dd
    return None


# ---------------------------------------------------------------- entry point
def run(pid, tier, seed, only=None, procs=None):
    t0 = time.time()
    specs = scenarios(pid, tier, seed)
    if only:
        specs = [s for s in specs if only in s["name"]]
    procs = procs or min(16, os.cpu_count() or 4, max(1, len(specs)))
    _database()
    ctx = multiprocessing.get_context("fork")
    with ctx.Pool(procs) as pool:
        runs = pool.map(run_scenario, [(s, seed) for s in specs], chunksize=1)
    scratch = tempfile.mkdtemp(prefix="dbfiles-main-", dir=SHM)
    try:
        refs = {name: fresh_reference(name, scratch) for name in ("channel", "usage")}
        # model predictions, one coqc run for all distinct cases
        cases, keys, unsupported = [], {}, {}
        for i, rn in enumerate(runs):
            if "harness_error" in rn:
                continue
            why = model_supported(rn["init"])
            if why:
                unsupported[i] = why
                continue
            fs, tokens = coq_fs(rn["init"])
            if MAIN in rn.get("partial_sha", {}):
                tokens["partial:" + rn["partial_sha"][MAIN]] = 0      # "junk0" of the model (DbFiles.partial_copy)
            rn["tokens"] = tokens
            key = (rn["spec"]["entry"], fs)
            if key not in keys:
                keys[key] = len(cases)
                cases.append(key)
            rn["case"] = keys[key]
        parsed, merr = eval_model(cases, scratch) if cases else ([], None)
    finally:
        shutil.rmtree(scratch, ignore_errors=True)
    results = []
    for i, rn in enumerate(runs):
        if "harness_error" in rn:
            results.append(rn)
            continue
        spec = rn["spec"]
        mon = judge_property(rn, refs)
        div = None
        if i in unsupported:
            kinds_extra = {"model:not-applicable": 1}
        elif parsed is None:
            div = {"tags": ["dbfiles"], "detail": {"what": "model unavailable", "error": merr}}
            kinds_extra = {"model:unavailable": 1}
        else:
            d = judge_model(rn, parsed[rn["case"]], rn["tokens"])
            if d:
                div = {"tags": ["dbfiles"], "detail": dict(d, scenario=spec["name"], entry=spec["entry"])}
            kinds_extra = {"model:compared": 1}
        kinds = Counter(kinds_extra)
        kinds["scenario:" + spec["expect"]] += 1
        kinds["entry:" + spec["entry"]] += 1
        nontriv = 0
        ndouble = sum(len(pt.get("double", [])) for pt in rn["points"])
        if ndouble:
            kinds["second-level crash points"] += ndouble
        for pt in rn["points"]:
            kinds["point:%s:%s" % (pt["at"][1], pt["at"][2].split(":")[0] if pt["at"][1] != "before" or not pt["at"][2].startswith("sql") else "sql")] += 1
            changed = sorted(pt["obs"]["files"]) != sorted(rn["init"]["files"]) or not all(pt["bytes_same"].values())
            if changed:
                kinds["crash-state:differs-from-initial"] += 1
            if pt["obs"]["journals"]:
                kinds["crash-state:journal-left"] += 1
            for n2, a2 in pt["obs"]["files"].items():
                if role(n2).startswith("backup") and a2["sha"] != rn["init_sha"].get(n2):
                    if a2["size"] == 0:
                        kinds["crash-state:backup-empty (killed inside the copy)"] += 1
                    elif a2["sha"] == rn.get("partial_sha", {}).get(MAIN) and a2["sha"] != rn["init_sha"].get(MAIN):
                        kinds["crash-state:backup-truncated (killed inside the copy)"] += 1
            if any(role(n) == "tmp" and n not in rn["init"]["files"] for n in pt["obs"]["files"]):
                kinds["crash-state:temp-file-left"] += 1
            # no-write scenarios: a point counts once the file has been opened (or the call has ended)
            opened = any(e[2] == "after" and e[3] == "connect" for e in rn["full"]["log"][:pt["k"]])
            if changed or (spec["expect"] not in ("create", "upgrade") and (opened or pt["at"][1] == "end")):
                nontriv += 1
        sample = {"scenario": spec["name"], "entry": spec["entry"], "initial": listing(rn["init"]),
                  "real_ops": ops_of(rn["full"]["log"]),
                  "uninterrupted": {k: v for k, v in rn["full"]["res"].items() if k in ("outcome", "exc", "exc_type", "msg")},
                  "crash_points": len(rn["points"])}
        if rn["points"]:
            pt = rn["points"][len(rn["points"]) // 2]
            sample["one_crash_point"] = {"k": pt["k"], "at": pt["at"], "directory": listing(pt["obs"]),
                                         "next_start": {k: v for k, v in (pt["retry"]["res"] or {}).items()
                                                        if k in ("outcome", "exc", "exc_type", "msg")},
                                         "directory_after_next_start": listing(pt["retry"]["obs"])}
        results.append({"profile": "dbfiles:" + spec["name"], "cfg": None, "seed": rn["seed"],
                        "n_events": max(1, len(rn["points"]) + ndouble), "nontrivial": {pid: nontriv + ndouble},
                        "kinds": dict(kinds), "mon": mon if pid in mon else {}, "div": div, "stale": [],
                        "events": {"engine": "dbfiles", "property": pid, "scenario": spec, "seed": rn["seed"],
                                   "tier": tier,
                                   "crash_point": (mon.get(pid) or {}).get("crash_point_k")},
                        "sample": sample})
    return {"name": "dbfiles", "results": results, "seconds": time.time() - t0}


def replay(payload):
    """./check replay <file> for a dbfiles replay: re-run the scenario, print what happens"""
    ev = payload.get("events") or {}
    spec = ev.get("scenario") or payload.get("scenario")
    if not spec:
        print(json.dumps(payload, indent=1)[:4000])
        return 0
    pid = ev.get("property") or payload.get("property")
    seed = ev.get("seed", payload.get("seed", 0))
    spec = dict(spec)
    spec["corpus_seed"] = seed
    _database()
    rn = run_scenario((spec, seed))
    if "harness_error" in rn:
        print(rn["harness_error"])
        return 2
    scratch = tempfile.mkdtemp(prefix="dbfiles-replay-", dir=SHM)
    try:
        refs = {name: fresh_reference(name, scratch) for name in ("channel", "usage")}
    finally:
        shutil.rmtree(scratch, ignore_errors=True)
    mon = judge_property(rn, refs)
    print("scenario:", spec["name"], "entry:", spec["entry"])
    print("initial:", json.dumps(listing(rn["init"])))
    print("operations of the uninterrupted run:", " ".join(ops_of(rn["full"]["log"])))
    print("uninterrupted outcome:", {k: v for k, v in rn["full"]["res"].items() if k in ("outcome", "exc_type", "msg")})
    for pt in rn["points"]:
        rr = pt["retry"]["res"] or {}
        print("k=%-3d crash %-6s op %-2d %-40s main=%-38s next start: %s %s" % (
            pt["k"], pt["at"][1], pt["at"][0], pt["at"][2],
            json.dumps(brief(pt["obs"]["files"][MAIN])) if MAIN in pt["obs"]["files"] else "absent",
            rr.get("outcome"), (rr.get("exc_type") or "") + " " + (rr.get("msg") or "")[:70]))
    print("monitors:", json.dumps(mon, indent=1)[:3000])
    return 1 if mon else 0


if __name__ == "__main__":
    pid = sys.argv[1] if len(sys.argv) > 1 else "C19"
    tier = sys.argv[2] if len(sys.argv) > 2 else "quick"
    only = sys.argv[3] if len(sys.argv) > 3 else None
    out = run(pid, tier, int(os.environ.get("VERIF_SEED", "1")), only=only)
    nm = nd = 0
    for r in out["results"]:
        if "harness_error" in r:
            print("HARNESS ERROR", r["profile"], r["harness_error"])
            continue
        flag = ("MON " if r["mon"] else "") + ("DIV " if r["div"] else "")
        print("%-55s points=%-3d %s" % (r["profile"], r["n_events"], flag))
        if r["mon"]:
            nm += 1
            print("   mon:", json.dumps(r["mon"])[:1500])
        if r["div"]:
            nd += 1
            print("   div:", json.dumps(r["div"])[:1500])
    print("%d scenarios, %d mon, %d div, %.1fs" % (len(out["results"]), nm, nd, out["seconds"]))
