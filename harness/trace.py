"""trace.py -- encode histories for the model runner, run the extracted model,
canonicalise and compare implementation and model observations."""
import os, json, subprocess, binascii

HERE = os.path.dirname(os.path.abspath(__file__))
VERIF = os.path.dirname(HERE)
MODELRUN = os.path.join(VERIF, "ocaml", "modelrun")

KNOWN_TYPES = ("ping", "bind", "list", "allocate", "claim", "release", "open", "add", "close")


def shex(s):
    if s is None:
        return "_"
    return "s" + binascii.hexlify(s.encode("utf-8")).decode("ascii")


def bhex(b):
    return "s" + binascii.hexlify(b).decode("ascii")


class OutOfDomain(Exception):
    pass


def _ostr(msg, key, allow_null=False):
    if key not in msg:
        return None
    v = msg[key]
    if v is None and allow_null:
        return None
    if not isinstance(v, str):
        raise OutOfDomain("%s=%r" % (key, v))
    return v


def encode_cfg(cfg, exp, period, t0):
    blur = "_" if cfg.get("blur") is None else str(cfg["blur"] * 8)
    return "CFG %d %d %s %d %d %d %s %s %s" % (1 if cfg.get("allow_list", True) else 0,
                                               1 if cfg.get("usage") else 0, blur, exp, period, t0,
                                               shex(cfg.get("motd")), shex(cfg.get("advertise")), shex(cfg.get("signal_error")))


def encode_base(ev, oracle):
    k = ev["k"]
    if k == "connect":
        return "CONNECT %d" % ev["c"]
    if k == "disconnect":
        return "DISCONNECT %d" % ev["c"]
    if k == "sweep":
        return "SWEEP %d" % (1 if ev.get("fault") else 0)
    if k == "advance":
        return "ADVANCE %d %d" % (ev["dt"], 1 if ev.get("fault") else 0)
    if k == "cmd":
        msg = ev["msg"]
        if "type" not in msg:
            ty = "_"
        elif msg["type"] in KNOWN_TYPES:
            ty = msg["type"]
        else:
            ty = "unknown"
        ping = "_"
        if "ping" in msg:
            if not isinstance(msg["ping"], int) or isinstance(msg["ping"], bool):
                raise OutOfDomain("ping=%r" % (msg["ping"],))
            ping = str(msg["ping"])
        cvf, cv0, cv1 = 0, None, None
        if "client_version" in msg:
            cv = msg["client_version"]
            if not (isinstance(cv, (list, tuple)) and len(cv) >= 2
                    and all(x is None or isinstance(x, str) for x in cv[:2])):
                raise OutOfDomain("client_version=%r" % (cv,))
            cvf, cv0, cv1 = 1, cv[0], cv[1]
        draw = "_"
        choice = "_"
        draws = []
        if oracle is not None:
            ur = oracle.get("urandom", [])
            if len(ur) == 1 and ur[0][0] == 8:
                draw = bhex(ur[0][1])
            elif len(ur) != 0:
                draw = "s"   # wrong shape: the model will compute a different id
            ch = oracle.get("choice", [])
            if len(ch) >= 1:
                choice = shex(ch[0]) if isinstance(ch[0], str) else "s"
            draws = [str(v) for (_a, _b, v) in oracle.get("randrange", [])]
        toks = ["CMD", str(ev["c"]), ty,
                shex(_ostr(msg, "id", True)), shex(_ostr(msg, "appid")), shex(_ostr(msg, "side")),
                shex(_ostr(msg, "nameplate")), shex(_ostr(msg, "mailbox")),
                shex(_ostr(msg, "phase")), shex(_ostr(msg, "body")),
                shex(_ostr(msg, "mood", True)), ping, str(cvf), shex(cv0), shex(cv1),
                draw, choice] + draws
        return " ".join(toks)
    raise ValueError(k)


def project_cmd(msg):
    """the message as the model's `command` record sees it (Render.r_cmd): the 11 fields in record order,
    strings hex-encoded; unknown extra keys dropped"""
    def hx(s):
        return None if s is None else binascii.hexlify(s.encode("utf-8")).decode("ascii")
    try:
        if "type" not in msg:
            ty = None
        elif msg["type"] in KNOWN_TYPES:
            ty = msg["type"]
        else:
            ty = "unknown"
        ping = None
        if "ping" in msg:
            if not isinstance(msg["ping"], int) or isinstance(msg["ping"], bool):
                raise OutOfDomain("ping")
            ping = msg["ping"]
        cv = None
        if "client_version" in msg:
            c = msg["client_version"]
            if not (isinstance(c, (list, tuple)) and len(c) >= 2 and all(x is None or isinstance(x, str) for x in c[:2])):
                raise OutOfDomain("client_version")
            cv = [hx(c[0]), hx(c[1])]
        return [ty, hx(_ostr(msg, "id", True)), hx(_ostr(msg, "appid")), hx(_ostr(msg, "side")),
                hx(_ostr(msg, "nameplate")), hx(_ostr(msg, "mailbox")), hx(_ostr(msg, "phase")),
                hx(_ostr(msg, "body")), hx(_ostr(msg, "mood", True)), ping, cv]
    except OutOfDomain as e:
        return {"out_of_domain": str(e)}


def encode_event(ev, oracle):
    k = ev["k"]
    if k == "restart":
        return "RESTART"
    if k == "crash":
        return "CRASH %d %s" % (ev["n"], encode_base(ev["e"], oracle))
    return encode_base(ev, oracle)


def run_model(histories):
    """histories: list of lists of lines (each starting with a CFG line).
    Returns a list of lists of parsed observation dicts."""
    inp = []
    for h in histories:
        inp.append("RESET")
        inp.extend(h)
    p = subprocess.run([MODELRUN], input=("\n".join(inp) + "\n").encode("ascii"),
                       stdout=subprocess.PIPE, check=True)
    out = []
    cur = None
    for line in p.stdout.decode("ascii").split("\n"):
        if not line:
            continue
        if line == "RESET":
            cur = []
            out.append(cur)
        else:
            cur.append(json.loads(line))
    return out


def expand_model(observations):
    """undo the "=" abbreviation of unchanged databases"""
    prev = {}
    res = []
    for o in observations:
        o = dict(o)
        # commit entries: [which, snapshot | "="], "=" meaning the snapshot shown last for that database
        last = {"C": prev.get("chan_c"), "U": prev.get("usage_c")}
        for part in ("log", "boot"):
            out = []
            for e in o.get(part) or []:
                if e and e[0] in ("C", "U") and len(e) > 1:
                    if e[1] == "=":
                        e = [e[0], last[e[0]]]
                    else:
                        last[e[0]] = e[1]
                out.append(e)
            o[part] = out
        for key in ("chan", "chan_c", "usage", "usage_c"):
            if o.get(key) == "=":
                o[key] = prev[key]
            else:
                prev[key] = o[key]
        res.append(o)
    return res


def _canon_log(log):
    """stable-sort maximal runs of frames by connection; inside a connection,
    sort maximal runs of `message` frames (SQLite leaves the order of equal
    server_rx unspecified; the ascending order itself is checked by a monitor)."""
    out = []
    run = []
    def flush():
        if not run:
            return
        byc = {}
        order = []
        for f in run:
            if f[1] not in byc:
                byc[f[1]] = []
                order.append(f[1])
            byc[f[1]].append(f)
        for c in sorted(order):
            fs = byc[c]
            i = 0
            while i < len(fs):
                if fs[i][3] == "message":
                    j = i
                    while j < len(fs) and fs[j][3] == "message":
                        j += 1
                    seg = sorted(fs[i:j], key=lambda f: json.dumps(f[2:], sort_keys=True))
                    out.extend(seg)
                    i = j
                else:
                    out.append(fs[i])
                    i += 1
        del run[:]
    for e in log:
        if e[0] == "F":
            run.append(e)
        else:
            flush()
            if e[0] == "U" and len(e) > 1 and isinstance(e[1], dict) and "np" in e[1]:
                u = e[1]       # (usage rows are compared as sets, like the usage tables of the observation itself)
                e = ["U", {"np": _sorted_rows(u["np"]), "mb": _sorted_rows(u["mb"]), "cv": _sorted_rows(u["cv"]), "cur": u["cur"]}]
            out.append(e)
    flush()
    return out


def _sorted_rows(rows):
    return sorted(rows, key=lambda r: json.dumps(r, sort_keys=True))


def canon(o, is_model):
    """canonical, comparable form of an observation (either side)"""
    c = {}
    c["valid"] = o["valid"]
    c["exc"] = o["exc"]
    c["log"] = _canon_log(o["log"])
    c["boot"] = _canon_log(o["boot"])
    c["chan"] = o["chan"]
    c["chan_c"] = o["chan_c"]
    for key in ("usage", "usage_c"):
        u = o[key]
        c[key] = {"np": _sorted_rows(u["np"]), "mb": _sorted_rows(u["mb"]),
                  "cv": _sorted_rows(u["cv"]), "cur": u["cur"]}
    c["subs"] = _sorted_rows(o["subs"])
    c["conns"] = sorted(o["conns"], key=lambda r: r[0])
    c["now"] = o["now"]
    c["next_due"] = o["next_due"]
    c["boot_time"] = o["boot_time"]
    return c


COMPONENTS = ("valid", "exc", "log", "boot", "chan", "chan_c", "usage", "usage_c",
              "subs", "conns", "now", "next_due", "boot_time")


def _mask_absent(rows_i, rows_m):
    """a private per-connection attribute the implementation no longer has (renamed or dropped by a refactoring:
    world.graph reports it as "absent") is not compared -- what it stood for shows in the frames"""
    if not any("absent" in r or hx_absent(r) for r in rows_i):
        return rows_i, rows_m
    bym = {r[0]: r for r in rows_m}
    oi, om = [], []
    for r in rows_i:
        m = bym.get(r[0])
        if m is None or len(m) != len(r):
            oi.append(r)
            continue
        keep = [j for j, v in enumerate(r) if not _is_absent(v)]
        oi.append([r[j] for j in keep])
        om.append([m[j] for j in keep])
    seen = set(r[0] for r in rows_i)
    om += [r for r in rows_m if r[0] not in seen]
    return oi, sorted(om, key=lambda r: r[0])


_ABSENT_HEX = "616273656e74"     # hx("absent")


def _is_absent(v):
    return v == "absent" or v == _ABSENT_HEX


def hx_absent(r):
    return any(_is_absent(v) for v in r)


def diff(ci, cm):
    """components on which two canonical observations differ"""
    out = []
    for k in COMPONENTS:
        a, b = ci[k], cm[k]
        if k == "conns" and a != b:
            if any(len(r) == 2 and r[1] == "unreadable" for r in a):
                continue
            a, b = _mask_absent(a, b)
        if k == "subs" and a and a[0] and a[0][0] == "unreadable":
            continue
        if a != b:
            out.append(k)
    return out


def frames_of(log):
    return [e for e in log if e[0] == "F"]
