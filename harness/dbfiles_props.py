"""dbfiles_props.py -- configuration of C19 / C20 (engine "dbfiles") for props.PROPS."""

ASSUME = [
    "SQLite 3.40 atomic commit: a transaction (BEGIN..COMMIT, or one statement in autocommit mode) is on disk completely after COMMIT and not at all before; a rollback journal next to a file counts as part of that file (hot-journal rollback on the next open)",
    "POSIX rename() replaces the directory entry atomically; tempfile.mkstemp returns a name not in use; shutil.copy is NOT atomic: model and harness split it into copy-create (destination created/truncated, 0 bytes), copy-partial (a strict prefix -- half -- of the bytes on disk: a truncated SQLite file) and copy (complete: byte-identical, mode bits as shutil.copy); other prefix lengths are not enumerated (every strict prefix of a database SQLite rejects is the same model state Junk; a cut inside the last page that SQLite still accepts is not modelled); a crash *inside* rename/mkstemp/connect is not enumerated: crash points are before and after each call",
    "Python sqlite3 (legacy isolation_level): execute() of INSERT opens a transaction first, commit() without open transaction does nothing, executescript() commits a pending transaction and then runs the statements with no transaction control of its own (re-observed on every run through the trace callback: the operation sequence of the real run must equal the model's step labels)",
    "what is a database / not a database is decided by SQLite (Junk = first schema read fails; a 0- or 1-byte file is an empty database; a truncation inside the last page can still be a database); version rows are integers",
    "the payload (rows of all tables but `version`) is abstract in the model: CREATE TABLE/INDEX and DELETE/INSERT on `version` do not touch it (re-observed: full row dumps before/after)",
    "CREATE INDEX on a missing table and other script errors the abstract syntax cannot express are not modelled (gen_instances.py fails closed on unknown statements; the real scripts are executed at every crash point)",
    "dbfile == ':memory:' and directories the process cannot write are out of scope",
    "correspondence model<->code is differential testing at enumerated crash points (finite, seed-dependent contents), not proof",
]

TRUSTED = [
    "Coq 8.16.1 kernel (coqc, full .vo; vm_compute for the instance obligations Inst_Schemas.v / Inst_Upgrade.v, the non-vacuity examples and harness cases.v; no native_compute, no extraction on this path)",
    "harness/gen_instances.py: db-schemas/*.sql -> gen/GenSchemas.v (statement classifier, fail-closed), database.py target versions -> gen/GenParams.v",
    "harness/dbfiles.py: fork + os._exit(9) crash injection, interception of os.path.exists/mkstemp/os.close/sqlite3.connect/Connection.close/os.rename/shutil.copy (replaced in the child by a staged copy: truncate -- write half -- real shutil.copy, a kill point before and after each stage) and the sqlite3 trace callback, abstraction of a directory (plain sqlite3 reader on a private copy), comparison with the model's printed prediction",
]

RULE = ("a case is one (entry point, pre-existing directory content, crash point k): the real entry point runs in a forked child "
        "that os._exit(9)s at the k-th interception point, for every k up to the end of the call; then the directory is read "
        "and the next normal start is run and read (thorough tier additionally kills that restart at each of ITS points and "
        "starts a third time: second-level crash points).  evaluations = crash points executed; distinct_nontrivial = all "
        "second-level crash points plus the first-level crash points "
        "at which the directory differed from the initial one (a temp file, a partial or complete database, an empty, truncated or complete backup, an "
        "upgraded file) or, for scenarios that must not write at all (rejects, refusals, open-only, open of a current "
        "database), the crash points after the file has been opened plus the end of the call (bytes are compared there)")

C19 = dict(
    engine="dbfiles", coq=["theories/Prop_C19.v"], full=True, rule=RULE, assumptions=ASSUME, trusted=TRUSTED,
    explanation=(
        "Machine-checked theorems (Prop_C19.v; proofs DbFilesFacts.v) about an executable Gallina model of database.py "
        "(DbFiles.v: abstract file system, abstract SQLite file, every entry point as a sequence of atomic steps, crash = any "
        "prefix), for every payload type, every directory content, every upgrader list and every crash point, and for every "
        "schema script satisfying the decidable fresh_ok; Inst_Schemas.v proves fresh_ok for the scripts regenerated from "
        "/repo by vm_compute.  C19_create_atomic, C19_create_run, C19_create_retry, C19_open_preserves, "
        "C19_reject_unchanged (Junk, empty file, foreign-key problems, no version table/row, version newer than target), "
        "C19_reject_too_old, C19_create_only_refuses, C19_create_only_atomic, C19_open_only_never_creates; all closed under "
        "the global context.  Tie to the code: harness/dbfiles.py enumerates every crash point of the real entry points on "
        "real files and compares operation sequence, directory after each crash and outcome of the next start with the "
        "model's prediction (cases.v, vm_compute), and independently evaluates the property text on the real observations."),
    missing="")

C20 = dict(
    engine="dbfiles", coq=["theories/Prop_C20.v"], full=True, rule=RULE, assumptions=ASSUME, trusted=TRUSTED,
    explanation=(
        "Machine-checked theorems (Prop_C20.v; proofs DbFilesFacts.v) about the same model of database.py: "
        "C20_backup_identical (after a completed run the file at the backup path equals the old main file), "
        "C20_upgrade_crash_states / C20_copy_crash_retry / C20_partial_backup_overwritten (the backup copy is three atomic "
        "steps -- created empty, truncated prefix, complete; a crash inside it leaves dbfile untouched; ANY pre-existing "
        "content at the backup path -- empty, truncated, stale -- is overwritten: outcome and final file system equal those "
        "of the start without a file there), "
        "C20_upgrade_result (from any old-version usage database -- objects of the old schema, first version row = old "
        "version, ANY payload, any other files around -- an uninterrupted start returns a database with exactly the target "
        "version row, the objects of a freshly created database as a set of (kind, name, DDL), the old payload, and leaves "
        "the old file at the backup path) and C20_upgrade_crash_safe (after a crash behind any atomic step dbfile holds a "
        "database with the old payload, and a normal restart ends with exactly the outcome and file system of the "
        "uninterrupted run; the crash points include the two inside the backup copy), for every script tuple satisfying the decidable upgrade_ok (upgrader = ONE BEGIN..COMMIT group, "
        "creates only unused names, rewrites `version` to exactly the target, old objects + created = fresh objects); "
        "Inst_Upgrade.v proves upgrade_ok for the scripts regenerated from /repo by vm_compute (false before the D13 repair: "
        "DbFilesFacts.D13.upgrade_crash_safe_refuted).  Single-hop upgrades only (one old schema, one upgrader, as in the "
        "repository).  Tie to the code as for C19, on version-1 files with 0-200 generated rows incl. NULLs and 2^62-sized "
        "integers; schema equality by database.dump_db, rows by full dumps, backup by bytes."),
    missing="")
