import sys, json, time
sys.path.insert(0, "/verif/harness")
import streams as S
from collections import Counter
prof = sys.argv[1]; n = int(sys.argv[2]); base = int(sys.argv[3]) if len(sys.argv) > 3 else 0
t = time.time()
res = S.run_stream(prof, list(range(base, base + n)))
print("%d histories %.1fs" % (len(res), time.time() - t))
c = Counter(); ex = {}
for r in res:
    if "harness_error" in r:
        c["harness_error"] += 1; ex.setdefault("harness_error", r); continue
    if r["div"]:
        k = "div:" + ",".join(r["div"]["tags"]); c[k] += 1; ex.setdefault(k, r)
    for pid, v in r["mon"].items():
        k = "mon:" + pid; c[k] += 1; ex.setdefault(k, r)
    if r["stale"]: c["stale"] += 1
for k, v in sorted(c.items()): print(k, v)
show = sys.argv[4:] 
for k in show:
    r = ex.get(k)
    if not r: continue
    print("=====", k, "seed", r.get("seed"), r.get("cfg"))
    if "harness_error" in r: print(r["harness_error"]); continue
    if r["div"]: print(" div at", r["div"]["i"], r["div"]["comps"], r["div"]["line"])
    for pid, v in r["mon"].items(): print(" ", pid, v[:2])
nt = Counter()
for r in res:
    for pid, n_ in r.get("nontrivial", {}).items(): nt[pid] += n_
print("nontrivial", dict(nt))
