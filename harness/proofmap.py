"""proofmap.py -- which Coq property files (coq/theories/Prop_*.v) decide which property.
coq:     the property files; each contains only `Theorem ... Proof. exact lemma. Qed.` + Print Assumptions
full:    True when the property's statement is proved at full strength (evidence level `proof`);
         False: level `other`, `missing` says what is not proved.
"""
PROOFS = {
    "C04": dict(coq=["theories/Prop_C04.v"], full=False,
                missing="History part (the allocating side holds a committed claim when `allocated` is sent) pending."),
    "C16": dict(coq=["theories/Prop_C16.v"], full=True,
                missing=""),
}
