"""proofmap.py -- which Coq property files (coq/theories/Prop_*.v) decide which property.
coq:     the property files; each contains only `Theorem ... Proof. exact lemma. Qed.` + Print Assumptions
full:    True when the property's statement is proved at full strength (evidence level `proof`);
         False: level `other`, `missing` says what is not proved.
"""
PROOFS = {
    "C01": dict(coq=["theories/Prop_C01.v"], full=True, missing=""),
    "C02": dict(coq=["theories/Prop_C02.v"], full=True, missing=""),
    "C03": dict(coq=["theories/Prop_C03.v"], full=True,
                missing="(hypothesis: the os.urandom draws of a history are pairwise distinct 8-byte strings)"),
    "C04": dict(coq=["theories/Prop_C04.v"], full=True, missing=""),
    "C05": dict(coq=["theories/Prop_C05.v"], full=True,
                missing="(\"the first two sides keep their access\" fails for a re-open on a fresh connection after a third side was "
                        "refused: known finding KF2, refuted witness in Prop_C05.v; everything else of the statement is proved)"),
    "C06": dict(coq=["theories/Prop_C06.v"], full=True,
                missing="(history-level non-interference is proved for histories in which no handler fails internally; a handler "
                        "fails internally only through known finding KF1 / id collision / KF3, and KF1 is a genuine breach of "
                        "isolation: refuted witness in Prop_C06.v)"),
    "C07": dict(coq=["theories/Prop_C07.v"], full=True, missing=""),
    "C08": dict(coq=["theories/Prop_C08.v"], full=True, missing=""),
    "C09": dict(coq=["theories/Prop_C09.v"], full=True, missing=""),
    "C10": dict(coq=["theories/Prop_C10.v"], full=True,
                missing="(resume equivalence is proved under `nothing_expirable`: the restarted server's start-up sweep deletes "
                        "nothing; a re-sent close of a surviving mailbox re-stamps `updated`: KF4)"),
    "C11": dict(coq=["theories/Prop_C11.v"], full=True, missing=""),
    "C12": dict(coq=["theories/Prop_C12.v"], full=True, missing=""),
    "C13": dict(coq=["theories/Prop_C13.v"], full=True, missing=""),
    "C14": dict(coq=["theories/Prop_C14.v"], full=True,
                missing="(a re-sent close of a surviving mailbox re-stamps `updated`: known finding KF4, stated in the theorem)"),
    "C15": dict(coq=["theories/Prop_C15.v"], full=True, missing=""),
    "C16": dict(coq=["theories/Prop_C16.v"], full=True, missing=""),
    "C17": dict(coq=["theories/Prop_C17.v"], full=True, missing=""),
    "C18": dict(coq=["theories/Prop_C18.v"], full=True, missing=""),
}
