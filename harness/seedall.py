"""seedall.py -- re-run the property check of every recorded seeded change
(/verif/seeded/<name>/patch.diff) against a scratch worktree of /repo with the
patch applied (VERIF_REPO_SRC; /repo itself is not touched), and record the
outcome in seeded/<name>/meta.json (check_exit, detection) and check-output.txt.

  /venv/bin/python harness/seedall.py [name ...] [--jobs N]
"""
import os, sys, json, glob, subprocess, shutil, time
from concurrent.futures import ThreadPoolExecutor
HERE = os.path.dirname(os.path.abspath(__file__))
VERIF = os.path.dirname(HERE)


def run(cmd, **kw):
    return subprocess.run(cmd, shell=True, stdout=subprocess.PIPE, stderr=subprocess.STDOUT, **kw)


def one(name):
    d = os.path.join(VERIF, "seeded", name)
    meta = json.load(open(os.path.join(d, "meta.json")))
    harmless = meta.get("kind") == "harmless-refactoring"
    pid = "all" if harmless else meta["property"]
    wt = "/tmp/sw-%s" % name
    run("git -C /repo worktree remove --force %s" % wt)
    shutil.rmtree(wt, ignore_errors=True)
    r = run("git -C /repo worktree add -q --detach %s HEAD" % wt)
    if r.returncode:
        return name, "worktree failed: " + r.stdout.decode()[-200:]
    try:
        r = run("git -C %s apply %s" % (wt, os.path.join(d, "patch.diff")))
        if r.returncode:
            return name, "patch does not apply: " + r.stdout.decode()[-200:]
        t0 = time.time()
        env = dict(os.environ, VERIF_REPO_SRC=wt + "/src")
        r = run("./check %s --tier quick" % pid, cwd=VERIF, env=env, timeout=3600)
        out = r.stdout.decode("utf-8", "replace")
        open(os.path.join(d, "check-output.txt"), "w").write(out)
        lines = out.split("\n")
        concrete = any(l.startswith("VIOLATION") and "no-failing-input-found" not in l for l in lines)
        nfi = any(l.startswith("VIOLATION") and "no-failing-input-found" in l for l in lines)
        det = "concrete" if concrete else ("divergence-only" if nfi else "missed")
        if harmless:
            det = "quiet (no alarm from any of the 20 checks)" if r.returncode == 0 and not concrete and not nfi else \
                  "ALARM: " + "; ".join(l[:80] for l in lines if l.startswith("VIOLATION"))[:300]
        meta["check_exit"] = r.returncode
        meta["detection"] = det
        meta["ran"] = ("git worktree of /repo HEAD + git apply patch.diff; VERIF_REPO_SRC=<worktree>/src ./check %s --tier quick "
                       "(equivalent to: git -C /repo apply patch.diff; ./check %s --tier quick; git -C /repo checkout -- .)" % (pid, pid))
        meta["check_seconds"] = round(time.time() - t0, 1)
        json.dump(meta, open(os.path.join(d, "meta.json"), "w"), indent=1)
        return name, "%s exit=%d %.0fs" % (det, r.returncode, time.time() - t0)
    finally:
        run("git -C /repo worktree remove --force %s" % wt)
        shutil.rmtree(wt, ignore_errors=True)


def main(argv):
    jobs = 3
    if "--jobs" in argv:
        i = argv.index("--jobs")
        jobs = int(argv[i + 1])
        del argv[i:i + 2]
    names = argv or sorted(os.path.basename(p.rstrip("/")) for p in glob.glob(os.path.join(VERIF, "seeded", "*/"))
                           if os.path.exists(os.path.join(p, "patch.diff")))
    # a change to what the Coq instances are generated from (gen_instances.py reads server_tap.py, database.py and
    # db-schemas/) rebuilds the development in place: such a seed runs alone, after the others
    def gen_hash(src):
        r = run("/venv/bin/python %s --hash" % os.path.join(HERE, "gen_instances.py"),
                env=dict(os.environ, VERIF_REPO_SRC=src, PYTHONPATH=src))
        return r.stdout.decode().strip().split("\n")[-1]
    base_hash = gen_hash("/repo/src")
    def regenerates(name):
        """does the seeded change alter what gen_instances.py generates (constants, schema scripts, write statements)?"""
        wt = "/tmp/sw-pre-%s" % name
        run("git -C /repo worktree remove --force %s" % wt)
        shutil.rmtree(wt, ignore_errors=True)
        if run("git -C /repo worktree add -q --detach %s HEAD" % wt).returncode:
            return True
        try:
            if run("git -C %s apply %s" % (wt, os.path.join(VERIF, "seeded", name, "patch.diff"))).returncode:
                return True
            return gen_hash(wt + "/src") != base_hash
        finally:
            run("git -C /repo worktree remove --force %s" % wt)
            shutil.rmtree(wt, ignore_errors=True)
    alone = [n for n in names if regenerates(n)]
    names = [n for n in names if n not in alone]
    with ThreadPoolExecutor(jobs) as ex:
        for name, res in ex.map(one, names):
            print(name, res, flush=True)
    for n in alone:
        print(*one(n), flush=True)
    if alone:
        run("./check build", cwd=VERIF)


if __name__ == "__main__":
    main(sys.argv[1:])
