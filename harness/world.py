"""world.py -- drives the REAL mailbox server (imported from /repo/src) without
sockets: real Options.parseOptions, real makeService with a MemoryReactorClock
driving the real TimerService/expire(), real WebSocketServerFactory protocols
(onOpen/onMessage/onClose called directly), real database.py on real files,
commit-counting connection proxies (crash injection), a standing second sqlite
reader per file, seeded os.urandom / random with every draw recorded.

It produces, per event, an observation with the same shape as the model's
(coq/theories/Render.v).  Times are in ticks of 1/8 s (exact as floats).
"""
import os, sys, json, sqlite3, random as _random, shutil, tempfile, binascii

REPO_SRC = os.environ.get("VERIF_REPO_SRC", "/repo/src")
if REPO_SRC not in sys.path:
    sys.path.insert(0, REPO_SRC)

from unittest import mock
from twisted.internet.testing import MemoryReactorClock
from twisted.application.internet import TimerService
from twisted.python import log as twlog

from wormhole_mailbox_server import server as S
from wormhole_mailbox_server import server_tap as TAP
from wormhole_mailbox_server import server_websocket as W
from wormhole_mailbox_server import database as DB

TPS = 8  # ticks per second

# the server logs every prune; keep it out of stdout/stderr
twlog.startLoggingWithObserver(lambda e: None, setStdout=False)


class Crash(BaseException):
    """the process dies here (raised right after the k-th commit of an event)"""


def ticks(x):
    """seconds (int or dyadic float, as read back from SQLite) -> ticks, exactly"""
    if x is None:
        return None
    v = x * TPS
    iv = int(v)
    if iv != v:
        raise AssertionError("time %r is not a multiple of 1/%d s" % (x, TPS))
    return iv


def hx(s):
    if s is None:
        return None
    if not isinstance(s, str):
        return {"nonstr": repr(s)}
    return binascii.hexlify(s.encode("utf-8", "surrogatepass")).decode("ascii")


class _Request(object):
    """what onConnect looks at of autobahn's ConnectionRequest"""
    def __init__(self, peer):
        self.peer = peer
        self.headers = {}
        self.host = "localhost"
        self.path = "/v1"
        self.params = {}
        self.version = 18
        self.origin = None
        self.protocols = []
        self.extensions = []


class DBProxy(object):
    """forwards to the real sqlite3 connection; counts commits; injects faults"""

    def __init__(self, db, world, which):
        object.__setattr__(self, "_db", db)
        object.__setattr__(self, "_world", world)
        object.__setattr__(self, "_which", which)

    def commit(self):
        self._world.before_commit()
        self._db.commit()
        self._world.on_commit(self._which)

    def execute(self, *a, **kw):
        w = self._world
        if self._which == "C" and w.fault_armed:
            w.fault_armed = False
            w.fault_fired = True
            raise sqlite3.OperationalError("database is locked")
        r = self._db.execute(*a, **kw)
        w.on_statement()
        return r

    # `with db:` (sqlite3's connection context manager: commit on success, rollback on an exception) --
    # special methods are looked up on the type, so they must be forwarded explicitly
    def __enter__(self):
        self._db.__enter__()
        return self

    def __exit__(self, et, ev, tb):
        if et is None:
            self._world.before_commit()
        r = self._db.__exit__(et, ev, tb)
        if et is None:
            self._world.on_commit(self._which)
        return r

    def __getattr__(self, n):
        return getattr(self._db, n)

    def __setattr__(self, n, v):
        setattr(self._db, n, v)


class FakeTime(object):
    def __init__(self, world):
        self._w = world

    def time(self):
        return self._w.t / float(TPS)


class FakeOs(object):
    """stands in for the `os` module inside server.py"""

    def __init__(self, world):
        self._w = world

    def urandom(self, n):
        forced = self._w.force_urandom
        if forced and len(forced[0]) == n:
            b = forced.pop(0)
        else:
            b = bytes(self._w.rng.getrandbits(8) for _ in range(n))
        self._w.oracle["urandom"].append((n, b))
        return b

    def __getattr__(self, n):
        return getattr(os, n)


class FakeRandom(object):
    """stands in for the `random` module inside server.py"""

    def __init__(self, world):
        self._w = world

    def choice(self, seq):
        force = self._w.force_choice
        if force is not None and force in seq:
            v = force
        else:
            v = seq[self._w.rng.randrange(len(seq))]
        self._w.oracle["choice"].append(v)
        # the candidate set itself (C18: must not depend on the listing/usage configuration)
        self._w.oracle.setdefault("choice_from", []).append(sorted(seq) if all(isinstance(x, str) for x in seq) else repr(seq))
        return v

    def randrange(self, a, b):
        forced = self._w.force_draws
        if forced:
            v = forced.pop(0)
        else:
            v = self._w.rng.randrange(a, b)
        self._w.oracle["randrange"].append((a, b, v))
        return v

    def __getattr__(self, n):
        return getattr(_random, n)


KNOWN_TYPES = ("ping", "bind", "list", "allocate", "claim", "release", "open", "add", "close")


class World(object):
    def __init__(self, cfg, seed=0, t0=None, workdir=None):
        """cfg: dict allow_list(bool) usage(bool) blur(None|int seconds) motd advertise signal_error"""
        self.cfg = dict(cfg)
        self.rng = _random.Random(seed)
        self.t = t0 if t0 is not None else (1600000003 * TPS + 3)
        self.t0 = self.t
        base = workdir or ("/dev/shm" if os.path.isdir("/dev/shm") else tempfile.gettempdir())
        self.dir = tempfile.mkdtemp(prefix="mwverif-", dir=base)
        self.chan_path = os.path.join(self.dir, "relay.sqlite")
        self.usage_path = os.path.join(self.dir, "usage.sqlite") if cfg.get("usage") else None
        self.conns = {}
        self.oracle = {"urandom": [], "choice": [], "randrange": []}
        self.force_choice = None
        self.force_draws = None
        self.force_urandom = None
        self.fault_armed = False
        self.fault_fired = False
        self.log = []
        self.commit_count = 0
        self.crash_at = None
        self.crash_stmt = None
        self.stmt_left = None
        self.crash_chan = None
        self.chan_commit_count = 0
        self.crashed = False
        self.hard_kill = False       # validity.py: die for real (os._exit) at the crash point instead of simulating it
        self.want_pre_boot = False   # validity.py: after a simulated crash, dump the files before the reboot
        self.pre_boot = None
        self.keep_dir = False
        self.anomalies = []
        self.reader_c = None
        self.reader_u = None
        self.EXP = ticks(TAP.CHANNEL_EXPIRATION_TIME)
        self.PERIOD = ticks(TAP.EXPIRATION_CHECK_PERIOD)
        self._patches = [
            mock.patch.object(TAP, "time", FakeTime(self)),
            mock.patch.object(W, "time", FakeTime(self)),
            mock.patch.object(S, "os", FakeOs(self)),
            mock.patch.object(S, "random", FakeRandom(self)),
            mock.patch.object(TAP, "increase_rlimits", lambda: None),
        ]
        for p in self._patches:
            p.start()
        self.boot_exc = None
        self.boot()

    # ------------------------------------------------------------------ life cycle
    def close(self):
        try:
            self._teardown(clean=False)
        finally:
            for p in self._patches:
                p.stop()
            if not self.keep_dir:
                shutil.rmtree(self.dir, ignore_errors=True)

    def argv(self):
        a = ["--port", "tcp:0", "--channel-db", self.chan_path]
        c = self.cfg
        if c.get("usage"):
            a += ["--usage-db", self.usage_path]
        if c.get("blur") is not None:
            a += ["--blur-usage", str(c["blur"])]
        if not c.get("allow_list", True):
            a += ["--disallow-list"]
        if c.get("motd") is not None:
            a += ["--motd", c["motd"]]
        if c.get("advertise") is not None:
            a += ["--advertise-version", c["advertise"]]
        if c.get("signal_error") is not None:
            a += ["--signal-error", c["signal_error"]]
        return a

    def boot(self):
        """start the service on the files; returns the boot log"""
        self.log = []
        self.commit_count = 0
        opts = TAP.Options()
        opts.parseOptions(self.argv())
        self.opts = opts
        captured = {}
        real_make_server = S.make_server
        real_chan = DB.create_or_upgrade_channel_db
        real_usage = DB.create_or_upgrade_usage_db
        world = self

        def make_server(db, **kw):
            srv = real_make_server(db, **kw)
            captured["server"] = srv
            return srv

        def chan(path):
            db = real_chan(path)
            captured["chan"] = db
            return DBProxy(db, world, "C")

        def usage(path):
            db = real_usage(path)
            if db is None:
                return None
            captured["usage"] = db
            return DBProxy(db, world, "U")

        self.reactor = MemoryReactorClock()
        with mock.patch.object(TAP, "make_server", make_server), \
             mock.patch.object(TAP, "create_or_upgrade_channel_db", chan), \
             mock.patch.object(TAP, "create_or_upgrade_usage_db", usage):
            self.svc = TAP.makeService(opts, reactor=self.reactor)
        self.server = captured["server"]
        self.chan_db = captured["chan"]
        self.usage_db = captured.get("usage")
        self.timer = [s for s in self.svc if isinstance(s, TimerService)][0]
        self.timer.clock = self.reactor
        self.expire = self.timer.call[0]
        self.factory = W.WebSocketServerFactory(None, self.server)
        # the factory's reactor ("for tests to control") is the one the service runs on: work a handler
        # queues for the next reactor turn (callLater(0), deferLater) then runs in _turn() below
        self.factory.reactor = self.reactor
        self.reader_c = sqlite3.connect(self.chan_path)
        self.reader_u = sqlite3.connect(self.usage_path) if self.usage_path else None
        self.boot_t = self.t
        self.conns = {}
        self.svc.startService()   # fires expire() once
        bl = self.log
        self.log = []
        self.commit_count = 0
        return bl

    def _teardown(self, clean):
        if getattr(self, "svc", None) is None:
            return
        if clean:
            try:
                self.svc.stopService()
            except Exception as e:   # pragma: no cover
                self.anomalies.append("stopService raised %r" % (e,))
        for db in (self.chan_db, self.usage_db):
            if db is not None:
                try:
                    db.rollback()
                    db.close()
                except Exception:
                    pass
        for r in (self.reader_c, self.reader_u):
            if r is not None:
                r.close()
        self.svc = None
        self.conns = {}
        if not clean:
            # a dead process holds no locks.  A SELECT cursor the dying handler was iterating over would keep its
            # shared lock for as long as a frame or traceback refers to it (sqlite3's close() is deferred while
            # statements are outstanding): drop every reference to the old process and collect
            self.timer = self.expire = self.server = self.factory = None
            self.chan_db = self.usage_db = None
            import gc
            gc.collect()

    # ------------------------------------------------------------------ observation
    def on_commit(self, which):
        self.commit_count += 1
        # what an independent reader of the file sees from this commit on (the model's commit entries carry the
        # committed snapshot: every commit of every event is compared, not only the ones a crash event lands on)
        try:
            snap = self.dump_chan(self.reader_c) if which == "C" else self.dump_usage(self.reader_u)
        except Exception as e:
            snap = {"unreadable": repr(e)}
        self.log.append([which, snap])
        if which == "C":
            self.chan_commit_count += 1
            if self.crash_chan is not None and self.chan_commit_count == self.crash_chan:
                self._die()
        if self.crash_at is not None and self.commit_count == self.crash_at:
            if self.crash_stmt:
                self.stmt_left = self.crash_stmt     # die some statements after this commit (on_statement)
                return
            if self.hard_kill:
                os._exit(0)      # no rollback, no close, no flush: what kill -9 leaves is what is on disk now
            self.crashed = True
            raise Crash()

    def _die(self):
        if self.hard_kill:
            os._exit(0)
        self.crashed = True
        self.stmt_left = None
        raise Crash()

    def on_statement(self):
        """a crash event with after_stmt=m dies right after the m-th SQL statement that follows its n-th commit
        (or right before the next commit, if that comes first).  With SQLite's atomic commit the files then hold
        exactly what commit n left -- the state the model's `ECrash n` restarts from; the statements in between are
        only durable if the code no longer runs them inside one transaction."""
        if self.stmt_left is not None:
            self.stmt_left -= 1
            if self.stmt_left <= 0:
                self._die()

    def before_commit(self):
        if self.stmt_left is not None:
            self._die()

    @staticmethod
    def dump_chan(db):
        def q(sql):
            cur = db.cursor()
            cur.row_factory = None
            return cur.execute(sql).fetchall()
        d = {}
        d["np"] = [[r[0], hx(r[1]), hx(r[2]), hx(r[3])] + ([] if r[4] is None else [{"request_id": r[4]}])
                   for r in q("SELECT id,app_id,name,mailbox_id,request_id FROM nameplates ORDER BY rowid")]
        d["nps"] = [[r[0], bool(r[1]), hx(r[2]), ticks(r[3])]
                    for r in q("SELECT nameplates_id,claimed,side,added FROM nameplate_sides ORDER BY rowid")]
        d["mb"] = [[hx(r[0]), hx(r[1]), ticks(r[2]), bool(r[3])]
                   for r in q("SELECT app_id,id,updated,for_nameplate FROM mailboxes ORDER BY rowid")]
        d["mbs"] = [[hx(r[0]), bool(r[1]), hx(r[2]), ticks(r[3]), hx(r[4])]
                    for r in q("SELECT mailbox_id,opened,side,added,mood FROM mailbox_sides ORDER BY rowid")]
        d["msg"] = [[hx(r[0]), hx(r[1]), hx(r[2]), hx(r[3]), hx(r[4]), ticks(r[5]), hx(r[6])]
                    for r in q("SELECT app_id,mailbox_id,side,phase,body,server_rx,msg_id FROM messages ORDER BY rowid")]
        s = q("SELECT seq FROM sqlite_sequence WHERE name='nameplates'")
        d["seq"] = s[0][0] if s else 0
        return d

    @staticmethod
    def dump_usage(db):
        if db is None:
            return {"np": [], "mb": [], "cv": [], "cur": []}
        def q(sql):
            cur = db.cursor()
            cur.row_factory = None
            return cur.execute(sql).fetchall()
        d = {}
        d["np"] = [[hx(r[0]), ticks(r[1]), ticks(r[2]), ticks(r[3]), hx(r[4])]
                   for r in q("SELECT app_id,started,waiting_time,total_time,result FROM nameplates ORDER BY rowid")]
        d["mb"] = [[hx(r[0]), bool(r[1]), ticks(r[2]), ticks(r[3]), ticks(r[4]), hx(r[5])]
                   for r in q("SELECT app_id,for_nameplate,started,total_time,waiting_time,result FROM mailboxes ORDER BY rowid")]
        d["cv"] = [[hx(r[0]), hx(r[1]), ticks(r[2]), hx(r[3]), hx(r[4])]
                   for r in q("SELECT app_id,side,connect_time,implementation,version FROM client_versions ORDER BY rowid")]
        d["cur"] = [[ticks(r[0]), ticks(r[1]), (None if r[2] is None else r[2] * TPS), r[3]]
                    for r in q("SELECT rebooted,updated,blur_time,connections_websocket FROM current ORDER BY rowid")]
        return d

    @classmethod
    def dump_files(cls, chan_path, usage_path):
        """the database files as a fresh, independent sqlite3 connection sees them"""
        c = sqlite3.connect(chan_path)
        try:
            chan = cls.dump_chan(c)
        finally:
            c.close()
        usage = None
        if usage_path:
            u = sqlite3.connect(usage_path)
            try:
                usage = cls.dump_usage(u)
            finally:
                u.close()
        return {"chan": chan, "usage": usage}

    def views(self):
        return (self.dump_chan(self.chan_db), self.dump_chan(self.reader_c),
                self.dump_usage(self.usage_db), self.dump_usage(self.reader_u))

    def is_clean(self):
        c, cc, u, uc = self.views()
        return c == cc and u == uc

    def expected_welcome(self):
        w = {}
        c = self.cfg
        if c.get("motd") is not None:
            w["motd"] = c["motd"]
        if c.get("advertise") is not None:
            w["current_cli_version"] = c["advertise"]
        if c.get("signal_error") is not None:
            w["error"] = c["signal_error"]
        return w

    def record_frame(self, c, payload, is_binary):
        clean = self.is_clean()
        try:
            f = json.loads(payload.decode("utf-8"))
        except Exception as e:
            self.anomalies.append("frame is not JSON: %r" % (payload,))
            self.log.append(["F", c, clean, "garbage", None])
            return
        if is_binary:
            self.anomalies.append("binary frame")
        kind = f.get("type")
        if f.get("server_tx") != self.t / float(TPS):
            self.anomalies.append("frame %r: server_tx=%r, now=%r" % (kind, f.get("server_tx"), self.t / float(TPS)))
        ent = ["F", c, clean, kind]
        keys = set(f) - {"type", "server_tx"}
        def need(*ks):
            if keys != set(ks):
                self.anomalies.append("frame %r has keys %r, expected %r" % (kind, sorted(keys), sorted(ks)))
        if kind == "welcome":
            need("welcome")
            wd = f.get("welcome") if isinstance(f.get("welcome"), dict) else {}
            if f.get("welcome") != self.expected_welcome():
                self.anomalies.append("welcome %r != configured %r" % (f.get("welcome"), self.expected_welcome()))
            ent += [hx(wd.get("motd")), hx(wd.get("current_cli_version")), hx(wd.get("error"))]
        elif kind == "ack":
            need("id")
            ent.append(hx(f.get("id")))
        elif kind == "pong":
            need("pong")
            ent.append(f.get("pong"))
        elif kind == "error":
            need("error", "orig")
            e = f.get("error")
            ent.append(e if e in ("crowded", "reclaimed") else "other")
            if f.get("orig") != self.current_msg:
                self.anomalies.append("error frame orig %r != command %r" % (f.get("orig"), self.current_msg))
            import trace as _T
            ent.append(_T.project_cmd(f.get("orig")) if isinstance(f.get("orig"), dict) else {"nonobject": repr(f.get("orig"))})
        elif kind == "nameplates":
            need("nameplates")
            l = f.get("nameplates")
            ok = isinstance(l, list) and all(isinstance(x, dict) and set(x) == {"id"} for x in l)
            if not ok:
                self.anomalies.append("malformed nameplates frame %r" % (l,))
                ent.append({"malformed": repr(l)})
            else:
                ent.append([hx(x["id"]) for x in l])
        elif kind == "allocated":
            need("nameplate")
            ent.append(hx(f.get("nameplate")))
        elif kind == "claimed":
            need("mailbox")
            ent.append(hx(f.get("mailbox")))
        elif kind in ("released", "closed"):
            need()
        elif kind == "message":
            need("side", "phase", "body", "server_rx", "id")
            ent += [hx(f.get("side")), hx(f.get("phase")), hx(f.get("body")),
                    ticks(f.get("server_rx")), hx(f.get("id"))]
        else:
            self.anomalies.append("unknown frame type %r" % (kind,))
            ent.append({"raw": f})
        # the send time stamp, last (the model stamps every frame with the clock of the event)
        try:
            ent.append(ticks(f.get("server_tx")))
        except Exception:
            ent.append({"server_tx": repr(f.get("server_tx"))})
        self.log.append(ent)

    def graph(self):
        """subscription graph and per-connection flags, read off the real objects.  These are private attributes: a
        change may rename or drop one.  That is a divergence from the model's connection state (component `conns` /
        `subs`), not a reason for the driver to stop -- the monitors and the two-run checks do not use them."""
        try:
            return self._graph()
        except AttributeError as e:
            # (not an anomaly of the server: the private containers were renamed; subscriptions and flags are then not
            # compared with the model's -- trace.diff -- and everything observable still is)
            return [["unreadable", str(e), -1]], [[c, "unreadable"] for c in sorted(self.conns)]

    def _graph(self):
        subs = []
        srv = self.server
        pid = {id(p): c for c, p in self.conns.items()}
        for app_id, app in srv._apps.items():
            if app._app_id != app_id:
                self.anomalies.append("STALE: app registry key %r holds namespace %r" % (app_id, app._app_id))
            for mid, mbox in app._mailboxes.items():
                for h in mbox._listeners.keys():
                    if id(h) not in pid:
                        self.anomalies.append("STALE: listener of %r/%r is not a live connection" % (app_id, mid))
                        subs.append([hx(app_id), hx(mid), -1])
                    else:
                        subs.append([hx(app_id), hx(mid), pid[id(h)]])
        conns = []
        fl = lambda v: v if v == "absent" else bool(v)
        class _P(object):
            """a connection's attributes; one that no longer exists reads as the string "absent" (never equal to the model's value)"""
            def __init__(self, p):
                self.__dict__["p"] = p
            def __getattr__(self, n):
                return getattr(self.__dict__["p"], n, "absent")
        for c, p in self.conns.items():
            p = _P(p)
            app = p._app
            app_absent = app == "absent"
            if app_absent:
                app = None
            if app is not None and srv._apps.get(app._app_id) is not app:
                self.anomalies.append("STALE: connection %d holds an unregistered AppNamespace %r" % (c, app._app_id))
            mb = p._mailbox
            mb_absent = mb == "absent"
            if mb_absent:
                mb = None
            if mb is not None:
                reg = srv._apps.get(mb._app_id)
                if reg is None or reg._mailboxes.get(mb._mailbox_id) is not mb:
                    self.anomalies.append("STALE: connection %d holds an unregistered Mailbox %r/%r" % (c, mb._app_id, mb._mailbox_id))
                if app is None or mb._app_id != app._app_id:
                    self.anomalies.append("STALE: connection %d mailbox app mismatch" % c)
            conns.append([c,
                          "absent" if app_absent else (hx(app._app_id) if app is not None else None),
                          "absent" if (app_absent or p._side == "absent") else (hx(p._side) if app is not None else None),
                          fl(p._did_allocate), fl(p._listening), fl(p._did_claim),
                          hx(p._nameplate_id), fl(p._did_release),
                          "absent" if mb_absent else (hx(mb._mailbox_id) if mb is not None else None),
                          hx(p._mailbox_id), fl(p._did_close)])
        return subs, conns

    def next_due(self):
        loop = getattr(self.timer, "_loop", None)
        if loop is None or not loop.running or loop.call is None:
            return None
        return self.boot_t + ticks(loop.call.getTime())

    def observe(self, exc=None, boot=None, valid=True):
        c, cc, u, uc = self.views()
        subs, conns = self.graph()
        o = {"valid": valid, "exc": exc, "log": self.log, "boot": boot or [],
             "chan": c, "chan_c": cc, "usage": u, "usage_c": uc,
             "subs": subs, "conns": conns, "now": self.t, "next_due": self.next_due(),
             "boot_time": self.boot_t,
             "oracle": self.oracle, "anomalies": self.anomalies}
        self.log = []
        self.commit_count = 0
        self.anomalies = []
        return o

    # ------------------------------------------------------------------ events
    def _reset_event(self):
        self.oracle = {"urandom": [], "choice": [], "randrange": []}
        self.log = []
        self.commit_count = 0
        self.crashed = False
        self.fault_fired = False
        self.current_msg = None

    @staticmethod
    def exc_name(e):
        if isinstance(e, sqlite3.IntegrityError):
            return "IntegrityError"
        return type(e).__name__

    def do_base(self, ev):
        """ev: dict with key 'k' in connect/disconnect/cmd/sweep/advance. Returns escaped exception name."""
        k = ev["k"]
        if k == "connect":
            c = ev["c"]
            p = self.factory.buildProtocol(None)
            p.sendMessage = lambda payload, isBinary=False, c=c, **kw: self.record_frame(c, payload, isBinary)
            self.conns[c] = p
            p.onConnect(_Request("tcp4:127.0.0.1:%d" % (40000 + c)))     # (autobahn calls it with the upgrade request)
            p.onOpen()
            return None
        if k == "disconnect":
            p = self.conns.pop(ev["c"])
            p.onClose(True, None, None)
            return None
        if k == "cmd":
            c = ev["c"]
            p = self.conns[c]
            msg = ev["msg"]
            self.current_msg = msg
            orc = ev.get("oracle") or {}
            self.force_choice = orc["choice"][0] if orc.get("choice") else ev.get("force_choice")
            self.force_draws = [x[2] for x in orc["randrange"]] if orc.get("randrange") else (
                list(ev["force_draws"]) if ev.get("force_draws") else None)
            self.force_urandom = [bytes.fromhex(x[1]) for x in orc["urandom"]] if orc.get("urandom") else None
            payload = json.dumps(msg).encode("utf-8")
            try:
                p.onMessage(payload, False)
            except Crash:
                raise
            except Exception as e:
                # autobahn/Twisted would log this and drop the connection
                name = self.exc_name(e)
                self.conns.pop(c, None)
                try:
                    p.onClose(False, None, None)
                except Exception as e2:
                    self.anomalies.append("onClose raised %r" % (e2,))
                return name
            finally:
                self.force_choice = None
                self.force_draws = None
                self.force_urandom = None
            return None
        if k == "sweep":
            self.fault_armed = bool(ev.get("fault"))
            try:
                self.expire()
            except Crash:
                raise
            except Exception as e:
                return self.exc_name(e)
            finally:
                if self.fault_armed:
                    # the sweep made no database access at all
                    self.fault_armed = False
            return None
        if k == "tick":
            # wall time passes but the service's timer is not driven (metamorphic runs that
            # place their sweeps explicitly, e.g. C11: both runs sweep at the same instants)
            self.t += ev["dt"]
            return None
        if k == "advance":
            self.t += ev["dt"]
            self.fault_armed = bool(ev.get("fault"))
            errs = []
            obs = twlog.addObserver
            def watcher(evd):
                if evd.get("isError"):
                    errs.append(evd)
            twlog.addObserver(watcher)
            try:
                self.reactor.advance(ev["dt"] / float(TPS))
            finally:
                twlog.removeObserver(watcher)
                self.fault_armed = False
            if self.crashed:
                raise Crash()
            loop = self.timer._loop
            if not loop.running:
                # the LoopingCall died: an exception escaped expire()
                return "TimerDied"
            return None
        raise ValueError(k)

    def do_event(self, ev):
        """ev: base event dict, {'k':'restart'} or {'k':'crash','n':k,'e':base}. Returns observation."""
        self._reset_event()
        k = ev["k"]
        if k == "restart":
            self._teardown(clean=True)
            bl = self.boot()
            return self.observe(boot=bl)
        if k == "crash":
            n = ev["n"]
            base = dict(ev["e"])
            if "oracle" in ev:
                base["oracle"] = ev["oracle"]
            exc = None
            m = ev.get("after_stmt")
            nc = ev.get("n_chan")        # die right after the event's nc-th CHANNEL commit (comparable across configurations)
            if nc is not None:
                n, m = (0 if nc == 0 else 10 ** 6), None
            if n == 0 and not m:
                if base["k"] == "advance":
                    self.t += base["dt"]
                pre = []
            else:
                self.crash_at = n
                self.crash_stmt = m or None
                self.stmt_left = m if (m and n == 0) else None
                self.crash_chan = nc
                self.chan_commit_count = 0
                try:
                    exc = self.do_base(base)
                except Crash:
                    exc = None
                finally:
                    self.crash_at = None
                    self.crash_stmt = None
                    self.stmt_left = None
                    self.crash_chan = None
                pre = self.log
                if m:
                    # what the model's `ECrash n` records: the event up to its n-th commit (frames sent between
                    # that commit and the death some statements later are not part of the comparison)
                    seen, cut = 0, 0 if n == 0 else None
                    for j, e in enumerate(pre):
                        if cut is None and e[0] in ("C", "U"):
                            seen += 1
                            if seen == n:
                                cut = j + 1
                    if cut is not None:
                        pre = pre[:cut]
            anomalies = self.anomalies
            oracle = self.oracle
            self._teardown(clean=False)
            if self.want_pre_boot:
                self.pre_boot = self.dump_files(self.chan_path, self.usage_path)
            bl = self.boot()
            self.log = pre
            self.anomalies = anomalies
            o = self.observe(exc=exc, boot=bl)
            o["oracle"] = oracle
            return o
        exc = self.do_base(ev)
        if not ev.get("same_turn") and k in ("connect", "cmd", "disconnect", "sweep"):
            self._turn()
        return self.observe(exc=exc)

    def _turn(self):
        """one reactor turn passes: whatever was queued with delay 0 runs now (nothing, in the code as it is;
        an event tagged same_turn is followed by the next one within the same turn: frames that arrive in one
        socket read, or several sockets readable in one poll)"""
        try:
            self.reactor.advance(0)
        except Crash:
            raise
        except Exception as e:
            self.anomalies.append("a call queued for the next reactor turn raised %s: %s" % (type(e).__name__, e))
