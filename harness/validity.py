"""validity.py -- checks of the harness's own simulation assumptions against the real thing.

 kill     the harness simulates "the process dies right after the k-th commit of an event" by raising a
          BaseException out of commit(), rolling back, closing and re-opening the files.  Here the same
          history is run in a forked child that really dies (os._exit inside commit(), no rollback, no
          close, nothing flushed) and the files it leaves are compared, table by table, with the files of
          the simulated crash before the reboot.
 loopback the harness calls onOpen/onMessage/onClose of the real protocol objects directly.  Here the same
          commands are sent through real loopback WebSocket connections to the real listening service
          (the repository's own test scaffolding: test/common.ServerBase, test/ws_client.WSClient), and
          every frame must be the one the direct-call driver recorded (times excepted: the real server
          stamps with the real clock).

Both are parts of the trusted base of the correspondence check; they run in every tier for C10 (kill)
and C17 (loopback) and their counts go into the evidence.
"""
import os, sys, json, time, random, shutil, traceback, subprocess, multiprocessing
HERE = os.path.dirname(os.path.abspath(__file__))
VERIF = os.path.dirname(HERE)
sys.path.insert(0, HERE)


# ---------------------------------------------------------------------------------------- kill
def _kill_case(seed):
    import gen as G, profiles as P, world as WORLD
    out = {"seed": seed, "profile": "validity-kill", "n_events": 0, "div": None, "mon": {}, "nontrivial": {"C10": 0},
           "kf": [], "stale": [], "kinds": {}, "meta": {}, "no_model": True, "cfg": None}
    try:
        h = G.generate_history(seed, profile=P.get("crash"), cfg=None)
        out["cfg"] = h["cfg"]
        out["n_events"] = len(h["events"])
        idx = [i for i, ev in enumerate(h["events"]) if ev["k"] == "crash" and ev["n"] >= 1]
        rng = random.Random(seed)
        rng.shuffle(idx)
        problems = []
        done = 0
        for i in idx[:3]:
            prefix, crash = h["events"][:i], h["events"][i]
            # ---- simulated
            w = WORLD.World(h["cfg"], seed=seed)
            try:
                for ev in prefix:
                    w.do_event(ev)
                w.want_pre_boot = True
                w.do_event(crash)
                sim = w.pre_boot
            finally:
                w.close()
            if sim is None:
                continue
            # ---- real: a child process that dies inside commit()
            r, wfd = os.pipe()
            pid = os.fork()
            if pid == 0:
                code = 4
                try:
                    os.close(r)
                    w2 = WORLD.World(h["cfg"], seed=seed)
                    w2.keep_dir = True
                    os.write(wfd, (w2.dir + "\n").encode())
                    for ev in prefix:
                        w2.do_event(ev)
                    w2.hard_kill = True
                    w2.do_event(crash)
                    code = 3          # the event completed with fewer commits: not a crash point
                except BaseException:
                    code = 5
                finally:
                    os._exit(code)
            os.close(wfd)
            d = os.read(r, 4096).decode().strip()
            os.close(r)
            _, status = os.waitpid(pid, 0)
            code = os.WEXITSTATUS(status)
            try:
                if code == 3:
                    continue
                if code != 0:
                    problems.append("child for crash event %d exited with %d" % (i, code))
                    continue
                real = WORLD.World.dump_files(os.path.join(d, "relay.sqlite"),
                                              os.path.join(d, "usage.sqlite") if h["cfg"].get("usage") else None)
                done += 1
                if real != sim:
                    diff = [k for k in ("chan", "usage") if real[k] != sim[k]]
                    problems.append("crash event %d (%s): the files left by a real kill differ from the simulated crash in %s: "
                                    "real %s / simulated %s" % (i, json.dumps(crash)[:160], diff,
                                                                json.dumps({k: real[k] for k in diff})[:400],
                                                                json.dumps({k: sim[k] for k in diff})[:400]))
            finally:
                if d and d.startswith(("/dev/shm/mwverif-", "/tmp/mwverif-")):
                    shutil.rmtree(d, ignore_errors=True)
        out["nontrivial"]["C10"] = done
        out["kinds"] = {"validity-kill:crash-points": done}
        if problems:
            out["harness_error"] = "harness validity (kill): " + "; ".join(problems[:3])
        return out
    except Exception:
        return {"seed": seed, "profile": "validity-kill", "harness_error": traceback.format_exc()}


def extra_kill(tier, seed, bh, rh):
    import metamorphic as MM
    n = 16 if tier == "quick" else 160
    def compute():
        t0 = time.time()
        ctx = multiprocessing.get_context("fork")
        with ctx.Pool(min(16, n)) as pool:
            res = pool.map(_kill_case, [seed * 104729 + i for i in range(n)], 1)
        return {"results": res, "seconds": time.time() - t0}
    val = MM.cached("validity-kill-%d-%d-%s-%s" % (n, seed, bh[:12], rh[:16]), compute)
    return {"name": "validity-kill", "results": val["results"]}


# ---------------------------------------------------------------------------------------- loopback
KF1_DROP = {"cfg": {"allow_list": True, "usage": False, "blur": None}, "seed": 1, "events": [
    {"k": "connect", "c": 1}, {"k": "cmd", "c": 1, "msg": {"type": "bind", "appid": "A", "side": "s"}},
    {"k": "cmd", "c": 1, "msg": {"type": "open", "mailbox": "m"}},
    {"k": "connect", "c": 2}, {"k": "cmd", "c": 2, "msg": {"type": "bind", "appid": "B", "side": "s"}},
    {"k": "cmd", "c": 2, "msg": {"type": "open", "mailbox": "m"}},       # KF1: IntegrityError, the server drops connection 2
    {"k": "cmd", "c": 1, "msg": {"type": "add", "phase": "p", "body": "00"}},
    {"k": "connect", "c": 3}, {"k": "cmd", "c": 3, "msg": {"type": "bind", "appid": "A", "side": "t"}},
    {"k": "cmd", "c": 3, "msg": {"type": "open", "mailbox": "m"}}, {"k": "disconnect", "c": 1}]}


def _loop_job(args):
    """the history to replay (generated in the calling process: world.World patches module attributes, which is
    not thread-safe)"""
    profile, seed = args
    if profile == "kf1-drop":
        return KF1_DROP
    import gen as G, profiles as P
    h = G.generate_history(seed, profile=P.get(profile), cfg=P.cfg_for(profile, seed))
    return {"cfg": h["cfg"], "seed": seed, "events": h["events"]}


def _loop_case(args):
    profile, seed, job = args
    out = {"seed": seed, "profile": "validity-loopback:" + profile, "n_events": 0, "div": None, "mon": {},
           "nontrivial": {"C17": 0, "C02": 0}, "kf": [], "stale": [], "kinds": {}, "meta": {}, "no_model": True, "cfg": None}
    try:
        if isinstance(job, str):
            out["harness_error"] = job
            return out
        out["cfg"] = job["cfg"]
        env = dict(os.environ)
        p = subprocess.run([sys.executable, os.path.join(HERE, "loopback.py")], input=json.dumps(job).encode(),
                           stdout=subprocess.PIPE, stderr=subprocess.PIPE, timeout=300, env=env)
        last = [l for l in p.stdout.decode("utf-8", "replace").split("\n") if l.startswith("{")]
        if p.returncode != 0 or not last:
            out["harness_error"] = "harness validity (loopback): loopback.py failed: " + p.stderr.decode("utf-8", "replace")[-1200:]
            return out
        r = json.loads(last[-1])
        out["n_events"] = r["commands"]
        out["nontrivial"]["C17"] = out["nontrivial"]["C02"] = r["frames"]
        out["kinds"] = {"validity-loopback:frames": r["frames"], "validity-loopback:connections": r["connections"],
                        "validity-loopback:dropped-by-server": r["dropped"], "validity-loopback:lost-on-abort": r["lost_on_abort"]}
        if not r["ok"]:
            out["harness_error"] = ("harness validity (loopback): frames received over real WebSocket connections differ from "
                                    "those recorded by the direct-call driver: " + json.dumps(r["mismatch"])[:1500])
        return out
    except Exception:
        return {"seed": seed, "profile": "validity-loopback", "harness_error": traceback.format_exc()}


def extra_loopback(tier, seed, bh, rh):
    import metamorphic as MM
    from concurrent.futures import ThreadPoolExecutor
    profiles = ["session", "malformed", "kf", "two-app", "discipline", "unicode", "crowd", "core"]
    per = 2 if tier == "quick" else 12
    tasks = [("kf1-drop", 0)] + [(p, seed * 15485863 + i) for p in profiles for i in range(per)]
    def compute():
        t0 = time.time()
        jobs = []
        for t in tasks:
            try:
                jobs.append(t + (_loop_job(t),))
            except Exception:
                jobs.append(t + ("harness validity (loopback): generating the history failed: " + traceback.format_exc()[-1500:],))
        with ThreadPoolExecutor(12) as ex:
            res = list(ex.map(_loop_case, jobs))
        return {"results": res, "seconds": time.time() - t0}
    val = MM.cached("validity-loopback-%d-%d-%s-%s" % (len(tasks), seed, bh[:12], rh[:16]), compute)
    return {"name": "validity-loopback", "results": val["results"]}


# ---------------------------------------------------------------------------------------- closing window
def _closing_case(seed):
    out = {"seed": seed, "profile": "closing-window", "n_events": 0, "div": None, "mon": {}, "nontrivial": {"C02": 0, "C17": 0},
           "kf": [], "stale": [], "kinds": {}, "meta": {}, "no_model": True,
           "cfg": {"allow_list": True, "usage": False, "blur": None}}
    try:
        p = subprocess.run([sys.executable, os.path.join(HERE, "loopback.py"), "--closing", str(seed)],
                           stdout=subprocess.PIPE, stderr=subprocess.PIPE, timeout=300, env=dict(os.environ))
        last = [l for l in p.stdout.decode("utf-8", "replace").split("\n") if l.startswith("{")]
        if p.returncode != 0 or not last:
            err = p.stderr.decode("utf-8", "replace") + p.stdout.decode("utf-8", "replace")
            import re as _re
            m = _re.search(r'File "[^"]*wormhole_mailbox_server/(server|server_websocket|server_tap|database)\.py", line \d+, in (\w+)', err)
            if m and "Traceback" in err:
                # the scenario sends only well-formed commands: an exception raised inside the server's own code is the
                # server failing internally (C17) in front of real WebSocket clients, not a problem of the driver
                tail = err[err.rfind("Traceback", 0, err.find(m.group(0)) + 1):][:1500]
                d = {"meta": "closing-window", "cfg": out["cfg"], "variant_cfg": out["cfg"], "seed": seed,
                     "what": "a handler failed internally over real WebSocket connections (in %s.py:%s) and the scenario could not "
                             "complete" % (m.group(1), m.group(2)),
                     "base_events": [], "variant_events": [], "first_difference": {"server_traceback": tail},
                     "recipe": "harness/loopback.py --closing %d : real loopback WebSocket clients (the repository's test/ws_client) bind "
                               "to one app (several connections per side), open mailbox mb1, some start the closing handshake while "
                               "another adds; every command is well-formed" % seed}
                out["meta"]["C17"] = d
                out["nontrivial"]["C17"] = 1
                return out
            out["harness_error"] = "closing-window scenario failed to run: " + err[-1200:]
            return out
        r = json.loads(last[-1])
        out["n_events"] = r["adds"] + r["closers"]
        out["nontrivial"]["C02"] = out["nontrivial"]["C17"] = r["adds"]
        out["kinds"] = {"closing-window:adds": r["adds"], "closing-window:closing-connections": r["closers"]}
        if not r["ok"]:
            d = {"meta": "closing-window", "what": r["problems"][0], "cfg": out["cfg"], "variant_cfg": out["cfg"], "seed": seed,
                 "base_events": [], "variant_events": [], "first_difference": {"violations": r["problems"][:6], "scenario": r},
                 "recipe": "harness/loopback.py --closing %d : real loopback WebSocket clients (the repository's test/ws_client) "
                           "B, C, D and %d more connections all bind and open mailbox mb1 (subscription order: %s); the %d extra "
                           "connections start the WebSocket closing handshake (sendClose) while C sends %d `add` commands"
                           % (seed, r["closers"], r["order"], r["closers"], r["adds"])}
            out["meta"]["C02"] = d
            out["meta"]["C17"] = d
        return out
    except Exception:
        return {"seed": seed, "profile": "closing-window", "harness_error": traceback.format_exc()}


def extra_closing(tier, seed, bh, rh):
    import metamorphic as MM
    from concurrent.futures import ThreadPoolExecutor
    n = 8 if tier == "quick" else 60
    def compute():
        t0 = time.time()
        with ThreadPoolExecutor(8) as ex:
            res = list(ex.map(_closing_case, [seed * 6151 + i for i in range(n)]))
        return {"results": res, "seconds": time.time() - t0}
    val = MM.cached("closing-window-%d-%d-%s-%s" % (n, seed, bh[:12], rh[:16]), compute)
    return {"name": "closing-window", "results": val["results"]}


if __name__ == "__main__":
    what = sys.argv[1] if len(sys.argv) > 1 else "kill"
    if what == "kill":
        for s in range(int(sys.argv[2]) if len(sys.argv) > 2 else 6):
            r = _kill_case(s)
            print(s, r.get("harness_error") or r["kinds"])
