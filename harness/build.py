"""build.py -- (re)build the Coq development and the extracted model runner.
Full .vo build through coq_makefile; the result is cached on a hash of every
input (Coq sources, generated instance files, driver)."""
import os, sys, re, json, hashlib, subprocess, time, fcntl, glob

HERE = os.path.dirname(os.path.abspath(__file__))
VERIF = os.path.dirname(HERE)
COQ = os.path.join(VERIF, "coq")
OCAML = os.path.join(VERIF, "ocaml")
CACHE = os.path.join(VERIF, ".cache")
REPO = os.environ.get("VERIF_REPO", "/repo")

FORBIDDEN = re.compile(r"\b(Admitted|admit|Axiom|Axioms|Parameter|Parameters|Conjecture|Conjectures|"
                       r"Admit Obligations|Unset Guard Checking|Unset Positivity Checking|"
                       r"Unset Universe Checking|bypass_check|Hypothesis|Hypotheses|Variable|Variables)\b")


def sh(cmd, cwd=None, timeout=1800):
    p = subprocess.run(cmd, shell=True, cwd=cwd, stdout=subprocess.PIPE, stderr=subprocess.STDOUT,
                       timeout=timeout)
    return p.returncode, p.stdout.decode("utf-8", "replace")


def coq_sources():
    fs = sorted(glob.glob(os.path.join(COQ, "theories", "*.v")) + glob.glob(os.path.join(COQ, "gen", "*.v")))
    return fs


def strip_comments(src):
    out = []
    depth = 0
    i = 0
    instr = False
    while i < len(src):
        if not instr and src.startswith("(*", i):
            depth += 1
            i += 2
            continue
        if not instr and depth and src.startswith("*)", i):
            depth -= 1
            i += 2
            continue
        if depth == 0:
            if src[i] == '"':
                instr = not instr
            out.append(src[i])
        i += 1
    return "".join(out)


def forbidden_scan():
    """fail-closed scan: no axioms, admits or kernel switches anywhere.
    Variable/Hypothesis are allowed only inside a Section."""
    problems = []
    for f in coq_sources():
        src = strip_comments(open(f).read())
        src = re.sub(r'"[^"]*"', '""', src)
        depth = 0
        for ln, line in enumerate(src.split("\n"), 1):
            if re.match(r"\s*Section\b", line):
                depth += 1
            if re.match(r"\s*End\b", line) and depth:
                depth -= 1
            for m in FORBIDDEN.finditer(line):
                w = m.group(1)
                if w in ("Variable", "Variables", "Hypothesis", "Hypotheses") and depth > 0:
                    continue
                problems.append("%s:%d: %s" % (os.path.relpath(f, VERIF), ln, w))
    return problems


def input_hash():
    h = hashlib.sha256()
    for f in coq_sources() + [os.path.join(COQ, "_CoqProject"), os.path.join(OCAML, "driver.ml")] \
            + sorted(glob.glob(os.path.join(COQ, "selfcheck", "*.lines"))):
        h.update(f.encode())
        h.update(open(f, "rb").read())
    return h.hexdigest()


def write_coqproject():
    """_CoqProject lists every .v under theories/ and gen/"""
    lines = ["-Q theories MW", "-Q gen MWGen"]
    for f in coq_sources():
        lines.append(os.path.relpath(f, COQ))
    txt = "\n".join(lines) + "\n"
    p = os.path.join(COQ, "_CoqProject")
    if not os.path.exists(p) or open(p).read() != txt:
        open(p, "w").write(txt)


def build(verbose=False):
    """returns dict(ok, built: {file: bool}, log, forbidden, hash, seconds)"""
    os.makedirs(CACHE, exist_ok=True)
    lock = open(os.path.join(CACHE, "build.lock"), "w")
    fcntl.flock(lock, fcntl.LOCK_EX)
    try:
        import gen_instances
        gen_info = gen_instances.generate()
        write_coqproject()
        hsh = input_hash()
        stamp = os.path.join(CACHE, "build-%s.json" % hsh[:24])
        # the .vo files on disk are those of the LAST build: a stamp of an earlier build with other generated
        # instances (a run against another source tree in between) says nothing about them
        cur = os.path.join(CACHE, "current")
        last = open(cur).read().strip() if os.path.exists(cur) else None
        if last == hsh and os.path.exists(stamp) and os.path.exists(os.path.join(OCAML, "modelrun")):
            st = json.load(open(stamp))
            if all(os.path.exists(os.path.join(COQ, f[:-2] + ".vo")) == ok for f, ok in st["built"].items()):
                st["cached"] = True
                st["gen"] = gen_info
                return st
        t0 = time.time()
        if os.path.exists(cur):
            os.remove(cur)
        forb = forbidden_scan()
        rc, log1 = sh("coq_makefile -f _CoqProject -o Makefile", cwd=COQ, timeout=120)
        rc, log2 = sh("timeout 3000 make -k -j16", cwd=COQ, timeout=3100)
        # a file counts as built only if make considers its .vo up to date (a failed
        # recompilation leaves the OLD .vo behind: ask make what it would still do)
        rc_n, log_n = sh("timeout 600 make -n -k", cwd=COQ, timeout=700)
        pending = set(re.findall(r"((?:theories|gen)/[A-Za-z0-9_]+)\.v\b", "\n".join(
            l for l in log_n.split("\n") if "coqc" in l.lower() or "COQC" in l)))
        built = {}
        for f in coq_sources():
            rel = os.path.relpath(f, COQ)
            vo = f[:-2] + ".vo"
            built[rel] = (os.path.exists(vo) and os.path.getmtime(vo) >= os.path.getmtime(f)
                          and rel[:-2] not in pending)
        rc3, log3 = 1, ""
        if built.get("theories/Extract.v"):
            rc3, log3 = sh("ocamlfind ocamlopt -O3 -w -a model.mli model.ml driver.ml -o modelrun",
                           cwd=OCAML, timeout=600)
        sc = {"ok": False, "error": "model runner not built"}
        if rc3 == 0:
            try:
                import selfcheck
                sc = selfcheck.selfcheck()
            except Exception as e:
                sc = {"ok": False, "error": "selfcheck crashed: %r" % (e,)}
        st = {"ok": all(built.values()) and rc3 == 0 and not forb and sc.get("ok", False), "built": built,
              "selfcheck": sc,
              "log": (log2[-6000:] if not all(built.values()) else "") + (log3 if rc3 else ""),
              "forbidden": forb, "hash": hsh, "seconds": time.time() - t0, "runner_ok": rc3 == 0,
              "cached": False}
        json.dump(st, open(stamp, "w"))
        open(cur, "w").write(hsh)
        st["gen"] = gen_info
        return st
    finally:
        fcntl.flock(lock, fcntl.LOCK_UN)
        lock.close()


def requires_of(vfile):
    src = strip_comments(open(vfile).read())
    deps = set()
    for m in re.finditer(r"From\s+(MW|MWGen)\s+Require\s+(?:Import|Export)?\s*([^.]*)\.", src):
        for name in m.group(2).split():
            deps.add((m.group(1), name))
    return deps


def cone(vrel):
    """transitive MW/MWGen dependencies of a file (paths relative to coq/)"""
    seen = []
    todo = [vrel]
    while todo:
        f = todo.pop()
        if f in seen:
            continue
        seen.append(f)
        for lib, name in requires_of(os.path.join(COQ, f)):
            d = ("theories/" if lib == "MW" else "gen/") + name + ".v"
            if os.path.exists(os.path.join(COQ, d)):
                todo.append(d)
    return sorted(seen)


STATEMENT = re.compile(r"^\s*(?:Local\s+|Global\s+)?(Theorem|Lemma|Corollary|Example|Proposition|Fact|Remark)\s+([A-Za-z0-9_']+)", re.M)


def statements(vrel):
    src = strip_comments(open(os.path.join(COQ, vrel)).read())
    return [m.group(2) for m in STATEMENT.finditer(src)]


def print_assumptions(vrel):
    """recompile one property file alone and return what it printed"""
    rc, out = sh("timeout 900 coqc -Q theories MW -Q gen MWGen %s" % vrel, cwd=COQ, timeout=1000)
    return rc, out


def coqchk(vrel, hsh):
    """independent re-check of a compiled property file and everything it depends on (thorough tier);
    returns the CONTEXT SUMMARY (axioms etc.); cached on the build hash"""
    os.makedirs(CACHE, exist_ok=True)
    mod = "MW." + os.path.basename(vrel)[:-2]
    cf = os.path.join(CACHE, "coqchk-%s-%s.txt" % (os.path.basename(vrel)[:-2], hsh[:24]))
    if os.path.exists(cf):
        return open(cf).read()
    rc, out = sh("timeout 1500 coqchk -silent -o -Q theories MW -Q gen MWGen %s" % mod, cwd=COQ, timeout=1600)
    i = out.find("CONTEXT SUMMARY")
    txt = ("exit=%d\n" % rc) + (out[i:] if i >= 0 else out[-1500:])
    open(cf, "w").write(txt)
    return txt


if __name__ == "__main__":
    st = build(verbose=True)
    print(json.dumps({k: v for k, v in st.items() if k != "log"}, indent=1))
    if st.get("log"):
        print(st["log"])
    sys.exit(0 if st["ok"] else 1)
