"""streams.py -- generate histories in parallel on the real code, run the
extracted model on them, compare, run the monitors; shrink failures."""
import os, sys, json, time, hashlib, multiprocessing, traceback
from collections import Counter
HERE = os.path.dirname(os.path.abspath(__file__))
sys.path.insert(0, HERE)

import trace as T

ALL = ["C%02d" % i for i in range(1, 21)]

# which properties speak about which compared component (DESIGN.md 4.3)
SCOPE = {
    "frames:message": ["C01", "C02", "C05", "C06", "C11", "C12", "C14", "C18"],
    "frames:claimed": ["C03", "C05", "C06", "C07", "C10", "C11", "C14", "C17", "C18"],
    "frames:allocated": ["C04", "C06", "C07", "C11", "C17", "C18"],
    "frames:nameplates": ["C06", "C07", "C11", "C18"],
    "frames:released": ["C06", "C07", "C10", "C11", "C14", "C17", "C18"],
    "frames:closed": ["C06", "C08", "C10", "C11", "C14", "C17", "C18"],
    "frames:error": ["C05", "C07", "C08", "C14", "C17"],
    "frames:other": ["C17"],
    "exc": ["C08", "C10", "C13", "C17"],
    "chan:cmd": ["C01", "C03", "C04", "C05", "C06", "C07", "C08", "C10", "C11", "C12", "C14", "C17", "C18"],
    "chan:sweep": ["C06", "C10", "C11", "C12", "C13"],
    "chan:boot": ["C10", "C11", "C12", "C13"],
    "pending": ["C09", "C10"],
    "commits": ["C09", "C10"],
    "usage": ["C06", "C15", "C16", "C18"],
    "subs": ["C02", "C05", "C11", "C12", "C13"],
    "conns": ["C02", "C13", "C14", "C17"],
    "timer": ["C12", "C13", "C15"],
    "dbfiles": ["C19", "C20"],
    "other": ALL,
}


def classify(i, comps, ci, cm, ev):
    """component tags of a divergence"""
    tags = set()
    kind = ev["k"] if ev is not None else "boot"
    base = ev["e"]["k"] if kind == "crash" else kind
    for k in comps:
        if k == "log":
            fi = [json.dumps(e) for e in ci["log"] if e[0] == "F"]
            fm = [json.dumps(e) for e in cm["log"] if e[0] == "F"]
            if fi != fm:
                kinds = set()
                for e in set(fi) ^ set(fm):
                    kinds.add(json.loads(e)[3])
                if not kinds:
                    kinds = set(json.loads(e)[3] for e in fi + fm)   # order only
                for fk in kinds:
                    tags.add("frames:" + (fk if ("frames:" + str(fk)) in SCOPE else "other"))
                # clean flags
                if any(not json.loads(e)[2] for e in fi + fm):
                    tags.add("pending")
            if [e[0] for e in ci["log"]] != [e[0] for e in cm["log"]]:
                tags.add("commits")
            elif [e for e in ci["log"] if e[0] != "F"] != [e for e in cm["log"] if e[0] != "F"]:
                # the same commits, another committed snapshot at one of them
                tags.add("commits")
                tags.add("usage" if any(a != b for a, b in zip(ci["log"], cm["log"]) if a[0] == "U") else
                         ("chan:sweep" if base in ("sweep", "advance") else "chan:cmd"))
        elif k == "boot":
            tags.add("commits")
            tags.add("chan:boot")
        elif k in ("chan", "chan_c"):
            if kind in ("crash", "restart"):
                tags.add("chan:boot")
            elif base in ("sweep", "advance"):
                tags.add("chan:sweep")
            else:
                tags.add("chan:cmd")
            if ci["chan"] != ci["chan_c"] or cm["chan"] != cm["chan_c"]:
                tags.add("pending")
        elif k in ("usage", "usage_c"):
            tags.add("usage")
            if ci["usage"] != ci["usage_c"] or cm["usage"] != cm["usage_c"]:
                tags.add("pending")
        elif k == "exc":
            tags.add("exc")
        elif k == "subs":
            tags.add("subs")
        elif k == "conns":
            tags.add("conns")
        elif k in ("now", "next_due", "boot_time"):
            tags.add("timer")
        else:
            tags.add("other")
    return sorted(tags)


def props_of_tags(tags):
    s = set()
    for t in tags:
        s.update(SCOPE.get(t, ALL))
    return sorted(s)


def analyse(hist, model_obs):
    """compare one history with the model's observations and run the monitors.
    hist: dict(cfg, seed, events, obs, lines[, quiesced, exp])."""
    import runner as R, monitors as M
    res = {"seed": hist.get("seed"), "profile": hist.get("profile"), "cfg": hist["cfg"],
           "n_events": len(hist["events"]), "div": None, "mon": {}, "nontrivial": {},
           "kf": [], "stale": [], "kinds": {}}
    mo = T.expand_model(model_obs)
    kf = [o.get("kf", []) for o in mo[1:]] if len(mo) == len(hist["obs"]) else None
    if any("parse_error" in o for o in model_obs):
        res["div"] = {"i": 0, "comps": ["parse_error"], "tags": ["other"], "line": None}
        kf = None
    else:
        r = R.compare(hist["lines"], hist["obs"], model_obs)
        if r:
            i, comps, ci, cm = r
            ev = hist["events"][i - 1] if i >= 1 and i - 1 < len(hist["events"]) else None
            tags = classify(i, comps, ci, cm, ev) if ci else ["other"]
            detail = {}
            if ci:
                for k in comps:
                    detail[k] = {"impl": ci[k], "model": cm[k]}
            res["div"] = {"i": i - 1, "comps": comps, "tags": tags,
                          "line": hist["lines"][i] if i < len(hist["lines"]) else None,
                          "detail": detail}
    res["kf"] = sorted(set(k for l in (kf or []) for k in l))
    mres = M.run_all(hist, kf)
    for pid, (viol, nt) in mres.items():
        if viol:
            res["mon"][pid] = viol[:5]
        res["nontrivial"][pid] = nt
    for o in hist["obs"]:
        for a in o.get("anomalies", []):
            if a.startswith("STALE"):
                res["stale"].append(a)
    res["stale"] = res["stale"][:3]
    kinds = Counter()
    for ev in hist["events"]:
        b = ev["e"] if ev["k"] == "crash" else ev
        kinds[ev["k"] if ev["k"] in ("crash", "restart") else b["k"]] += 1
        if b["k"] == "cmd":
            kinds["cmd:" + str(b["msg"].get("type"))] += 1
    for o in hist["obs"]:
        for e in o["log"]:
            if e[0] == "F":
                kinds["frame:" + str(e[3])] += 1
                if e[3] == "error":
                    kinds["error:" + str(e[4])] += 1
        if o["exc"]:
            kinds["exc:" + o["exc"]] += 1
    res["kinds"] = dict(kinds)
    man = Counter()
    if kf:
        for ev, o, ks in zip(hist["events"], hist["obs"][1:], kf):
            for k in ks:
                if k == 1 and o["exc"] == "IntegrityError":
                    man["1"] += 1
                if k == 2 and any(e[0] == "F" and e[3] == "error" and e[4] == "crowded" for e in o["log"]):
                    man["2"] += 1
                if k == 3 and o["exc"] == "ValueError":
                    man["3"] += 1
    res["kf_manifest"] = dict(man)
    res["sample"] = {"cfg": hist["cfg"], "first_lines": hist["lines"][:14], "events": len(hist["events"])}
    return res


def failing(res):
    return bool(res["div"] or res["mon"] or res["stale"])


def _worker(args):
    seeds, profile_name, keep = args
    import gen as G, profiles as P
    out = []
    hists = []
    for seed in seeds:
        try:
            prof = P.get(profile_name)
            h = G.generate_history(seed, profile=prof, cfg=P.cfg_for(profile_name, seed))
            h["profile"] = profile_name
            h["quiesced"] = prof.final_quiesce
            h["exp"] = _exp()
            hists.append(h)
        except Exception:
            out.append({"seed": seed, "profile": profile_name, "harness_error": traceback.format_exc()})
    if hists:
        mos = T.run_model([h["lines"] for h in hists])
        for h, mo in zip(hists, mos):
            try:
                r = analyse(h, mo)
                if failing(r) and keep:
                    r["events"] = h["events"]
                out.append(r)
            except Exception:
                out.append({"seed": h["seed"], "profile": profile_name, "harness_error": traceback.format_exc()})
    return out


def _exp():
    import world as WORLD
    return WORLD.ticks(WORLD.TAP.CHANNEL_EXPIRATION_TIME)


def run_stream(profile_name, seeds, jobs=None, keep=True, chunk=8):
    jobs = jobs or min(16, os.cpu_count() or 1)
    if profile_name.startswith("holes"):
        chunk = 2        # few, long histories: spread them over the workers
    if profile_name.startswith("scale-"):
        chunk = 1
    tasks = [(seeds[i:i + chunk], profile_name, keep) for i in range(0, len(seeds), chunk)]
    if jobs == 1 or len(tasks) == 1:
        res = [_worker(t) for t in tasks]
    else:
        ctx = multiprocessing.get_context("fork")
        with ctx.Pool(jobs) as pool:
            res = pool.map(_worker, tasks)
    return [r for chunk_res in res for r in chunk_res]


# ---------------------------------------------------------------------- static replay
def replay(cfg, events, seed=0, quiesced=False):
    """run a static history on the real code and the model, analyse it"""
    import runner as R
    h = R.run_static(cfg, events, seed)
    h["quiesced"] = quiesced
    h["exp"] = _exp()
    mo = T.run_model([h["lines"]])[0]
    r = analyse(h, mo)
    r["events"] = h["events"]
    return r


def shrink(cfg, events, pred, seed=0, budget=150, deadline=None):
    """delta debugging over events: smallest sub-history for which pred(result) holds
    (at most `budget` replays, and none started after `deadline`)"""
    cur = list(events)
    n = 2
    tries = 0
    late = lambda: deadline is not None and time.time() > deadline
    while len(cur) >= 2 and tries < budget and not late():
        size = max(1, len(cur) // n)
        reduced = False
        for start in range(0, len(cur), size):
            cand = cur[:start] + cur[start + size:]
            if not cand:
                continue
            tries += 1
            try:
                r = replay(cfg, cand, seed)
            except Exception:
                continue
            if pred(r):
                cur = r["events"]
                n = max(n - 1, 2)
                reduced = True
                break
            if tries >= budget or late():
                break
        if not reduced:
            if size == 1:
                break
            n = min(len(cur), n * 2)
    return cur
