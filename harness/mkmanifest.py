"""mkmanifest.py -- regenerate MANIFEST.json from harness/props.py (run by hand after changing props)."""
import json, os, sys
HERE = os.path.dirname(os.path.abspath(__file__))
sys.path.insert(0, HERE)
import props as PR
VERIF = os.path.dirname(HERE)
ids = [json.loads(l)["id"] for l in open(os.path.join(VERIF, "properties.jsonl"))]
NOT_YET = {"C19": "check under construction (DbFiles model, DESIGN.md section 7 C19); not yet claimed", "C20": "check under construction (DbFiles model, DESIGN.md section 7 C20); not yet claimed"}
checks = []
for pid in ids:
    if pid in NOT_YET:
        continue
    spec = PR.PROPS[pid]
    full = bool(spec.get("full"))
    checks.append({
        "property_id": pid,
        "quick_cmd": "./check %s --tier quick" % pid,
        "thorough_cmd": "./check %s --tier thorough" % pid,
        "evidence_file": "evidence/%s.json" % pid,
        "replay_cmd_template": "./check replay {path}",
        "engine": "coq-model",
        "level_claimed": {
            "category": "proof" if full else "other",
            "text": spec.get("level_text") or (
                "Machine-checked Coq theorems about an executable Gallina model of the server, tied to /repo on every run by "
                "regenerated instance files and a differential correspondence check (extracted model vs real code on the same "
                "histories, every frame and every row after every event), plus the property's monitor on implementation traces. "
                + ("The full statement is proved." if full else
                   "The full history-level statement is not (yet) proved for this property, so the level is `other`: "
                   "the evidence names the theorems that are proved and what is missing.")),
            "design_ref": "DESIGN.md section 7, " + pid,
        },
        "level_note": "Trusted: Coq 8.16.1 kernel; extraction (ExtrOcamlBasic) + ocaml/driver.ml; harness/*.py (differential testing, "
                      "finite and seed-dependent); SQLite/sqlite3/Twisted behaviour as modelled in Store.v/Service.v (DESIGN.md section 8).",
        "technique": spec.get("technique", "Coq proof about a Gallina model + differential correspondence with /repo + trace monitor"),
    })
m = {
    "version": 1,
    "setup_cmd": "./check build",
    "hooks": {"guard": "WORMHOLE_MAILBOX_SERVER_VERIF",
              "enable": "no source hooks: the harness drives /repo/src from outside (mock.patch, proxies); ./check exports the guard for its own processes only",
              "baseline_off_cmd": "cd /repo && /venv/bin/python -m pytest -ra -q -p no:cacheprovider --timeout=900 --continue-on-collection-errors",
              "source_commits": [], "add_only": True},
    "engines": [{"name": "coq-model", "path": "coq/theories", "serves_properties": [c["property_id"] for c in checks],
                 "kind_free_text": "Gallina model + theorems (Coq 8.16.1), extracted runner ocaml/modelrun, Python harness driving the real server"}],
    "checks": checks,
    "not_applicable": [{"property_id": p, "reason": r} for p, r in NOT_YET.items()],
    "notes": "fix: commits in /repo: 812f825 aa38ff1 f4ffb42 20afac0 52b9a0a (see known_findings.txt, DESIGN.md section 6)",
}
json.dump(m, open(os.path.join(VERIF, "MANIFEST.json"), "w"), indent=1)
print("checks:", len(checks), "not_applicable:", len(NOT_YET))
