"""mkmanifest.py -- regenerate MANIFEST.json from harness/props.py + proofmap.py
(run by hand after changing them)."""
import json, os, sys
HERE = os.path.dirname(os.path.abspath(__file__))
sys.path.insert(0, HERE)
import props as PR
VERIF = os.path.dirname(HERE)
ids = [json.loads(l)["id"] for l in open(os.path.join(VERIF, "properties.jsonl"))]

LEVEL_PROOF = (
    "Machine-checked proof in Coq 8.16.1: the property is stated as theorems (coq/theories/Prop_%s.v: only `exact lemma` + "
    "Print Assumptions, all closed under the global context) about a hand-written executable Gallina model of the server, for "
    "every configuration, every reachable state and every event (inductive invariant preserved by all events incl. restarts and "
    "crashes at every commit; exact characterisation of each command and sweep; two-run theorems where the property relates "
    "histories) -- no bound on sizes, depths or steps. The model is tied to /repo on every run: constants and SQL scripts are "
    "regenerated from the source and re-checked against the theorems' side conditions by vm_compute; everything else by a "
    "differential correspondence check (extracted model vs the real code driven deterministically on generated and corpus "
    "histories: every frame, every row of every table as seen by the server and by a second reader, subscriptions, commits, "
    "exceptions), with the property's monitor run on the implementation's own traces to turn a divergence into a concrete "
    "failing history. This level is right because the property quantifies over all histories / schedules / crash points / "
    "configurations, which only an inductive proof covers; its force on the code is bounded by the correspondence check.")
LEVEL_OTHER = (
    "Same machinery as the proof-level properties (Coq theorems about the executable model + differential correspondence + "
    "monitor), but the property's full statement is not proved: %s")
NOTE = ("Trusted: Coq 8.16.1 kernel (vm_compute, no native_compute; no axioms -- Print Assumptions output is in the evidence); "
        "harness/gen_instances.py; extraction (ExtrOcamlBasic only) + ocaml/driver.ml, validated on every build against "
        "vm_compute (harness/selfcheck.py); the Python harness (differential testing: finite, seed-dependent); SQLite / sqlite3 / "
        "Twisted / POSIX behaviour as modelled (DESIGN.md Part I section 8).")

checks = []
for pid in ids:
    spec = PR.PROPS[pid]
    full = bool(spec.get("full"))
    dbf = spec.get("engine") == "dbfiles"
    if full:
        text = LEVEL_PROOF % pid
        if spec.get("missing"):
            text += " Caveat stated in the theorems: " + spec["missing"]
    else:
        text = LEVEL_OTHER % spec.get("missing", "see DESIGN.md")
    if dbf:
        technique = ("Coq proof over an atomic-step model of database.py (crash = any prefix), vm_compute instance obligations on "
                     "the SQL scripts regenerated from /repo, exhaustive crash-point correspondence against the real code")
    else:
        technique = ("Coq proof (inductive invariant / exact step characterisation / history-level and two-run theorems, crashes at "
                     "every commit boundary included) about an executable Gallina model + differential correspondence with /repo "
                     "(random, scripted and scale streams; harness validated against real kills and real WebSockets) + trace "
                     "monitors, metamorphic re-runs and real-fault streams (database locks, WebSocket closing window) on the real "
                     "code for failing-input search")
    checks.append({
        "property_id": pid,
        "quick_cmd": "./check %s --tier quick" % pid,
        "thorough_cmd": "./check %s --tier thorough" % pid,
        "evidence_file": "evidence/%s.json" % pid,
        "replay_cmd_template": "./check replay {path}",
        "engine": "coq-dbfiles" if dbf else "coq-model",
        "level_claimed": {"category": "proof" if full else "other", "text": text,
                          "design_ref": "DESIGN.md Part I sections 3-4 (as built), Part II section 7 " + pid},
        "level_note": NOTE,
        "technique": technique,
    })
fixes = "812f825 aa38ff1 f4ffb42 20afac0 52b9a0a a6fd4b8 692c76e 91e37a3"
m = {
    "version": 1,
    "setup_cmd": "./check build",
    "hooks": {"guard": "WORMHOLE_MAILBOX_SERVER_VERIF",
              "enable": "no source hooks: the harness drives /repo/src from outside (mock.patch, proxies, subprocess kill points); "
                        "./check exports the guard for its own processes only",
              "baseline_off_cmd": "cd /repo && /venv/bin/python -m pytest -ra -q -p no:cacheprovider --timeout=900 --continue-on-collection-errors",
              "source_commits": [], "add_only": True},
    "engines": [
        {"name": "coq-model", "path": "coq/theories",
         "serves_properties": [c["property_id"] for c in checks if c["engine"] == "coq-model"],
         "kind_free_text": "Gallina model of server.py/server_websocket.py/server_tap.py + theorems (Coq 8.16.1), extracted runner "
                           "ocaml/modelrun, Python harness driving the real server (harness/world.py, gen.py, scripts.py, streams.py, monitors.py, "
                           "metamorphic.py, faults.py, validity.py, loopback.py)"},
        {"name": "coq-dbfiles", "path": "coq/theories/DbFiles.v",
         "serves_properties": [c["property_id"] for c in checks if c["engine"] == "coq-dbfiles"],
         "kind_free_text": "Gallina model of database.py + theorems, evaluated by vm_compute; harness/dbfiles.py enumerates every crash "
                           "point of the real entry points in killed subprocesses"}],
    "checks": checks,
    "not_applicable": [],
    "notes": "fix: commits in /repo: %s (known_findings.txt, DESIGN.md Part I section 5). Open known findings KF1-KF4 "
             "(DESIGN.md Part I section 4)." % fixes,
}
json.dump(m, open(os.path.join(VERIF, "MANIFEST.json"), "w"), indent=1)
print("checks:", len(checks), "proof:", sum(1 for c in checks if c["level_claimed"]["category"] == "proof"))
