"""check.py -- entry point.

  ./check build                      build Coq development + model runner
  ./check Cxx [--tier quick|thorough]
  ./check all [--tier ...]
  ./check replay <file>

Verdict per property (DESIGN.md section 5): the Coq obligations of the
property build and are axiom-free; the model and the real code agree, inside
the property's scope, on every history explored; the property's monitor
accepts every implementation trace.  Otherwise
  VIOLATION property=<id> replay=<path>[ no-failing-input-found]
"""
import os, sys, json, time, hashlib, glob, fcntl, traceback, re
HERE = os.path.dirname(os.path.abspath(__file__))
VERIF = os.path.dirname(HERE)
sys.path.insert(0, HERE)
CACHE = os.path.join(VERIF, ".cache")
REPLAYS = os.path.join(VERIF, "replays")
EVID = os.path.join(VERIF, "evidence")

import build as B
import props as PR


def repo_hash():
    h = hashlib.sha256()
    root = os.path.join(os.environ.get("VERIF_REPO_SRC", "/repo/src"), "wormhole_mailbox_server")
    for dp, dn, fn in sorted(os.walk(root)):
        dn[:] = sorted(d for d in dn if d not in ("__pycache__", "test"))
        for f in sorted(fn):
            if f.endswith((".py", ".sql")):
                p = os.path.join(dp, f)
                h.update(p.encode())
                h.update(open(p, "rb").read())
    for f in sorted(glob.glob(os.path.join(HERE, "*.py"))) + sorted(glob.glob(os.path.join(VERIF, "corpus", "*.json"))):
        h.update(f.encode())
        h.update(open(f, "rb").read())
    return h.hexdigest()


def cached(key, fn):
    """memoise an expensive shared computation on disk (key includes every input hash)"""
    os.makedirs(CACHE, exist_ok=True)
    path = os.path.join(CACHE, key + ".json")
    lock = open(path + ".lock", "w")
    fcntl.flock(lock, fcntl.LOCK_EX)
    try:
        if os.path.exists(path):
            try:
                return json.load(open(path)), True
            except Exception:
                pass
        val = fn()
        tmp = path + ".tmp"
        json.dump(val, open(tmp, "w"))
        os.rename(tmp, path)
        return val, False
    finally:
        fcntl.flock(lock, fcntl.LOCK_UN)
        lock.close()


def stream_results(name, n, seed, tier, bhash, rhash):
    import streams as S
    key = "stream-%s-%d-%d-%s-%s" % (name, n, seed, bhash[:12], rhash[:16])
    def run():
        t0 = time.time()
        base = seed * 1000003 + (abs(hash_str(name)) % 100000) * 1000
        res = S.run_stream(name, list(range(base, base + n)))
        return {"results": res, "seconds": time.time() - t0}
    val, hit = cached(key, run)
    return val


def hash_str(s):
    return int(hashlib.sha256(s.encode()).hexdigest()[:8], 16)


def corpus_results(bhash, rhash):
    import streams as S
    key = "corpus-%s-%s" % (bhash[:12], rhash[:16])
    def run():
        out = []
        for f in sorted(glob.glob(os.path.join(VERIF, "corpus", "*.json"))):
            c = json.load(open(f))
            try:
                r = S.replay(c["cfg"], c["events"], c.get("seed", 0), quiesced=c.get("quiesced", False))
                r["profile"] = "corpus:" + os.path.basename(f)
                r["expect"] = c.get("expect", {})
                out.append(r)
            except Exception:
                out.append({"profile": "corpus:" + os.path.basename(f), "harness_error": traceback.format_exc()})
        return {"results": out}
    val, hit = cached(key, run)
    return val


def load_known():
    open_f, fixed = [], []
    p = os.path.join(VERIF, "known_findings.txt")
    if os.path.exists(p):
        for line in open(p):
            line = line.strip()
            if line.startswith("finding:"):
                d = dict(kv.split("=", 1) for kv in re.findall(r"(\w+=(?:\"[^\"]*\"|\S+))", line[len("finding:"):]) if "=" in kv)
                d = {k: v.strip('"') for k, v in d.items()}
                open_f.append(d)
            elif line.startswith("fixed:"):
                fixed.append(line)
    return open_f, fixed


def write_replay(pid, tag, payload):
    os.makedirs(REPLAYS, exist_ok=True)
    body = json.dumps(payload, indent=1, sort_keys=True)
    name = "%s-%s-%s.json" % (pid, tag, hashlib.sha256(body.encode()).hexdigest()[:10])
    path = os.path.join(REPLAYS, name)
    open(path, "w").write(body)
    return path


def check_property(pid, tier, seed):
    t0 = time.time()
    spec = PR.PROPS[pid]
    out_lines = []
    violations = []      # (replay path, concrete: bool)
    # ------------------------------------------------------------ 1. build + proof obligations
    bst = B.build()
    proof = PR.proof_status(pid, bst, tier)
    if not proof["ok"]:
        path = write_replay(pid, "proof", {"property": pid, "kind": "proof-obligation",
                                           "broken": proof["broken"], "log": bst.get("log", "")[-3000:],
                                           "forbidden": bst.get("forbidden"), "gen": bst.get("gen")})
        violations.append((path, False, "proof obligations no longer check: %s" % proof["broken"]))
    results = []
    streams_used = []
    impl_ok = bst.get("runner_ok", False)
    if spec.get("engine", "history") == "history" and impl_ok:
        bh, rh = bst["hash"], repo_hash()
        cr = corpus_results(bh, rh)
        results += cr["results"]
        streams_used.append(("corpus", len(cr["results"])))
        mult = 1 if tier == "quick" else 12
        for name, n in [("core", PR.CORE_N)] + spec.get("streams", []):
            sr = stream_results(name, n * mult, seed, tier, bh, rh)
            results += sr["results"]
            streams_used.append((name, n * mult))
        if spec.get("extra"):
            er = spec["extra"](tier, seed, bh, rh)
            results += er["results"]
            streams_used.append((er["name"], len(er["results"])))
    elif spec.get("engine") == "dbfiles" and impl_ok is not None:
        import dbfiles
        er = dbfiles.run(pid, tier, seed)
        results += er["results"]
        streams_used.append((er["name"], len(er["results"])))
    # ------------------------------------------------------------ 2. evaluate
    open_f, fixed = load_known()
    known_for = [f for f in open_f if f.get("property") == pid]
    stats = PR.evaluate(pid, results, known_for)
    import streams as S
    shrink_until = time.time() + (40 if tier == "quick" else 400)     # wall-clock budget of all shrinking together
    for kind, r, detail in stats["failures"][:4]:
        concrete = kind == "monitor"
        events = r.get("events")
        payload = {"property": pid, "kind": kind, "detail": detail, "cfg": r.get("cfg"),
                   "seed": r.get("seed"), "profile": r.get("profile"), "events": events}
        is_meta = bool(r.get("meta", {}).get(pid)) and pid not in r.get("mon", {})
        if is_meta:
            # a two-run (metamorphic) failure: the detail carries both event lists; `./check replay` re-runs the pair
            payload["kind"] = "monitor-two-run"
            if tier != "noshrink" and time.time() < shrink_until:
                try:
                    import metamorphic
                    payload["detail"] = metamorphic.shrink_pair(detail, budget=40 if tier == "quick" else 120)
                    payload["events"] = metamorphic.untag(payload["detail"].get("base_events") or events or [])
                except Exception:
                    payload["shrink_error"] = traceback.format_exc()
        if concrete and events and r.get("cfg") is not None and tier != "noshrink" and not is_meta \
                and time.time() < shrink_until:
            try:
                small = S.shrink(r["cfg"], events, lambda rr: pid in rr["mon"], seed=r.get("seed") or 0,
                                 budget=60 if tier == "quick" else 200, deadline=shrink_until)
                rr = S.replay(r["cfg"], small, r.get("seed") or 0)
                if pid in rr["mon"]:
                    payload["events"] = rr["events"]
                    payload["detail"] = rr["mon"][pid]
                    payload["shrunk_from"] = len(events)
            except Exception:
                payload["shrink_error"] = traceback.format_exc()
        if kind == "correspondence":
            payload["no_failing_input_found"] = True
            payload["what"] = ("model and implementation diverge inside the scope of %s; the theorems of %s are "
                               "about the model and no longer carry over. Diverging component(s): %s"
                               % (pid, pid, detail.get("tags") if isinstance(detail, dict) else detail))
        path = write_replay(pid, kind, payload)
        violations.append((path, concrete, str(detail)[:300]))
    for kfline in stats["known_lines"]:
        out_lines.append("KNOWN-FINDING: property=%s %s" % (pid, kfline))
    # ------------------------------------------------------------ 3. evidence
    wall = time.time() - t0
    ev = PR.evidence(pid, tier, seed, bst, proof, stats, streams_used, wall, len(violations))
    # evidence describes checks of /repo itself; a run against another source tree
    # (VERIF_REPO_SRC: seeded-change experiments) must not overwrite it
    evdir = EVID if os.environ.get("VERIF_REPO_SRC", "/repo/src").rstrip("/") == "/repo/src" \
        else os.path.join(CACHE, "evidence-other-tree")
    os.makedirs(evdir, exist_ok=True)
    json.dump(ev, open(os.path.join(evdir, pid + ".json"), "w"), indent=1)
    # concrete violations first
    violations.sort(key=lambda v: not v[1])
    seen_concrete = any(v[1] for v in violations)
    for path, concrete, what in violations:
        if concrete:
            out_lines.append("VIOLATION property=%s replay=%s" % (pid, path))
        elif not seen_concrete:
            out_lines.append("VIOLATION property=%s replay=%s no-failing-input-found" % (pid, path))
    for l in out_lines:
        print(l)
    print("%s: %s  (%d histories, %d events, %.1fs; proof: %s)" % (
        pid, "FAIL" if violations else "ok", stats["histories"], stats["events"], wall,
        proof["summary"]))
    return 1 if violations else 0


def main(argv):
    if not argv:
        print(__doc__)
        return 2
    tier = os.environ.get("VERIF_TIER", "quick")
    seed = int(os.environ.get("VERIF_SEED", "1"))
    args = list(argv)
    if "--tier" in args:
        i = args.index("--tier")
        tier = args[i + 1]
        del args[i:i + 2]
    if "--seed" in args:
        i = args.index("--seed")
        seed = int(args[i + 1])
        del args[i:i + 2]
    cmd = args[0]
    if cmd == "build":
        st = B.build()
        print("build %s (%.0fs%s)" % ("ok" if st["ok"] else "FAILED", st.get("seconds", 0),
                                      ", cached" if st.get("cached") else ""))
        if not st["ok"]:
            print(st.get("log", "")[-4000:])
            print("forbidden:", st.get("forbidden"))
        # a failing build is reported by the property checks, not by setup
        return 0 if st.get("runner_ok") else 1
    if cmd == "replay":
        import replay
        return replay.main(args[1:])
    if cmd == "all":
        rc = 0
        for pid in sorted(PR.PROPS):
            rc |= check_property(pid, tier, seed)
        return rc
    if cmd in PR.PROPS:
        return check_property(cmd, tier, seed)
    print("unknown property", cmd)
    return 2


if __name__ == "__main__":
    sys.exit(main(sys.argv[1:]))
