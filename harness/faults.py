"""faults.py -- the "lock" stream: database-lock faults injected for real.

An outside process (a stats collector, a sqlite3 shell, a backup) holds a lock on one of the
server's database files while a command or a sweep runs: a SHARED lock makes the server's COMMIT
fail with "database is locked", a RESERVED lock makes its first write statement fail.  The
server's own busy timeout is lowered to a few milliseconds so that the failure is immediate; the
lock is taken by a separate real sqlite3 connection on the real file, so whatever the server does
with the error (including a Connection subclass that swallows it) happens for real.

This fault has no counterpart in the Coq model (commits there always succeed), so these histories
are monitor-only (`no_model`), and what is checked is what the properties say for the part that a
failed commit leaves intact:

  C09  inside the event in which the fault struck, no frame other than the command's `ack`
       (which precedes all processing) is emitted while the server's connection has an open
       transaction -- i.e. nothing is acknowledged that was not committed.  (On the unchanged
       tree the OperationalError escapes the handler: the connection is dropped, no frame.)
       After the lock is gone and the next commit went through, frames are clean again.
  C16  every client-activity timestamp in the usage database (client_versions.connect_time,
       nameplates.started, mailboxes.started) is a multiple of the blur interval and lies in
       (t - blur, t] of an arrival time t the harness fed, whatever was deferred, retried or
       rolled back on the way.
  C10/C13 flavour: after the fault, all clients leaving and the timer running, the channel
       database is empty again and passes the integrity checks (a failed commit loses nothing
       for ever and leaves no half-written state).
"""
import os, sys, json, sqlite3, random, traceback, time
HERE = os.path.dirname(os.path.abspath(__file__))
sys.path.insert(0, HERE)

USAGE_BLURS = [None, 7, 60, 3600, 11, 97, 86400, 1]


def _case(args):
    seed, want = args
    import world as WORLD, monitors as M
    rng = random.Random(seed)
    blur = USAGE_BLURS[seed % len(USAGE_BLURS)]
    if want == "C16" and blur is None:
        blur = 45
    cfg = {"allow_list": rng.random() < 0.8, "usage": True if want in ("C16", "C14", "C03", "C15") else rng.random() < 0.7, "blur": blur}
    res = {"seed": seed, "profile": "lock", "cfg": cfg, "n_events": 0, "div": None, "mon": {},
           "nontrivial": {"C09": 0, "C16": 0, "C02": 0, "C14": 0, "C03": 0}, "kf": [], "stale": [], "kinds": {}, "meta": {}, "no_model": True}
    try:
        w = WORLD.World(cfg, seed=seed)
    except Exception:
        return {"seed": seed, "profile": "lock", "harness_error": traceback.format_exc()}
    events = []
    viol09, viol16, viol10, viol13, viol02, viol14, viol03, viol15 = [], [], [], [], [], [], [], []
    ledger = {"np": set(), "mb_now": set(), "mb_n": 0}      # C15: every nameplate row id / mailbox incarnation ever stored
    arrivals = []            # every time at which the server was handed anything
    try:
        def in_tx():
            return bool(w.chan_db.in_transaction or (w.usage_db is not None and w.usage_db.in_transaction))
        w.is_clean = lambda: not in_tx()
        lockers = []
        last = [0]

        def do(ev, faulted=False):
            if ev["k"] in ("cmd", "disconnect") and ev["c"] not in w.conns:
                return None, []          # the server dropped that connection earlier (an exception escaped a handler)
            w._reset_event()
            events.append(ev)
            arrivals.append(w.t)
            exc = w.do_base(ev)
            if ev["k"] == "advance":
                arrivals.append(w.t)
            if want == "C15":
                ch = w.dump_chan(w.chan_db)
                ledger["np"].update(r[0] for r in ch["np"])
                now_mb = set((r[0], r[1]) for r in ch["mb"])
                ledger["mb_n"] += len(now_mb - ledger["mb_now"])
                ledger["mb_now"] = now_mb
            log = list(w.log)
            res["kinds"]["ev:" + ev["k"]] = res["kinds"].get("ev:" + ev["k"], 0) + 1
            if exc:
                res["kinds"]["exc:" + exc] = res["kinds"].get("exc:" + exc, 0) + 1
            if exc == "TimerDied" and not viol13:
                viol13.append("event %d %s: an exception escaped the periodic expire() call and stopped the service's "
                              "timer for good (no further sweep will ever run)" % (len(events) - 1, json.dumps(ev)))
            fr = [e for e in log if e[0] == "F"]
            if faulted:
                res["nontrivial"]["C09"] += 1
                for e in fr:
                    if e[3] != "ack" and not e[2]:
                        viol09.append("event %d %s: frame `%s` to connection %d emitted while the server's connection "
                                      "holds uncommitted changes (the commit failed: database is locked)"
                                      % (len(events) - 1, json.dumps(ev)[:120], e[3], e[1]))
            return exc, log

        def client(app, side, cv=True):
            last[0] += 1
            c = last[0]
            do({"k": "connect", "c": c})
            msg = {"type": "bind", "appid": app, "side": side}
            if cv:
                msg["client_version"] = ["python", "0.%d" % rng.randrange(20)]
            return c, msg

        def lock(which, mode):
            path = w.chan_path if which == "C" else w.usage_path
            con = sqlite3.connect(path, timeout=0)
            con.isolation_level = None
            if mode == "shared":
                con.execute("BEGIN")
                con.execute("SELECT count(*) FROM version").fetchall()
            else:
                con.execute("BEGIN IMMEDIATE")
            lockers.append(con)
            events.append({"k": "lock", "db": which, "mode": mode})

        def unlock():
            while lockers:
                con = lockers.pop()
                try:
                    con.execute("ROLLBACK")
                finally:
                    con.close()
            events.append({"k": "unlock"})

        for db in (w.chan_db, w.usage_db):
            if db is not None:
                db.execute("PRAGMA busy_timeout=5")
        # ---- prelude: ordinary traffic
        app = rng.choice(["a1", "a2"])
        c1, b1 = client(app, "s1")
        do({"k": "cmd", "c": c1, "msg": b1})
        exc, log = do({"k": "cmd", "c": c1, "msg": {"type": "claim", "nameplate": "1"}})
        first_id = [e[4] for e in log if e[0] == "F" and e[3] == "claimed"]
        first_id = first_id[0] if first_id else None
        do({"k": "cmd", "c": c1, "msg": {"type": "open", "mailbox": "mlock"}})
        do({"k": "cmd", "c": c1, "msg": {"type": "add", "phase": "p", "body": "00"}})
        c2, b2 = client(app, "s2")
        do({"k": "cmd", "c": c2, "msg": b2})
        do({"k": "cmd", "c": c2, "msg": {"type": "open", "mailbox": "mlock"}})
        do({"k": "advance", "dt": rng.choice([1, 8, 13, 59 * 8 + 3]), "fault": False})
        closed_or_dropped = set()
        # ---- the fault
        which = "U" if (want == "C16" or (want in ("C14", "C07", "C08", "C03") and cfg["usage"] and rng.random() < 0.7) or (cfg["usage"] and rng.random() < (0.6 if want == "C13" else 0.4))) else "C"
        mode = rng.choice(["shared", "reserved"])
        rounds = rng.choice([1, 1, 2])
        if want == "C15":
            # an outside READER of the usage database (a stats collector) while a sweep has something to expire: the sweep's
            # usage commit fails, is logged, and goes through at the next tick -- still one record per retirement
            which, mode = "U", "shared"
        for _round in range(rounds):
            # (C02) the other subscriber closes properly first, so that the close that meets the fault is the LAST one
            pre_close = want == "C02" and _round == 0 and rng.random() < 0.5
            if pre_close and c1 in w.conns:
                do({"k": "cmd", "c": c1, "msg": {"type": "close", "mood": "happy"}})
                closed_or_dropped.add(c1)
            lock(which, mode)
            acked = None
            c3, b3 = client(app, rng.choice(["s1", "s2", "s3"]))
            if which == "U":
                cands = ["bind", "bind", "release", "close", "sweep"]
            else:
                cands = ["claim", "open", "add", "release", "close", "allocate", "sweep", "bind"]
            kind = rng.choice(cands)
            if want == "C13" and rng.random() < 0.7:
                kind = "sweep"
            if want == "C15":
                kind = "sweep"
                for c in (c1, c2):
                    if c in w.conns:
                        do({"k": "disconnect", "c": c})
                do({"k": "advance", "dt": w.EXP - w.PERIOD + 1, "fault": False})      # (sweeps before this one find nothing old enough)
            if want == "C02" and which == "C" and rng.random() < 0.7:
                kind = "open"
            if want in ("C14", "C07", "C08") and rng.random() < 0.8:
                kind = rng.choice(["release", "close"])
            if want == "C03" and rng.random() < 0.8:
                kind = "release"
            if pre_close:
                kind = "close"
            if kind == "bind":
                do({"k": "cmd", "c": c3, "msg": b3}, faulted=True)
            elif kind == "sweep":
                res["nontrivial"]["C13"] = res["nontrivial"].get("C13", 0) + 1
                do({"k": "advance", "dt": w.PERIOD, "fault": False}, faulted=(want != "C15"))
            elif kind == "add":
                do({"k": "cmd", "c": c1, "msg": {"type": "add", "phase": "q", "body": "01"}}, faulted=True)
            elif kind == "release":
                exc, log = do({"k": "cmd", "c": c1, "msg": {"type": "release"}}, faulted=True)
                if any(e[0] == "F" and e[1] == c1 and e[3] == "released" for e in log):
                    acked = ("release", "s1", {"type": "release", "nameplate": "1"}, "released")
            elif kind == "close":
                closed_or_dropped.add(c2)
                exc, log = do({"k": "cmd", "c": c2, "msg": {"type": "close", "mood": "happy"}}, faulted=True)
                if any(e[0] == "F" and e[1] == c2 and e[3] == "closed" for e in log):
                    acked = ("close", "s2", {"type": "close", "mailbox": "mlock", "mood": "happy"}, "closed")
            else:
                unlock()
                do({"k": "cmd", "c": c3, "msg": b3})
                lock(which, mode)
                msg = {"claim": {"type": "claim", "nameplate": rng.choice(["1", "2"])},
                       "open": {"type": "open", "mailbox": "mlock" if want == "C02" else rng.choice(["mlock", "m2"])},
                       "allocate": {"type": "allocate"}}[kind]
                do({"k": "cmd", "c": c3, "msg": msg}, faulted=True)
            unlock()
            if acked is not None and want == "C03" and acked[0] == "release" and first_id is not None and _round == 0:
                # C03: side s1 was the only claimant of nameplate "1" and its release was ACKNOWLEDGED (while a fault
                # struck): that incarnation is retired; whoever claims the name next gets a different mailbox id
                res["nontrivial"]["C03"] += 1
                cn, bn = client(app, "s2", cv=False)
                do({"k": "cmd", "c": cn, "msg": bn})
                exc, log = do({"k": "cmd", "c": cn, "msg": {"type": "claim", "nameplate": "1"}})
                ids = [e[4] for e in log if e[0] == "F" and e[1] == cn and e[3] == "claimed"]
                if ids and ids[0] == first_id:
                    viol03.append("nameplate 1: its only claimant released it and was answered `released` (while a database was "
                                  "locked); the next claimant, another side, is told the SAME mailbox id %s as the retired incarnation"
                                  % M.unhex(first_id))
                do({"k": "cmd", "c": cn, "msg": {"type": "release"}})
                do({"k": "disconnect", "c": cn})
                acked = None
            if acked is not None:
                # C14 (C07 C08): the command was ACKNOWLEDGED although a fault struck while it ran.  The client that
                # did not see the answer reconnects with the same side and sends it again: same answer, and the
                # stored channel state as it was (an acknowledged release / close has completed)
                what, dside, dmsg, answer = acked
                res["nontrivial"]["C14"] += 1
                def canon(d):
                    d = dict(d)
                    d["mb"] = [[r[0], r[1], "*", r[3]] for r in d["mb"]]     # (KF4: a re-sent close re-stamps `updated`)
                    return d
                before = canon(w.dump_chan(w.chan_db))
                cd, bd = client(app, dside, cv=False)
                do({"k": "cmd", "c": cd, "msg": bd})
                exc, log = do({"k": "cmd", "c": cd, "msg": dmsg})
                after = canon(w.dump_chan(w.chan_db))
                got = [e[3] for e in log if e[0] == "F" and e[1] == cd and e[3] != "ack"]
                if got != [answer] and not (got == ["error"]):
                    viol14.append("the %s acknowledged during the fault, re-sent on a fresh connection, is answered %s" % (what, got))
                elif got == [answer] and before != after:
                    diff = [k for k in before if before[k] != after[k]]
                    viol14.append("the %s was acknowledged (`%s`) while a database was locked; re-sent by the same side on a fresh "
                                  "connection it changes the stored channel state (%s): the acknowledged command had not "
                                  "completed.  before %s / after %s"
                                  % (what, answer, diff, json.dumps({k: before[k] for k in diff})[:300],
                                     json.dumps({k: after[k] for k in diff})[:300]))
                do({"k": "disconnect", "c": cd})
            # ---- afterwards: the lock is gone; ordinary traffic again (new binds, the timer)
            c4, b4 = client(app, rng.choice(["s1", "s2"]))
            do({"k": "advance", "dt": rng.choice([1, 8, 21]), "fault": False})
            do({"k": "cmd", "c": c4, "msg": b4})
            do({"k": "cmd", "c": c4, "msg": {"type": "claim", "nameplate": rng.choice(["1", "3"])}})
            do({"k": "advance", "dt": w.PERIOD + rng.choice([0, 3]), "fault": False})
            do({"k": "cmd", "c": c4, "msg": {"type": "release"}})
        # ---- C02 after the fault: whoever is (still) subscribed to the mailbox gets every add exactly once,
        # including a connection that opens it only now (one Mailbox object per mailbox, whatever an error
        # path cleaned up on the way)
        subscribed = set(c for c in (c1, c2) if c in w.conns and c not in closed_or_dropped)
        c6, b6 = client(app, rng.choice(["s1", "s2"]))
        do({"k": "cmd", "c": c6, "msg": b6})
        exc, log = do({"k": "cmd", "c": c6, "msg": {"type": "open", "mailbox": "mlock"}})
        if exc is None and not any(e[0] == "F" and e[1] == c6 and e[3] == "error" for e in log) and c6 in w.conns:
            subscribed.add(c6)
        senders = [c6] + sorted(subscribed - {c6})[:1]
        for sender in senders:
            if sender not in w.conns or sender not in subscribed:
                continue
            exc, log = do({"k": "cmd", "c": sender, "msg": {"type": "add", "phase": "after", "body": "%02x" % sender}})
            res["nontrivial"]["C02"] += 1
            got = sorted(e[1] for e in log if e[0] == "F" and e[3] == "message")
            want_rcpt = sorted(c for c in subscribed if c in w.conns or c == sender)
            if exc is not None:
                viol02.append("add by connection %d after the lock was gone failed internally (%s)" % (sender, exc))
            elif got != want_rcpt:
                viol02.append("add by connection %d (after a command of another connection had failed on a locked database and "
                              "the lock was gone): delivered to connections %s, subscribed are %s" % (sender, got, want_rcpt))
        # a connection whose close failed on the locked database and that is nevertheless still connected (an error path
        # that keeps the connection): if the server accepts and stores an `add` from it, every subscriber gets it
        for x in sorted(closed_or_dropped):
            if x not in w.conns:
                continue
            n0 = len(w.dump_chan(w.chan_db)["msg"])
            exc, log = do({"k": "cmd", "c": x, "msg": {"type": "add", "phase": "afterclose", "body": "%02x" % x}})
            n1 = len(w.dump_chan(w.chan_db)["msg"])
            errs = [e for e in log if e[0] == "F" and e[1] == x and e[3] == "error"]
            got = sorted(e[1] for e in log if e[0] == "F" and e[3] == "message")
            want_rcpt = sorted(c for c in subscribed if c in w.conns)
            if exc is None and not errs and n1 > n0:
                res["nontrivial"]["C02"] += 1
                if got != want_rcpt and got != sorted(set(want_rcpt) | {x}):
                    viol02.append("add by connection %d (whose close had failed on a locked database; the connection was kept) was "
                                  "accepted and stored, but delivered to connections %s while %s are subscribed" % (x, got, want_rcpt))
        # a command after a commit that went through: every frame must be clean again
        c5, b5 = client(app, "s1")
        for ev in ({"k": "cmd", "c": c5, "msg": b5}, {"k": "cmd", "c": c5, "msg": {"type": "claim", "nameplate": "9"}},
                   {"k": "cmd", "c": c5, "msg": {"type": "list"}}, {"k": "cmd", "c": c5, "msg": {"type": "release"}}):
            exc, log = do(ev)
            # (the first of them may still carry the failed command's pending writes into its own commit)
        exc, log = do({"k": "cmd", "c": c5, "msg": {"type": "ping", "ping": 1}})
        res["nontrivial"]["C09"] += 1
        for e in log:
            if e[0] == "F" and not e[2]:
                viol09.append("after the lock is gone and further commands committed, frame `%s` is still emitted "
                              "with uncommitted changes pending" % e[3])
        # ---- everybody leaves; the timer runs
        for c in sorted(w.conns):
            do({"k": "disconnect", "c": c})
        for i in range(w.EXP // w.PERIOD + 3):
            do({"k": "advance", "dt": w.PERIOD, "fault": False})
        chan = w.dump_chan(w.chan_db)
        if in_tx():
            viol10.append("uncommitted changes are still pending after the final sweeps")
        if not M.is_empty(chan):
            viol13.append("the channel database is not empty after all clients left and EXP + 3 periods passed: %s"
                          % json.dumps({k: v for k, v in chan.items() if v and k != "seq"})[:300])
        viol10 += M.integrity_problems(chan)
        # ---- C16: every stored client-activity timestamp is blurred
        if cfg["usage"] and cfg["blur"]:
            b = cfg["blur"] * WORLD.TPS
            us = w.dump_usage(w.usage_db)
            for tbl, col in (("cv", 2), ("np", 1), ("mb", 2)):
                for row in us[tbl]:
                    res["nontrivial"]["C16"] += 1
                    v = row[col]
                    if v is None or v % b != 0 or not any(t - b < v <= t for t in arrivals):
                        viol16.append("usage %s row %s: timestamp %s is not an arrival time rounded down to a "
                                      "multiple of the blur interval (%d s)" % (tbl, json.dumps(row), v, cfg["blur"]))
        if want == "C15":
            us = w.dump_usage(w.usage_db)
            res["nontrivial"]["C15"] = len(us["np"]) + len(us["mb"])
            if M.is_empty(chan) and not in_tx():
                if len(us["np"]) != len(ledger["np"]):
                    viol15.append("%d nameplates were stored and retired over the history, the usage database has %d nameplate records: %s"
                                  % (len(ledger["np"]), len(us["np"]), json.dumps(us["np"])[:400]))
                if len(us["mb"]) != ledger["mb_n"]:
                    viol15.append("%d mailboxes were stored and retired over the history, the usage database has %d mailbox records: %s"
                                  % (ledger["mb_n"], len(us["mb"]), json.dumps(us["mb"])[:400]))
        res["n_events"] = len(events)

        def meta(pid, viol):
            return {"meta": "lock", "want": want, "what": viol[0], "cfg": cfg, "variant_cfg": cfg, "seed": seed,
                    "base_events": events, "variant_events": [], "first_difference": {"violations": viol[:6]},
                    "recipe": "harness/faults.py: replay the listed events on the real server; `lock` = a separate sqlite3 "
                              "connection takes a SHARED (BEGIN + SELECT) or RESERVED (BEGIN IMMEDIATE) lock on the named "
                              "database file, the server's busy_timeout is 5 ms; `unlock` releases it"}
        if viol09:
            res["meta"]["C09"] = meta("C09", viol09)
        if viol16:
            res["meta"]["C16"] = meta("C16", viol16)
        if viol10:
            res["meta"]["C10"] = meta("C10", viol10)
        if viol13:
            res["meta"]["C13"] = meta("C13", viol13)
        if viol02:
            res["meta"]["C02"] = meta("C02", viol02)
        if viol03:
            res["meta"]["C03"] = meta("C03", viol03)
        if viol15:
            res["meta"]["C15"] = meta("C15", viol15)
        if viol14:
            for _p in ("C14", "C07", "C08"):
                res["meta"][_p] = meta(_p, viol14)
        return res
    except Exception:
        return {"seed": seed, "profile": "lock", "harness_error": traceback.format_exc()}
    finally:
        try:
            for con in lockers:
                con.close()
        except Exception:
            pass
        w.close()


def extra(pid):
    """the `extra` hook of check.check_property for the lock stream (chained after a previous extra)"""
    def run(tier, seed, bh, rh):
        import metamorphic as MM, multiprocessing
        n = 24 if tier == "quick" else 240
        def compute():
            t0 = time.time()
            tasks = [(seed * 7919 + i, pid) for i in range(n)]
            ctx = multiprocessing.get_context("fork")
            with ctx.Pool(min(16, len(tasks))) as pool:
                res = pool.map(_case, tasks, 2)
            return {"results": res, "seconds": time.time() - t0}
        val = MM.cached("lock-%s-%d-%d-%s-%s" % (pid, n, seed, bh[:12], rh[:16]), compute)
        return {"name": "lock", "results": val["results"]}
    return run


def replay(p):
    """./check replay <file> for a lock-stream violation: the case is a function of (seed, property)"""
    d = p["detail"]
    r = _case((d["seed"], d.get("want") or p.get("property")))
    print("property:", p.get("property"), "lock stream, seed", d["seed"], "cfg", json.dumps(r.get("cfg")))
    if "harness_error" in r:
        print(r["harness_error"])
        return 2
    bad = r.get("meta", {})
    for i, ev in enumerate((bad.get(p.get("property")) or d).get("base_events", [])):
        print("%3d %s" % (i, json.dumps(ev)))
    for pid, m in bad.items():
        print("violations (%s):" % pid, json.dumps(m["first_difference"], indent=1))
    return 1 if p.get("property") in bad else 0


def chain(first, second):
    def run(tier, seed, bh, rh):
        a = first(tier, seed, bh, rh)
        b = second(tier, seed, bh, rh)
        return {"name": a["name"] + "+" + b["name"], "results": a["results"] + b["results"]}
    return run


if __name__ == "__main__":
    pid = sys.argv[1] if len(sys.argv) > 1 else "C09"
    for s in range(int(sys.argv[2]) if len(sys.argv) > 2 else 8):
        r = _case((s, pid))
        print(s, r.get("harness_error") or {k: r[k] for k in ("cfg", "n_events", "nontrivial", "kinds")}, {k: v["first_difference"] for k, v in r.get("meta", {}).items()})
