"""loopback.py -- harness validity, part 2 (see validity.py): run a history's connect / command /
disconnect events (a) with the direct-call driver the correspondence check uses (world.World:
onOpen/onMessage/onClose called on the real protocol objects) and (b) through REAL loopback
WebSocket connections to the real site (make_server + make_web_server listening on 127.0.0.1,
clients = the repository's own test/ws_client.WSClient over autobahn), and compare, connection by
connection, every frame received (time stamps masked: the real server uses the real clock).

  stdin : {"cfg": ..., "events": [...], "seed": n}      (events carry their recorded oracles)
  stdout: {"ok": bool, "frames": n, "connections": n, "dropped": n, "mismatch": [...]}

Run as a subprocess (the real Twisted reactor cannot be restarted inside the checking process).
"""
import os, sys, json, tempfile, shutil
HERE = os.path.dirname(os.path.abspath(__file__))
sys.path.insert(0, HERE)

SYNC0 = 10 ** 9


def mask(f):
    f = dict(f)
    for k in ("server_tx", "server_rx"):
        if k in f:
            f[k] = "T"
    return f


def direct(cfg, events, seed):
    import world as WORLD
    w = WORLD.World(cfg, seed=seed)
    frames = {}
    dropped = set()
    try:
        orig = w.record_frame
        def rec(c, payload, is_binary):
            frames.setdefault(c, []).append(mask(json.loads(payload.decode("utf-8"))))
            return orig(c, payload, is_binary)
        w.record_frame = rec
        ran = []
        for ev in events:
            if ev["k"] in ("cmd", "disconnect") and ev["c"] not in w.conns:
                continue
            if ev["k"] == "connect" and ev["c"] in w.conns:
                continue
            o = w.do_event(ev)
            ev = dict(ev)
            if ev["k"] == "cmd":
                ev["oracle"] = {"urandom": [[n, b.hex()] for (n, b) in o["oracle"]["urandom"]],
                                "choice": list(o["oracle"]["choice"]),
                                "randrange": [list(x) for x in o["oracle"]["randrange"]]}
                if o["exc"]:
                    ev["exc"] = o["exc"]
                    dropped.add(ev["c"])
            ran.append(ev)
        return ran, frames, dropped
    finally:
        w.close()


class Stub(object):
    """what world.FakeOs / world.FakeRandom need"""
    def __init__(self, seed):
        import random
        self.rng = random.Random(seed)
        self.oracle = {"urandom": [], "choice": [], "randrange": []}
        self.force_choice = None
        self.force_draws = None
        self.force_urandom = None


def real(cfg, events, seed):
    from unittest import mock
    from twisted.internet import reactor, endpoints, defer, task
    from twisted.internet.defer import inlineCallbacks
    import world as WORLD
    from wormhole_mailbox_server import server as S, database as DB
    from wormhole_mailbox_server.web import make_web_server
    from wormhole_mailbox_server.test.ws_client import WSFactory
    d = tempfile.mkdtemp(prefix="mwloop-", dir="/dev/shm" if os.path.isdir("/dev/shm") else None)
    stub = Stub(seed)
    result = {}

    @inlineCallbacks
    def main(_reactor):
        chan = DB.create_or_upgrade_channel_db(os.path.join(d, "relay.sqlite"))
        usage = DB.create_or_upgrade_usage_db(os.path.join(d, "usage.sqlite")) if cfg.get("usage") else None
        srv = S.make_server(chan, allow_list=cfg.get("allow_list", True), advertise_version=cfg.get("advertise"),
                            signal_error=cfg.get("signal_error"), blur_usage=cfg.get("blur"), usage_db=usage,
                            welcome_motd=cfg.get("motd"))
        site = make_web_server(srv, log_requests=False)
        ep = endpoints.TCP4ServerEndpoint(reactor, 0, interface="127.0.0.1")
        lp = yield ep.listen(site)
        url = "ws://127.0.0.1:%d/v1" % lp.getHost().port
        clients, frames, closed, by_server = {}, {}, set(), set()
        nsync = [0]

        @inlineCallbacks
        def drain(c):
            """everything connection c has received so far (a sync ping marks the end)"""
            cl = clients[c]
            if c in closed:
                return
            nsync[0] += 1
            val = SYNC0 + nsync[0]
            cl.send("ping", ping=val)
            got = []
            while True:
                ev = yield cl.next_event()
                if isinstance(ev, tuple):
                    closed.add(c)
                    by_server.add(c)
                    break
                if ev.get("type") == "pong" and ev.get("pong") == val:
                    # the sync's own ack is the frame right before its pong
                    assert got and got[-1].get("type") == "ack", got[-3:]
                    got.pop()
                    break
                got.append(ev)
            frames.setdefault(c, []).extend(mask(f) for f in got)

        try:
            for ev in events:
                k = ev["k"]
                if k == "connect":
                    f = WSFactory(url)
                    f.d = defer.Deferred()
                    reactor.connectTCP("127.0.0.1", lp.getHost().port, f)
                    clients[ev["c"]] = yield f.d
                elif k == "disconnect":
                    c = ev["c"]
                    yield drain(c)
                    if c not in closed:
                        yield clients[c].close()
                        closed.add(c)
                    yield task.deferLater(reactor, 0.01, lambda: None)
                elif k == "cmd":
                    c = ev["c"]
                    orc = ev.get("oracle") or {}
                    stub.force_choice = orc["choice"][0] if orc.get("choice") else None
                    stub.force_draws = [x[2] for x in orc["randrange"]] if orc.get("randrange") else None
                    stub.force_urandom = [bytes.fromhex(x[1]) for x in orc["urandom"]] if orc.get("urandom") else None
                    clients[c].sendMessage(json.dumps(ev["msg"]).encode("utf-8"), False)
                    # the sender first (its sync pong comes after everything the command produced),
                    # then everybody else (fan-out frames are already on their sockets)
                    yield drain(c)
                    for c2 in sorted(clients):
                        if c2 != c and c2 not in closed:
                            yield drain(c2)
            for c in sorted(clients):
                if c not in closed:
                    yield drain(c)
                    yield clients[c].close()
        finally:
            yield lp.stopListening()
        result["frames"] = frames
        result["closed_by_server"] = sorted(by_server)

    patches = [mock.patch.object(S, "os", WORLD.FakeOs(stub)), mock.patch.object(S, "random", WORLD.FakeRandom(stub))]
    for p in patches:
        p.start()
    try:
        from twisted.internet.task import react
        try:
            react(main, [])
        except SystemExit as e:
            if e.code not in (0, None):
                raise
    finally:
        for p in patches:
            p.stop()
        shutil.rmtree(d, ignore_errors=True)
    return result


def closing_window(seed):
    """C02 / C17 over real WebSocket connections, in the window the direct-call driver cannot reach: some
    subscribed connections have STARTED the WebSocket closing handshake (close frame received, TCP not yet torn
    down: autobahn refuses to send on them) at the instant other connections add messages.  Every connection that
    is still subscribed and not closing must get every added message exactly once, every add must be stored, and
    the adder must not be dropped."""
    import random
    from twisted.internet import reactor, endpoints, defer, task
    from twisted.internet.defer import inlineCallbacks
    from wormhole_mailbox_server import server as S, database as DB
    from wormhole_mailbox_server.web import make_web_server
    from wormhole_mailbox_server.test.ws_client import WSFactory
    rng = random.Random(seed)
    n_closers = rng.choice([1, 2, 5, 12])
    n_adds = rng.choice([1, 3, 8])
    order = rng.choice(["stayers-first", "closers-first", "mixed"])
    d = tempfile.mkdtemp(prefix="mwloop-", dir="/dev/shm" if os.path.isdir("/dev/shm") else None)
    result = {"seed": seed, "closers": n_closers, "adds": n_adds, "order": order}

    @inlineCallbacks
    def main(_reactor):
        chan = DB.create_or_upgrade_channel_db(os.path.join(d, "relay.sqlite"))
        srv = S.make_server(chan)
        site = make_web_server(srv, log_requests=False)
        lp = yield endpoints.TCP4ServerEndpoint(reactor, 0, interface="127.0.0.1").listen(site)
        port = lp.getHost().port
        url = "ws://127.0.0.1:%d/v1" % port
        stay = [("B", "s1"), ("C", "s2"), ("D", "s1")]
        closers = [("A%d" % i, "s1") for i in range(n_closers)]
        names = {"stayers-first": stay + closers, "closers-first": closers + stay,
                 "mixed": stay[:1] + closers[:len(closers) // 2 + 1] + stay[1:2] + closers[len(closers) // 2 + 1:] + stay[2:]}[order]
        cl = {}
        try:
            for name, side in names:
                f = WSFactory(url)
                f.d = defer.Deferred()
                reactor.connectTCP("127.0.0.1", port, f)
                c = yield f.d
                cl[name] = c
                yield c.next_non_ack()                      # welcome
                c.send("bind", appid="app", side=side)
                c.send("open", mailbox="mb1")
                yield c.sync()
            for c in cl.values():
                c.events = []
            adder = cl["C"]
            k = 0
            for i, (name, _side) in enumerate(closers):
                cl[name].sendClose()
                if k < n_adds:
                    adder.send("add", phase="p", body="%02d" % k)
                    k += 1
            while k < n_adds:
                adder.send("add", phase="p", body="%02d" % k)
                k += 1
            yield task.deferLater(reactor, 0.4, lambda: None)
            got = {}
            for name in ("B", "C", "D"):
                got[name] = sorted(e["body"] for e in cl[name].events if isinstance(e, dict) and e.get("type") == "message")
            result["received"] = got
            result["stored"] = sorted(r["body"] for r in chan.execute("SELECT body FROM messages").fetchall())
            result["adder_connected"] = adder.state == adder.STATE_OPEN
        finally:
            for c in cl.values():
                try:
                    c.transport.loseConnection()
                except Exception:
                    pass
            yield lp.stopListening()

    from twisted.internet.task import react
    try:
        try:
            react(main, [])
        except SystemExit as e:
            if e.code not in (0, None):
                raise
    finally:
        shutil.rmtree(d, ignore_errors=True)
    want = ["%02d" % i for i in range(n_adds)]
    problems = []
    if result.get("stored") != want:
        problems.append("%d adds were sent by a connected client, stored are %s" % (n_adds, result.get("stored")))
    for name, l in (result.get("received") or {}).items():
        if l != want:
            problems.append("connection %s (subscribed, not closing) received %s of the %d added messages" % (name, l, n_adds))
    if result.get("adder_connected") is False:
        problems.append("the adding connection was dropped by the server")
    result["ok"] = not problems
    result["problems"] = problems
    return result


def main():
    if len(sys.argv) > 2 and sys.argv[1] == "--closing":
        print(json.dumps(closing_window(int(sys.argv[2]))))
        return
    job = json.load(sys.stdin)
    cfg, seed = job["cfg"], job.get("seed", 0)
    events = [ev for ev in job["events"] if ev["k"] in ("connect", "cmd", "disconnect")]
    ran, want, dropped = direct(cfg, events, seed)
    # connections dropped by the server (an exception escaped a handler): the real transport closes them
    got = real(cfg, ran, seed)
    mism = []
    lost = 0
    gf = {int(k): v for k, v in got["frames"].items()}
    for c in sorted(set(want) | set(gf)):
        a, b = want.get(c, []), gf.get(c, [])
        if c in dropped and len(b) < len(a) and a[:len(b)] == b and len(a) - len(b) <= 2:
            # an exception escaped the handler: autobahn aborts the transport, and what the handler had written
            # just before (the ack) may never reach the client -- recorded, not a disagreement
            lost += len(a) - len(b)
            continue
        if a != b:
            i = 0
            while i < len(a) and i < len(b) and a[i] == b[i]:
                i += 1
            mism.append({"connection": c, "index": i, "direct": a[i:i + 2], "loopback": b[i:i + 2],
                         "n_direct": len(a), "n_loopback": len(b)})
    if sorted(dropped) != sorted(c for c in got["closed_by_server"]):
        mism.append({"dropped_by_direct_driver": sorted(dropped), "closed_by_real_server": got["closed_by_server"]})
    print(json.dumps({"ok": not mism, "frames": sum(len(v) for v in want.values()), "connections": len(want),
                      "dropped": len(dropped), "commands": sum(1 for e in ran if e["k"] == "cmd"), "lost_on_abort": lost,
                      "closed_by_server": got["closed_by_server"], "dropped_direct": sorted(dropped),
                      "mismatch": mism[:4]}))


if __name__ == "__main__":
    main()
