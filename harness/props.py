"""props.py -- per-property configuration, verdict evaluation and evidence."""
import os, sys, json, re
from collections import Counter
HERE = os.path.dirname(os.path.abspath(__file__))
VERIF = os.path.dirname(HERE)
sys.path.insert(0, HERE)
import build as B
import streams as S
import dbfiles_props as DBP

CORE_N = 320          # histories of the core stream (quick); thorough multiplies

# property -> configuration.
#   streams: focus streams [(profile, histories in quick tier)]
#   coq:     property files (theories/Prop_*.v) whose theorems decide it
#   full:    True when the full statement is proved (level `proof`); otherwise `other`
PROPS = {
    "C01": dict(streams=[("session", 240), ("two-app", 120)], coq=[], full=False),
    "C02": dict(streams=[("session", 240), ("crowd", 120)], coq=[], full=False),
    "C03": dict(streams=[("session", 160), ("two-app", 160), ("crash", 120)], coq=[], full=False),
    "C04": dict(streams=[("session", 160), ("two-app", 120)], coq=[], full=False),
    "C05": dict(streams=[("crowd", 320), ("kf", 120)], coq=[], full=False),
    "C06": dict(streams=[("two-app", 320), ("kf", 120)], coq=[], full=False),
    "C07": dict(streams=[("session", 240), ("two-app", 160)], coq=[], full=False),
    "C08": dict(streams=[("session", 240), ("crowd", 120)], coq=[], full=False),
    "C09": dict(streams=[("crash", 240), ("usage", 160)], coq=[], full=False),
    "C10": dict(streams=[("crash", 400)], coq=[], full=False),
    "C11": dict(streams=[("crash", 160), ("sweep", 160)], coq=[], full=False),
    "C12": dict(streams=[("sweep", 400)], coq=[], full=False),
    "C13": dict(streams=[("sweep", 320), ("crash", 120)], coq=[], full=False),
    "C14": dict(streams=[("session", 240), ("kf", 120)], coq=[], full=False),
    "C15": dict(streams=[("usage", 400)], coq=[], full=False),
    "C16": dict(streams=[("usage", 400)], coq=[], full=False),
    "C17": dict(streams=[("malformed", 320), ("kf", 120)], coq=[], full=False),
    "C18": dict(streams=[("two-app", 160), ("usage", 160)], coq=[], full=False),
    "C19": DBP.C19,
    "C20": DBP.C20,
}

# which Coq property files decide which property, and whether the full statement is proved
import proofmap as PM
for _pid, _info in PM.PROOFS.items():
    if _pid in PROPS and isinstance(PROPS[_pid], dict) and PROPS[_pid].get("engine") != "dbfiles":
        PROPS[_pid].update(_info)

# scripted focus streams (scripts.py) and two-run (metamorphic) monitors on the real code
# (metamorphic.py): the `extra` hook of check.check_property
PROPS["C04"]["streams"] = PROPS["C04"]["streams"] + [("holes", 64)]
import scripts as _SCR
PROPS["C04"]["extra"] = _SCR.extra_C04          # every single hole k in 1..999
PROPS["C17"]["streams"] = PROPS["C17"]["streams"] + [("discipline", 120), ("unicode", 48)]
PROPS["C03"]["streams"] = PROPS["C03"]["streams"] + [("reincarnate", 160)]   # (with and without a usage database)
PROPS["C07"]["streams"] = PROPS["C07"]["streams"] + [("crowd", 120), ("kf", 80)]
PROPS["C08"]["streams"] = PROPS["C08"]["streams"] + [("restart", 160)]
# scale streams (scripts.py): sizes, counts and ages far beyond the random walk's
for _pid, _l in {"C01": [("scale-msgs", 5), ("reuse-after-prune", 32)], "C02": [("scale-apps", 3), ("scale-msgs", 5), ("scale-subs", 2), ("stale-ns", 24), ("reuse-after-prune", 24)],
                 "C03": [("stale-ns", 32), ("np-cross", 48)],
                 "C04": [("scale-name", 3)], "C05": [("scale-time", 5), ("late-sweep", 48), ("sweep", 120), ("crowd-retry", 64), ("reuse-after-prune", 32)], "C06": [("scale-apps", 3)],
                 "C07": [("scale-time", 5), ("np-cross", 48)], "C08": [("reuse-after-prune", 32)], "C11": [("scale-apps", 3), ("stale-ns", 24), ("reuse-after-prune", 32)], "C12": [("scale-subs", 4), ("scale-time", 5), ("late-sweep", 48), ("stale-ns", 24), ("dst", 6)],
                 "C13": [("scale-msgs", 5), ("kf-q", 120), ("two-app", 80), ("dst", 6)], "C15": [("scale-time", 5)], "C17": [("scale-name", 3), ("scale-subs", 2)]}.items():
    PROPS[_pid]["streams"] = PROPS[_pid]["streams"] + _l
for _pid in ("C01", "C02", "C03", "C07", "C08", "C09", "C14"):
    PROPS[_pid]["streams"] = PROPS[_pid]["streams"] + [("pipeline", 32)]
for _pid in ("C01", "C02", "C06", "C08", "C11", "C13", "C14", "C17"):
    PROPS[_pid]["streams"] = PROPS[_pid]["streams"] + [("lingering", 32)]
PROPS["C01"]["streams"] = PROPS["C01"]["streams"] + [("late-sweep", 32)]
for _pid in ("C03", "C04", "C07"):
    PROPS[_pid]["streams"] = PROPS[_pid]["streams"] + [("warm-order", 32)]
for _pid in ("C15", "C17", "C08"):
    PROPS[_pid]["streams"] = PROPS[_pid]["streams"] + [("moods", 32)]
import metamorphic as MM
for _pid in MM.CHECKS:
    PROPS[_pid]["extra"] = MM.extra(_pid)

# the lock stream (faults.py): real database-lock faults; monitor-only
import faults as _FL
for _pid in ("C02", "C03", "C07", "C08", "C09", "C13", "C14", "C15", "C16"):
    PROPS[_pid]["extra"] = _FL.chain(PROPS[_pid]["extra"], _FL.extra(_pid)) if PROPS[_pid].get("extra") else _FL.extra(_pid)

# harness validity (validity.py): real kills vs simulated crashes (C10), real loopback WebSockets vs direct calls (C17 C02)
import validity as _VAL
PROPS["C10"]["extra"] = _FL.chain(PROPS["C10"]["extra"], _VAL.extra_kill)
PROPS["C17"]["extra"] = _FL.chain(PROPS["C17"]["extra"], _VAL.extra_loopback)
PROPS["C02"]["extra"] = _FL.chain(PROPS["C02"]["extra"], _VAL.extra_loopback) if PROPS["C02"].get("extra") else _VAL.extra_loopback
PROPS["C17"]["extra"] = _FL.chain(PROPS["C17"]["extra"], _VAL.extra_closing)
PROPS["C02"]["extra"] = _FL.chain(PROPS["C02"]["extra"], _VAL.extra_closing)

STALE_PROPS = ("C02", "C11", "C12", "C13")

KF_MANIFEST = {"1": "IntegrityError", "2": "crowded", "3": "ValueError"}


def proof_status(pid, bst, tier="quick"):
    """are the Coq obligations behind this property built from the current sources?"""
    spec = PROPS[pid]
    broken = []
    if bst.get("forbidden"):
        broken.append("forbidden constructs: %s" % bst["forbidden"][:5])
    if not bst.get("gen", {}).get("ok", True):
        broken.append("instance generation failed: %s" % bst["gen"].get("error"))
    if spec.get("engine") != "dbfiles" and not bst.get("selfcheck", {}).get("ok", True):
        broken.append("extracted model runner disagrees with vm_compute inside Coq: %s"
                      % str(bst.get("selfcheck", {}).get("error"))[-300:])
    files = set()
    for f in spec.get("coq", []):
        for d in B.cone(f):
            files.add(d)
    # the executable model itself is an obligation of every property (the database.py
    # model of the dbfiles engine is evaluated inside Coq, not extracted)
    if spec.get("engine") != "dbfiles":
        for d in B.cone("theories/Extract.v"):
            files.add(d)
    obligations = 0
    discharged = 0
    names = []
    for f in sorted(files):
        st = B.statements(f)
        obligations += len(st)
        if bst["built"].get(f):
            discharged += len(st)
        else:
            broken.append("%s does not compile" % f)
    assumptions = {}
    for f in spec.get("coq", []):
        names += B.statements(f)
        if bst["built"].get(f):
            rc, out = B.print_assumptions(f)
            assumptions[f] = out.strip()
            if tier == "thorough":
                # independent re-check of the compiled files (coqchk) + its own list of axioms
                chk = B.coqchk(f, bst.get("hash", "nohash"))
                assumptions[f + " [coqchk -o]"] = chk.strip()
                if not chk.startswith("exit=0") or "* Axioms: <none>" not in chk:
                    broken.append("coqchk does not accept %s or reports axioms: %s" % (f, chk[:300]))
            if rc != 0:
                broken.append("%s fails when compiled alone" % f)
            elif "Axioms:" in out and not spec.get("axioms_ok"):
                broken.append("%s depends on axioms: %s" % (f, out[out.index("Axioms:"):][:300]))
    return {"ok": not broken, "broken": broken, "obligations": obligations, "discharged": discharged,
            "theorems": names, "assumptions": assumptions, "files": sorted(files),
            "summary": "%d/%d statements, %d property theorems" % (discharged, obligations, len(names))}


def evaluate(pid, results, known_for):
    """failures of this property among the analysed histories"""
    st = {"histories": 0, "events": 0, "failures": [], "known_lines": [], "nontrivial": 0,
          "kinds": Counter(), "samples": [], "agree": 0, "kf_seen": Counter(), "profiles": Counter()}
    for r in results:
        st["profiles"][r.get("profile")] += 1
        if "harness_error" in r:
            st["failures"].append(("harness", r, r["harness_error"][-1500:]))
            continue
        st["histories"] += 1
        st["events"] += r.get("n_events", 0)
        st["nontrivial"] += r.get("nontrivial", {}).get(pid, 0)
        for k, v in r.get("kinds", {}).items():
            st["kinds"][k] += v
        for k, v in r.get("kf_manifest", {}).items():
            st["kf_seen"][k] += v
        if pid in r.get("mon", {}):
            st["failures"].append(("monitor", r, r["mon"][pid]))
        elif r.get("div") and pid in S.props_of_tags(r["div"]["tags"]):
            d = dict(r["div"])
            st["failures"].append(("correspondence", r, d))
        elif r.get("stale") and pid in STALE_PROPS:
            st["failures"].append(("correspondence", r, {"tags": ["object-graph"], "stale": r["stale"]}))
        elif r.get("meta", {}).get(pid):
            st["failures"].append(("monitor", r, r["meta"][pid]))
        else:
            if not r.get("div") and not r.get("no_model"):
                st["agree"] += 1      # (two-run results compare code with code, not with the model)
        if len(st["samples"]) < 2 and r.get("sample"):
            st["samples"].append(r["sample"])
    # monitor failures first, shortest history first
    order = {"monitor": 0, "correspondence": 1, "harness": 2}
    st["failures"].sort(key=lambda f: (order[f[0]], f[1].get("n_events", 0)))
    for f in known_for:
        trig = f.get("trigger", "")
        n = st["kf_seen"].get(trig[2:], 0) if trig.startswith("kf") else 0
        if n:
            st["known_lines"].append("%s: %s (reproduced %d times in this run)" % (f.get("id"), f.get("what"), n))
    return st


ASSUME_HISTORY = [
    "SQLite 3.40 atomic commit, statement atomicity, immediate PK/FK enforcement, AUTOINCREMENT, BINARY text comparison (modelled in Store.v; observed through a second reader)",
    "Python sqlite3 implicit-transaction rule; Twisted LoopingCall/TimerService schedule (driven for real with MemoryReactorClock)",
    "autobahn framing/handshake bypassed: onConnect/onOpen/onMessage/onClose are called directly; one reactor turn (advance(0) of the service's "
    "MemoryReactorClock, which is also the factory's reactor) passes after every event unless the event is tagged same_turn",
    "os.urandom draws are pairwise distinct (fresh_oracle); random.choice/randrange may return anything in range",
    "times are dyadic rationals (multiples of 1/8 s) on which float arithmetic is exact",
    "correspondence model<->code is differential testing (finite, seed-dependent), not proof",
    "the harness's own simulations are re-validated per run: a simulated crash (exception out of commit, rollback, reopen) against a real "
    "os._exit kill in a forked child (validity.py, part of C10), direct onOpen/onMessage/onClose calls against real loopback WebSocket "
    "connections (loopback.py, part of C17 and C02); one difference is known: when an exception escapes a handler autobahn aborts the "
    "transport, so the ack written just before may not reach the client",
    "database-lock faults (faults.py: a real second sqlite connection holding a SHARED or RESERVED lock) have no counterpart in the model: "
    "those histories are monitor-only",
]


def evidence(pid, tier, seed, bst, proof, stats, streams_used, wall, nviol):
    spec = PROPS[pid]
    full = spec.get("full") and proof["ok"] and spec.get("coq")
    level = "proof" if full else "other"
    cov = {
        "obligations": proof["obligations"],
        "discharged": proof["discharged"],
        "checker_cmd": "cd /verif/coq && coq_makefile -f _CoqProject -o Makefile && make -j16   (coqc 8.16.1, full .vo build; Print Assumptions under every property theorem)",
        "trusted_base": [
            "Coq 8.16.1 kernel (coqc; vm_compute used; no native_compute)",
            "axioms per Print Assumptions: " + (json.dumps(proof["assumptions"]) if proof["assumptions"] else "no property file yet"),
            "extraction: ExtrOcamlBasic only (bool option unit list prod sumbool sumor; andb orb inlined); ocaml/driver.ml string conversion; "
            "validated on this build against vm_compute inside Coq (harness/selfcheck.py): %s" % json.dumps(bst.get("selfcheck")),
            "harness/gen_instances.py (constants by ast, SQL scripts by statement classifier), fail-closed",
            "correspondence check harness/*.py (differential testing against /repo/src)",
        ] + ASSUME_HISTORY if not spec.get("trusted") else [
            "axioms per Print Assumptions: " + json.dumps(proof["assumptions"])] + spec["trusted"] + spec["assumptions"],
        "theorems": proof["theorems"],
        "files": proof["files"],
        "traces_validated_against_impl": stats["agree"],
        "evaluations": max(1, stats["events"]),
        "distinct_nontrivial": stats["nontrivial"],
        "rule": spec.get("rule", "a history is generated adaptively against the real server (seeded); evaluations = events executed on "
                         "the real code and the model; distinct_nontrivial = number of distinct (history, event position[, "
                         "object]) points, counted by the property's monitor while it ran, at which the situation the property "
                         "speaks about actually occurred (e.g. for C01 an open that replayed at least one stored message, for "
                         "C09 a frame whose emission was checked against the second reader, for C12 a mailbox examined at a "
                         "sweep) -- positions are distinct by construction; identical-looking situations at different points "
                         "of different histories are counted separately"),
        "samples": stats["samples"] or [{"note": "no sample kept"}],
        "streams": [{"name": n, "histories": k} for n, k in streams_used],
        "distribution": dict(stats["kinds"]),
        "known_findings_reproduced": dict(stats["kf_seen"]),
        "instance_files": bst.get("gen", {}).get("files"),
        "explanation": spec.get("explanation",
                                "Executable Gallina model of the server (coq/theories) tied to /repo by differential "
                                "correspondence on generated histories, plus the property's monitor on the "
                                "implementation traces. Theorems proved so far for this property: %s. %s"
                                % (", ".join(proof["theorems"]) or "none yet",
                                   spec.get("missing", "The full history-level theorem is not proved yet, hence level `other`."))),
    }
    return {"property_id": pid, "tier": tier if tier in ("quick", "thorough") else "quick", "seed": seed,
            "level": level, "coverage": cov, "assumptions": spec.get("assumptions", ASSUME_HISTORY), "wall_s": round(wall, 2),
            "violations": nviol}
