"""runner.py -- run one history on the real code, then on the model; compare."""
import os, sys, json
HERE = os.path.dirname(os.path.abspath(__file__))
sys.path.insert(0, HERE)
import world as WORLD
import trace as T


def run_impl(cfg, events, seed=0, t0=None):
    """events: list of event dicts (static history).  Returns (lines, observations)."""
    w = WORLD.World(cfg, seed=seed, t0=t0)
    try:
        lines = [T.encode_cfg(cfg, w.EXP, w.PERIOD, w.t0)]
        obs = []
        o0 = w.observe(boot=None)
        obs.append(o0)
        for ev in events:
            base = ev["e"] if ev["k"] == "crash" else ev
            if base["k"] in ("cmd", "disconnect") and base["c"] not in w.conns:
                continue      # (only in shrunk histories) refers to a connection that is not there
            if base["k"] == "connect" and base["c"] in w.conns:
                continue
            o = w.do_event(ev)
            obs.append(o)
            lines.append(T.encode_event(ev, o["oracle"]))
        return lines, obs
    finally:
        w.close()


def run_static(cfg, events, seed=0):
    """static replay; returns a history dict (events = those actually run)"""
    w = WORLD.World(cfg, seed=seed)
    try:
        lines = [T.encode_cfg(cfg, w.EXP, w.PERIOD, w.t0)]
        obs = [w.observe(boot=None)]
        ran = []
        for ev in events:
            base = ev["e"] if ev["k"] == "crash" else ev
            if base["k"] in ("cmd", "disconnect") and base["c"] not in w.conns:
                continue
            if base["k"] == "connect" and base["c"] in w.conns:
                continue
            o = w.do_event(ev)
            ev = dict(ev)
            if base["k"] == "cmd":
                ev["oracle"] = {"urandom": [[n, b.hex()] for (n, b) in o["oracle"]["urandom"]],
                                "choice": list(o["oracle"]["choice"]),
                                "randrange": [list(x) for x in o["oracle"]["randrange"]]}
            ran.append(ev)
            obs.append(o)
            lines.append(T.encode_event(ev, o["oracle"]))
        return {"cfg": cfg, "seed": seed, "events": ran, "obs": obs, "lines": lines}
    finally:
        w.close()


def compare(lines, impl_obs, model_obs):
    """first divergence: (index, components, impl canon, model canon) or None"""
    mo = T.expand_model(model_obs)
    if len(mo) != len(impl_obs):
        return (min(len(mo), len(impl_obs)), ["length"], None, None)
    for i, (oi, om) in enumerate(zip(impl_obs, mo)):
        ci = T.canon(oi, False)
        cm = T.canon(om, True)
        if i == 0:
            # the boot observation: the harness does not keep the boot log of the very first start
            ci["boot"] = cm["boot"]
        d = T.diff(ci, cm)
        if d:
            return (i, d, ci, cm)
    return None


if __name__ == "__main__":
    cfg = {"allow_list": True, "usage": True, "blur": None}
    def cmd(c, **m): return {"k": "cmd", "c": c, "msg": m}
    evs = [{"k": "connect", "c": 1}, cmd(1, type="bind", appid="app", side="s1", id="x"),
           cmd(1, type="allocate"), cmd(1, type="claim", nameplate="1"),
           cmd(1, type="open", mailbox="mb1"), cmd(1, type="add", phase="p", body="b"),
           {"k": "connect", "c": 2}, cmd(2, type="bind", appid="app", side="s2"),
           cmd(2, type="open", mailbox="mb1"), cmd(2, type="list"),
           {"k": "advance", "dt": 2400, "fault": False},
           cmd(1, type="close", mood="happy"), cmd(2, type="close", mood="scary"),
           {"k": "restart"},
           {"k": "advance", "dt": 2400 * 3, "fault": False},
           {"k": "advance", "dt": 2400, "fault": True},
           {"k": "advance", "dt": 2400, "fault": False}]
    lines, obs = run_impl(cfg, evs)
    mo = T.run_model([lines])[0]
    r = compare(lines, obs, mo)
    print("\n".join(lines))
    if r:
        i, d, ci, cm = r
        print("DIVERGE at", i, d)
        for k in d:
            if ci: print(" impl ", k, json.dumps(ci[k])); print(" model", k, json.dumps(cm[k]))
    else:
        print("agree on", len(obs), "observations")
