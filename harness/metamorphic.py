"""metamorphic.py -- two-run (metamorphic) monitors on the REAL code (DESIGN.md section 7:
C06 C10(d) C11 C14 C17 C18).  Each check takes a history generated adaptively against the real
server, builds a variant (a duplicated command, other apps' commands removed, the server kept
instead of restarted, another configuration, a crashed command re-sent, erroneous commands
removed), runs BOTH on the real code and compares what the property says must agree.  The model
is consulted only for the known-finding triggers (`kf` per event).  A difference is a concrete
failing input of the property: it is reported under r["meta"][pid] with both event lists, and
`./check replay <file>` re-runs the pair.

Events are tagged with `_id` so that observations of the two runs are aligned by event identity,
not by list position (an event whose connection is gone is skipped by the driver).
"""
import os, sys, json, random, time, hashlib, fcntl, traceback, multiprocessing
from collections import Counter
HERE = os.path.dirname(os.path.abspath(__file__))
VERIF = os.path.dirname(HERE)
sys.path.insert(0, HERE)

import world as WORLD
import trace as T
import monitors as M

CACHE = os.path.join(VERIF, ".cache")
H = M.H
unhex = M.unhex


# ---------------------------------------------------------------------- running
def tag(events):
    return [dict(ev, _id=i) for i, ev in enumerate(events)]


def untag(events):
    return [{k: v for k, v in ev.items() if k != "_id"} for ev in events]


class Run(object):
    def __init__(self):
        self.obs0 = None
        self.steps = []       # [(event as run (with recorded oracle), observation)]
        self.by_id = {}       # _id -> observation
        self.ev_by_id = {}
        self.lines = None
        self.skipped = []

    def hist(self, cfg):
        return {"cfg": cfg, "events": [e for e, _ in self.steps], "obs": [self.obs0] + [o for _, o in self.steps]}

    def index_of(self, _id):
        for i, (e, _) in enumerate(self.steps):
            if e.get("_id") == _id:
                return i
        return None


def base_of(ev):
    return ev["e"] if ev["k"] == "crash" else ev


def run(cfg, events, seed, lines=False, stop_after=None):
    """run a static (tagged) history on the real code"""
    w = WORLD.World(cfg, seed=seed)
    r = Run()
    try:
        r.obs0 = w.observe()
        if lines:
            r.lines = [T.encode_cfg(cfg, w.EXP, w.PERIOD, w.t0)]
        for ev in events:
            b = base_of(ev)
            if b["k"] in ("cmd", "disconnect") and b["c"] not in w.conns:
                r.skipped.append(ev.get("_id"))
                continue
            if b["k"] == "connect" and b["c"] in w.conns:
                r.skipped.append(ev.get("_id"))
                continue
            o = w.do_event(ev)
            ev2 = dict(ev)
            if b["k"] == "cmd":
                ev2["oracle"] = {"urandom": [[n, x.hex()] for (n, x) in o["oracle"]["urandom"]],
                                 "choice": list(o["oracle"]["choice"]),
                                 "randrange": [list(x) for x in o["oracle"]["randrange"]]}
            r.steps.append((ev2, o))
            if "_id" in ev:
                r.by_id[ev["_id"]] = o
                r.ev_by_id[ev["_id"]] = ev2
            if lines:
                r.lines.append(T.encode_event(ev2, o["oracle"]))
            if stop_after is not None and ev.get("_id") == stop_after:
                break
        return r
    finally:
        w.close()


def model_kf(list_of_lines):
    """known-finding triggers per event according to the model, for several histories at once"""
    out = []
    if not list_of_lines:
        return out
    for mo in T.run_model(list_of_lines):
        mo = T.expand_model(mo)
        out.append([o.get("kf", []) for o in mo[1:]])
    return out


# ---------------------------------------------------------------------- views and comparison
def v_frames(o, opts):
    drop = set(opts.get("drop", ()))
    only = opts.get("only")
    out = []
    for e in T._canon_log(o["log"]):
        if e[0] != "F" or e[1] in drop or (only is not None and e[1] not in only):
            continue
        f = [e[1]] + list(e[3:])           # without the committed-at-emission flag (C09's business)
        if opts.get("mask_nameplates") and e[3] == "nameplates":
            f = [e[1], "nameplates"]
        out.append(f)
    return out


def v_chan(o, opts):
    c = o["chan"]
    mask = set(opts.get("mask_updated", ()))
    if not mask:
        return c
    c = dict(c)
    c["mb"] = [[r[0], r[1], ("*" if r[1] in mask else r[2]), r[3]] for r in c["mb"]]
    return c


def v_chan_app(o, opts):
    """rows of one app; nameplates.id renamed order-preservingly (the counter is global, not client-visible)"""
    a = opts["app"]
    c = o["chan"]
    nps = sorted([r for r in c["np"] if r[1] == a], key=lambda r: r[0])
    ren = {r[0]: i for i, r in enumerate(nps)}
    mids = set(r[1] for r in c["mb"] if r[0] == a)
    return {"np": [[ren[r[0]]] + list(r[1:]) for r in nps],
            "nps": [[ren[r[0]]] + list(r[1:]) for r in c["nps"] if r[0] in ren],
            "mb": [r for r in c["mb"] if r[0] == a],
            "mbs": [r for r in c["mbs"] if r[0] in mids],
            "msg": [r for r in c["msg"] if r[0] == a]}


def v_usage(o, opts):
    u = o["usage"]
    return {k: sorted(json.dumps(r) for r in u[k]) for k in ("np", "mb", "cv")}


def v_usage_app(o, opts):
    a = opts["app"]
    u = o["usage"]
    return {k: sorted(json.dumps(r) for r in u[k] if r[0] == a) for k in ("np", "mb", "cv")}


def v_subs(o, opts):
    drop = set(opts.get("drop", ()))
    if o["subs"] and o["subs"][0] and o["subs"][0][0] == "unreadable":
        return "unreadable"
    return sorted(json.dumps(s) for s in o["subs"] if s[2] not in drop)


def v_alloc(o, opts):
    """what the allocator offered to random.choice / asked of random.randrange"""
    orc = o.get("oracle") or {}
    return {"choice_from": orc.get("choice_from", []), "randrange": [list(x[:2]) for x in orc.get("randrange", [])]}


VIEWS = {"alloc": v_alloc, "frames": v_frames, "chan": v_chan, "chan_app": v_chan_app, "usage": v_usage,
         "usage_app": v_usage_app, "subs": v_subs, "exc": lambda o, opts: o["exc"]}


def describe_diff(part, va, vb):
    if isinstance(va, dict) and isinstance(vb, dict):
        d = {}
        for k in sorted(set(va) | set(vb)):
            if va.get(k) != vb.get(k):
                xa, xb = va.get(k), vb.get(k)
                if isinstance(xa, list) and isinstance(xb, list):
                    sa = [json.dumps(r) for r in xa]
                    sb = [json.dumps(r) for r in xb]
                    d[k] = {"only_base": [r for r in sa if r not in sb][:6], "only_variant": [r for r in sb if r not in sa][:6]}
                    if not d[k]["only_base"] and not d[k]["only_variant"]:
                        d[k] = {"order": [sa[:8], sb[:8]]}
                else:
                    d[k] = {"base": xa, "variant": xb}
        return d
    return {"base": va, "variant": vb}


def diff_runs(a, b, ids, parts, opts):
    """first difference between two runs over the events `ids` (aligned by _id)"""
    for j in ids:
        oa, ob = a.by_id.get(j), b.by_id.get(j)
        if oa is None and ob is None:
            continue
        if (oa is None) != (ob is None):
            return {"event_id": j, "part": "executed",
                    "what": "event ran in the %s run only (its connection was dropped in the other)" % ("base" if ob is None else "variant"),
                    "event": a.ev_by_id.get(j) or b.ev_by_id.get(j)}
        for p in parts:
            va, vb = VIEWS[p](oa, opts), VIEWS[p](ob, opts)
            if p == "frames" and j in opts.get("prefix_frames", ()) and (va[:len(vb)] == vb or vb[:len(va)] == va):
                continue
            if va != vb:
                ev = {k: v for k, v in a.ev_by_id[j].items() if k != "oracle"}
                return {"event_id": j, "part": p, "event": ev, "difference": describe_diff(p, va, vb)}
    return None


def ids_after(events, _id):
    out = []
    seen = False
    for ev in events:
        if seen and isinstance(ev.get("_id"), int):
            out.append(ev["_id"])
        if ev.get("_id") == _id:
            seen = True
    return out


def fresh_conn(events, k=1):
    return k + max([base_of(ev).get("c", 0) for ev in events if base_of(ev).get("c") is not None] + [0])


def conn_row(o, c):
    for r in o["conns"]:
        if r[0] == c:
            return r
    return None


def detail(pid, what, cfg, seed, base, var, cmp_ids, parts, opts, diff, var_cfg=None, extra=None):
    d = {"meta": pid, "what": what, "cfg": cfg, "variant_cfg": var_cfg if var_cfg is not None else cfg, "seed": seed,
         "base_events": base, "variant_events": var,
         "compare": {"ids": cmp_ids, "parts": parts, "opts": opts}, "first_difference": diff}
    if extra:
        d.update(extra)
    return d


def replay_detail(d, runs=None):
    """re-run a reported pair; returns the first difference (or None)"""
    if d.get("single_run"):
        out, _nt = single_run_violation(d["single_run"], d["variant_cfg"], d["variant_events"], d.get("seed") or 0)
        return out
    a = run(d["cfg"], d["base_events"], d.get("seed") or 0)
    b = run(d["variant_cfg"], d["variant_events"], d.get("seed") or 0)
    if runs is not None:
        runs[:] = [a, b]
    c = d["compare"]
    out = diff_runs(a, b, c["ids"], c["parts"], c["opts"])
    if out is None and d.get("final_ids"):
        ia, ib = d["final_ids"]
        if ia in a.by_id and ib in b.by_id:
            va, vb = v_chan(a.by_id[ia], c["opts"]), v_chan(b.by_id[ib], c["opts"])
            if va != vb:
                out = {"part": "chan", "difference": describe_diff("chan", va, vb)}
    if out is None and d.get("answer_ids"):
        ia, ib = d["answer_ids"]
        fa = answer_of(a.by_id[ia], base_of(a.ev_by_id[ia]).get("c"), None) if ia in a.by_id else None
        fb = answer_of(b.by_id[ib], base_of(b.ev_by_id[ib]).get("c"), None) if ib in b.by_id else None
        if fa != fb or (b.by_id.get(ib) or {}).get("exc") != (a.by_id.get(ia) or {}).get("exc"):
            out = {"answers": {"base": fa, "variant": fb}}
    return out


# ---------------------------------------------------------------------- shrinking a failing pair
def _still_an_instance(d, a, b):
    """is the reduced pair still an instance of the property's relation?  (conservative)"""
    for r in (a, b):
        for _e, o in r.steps:
            if o["exc"] is not None:
                return False        # escaped exceptions leave writes pending: known-finding territory
    pid = d["meta"]
    if pid == "C17":
        for j in d.get("removed_events", []):
            o = a.by_id.get(j)
            if o is None or not any(e[0] == "F" and e[3] == "error" and e[4] == "other" for e in o["log"]):
                return False        # the removed command must still be an erroneous one
    if pid == "C14":
        i = d["duplicated_event"]
        o, od = a.by_id.get(i), b.by_id.get("dup")
        if o is None or od is None:
            return False
        c = base_of(a.ev_by_id[i]).get("c")
        if answer_of(o, c, None) != d.get("original_answer"):
            return False            # the original must still be answered as it was
        pre = b.by_id.get("dup-bind")
        if pre is None:
            return False
        count = Counter(r[0] for r in pre["chan"]["mbs"])
        if any(n > 2 for n in count.values()):
            return False            # a crowded mailbox somewhere: KF2 territory
        dup = d["duplicate"]
        if dup.get("type") == "close" and not d["compare"]["opts"].get("mask_updated"):
            now = o["now"]
            if any(r[1] == H(dup["mailbox"]) and r[2] < now for r in o["chan"]["mb"]):
                return False        # KF4 would apply to the reduced history
    return True


def shrink_pair(d, budget=60):
    """delta debugging over the events common to both runs (removed from both by _id); the reduced
    pair must still differ and still be an instance of the relation"""
    if d.get("single_run"):
        return shrink_single(d, budget)
    if d.get("meta") not in ("C06", "C11", "C14", "C17", "C18") or not d.get("compare", {}).get("ids"):
        return d
    protected = set(d.get("removed_events", [])) | {d.get("duplicated_event")}

    def reduced(remove):
        rs = set(remove)
        d2 = dict(d)
        d2["base_events"] = [ev for ev in d["base_events"] if ev.get("_id") not in rs]
        d2["variant_events"] = [ev for ev in d["variant_events"] if ev.get("_id") not in rs]
        c = dict(d["compare"])
        c["ids"] = [j for j in c["ids"] if j not in rs]
        d2["compare"] = c
        return d2

    def test(remove):
        d2 = reduced(remove)
        runs = []
        try:
            out = replay_detail(d2, runs)
        except Exception:
            return None
        if out is None or not _still_an_instance(d2, runs[0], runs[1]):
            return None
        d2["first_difference"] = out
        return d2

    tries = [0]
    best = d
    # 1. nothing after the first difference matters
    at = d.get("first_difference", {}).get("event_id")
    order = [ev.get("_id") for ev in d["base_events"]]
    order_v = [ev.get("_id") for ev in d["variant_events"]]
    if at in order_v or at in order:
        tail = set(order[order.index(at) + 1:] if at in order else []) | set(order_v[order_v.index(at) + 1:] if at in order_v else [])
        tail -= protected
        got = test(tail) if tail else None
        tries[0] += 1
        if got is not None:
            best = got
    removed = set(ev for ev in order + order_v) - set(ev.get("_id") for ev in best["base_events"]) - set(ev.get("_id") for ev in best["variant_events"])
    # 2. ddmin over the remaining common integer-tagged events
    cur = [j for j in (ev.get("_id") for ev in best["base_events"]) if isinstance(j, int) and j not in protected
           and any(ev.get("_id") == j for ev in best["variant_events"])]
    n = 2
    while len(cur) >= 2 and tries[0] < budget:
        size = max(1, len(cur) // n)
        progress = False
        for start in range(0, len(cur), size):
            chunk = cur[start:start + size]
            tries[0] += 1
            got = test(removed | set(chunk))
            if got is not None:
                best = got
                removed |= set(chunk)
                cur = [j for j in cur if j not in chunk]
                n = max(n - 1, 2)
                progress = True
                break
            if tries[0] >= budget:
                break
        if not progress:
            if size == 1:
                break
            n = min(len(cur), n * 2)
    if best is not d:
        best["shrunk_from"] = [len(d["base_events"]), len(d["variant_events"])]
    return best


def shrink_single(d, budget=60):
    """delta debugging over the events of a single-run failure"""
    pid = d["single_run"]
    cur = list(d["variant_events"])
    best_diff = d.get("first_difference")
    n, tries = 2, 0
    while len(cur) >= 2 and tries < budget:
        size = max(1, len(cur) // n)
        progress = False
        for start in range(0, len(cur), size):
            cand = cur[:start] + cur[start + size:]
            tries += 1
            try:
                out, _nt = single_run_violation(pid, d["variant_cfg"], cand, d.get("seed") or 0)
            except Exception:
                out = None
            if out is not None:
                cur, best_diff = cand, out
                n = max(n - 1, 2)
                progress = True
                break
            if tries >= budget:
                break
        if not progress:
            if size == 1:
                break
            n = min(len(cur), n * 2)
    d2 = dict(d)
    d2["variant_events"] = cur
    d2["base_events"] = [ev for ev in cur if ev.get("k") != "tick"]
    d2["first_difference"] = best_diff
    d2["shrunk_from"] = [len(d["base_events"]), len(d["variant_events"])]
    return d2


def replay_main(p):
    """./check replay <file> for a two-run failure"""
    d = p["detail"]
    print("property:", p.get("property"), "kind: two-run (%s)" % d.get("meta"))
    print("what:", d.get("what"))
    for name, evs, cfg in (("base (%s)" % d.get("base_is", "original history"), d["base_events"], d["cfg"]),
                           ("variant (%s)" % d.get("variant_is", "modified history"), d["variant_events"], d["variant_cfg"])):
        print("---- %s, cfg %s, %d events" % (name, json.dumps(cfg), len(evs)))
        if len(evs) <= 400:
            for ev in evs:
                print("   %s" % json.dumps({k: v for k, v in ev.items() if k != "oracle"}))
    if d.get("meta") == "C04-every-hole":
        print(json.dumps(d.get("first_difference"), indent=1))
        return 1
    out = replay_detail(d)
    print("recorded difference:", json.dumps(d.get("first_difference"), indent=1)[:3000])
    print("difference now:", json.dumps(out, indent=1)[:3000] if out else None)
    return 1 if out else 0


# ---------------------------------------------------------------------- C14: duplicate an acknowledged command
ANSWER = {"claim": "claimed", "release": "released", "close": "closed"}


def explicit_form(x, row=None):
    """the command as a reconnecting client would re-send it (names spelled out)"""
    msg = x.msg
    if row is None:
        row = conn_row(x.post, x.c)
    if x.mtype == "claim":
        n = msg.get("nameplate")
        return {"type": "claim", "nameplate": n} if isinstance(n, str) else None
    if x.mtype == "open":
        m = msg.get("mailbox")
        return {"type": "open", "mailbox": m} if isinstance(m, str) else None
    # (what the connection had claimed / opened comes from the commands it sent -- monitors.walk -- not from the
    # server's private per-connection attributes)
    if x.mtype == "release":
        n = msg.get("nameplate")
        if n is None:
            n = getattr(x, "named_np_pre", {}).get(x.c)
        return {"type": "release", "nameplate": n} if isinstance(n, str) else None
    if x.mtype == "close":
        m = msg.get("mailbox")
        if m is None:
            m = getattr(x, "named_mb_pre", {}).get(x.c)
        if not isinstance(m, str):
            return None
        d = {"type": "close", "mailbox": m}
        if "mood" in msg:
            d["mood"] = msg["mood"]
        return d
    return None


def answer_of(o, c, mtype):
    """the direct answer to a command, comparable between connections"""
    fs = [e for e in T._canon_log(o["log"]) if e[0] == "F" and e[1] == c]
    out = []
    for e in fs:
        if e[3] in ("ack", "welcome"):
            continue
        out.append(list(e[3:-1]))           # (without the send time stamp: answers are compared across instants)
    return out


def check_C14(h, rng, tier):
    cfg, seed = h["cfg"], h["seed"]
    base = tag(h["events"])
    br = run(cfg, base, seed)
    ctxs = M.walk(br.hist(cfg))
    stats = Counter()
    elig = {}
    for x in ctxs:
        if x.kind != "cmd" or x.crash or not x.ok or x.c not in x.bound_pre:
            continue
        if x.mtype not in ("claim", "release", "open", "close"):
            continue
        kinds = [f[3] for f in x.frames_c]
        if x.mtype in ANSWER and ANSWER[x.mtype] not in kinds:
            continue
        dup = explicit_form(x)
        if dup is None or not isinstance(x.ev.get("_id"), int):
            continue
        elig.setdefault(x.mtype, []).append((x, dup))
    per_type = 2 if tier == "quick" else 4
    chosen = []
    for t in sorted(elig):
        l = elig[t]
        rng.shuffle(l)
        chosen += l[:per_type]
    variants = []
    c2 = fresh_conn(base)      # (small: the model counts connection ids in unary)
    for x, dup in chosen:
        i = x.ev["_id"]
        app, side = x.bound_pre[x.c]
        ins = [{"k": "connect", "c": c2, "_id": "dup-connect"},
               {"k": "cmd", "c": c2, "msg": {"type": "bind", "appid": unhex(app), "side": unhex(side)}, "_id": "dup-bind"},
               {"k": "cmd", "c": c2, "msg": dup, "_id": "dup"},
               {"k": "disconnect", "c": c2, "_id": "dup-disconnect"}]
        if rng.random() < 0.5:
            # the re-sent command and whatever follows it arrive within one reactor turn
            ins = [dict(e, same_turn=True) for e in ins]
        var = base[:i + 1] + ins + base[i + 1:]
        vr = run(cfg, var, seed, lines=True)
        variants.append((x, dup, c2, var, vr))
    try:
        kfs = model_kf([v[4].lines for v in variants])
    except Exception:
        kfs = [None] * len(variants)
        stats["model-unavailable"] += 1
    nontrivial = 0
    for (x, dup, c2, var, vr), kf in zip(variants, kfs):
        i = x.ev["_id"]
        od = vr.by_id.get("dup")
        if od is None or kf is None:
            stats["dup-not-run"] += 1
            continue
        si = vr.index_of("dup")
        trig = set(kf[si]) if si is not None and si < len(kf) else set()
        ans_d = answer_of(od, c2, x.mtype)
        ans_o = answer_of(br.by_id[i], x.c, x.mtype)
        if trig & {1, 2} or any(a[0] == "error" and a[1] == "crowded" for a in ans_d):
            stats["skipped-known-finding"] += 1
            continue
        stats["dup:" + x.mtype] += 1
        nontrivial += 1
        what = None
        diff = None
        if od["exc"] is not None:
            what = "the re-sent %s failed internally (%s)" % (x.mtype, od["exc"])
            diff = {"answers": {"original": ans_o, "duplicate": "exception " + od["exc"]}}
        elif ans_d != ans_o:
            what = "the re-sent %s is answered differently from the original" % x.mtype
            diff = {"answers": {"original": ans_o, "duplicate": ans_d}}
        later = ids_after(base, i)
        opts = {"drop": [c2]}
        parts = ["frames", "exc", "chan", "subs"]
        if what is None:
            cmp_ids = [i] + later
            mb = H(dup["mailbox"]) if x.mtype == "close" else None
            now = x.post["now"]
            app = x.bound_pre[x.c][0]
            if mb is not None and any(r[0] == app and r[1] == mb and r[2] < now for r in x.post["chan"]["mb"]):
                # KF4 (known finding, trigger computed from the implementation's own rows): the mailbox
                # survives the original close and its `updated` is older than the current instant; the
                # re-sent close goes through open_mailbox() on the fresh connection and re-stamps it.
                # Everything except that one stamp is still compared, up to the first later event that
                # could run a sweep (whose outcome may legitimately depend on the stamp).
                stats["kf:4"] += 1
                opts["mask_updated"] = [mb]
                cmp_ids = [i]
                for ev in base[i + 1:]:
                    if ev["k"] in ("crash", "restart") or ev["k"] in ("advance", "sweep", "tick"):
                        break
                    cmp_ids.append(ev["_id"])
                later = cmp_ids[1:]
            diff = diff_runs(br, vr, cmp_ids, parts, opts)
            if diff is not None:
                if diff["part"] == "subs":
                    # prefer showing what a client can see / what is stored, if the history gets that far
                    d2 = diff_runs(br, vr, cmp_ids, ["frames", "exc", "chan"], opts)
                    if d2 is not None:
                        d2["subscriptions_differ_from_event"] = diff["event_id"]
                        diff = d2
                what = ("after %s was re-sent on a fresh connection of the same side, the history continues differently "
                        "(%s at event %s)" % (x.mtype, diff["part"], diff["event_id"]))
        if what is not None:
            return (detail("C14", what, cfg, seed, base, var, [i] + later, parts, opts, diff,
                           extra={"duplicated_event": i, "duplicate": dup, "answer_ids": [i, "dup"], "original_answer": ans_o}),
                    nontrivial, stats)
    # ---- the duplicate arrives LATER (the usual case: the client needs time to notice and reconnect).  The same
    # small clock step is put into both histories right after the original; the re-sent command then carries a
    # later arrival time.  A re-sent claim / open / close passes through open_mailbox() and re-stamps
    # `mailboxes.updated` of that one mailbox (the re-sent command IS activity: DupFactsLater.v states exactly
    # this; for close it is KF4): that one stamp is masked, everything else -- answers, every other row and
    # stamp (the sides' `added` times included), subscriptions, later answers -- must be equal, up to the first
    # later event that could run a sweep (whose outcome may legitimately depend on the stamp).
    later_chosen = [elig[t][k] for k in range(per_type // 2 or 1) for t in sorted(elig) if len(elig[t]) > k]
    for x, dup in later_chosen:
        i = x.ev["_id"]
        app, side = x.bound_pre[x.c]
        dt = rng.choice([1, 3, 8, 61])
        adv = {"k": "advance", "dt": dt, "fault": False, "_id": "later-adv"}
        ins = [{"k": "connect", "c": c2, "_id": "dup-connect"},
               {"k": "cmd", "c": c2, "msg": {"type": "bind", "appid": unhex(app), "side": unhex(side)}, "_id": "dup-bind"},
               {"k": "cmd", "c": c2, "msg": dup, "_id": "dup"},
               {"k": "disconnect", "c": c2, "_id": "dup-disconnect"}]
        base2 = base[:i + 1] + [adv] + base[i + 1:]
        var2 = base[:i + 1] + [adv] + ins + base[i + 1:]
        br2 = run(cfg, base2, seed)
        vr2 = run(cfg, var2, seed, lines=True)
        try:
            kf = model_kf([vr2.lines])[0]
        except Exception:
            stats["model-unavailable"] += 1
            continue
        od = vr2.by_id.get("dup")
        oa = vr2.by_id.get("later-adv")
        if od is None or oa is None or br2.by_id.get(i) is None:
            stats["dup-not-run"] += 1
            continue
        if oa["chan"] != br.by_id[i]["chan"]:
            stats["later:sweep-fired"] += 1      # the clock step happened to fire the timer and it deleted something
            continue
        si = vr2.index_of("dup")
        trig = set(kf[si]) if si is not None and si < len(kf) else set()
        ans_d = answer_of(od, c2, x.mtype)
        ans_o = answer_of(br2.by_id[i], x.c, x.mtype)
        if trig & {1, 2} or any(a[0] == "error" and a[1] == "crowded" for a in ans_d):
            stats["skipped-known-finding"] += 1
            continue
        stats["dup-later:" + x.mtype] += 1
        nontrivial += 1
        what = None
        diff = None
        opts = {"drop": [c2]}
        parts = ["frames", "exc", "chan", "subs"]
        mbs = []
        if x.mtype in ("open", "close") and isinstance(dup.get("mailbox"), str):
            mbs = [H(dup["mailbox"])]
        elif x.mtype == "claim":
            mbs = [a[1] for a in ans_o if a[0] == "claimed" and isinstance(a[1], str)]
        if od["exc"] is not None:
            what = "the %s re-sent %d ticks later failed internally (%s)" % (x.mtype, dt, od["exc"])
            diff = {"answers": {"original": ans_o, "duplicate": "exception " + od["exc"]}}
        elif ans_d != ans_o:
            what = "the %s re-sent %d ticks later is answered differently from the original" % (x.mtype, dt)
            diff = {"answers": {"original": ans_o, "duplicate": ans_d}}
        cmp_ids = ["later-adv"]
        for ev in base[i + 1:]:
            if ev["k"] in ("crash", "restart", "advance", "sweep", "tick"):
                break
            cmp_ids.append(ev["_id"])
        if what is None:
            opts["mask_updated"] = mbs
            diff = diff_runs(br2, vr2, cmp_ids, parts, opts)
            if diff is not None:
                what = ("after %s was re-sent %d ticks later on a fresh connection of the same side, the history continues "
                        "differently (%s at event %s) -- beyond the re-stamped `updated` of the mailbox concerned"
                        % (x.mtype, dt, diff["part"], diff["event_id"]))
        if what is not None:
            return (detail("C14", what, cfg, seed, base2, var2, cmp_ids, parts, opts, diff,
                           extra={"duplicated_event": i, "duplicate": dup, "answer_ids": [i, "dup"], "original_answer": ans_o,
                                  "later_by_ticks": dt}),
                    nontrivial, stats)
    return None, nontrivial, stats


# ---------------------------------------------------------------------- C06: remove the other apps' commands
def split_crashed_sweeps(events):
    """crash(n, advance|sweep) -> advance|sweep ; restart.  (Where inside a sweep the n-th commit falls
    depends on how many apps have rows, so a crash *inside* a sweep is not comparable between a
    history and its one-app projection; the sweep and the restart are.)"""
    out = []
    for ev in events:
        if ev["k"] == "crash" and ev["e"]["k"] in ("advance", "sweep"):
            out.append(dict(ev["e"], _id=ev["_id"]))
            out.append({"k": "restart", "_id": "%s-restart" % ev["_id"]})
        else:
            out.append(ev)
    return out


def app_map(ctxs):
    """connection -> app (hex) of its first successful bind"""
    app_of = {}
    for x in ctxs:
        for c, (a, _s) in x.bound_post.items():
            app_of.setdefault(c, a)
    for x in ctxs:
        # a connection whose only bind was cut short by a crash still belongs to that app
        if x.crash and x.kind == "cmd" and x.mtype == "bind" and x.c not in app_of \
           and isinstance(x.msg.get("appid"), str) and isinstance(x.msg.get("side"), str):
            app_of[x.c] = H(x.msg["appid"])
    return app_of


def event_app(ev, app_of):
    b = base_of(ev)
    c = b.get("c")
    if c is None:
        return None
    return app_of.get(c)


def check_C06(h, rng, tier):
    cfg, seed = h["cfg"], h["seed"]
    stats = Counter()
    base = split_crashed_sweeps(tag(h["events"]))
    br = run(cfg, base, seed, lines=True)
    try:
        kf = model_kf([br.lines])[0]
    except Exception:
        stats["model-unavailable"] += 1
        return None, 0, stats
    ctxs = M.walk(br.hist(cfg))
    app_of = app_map(ctxs)
    apps = sorted(set(app_of.values()))
    # KF1 (known finding): a client naming a mailbox id that exists under another app fails internally.
    # That is a difference for the *intruding* app only (alone, its command would succeed): its projection
    # is not compared.  The app that owns the mailbox must not notice anything, finding or no finding.
    intruders = set()
    for (ev, _o), k in zip(br.steps, kf):
        if 1 in k:
            intruders.add(event_app(ev, app_of))
    if None in intruders:
        stats["skipped-kf1"] += 1
        return None, 0, stats
    if intruders:
        stats["kf1-intruder-projection-skipped"] += len(intruders)
    if len(apps) < 2:
        stats["single-app"] += 1
        return None, 0, stats
    nontrivial = 0
    apps = [a for a in apps if a not in intruders]
    for B in apps:
        var = []
        removed = 0
        for ev in base:
            b = base_of(ev)
            if b["k"] in ("connect", "cmd", "disconnect"):
                a = event_app(ev, app_of)
                if a == B:
                    var.append(ev)
                elif ev["k"] == "crash":
                    var.append({"k": "restart", "_id": ev["_id"]})    # the process still dies and restarts
                    removed += 1
                else:
                    removed += 1
            else:
                var.append(ev)
        if not removed:
            continue
        vr = run(cfg, var, seed)
        ids = [ev["_id"] for ev in var]
        conns = sorted(c for c, a in app_of.items() if a == B)
        opts = {"only": conns, "app": B}
        parts = ["frames", "chan_app", "usage_app"]
        stats["projections"] += 1
        if any(r[0] == B for _e, o in br.steps for r in o["chan"]["mb"]):
            nontrivial += 1
        diff = diff_runs(br, vr, ids, parts, opts)
        if diff is not None:
            what = ("app %r: what its clients see / what is stored for it differs between the history and the same history "
                    "with the other apps' commands removed (%s at event %s)" % (unhex(B), diff["part"], diff["event_id"]))
            return detail("C06", what, cfg, seed, base, var, ids, parts, opts, diff, extra={"app": unhex(B)}), nontrivial, stats
    return None, nontrivial, stats


# ---------------------------------------------------------------------- C11: server kept vs rebuilt from the files
def explicit_sweeps(tail, t_cut, period):
    """replace timer-driven `advance` events by `tick` (time passes, the timer is not driven) plus an
    explicit sweep where a timer started at the last (re)start would fire, so that a run whose server
    was restarted at the cut and a run whose server was kept sweep at the same instants"""
    out = []
    now, boot = t_cut, t_cut
    due = boot + period
    for ev in tail:
        k = ev["k"]
        b = base_of(ev)
        if b["k"] == "advance":
            now += b["dt"]
            fires = now >= due
            out.append({"k": "tick", "dt": b["dt"], "_id": ("%s-tick" % ev["_id"]) if (fires or k == "crash") else ev["_id"]})
            if fires:
                due = boot + ((now - boot) // period + 1) * period
            if k == "crash":
                if fires:
                    out.append({"k": "crash", "n": ev["n"], "e": {"k": "sweep", "fault": bool(b.get("fault"))}, "_id": ev["_id"]})
                else:
                    out.append({"k": "restart", "_id": ev["_id"]})
            elif fires:
                out.append({"k": "sweep", "fault": bool(b.get("fault")), "_id": ev["_id"]})
        else:
            out.append(ev)
        if k in ("crash", "restart"):
            boot = now
            due = boot + period
    return out


def check_C11(h, rng, tier):
    cfg, seed = h["cfg"], h["seed"]
    stats = Counter()
    base = tag(h["events"])
    br = run(cfg, base, seed)
    period = WORLD.ticks(WORLD.TAP.EXPIRATION_CHECK_PERIOD)
    cuts = [("restart", i) for i, ev in enumerate(base) if ev["k"] == "restart"]
    rng.shuffle(cuts)
    cuts = cuts[:2 if tier == "quick" else 4]
    if len(base) > 4:
        cuts.append(("inserted", rng.randrange(2, len(base))))
    nontrivial = 0
    for kind, k in cuts:
        # state just before the cut
        pre = br.obs0
        ok = True
        for ev in base[:k]:
            o = br.by_id.get(ev["_id"])
            if o is None:
                continue
            pre = o
            if o["exc"] is not None:
                ok = False          # (an escaped exception leaves writes pending: known-finding territory)
        if not ok:
            stats["skipped-pending-or-exception"] += 1
            continue
        # (without an escaped exception nothing is pending between two events in the code as it is; a write that a
        # change leaves uncommitted there is exactly what the rebuilt server does not get to see)
        live = sorted(r[0] for r in pre["conns"])
        tail = base[k + 1:] if kind == "restart" else base[k:]
        tail = explicit_sweeps(tail, pre["now"], period)
        head = base[:k]
        kept = head + [{"k": "disconnect", "c": c, "_id": "drop-%d" % c} for c in live] + \
            [{"k": "sweep", "fault": False, "_id": "cut"}] + tail
        rebuilt = head + [{"k": "restart", "_id": "cut"}] + tail
        ra = run(cfg, kept, seed)
        rb = run(cfg, rebuilt, seed)
        ids = ["cut"] + [ev["_id"] for ev in tail]
        parts = ["frames", "exc", "chan", "subs"]
        opts = {}
        stats["cuts:" + kind] += 1
        if any(base_of(ev)["k"] == "cmd" and ev["_id"] in ra.by_id for ev in tail):
            nontrivial += 1
        diff = diff_runs(ra, rb, ids, parts, opts)
        if diff is not None:
            what = ("all connections dropped at event %d: the run in which the server process was kept and the run in which it was "
                    "rebuilt from the database files continue differently (%s at event %s)" % (k, diff["part"], diff["event_id"]))
            return detail("C11", what, cfg, seed, kept, rebuilt, ids, parts, opts, diff,
                          extra={"cut": k, "cut_kind": kind, "base_is": "server kept", "variant_is": "server restarted"}), nontrivial, stats
    return None, nontrivial, stats


# ---------------------------------------------------------------------- C18: same history, every configuration
def uncrash(events):
    """crash(n, e) -> e ; restart.  (Commits are counted over both databases, so the point at which
    `crash n` strikes depends on whether a usage database is configured; the event and the restart do not.)"""
    out = []
    for ev in events:
        if ev["k"] == "crash":
            out.append(dict(ev["e"], _id=ev["_id"], **({"oracle": ev["oracle"]} if "oracle" in ev else {})))
            out.append({"k": "restart", "_id": "%s-restart" % ev["_id"]})
        else:
            out.append(ev)
    return out


def list_answers_ok(r, cfg):
    """`nameplates` = sorted distinct live names of the caller's app when listing is allowed, [] otherwise"""
    n = 0
    for x in M.walk(r.hist(cfg)):
        if x.kind != "cmd" or x.crash:
            continue
        for f in x.frames_c:
            if f[3] != "nameplates":
                continue
            n += 1
            if x.c not in x.bound_pre:
                return n, (x, "nameplates sent to an unbound connection")
            a = x.bound_pre[x.c][0]
            want = sorted(set(r_[2] for r_ in x.pre["chan"]["np"] if r_[1] == a)) if cfg.get("allow_list", True) else []
            if f[4] != want:
                return n, (x, "list answered %r, the live nameplates of app %s are %r (listing %s)"
                           % (f[4], unhex(a), want, "allowed" if cfg.get("allow_list", True) else "disallowed"))
    return n, None


def chan_indexed_crashes(cfg, events, seed, stats):
    """crash(n, e) -> crash(n_chan = j, e): j = the number of CHANNEL commits the event had made when the process
    died in the run under the history's own configuration (ViewFactsX.v: the k-th commit names different instants
    with and without a usage database; dying after the same number of channel commits is the same instant for
    the channel database).  A crash that fell after the event's last commit stays `e; restart`."""
    if not any(ev["k"] == "crash" for ev in events):
        return events, set()
    r0 = run(cfg, events, seed)
    out, crash_ids = [], set()
    for ev in events:
        if ev["k"] != "crash":
            out.append(ev)
            continue
        o = r0.by_id.get(ev["_id"])
        commits = [e[0] for e in (o["log"] if o else []) if e[0] in ("C", "U")]
        if o is None or ev.get("after_stmt") or len(commits) < ev["n"]:
            out.append(dict(ev["e"], _id=ev["_id"], **({"oracle": ev["oracle"]} if "oracle" in ev else {})))
            out.append({"k": "restart", "_id": "%s-restart" % ev["_id"]})
            continue
        e2 = {"k": "crash", "n": ev["n"], "n_chan": commits.count("C"), "e": ev["e"], "_id": ev["_id"]}
        if "oracle" in ev:
            e2["oracle"] = ev["oracle"]
        out.append(e2)
        crash_ids.add(ev["_id"])
        stats["crash-by-channel-commit"] += 1
    return out, crash_ids


def check_C18(h, rng, tier):
    seed = h["seed"]
    stats = Counter()
    base, crash_ids = chan_indexed_crashes(h["cfg"], tag(h["events"]), seed, stats)
    cfgs = []
    for allow in (True, False):
        for usage in (True, False):
            for blur in (None, 7, 3600):
                c = dict(h["cfg"])
                c.update({"allow_list": allow, "usage": usage, "blur": blur})
                cfgs.append(c)
    ref_cfg = cfgs[0]
    ref = run(ref_cfg, base, seed)
    ids = [ev["_id"] for ev in base]
    parts = ["frames", "exc", "chan", "alloc"]
    opts = {"mask_nameplates": True, "prefix_frames": sorted(crash_ids, key=str)}     # (a crash event: one run may have sent more before dying)
    nontrivial = 0
    n, bad = list_answers_ok(ref, ref_cfg)
    stats["list-answers"] += n
    others = cfgs[1:]
    if tier == "quick":
        # the full-off corner always, plus a sample of the rest
        corner = [c for c in others if not c["allow_list"] and not c["usage"] and c["blur"] is None]
        rest = [c for c in others if c not in corner]
        rng.shuffle(rest)
        others = corner + rest[:7]
    for c in others:
        if bad:
            break
        r = run(c, base, seed)
        stats["configurations"] += 1
        nontrivial += 1
        n, bad = list_answers_ok(r, c)
        stats["list-answers"] += n
        if bad:
            ref_cfg, ref = c, r
            break
        diff = diff_runs(ref, r, ids, parts, opts)
        if diff is not None:
            what = ("the same history under %s and under %s: clients observe / the channel database holds something different "
                    "(%s at event %s)" % (cfg_name(ref_cfg), cfg_name(c), diff["part"], diff["event_id"]))
            return detail("C18", what, ref_cfg, seed, base, base, ids, parts, opts, diff, var_cfg=c), nontrivial, stats
    if bad:
        x, msg = bad
        diff = {"event_id": x.ev.get("_id"), "part": "nameplates", "event": {k: v for k, v in x.ev.items() if k != "oracle"}, "what": msg}
        return detail("C18", msg + " under " + cfg_name(ref_cfg), ref_cfg, seed, base, base, [], parts, opts, diff, var_cfg=ref_cfg), nontrivial, stats
    return None, nontrivial, stats


def cfg_name(c):
    return "{listing %s, usage db %s, blur %s}" % ("allowed" if c.get("allow_list", True) else "disallowed",
                                                  "on" if c.get("usage") else "off", c.get("blur"))


# ---------------------------------------------------------------------- C10(d): crash, reconnect, re-send
def check_C10(h, rng, tier, only=("claim", "release", "open", "close"), pid="C10"):
    """resume-equivalence.  Crash points: the `crash` events the generator placed, plus, for successfully
    answered claim/release/open/close commands of the history, a crash synthesised after each of their
    commits (k = 0 .. commits-1)."""
    cfg, seed = h["cfg"], h["seed"]
    stats = Counter()
    base = tag(h["events"])
    br = run(cfg, base, seed)
    ctxs = M.walk(br.hist(cfg))
    exp = WORLD.ticks(WORLD.TAP.CHANNEL_EXPIRATION_TIME)
    gen_c, syn_c = [], []
    for x in ctxs:
        if x.kind != "cmd" or x.mtype not in only:
            continue
        if x.c not in x.bound_pre or not isinstance(x.ev.get("_id"), int):
            continue
        dup = explicit_form(x, conn_row(x.pre, x.c))
        if dup is None:
            continue
        if x.crash:
            gen_c.append((x, dup, x.ev["n"]))
        elif x.ok:
            ncommits = len([e for e in x.post["log"] if e[0] in ("C", "U")])
            for k in range(1, ncommits):
                syn_c.append((x, dup, k))
    rng.shuffle(gen_c)
    rng.shuffle(syn_c)
    # at least one synthesised point per command kind, then at random
    picked, seen = [], set()
    for c in syn_c:
        if c[0].mtype not in seen:
            seen.add(c[0].mtype)
            picked.append(c)
    picked += [c for c in syn_c if c not in picked]
    cands = gen_c[:2 if tier == "quick" else 6] + picked[:6 if tier == "quick" else 20]
    nontrivial = 0
    c2 = fresh_conn(base)
    for x, dup, k in cands:
        i = x.ev["_id"]
        pre = x.pre
        t = pre["now"]
        if pre["chan"] != pre["chan_c"] or pre["usage"] != pre["usage_c"]:
            stats["skipped-pending"] += 1
            continue
        if any(r[2] <= t - exp for r in pre["chan"]["mb"]):
            # the restart's own sweep would delete something: the two runs are not comparable row by row
            stats["skipped-expired-rows-present"] += 1
            continue
        app, side = x.bound_pre[x.c]
        if x.crash:
            plain = dict(x.ev["e"], _id="uncrashed")
            if "oracle" in x.ev:
                plain["oracle"] = x.ev["oracle"]
            un = base[:i] + [plain]
            ru = run(cfg, un, seed)
            crashed = x.ev
        else:
            un = base[:i] + [dict(x.ev, _id="uncrashed")]
            ru = None
            crashed = {"k": "crash", "n": k, "e": {kk: v for kk, v in x.ev.items() if kk not in ("_id", "oracle")},
                       "oracle": x.ev.get("oracle"), "_id": i}
            if rng.random() < 0.4:
                crashed["after_stmt"] = rng.randrange(1, 4)     # between two statements after that commit
        if ru is not None:
            ou = ru.by_id.get("uncrashed")
            orc = ru.ev_by_id["uncrashed"].get("oracle") if ou is not None else None
        else:
            ou = br.by_id.get(i)
            orc = br.ev_by_id[i].get("oracle")
        if ou is None:
            continue
        ans_u = answer_of(ou, x.c, x.mtype)
        okay = ou["exc"] is None and not any(a[0] == "error" for a in ans_u) and \
            (x.mtype == "open" or any(a[0] == ANSWER[x.mtype] for a in ans_u))
        if not okay:
            stats["uncrashed-command-not-successful"] += 1
            continue
        resend = {"k": "cmd", "c": c2, "msg": dup, "_id": "resend", "oracle": orc}
        cr = base[:i] + [crashed, {"k": "connect", "c": c2, "_id": "re-connect"},
                         {"k": "cmd", "c": c2, "msg": {"type": "bind", "appid": unhex(app), "side": unhex(side)}, "_id": "re-bind"},
                         resend]
        rc = run(cfg, cr, seed)
        oc = rc.by_id.get("resend")
        if oc is None:
            stats["resend-not-run"] += 1
            continue
        ans_c = answer_of(oc, c2, x.mtype)
        if any(a[0] == "error" and a[1] == "crowded" for a in ans_c):
            stats["skipped-known-finding"] += 1      # KF2
            stats["kf:2"] += 1
            continue
        stats["resumed:%s@%d" % (x.mtype, min(k, 4))] += 1
        nontrivial += 1
        opts = {}
        if x.mtype == "close" and any(r[0] == app and r[1] == H(dup["mailbox"]) and r[2] < t for r in ou["chan"]["mb"]):
            opts["mask_updated"] = [H(dup["mailbox"])]     # KF4: the re-sent close re-stamps the surviving mailbox
            stats["kf:4"] += 1
        what = diff = None
        if oc["exc"] is not None:
            what = "after a crash inside %s the re-sent command fails internally (%s)" % (x.mtype, oc["exc"])
            diff = {"answers": {"uncrashed": ans_u, "resumed": "exception " + oc["exc"]}}
        elif ans_c != ans_u:
            what = "after a crash inside %s (after commit %d) the re-sent command is answered differently from the uncrashed run" % (x.mtype, k)
            diff = {"answers": {"uncrashed": ans_u, "resumed": ans_c}}
        else:
            va, vb = v_chan(ou, opts), v_chan(oc, opts)
            if va != vb:
                what = ("crash inside %s after its commit %d, reconnect, re-send: the stored channel state differs from the uncrashed run"
                        % (x.mtype, k))
                diff = {"part": "chan", "difference": describe_diff("chan", va, vb)}
        if what is None and cfg.get("usage") and pid == "C10":
            # the usage records (ResumeMore.v, *_resume_usage): those of the uncrashed run -- the restart's status row
            # and the reconnecting client's version row aside -- except for KF5
            js = lambda rows: Counter(json.dumps(r) for r in rows)
            un_np, un_mb, re_np, re_mb = js(ou["usage"]["np"]), js(ou["usage"]["mb"]), js(oc["usage"]["np"]), js(oc["usage"]["mb"])
            if (un_np, un_mb) != (re_np, re_mb):
                own_np, own_mb = un_np - js(pre["usage"]["np"]), un_mb - js(pre["usage"]["mb"])    # written by the uncrashed command
                extra_np, extra_mb = re_np - un_np, re_mb - un_mb
                missing = (un_np - re_np) + (un_mb - re_mb)
                def transient(e):
                    e = json.loads(e)
                    return x.mtype == "close" and k >= 3 and e[0] == app and e[1] is False and e[3] == 0 and e[4] is None
                kf5 = (x.mtype in ("release", "close") and k >= 2 and not missing and (own_np or own_mb)
                       and all(e in own_np and n <= own_np[e] for e, n in extra_np.items())
                       and all((e in own_mb and n <= own_mb[e]) or (transient(e) and n == 1) for e, n in extra_mb.items()))
                if kf5:
                    stats["kf:5"] += 1
                else:
                    what = ("crash inside %s after its commit %d, reconnect, re-send: the usage records differ from the uncrashed run"
                            % (x.mtype, k))
                    diff = {"part": "usage", "only_in_uncrashed": sorted(missing.elements()),
                            "only_in_resumed": sorted((extra_np + extra_mb).elements())}
        if what is not None:
            d = detail(pid, what, cfg, seed, un, cr, [], ["chan"], opts, diff,
                       extra={"base_is": "uncrashed", "variant_is": "crashed, reconnected, re-sent", "answer_ids": ["uncrashed", "resend"],
                              "final_ids": ["uncrashed", "resend"], "crash_after_commit": k})
            return d, nontrivial, stats
    return None, nontrivial, stats


def check_C07(h, rng, tier):
    """C07 across a crash: a claim or release cut short by a crash after any of its commits and re-sent by the
    same side on a fresh connection ends in the same answer and the same stored state as the uncrashed command
    (release is idempotent and completes: after the last release the nameplate is gone)"""
    return check_C10(h, rng, tier, only=("claim", "release"), pid="C07")


def check_C08(h, rng, tier):
    """C08 across a crash: an open or close cut short by a crash after any of its commits and re-sent ends in the
    same answer and stored state (close always completes: the last close deletes everything together)"""
    return check_C10(h, rng, tier, only=("open", "close"), pid="C08")


# ---------------------------------------------------------------------- C17: an erroneous command leaves the connection as it was
def check_C17(h, rng, tier):
    """remove every command that was answered by a protocol `error` (not crowded / reclaimed, which are
    answers of the rendezvous logic and do change state): every other event must be answered and
    stored exactly as before.  On a difference, the single culprit is searched for."""
    cfg, seed = h["cfg"], h["seed"]
    stats = Counter()
    base = tag(h["events"])
    br = run(cfg, base, seed)
    ctxs = M.walk(br.hist(cfg))
    bad_ids = []
    for x in ctxs:
        if x.kind != "cmd" or x.crash or x.exc is not None:
            continue
        if x.error == "other":
            bad_ids.append(x.ev["_id"])
            stats["erroneous:" + str(x.mtype)] += 1
    if not bad_ids:
        return None, 0, stats
    parts = ["frames", "exc", "chan", "usage", "subs"]
    opts = {}

    def variant(remove):
        rs = set(remove)
        var = [ev for ev in base if ev["_id"] not in rs]
        vr = run(cfg, var, seed)
        ids = [ev["_id"] for ev in var]
        return var, ids, diff_runs(br, vr, ids, parts, opts)

    var, ids, diff = variant(bad_ids)
    if diff is None:
        return None, len(bad_ids), stats
    # isolate one erroneous command whose removal alone changes the rest of the history
    culprit = None
    for j in bad_ids:
        if isinstance(diff.get("event_id"), int) and j > diff["event_id"]:
            break
        v1, i1, d1 = variant([j])
        if d1 is not None:
            var, ids, diff, culprit = v1, i1, d1, j
            break
    removed = [culprit] if culprit is not None else bad_ids
    cmds = [{k: v for k, v in br.ev_by_id[j].items() if k not in ("oracle",)} for j in removed[:3]]
    what = ("a command answered by a protocol error was not harmless: with it removed, the rest of the history is answered / stored "
            "differently (%s at event %s); erroneous command(s): %s" % (diff["part"], diff["event_id"], json.dumps(cmds)))
    return detail("C17", what, cfg, seed, base, var, ids, parts, opts, diff, extra={"removed_events": removed}), len(bad_ids), stats


# ---------------------------------------------------------------------- C05: the wall clock steps backwards
def single_run_violation(pid, cfg, events, seed):
    """run one history on the real code and apply the property's single-trace monitor"""
    r = run(cfg, events, seed)
    hist = r.hist(cfg)
    hist["exp"] = WORLD.ticks(WORLD.TAP.CHANNEL_EXPIRATION_TIME)
    ctxs = M.walk(hist)
    v, nt = M.MONITORS[pid](hist, ctxs, [[] for _ in hist["events"]])
    if v:
        i, msg = v[0]
        ev = hist["events"][i] if 0 <= i < len(hist["events"]) else {}
        return {"event_id": ev.get("_id"), "part": "monitor " + pid, "event": {k: x for k, x in ev.items() if k != "oracle"},
                "what": msg}, nt
    return None, nt


def check_C05(h, rng, tier):
    """C05 is stated for every history, also one in which the server's wall clock is stepped back (NTP, VM
    resume): who the first two sides are must not be decided by time stamps.  The generated history is
    re-run with a few backward steps of the clock placed before claims/opens; mon_C05 watches."""
    cfg, seed = h["cfg"], h["seed"]
    stats = Counter()
    base = tag(h["events"])
    spots = [i for i, ev in enumerate(base) if ev["k"] == "cmd" and ev["msg"].get("type") in ("claim", "open", "allocate")]
    if not spots:
        return None, 0, stats
    rng.shuffle(spots)
    spots = sorted(spots[:3])
    var = []
    for i, ev in enumerate(base):
        if i in spots:
            var.append({"k": "tick", "dt": -rng.choice([1, 8, 480, 4800]), "_id": "back-%d" % i})
        var.append(ev)
    stats["backward-steps"] += len(spots)
    diff, nt = single_run_violation("C05", cfg, var, seed)
    stats["crowded-answers"] += nt
    if diff is not None:
        what = "with the server's clock stepped back before some claims/opens: " + diff["what"]
        return detail("C05", what, cfg, seed, base, var, [], [], {}, diff, extra={"single_run": "C05"}), len(spots), stats
    return None, len(spots), stats


# ---------------------------------------------------------------------- registry / driver
CHECKS = {
    # pid: (function, [(profile, histories in the quick tier)])
    "C14": (check_C14, [("session", 160), ("crowd", 48), ("kf", 48), ("core", 64), ("pipeline", 32)]),
    "C11": (check_C11, [("restart", 240), ("sweep", 80), ("core", 80), ("reuse-after-prune", 32), ("stale-ns", 16)]),
    "C18": (check_C18, [("config", 120), ("session", 60), ("two-app", 60), ("crash", 48)]),
    "C10": (check_C10, [("crash", 160), ("session", 80), ("usage", 80), ("core", 80)]),
    "C17": (check_C17, [("discipline", 240), ("malformed", 160), ("core", 80)]),
    "C05": (check_C05, [("crowd", 240), ("kf", 60)]),
    "C06": (check_C06, [("two-app", 240), ("core", 80), ("sweep", 80), ("kf", 80)]),
    "C07": (check_C07, [("session", 120), ("crash", 60), ("usage", 60)]),
    "C08": (check_C08, [("session", 120), ("crash", 60), ("usage", 60)]),
}


def analyse(pid, h, tier):
    fn = CHECKS[pid][0]
    rng = random.Random((h.get("seed") or 0) * 7919 + 13)
    t0 = time.time()
    d, nontrivial, stats = fn(h, rng, tier)
    r = {"seed": h.get("seed"), "profile": "meta-%s:%s" % (pid, h.get("profile")), "cfg": h["cfg"],
         "n_events": len(h["events"]), "div": None, "mon": {}, "nontrivial": {pid: nontrivial},
         "kf": [], "stale": [], "kinds": {"meta-%s:%s" % (pid, k): v for k, v in stats.items()},
         "kf_manifest": {k[3:]: v for k, v in stats.items() if k.startswith("kf:")},
         "meta": {}, "no_model": True, "seconds": round(time.time() - t0, 3)}
    if d is not None:
        r["meta"][pid] = d          # (shrunk by check.py for the few failures that are reported: shrink_pair)
        r["events"] = h["events"]
    return r


def _worker(args):
    pid, profile, seeds, tier = args
    import gen as G, profiles as P
    out = []
    for seed in seeds:
        try:
            prof = P.get(profile)
            h = G.generate_history(seed, profile=prof, cfg=P.cfg_for(profile, seed))
            h["profile"] = profile
            out.append(analyse(pid, h, tier))
        except Exception:
            out.append({"seed": seed, "profile": "meta-%s:%s" % (pid, profile), "harness_error": traceback.format_exc()})
    return out


def hash_str(s):
    return int(hashlib.sha256(s.encode()).hexdigest()[:8], 16)


def run_meta(pid, tier, seed, jobs=None, chunk=4, scale=1.0):
    mult = 1 if tier == "quick" else 10
    tasks = []
    for profile, n in CHECKS[pid][1]:
        n = max(1, int(n * mult * scale))
        b = seed * 1000003 + (hash_str("meta-%s-%s" % (pid, profile)) % 100000) * 1000
        seeds = list(range(b, b + n))
        tasks += [(pid, profile, seeds[i:i + chunk], tier) for i in range(0, len(seeds), chunk)]
    jobs = jobs or min(16, os.cpu_count() or 1)
    if jobs == 1 or len(tasks) == 1:
        res = [_worker(t) for t in tasks]
    else:
        ctx = multiprocessing.get_context("fork")
        with ctx.Pool(jobs) as pool:
            res = pool.map(_worker, tasks, 1)
    return [r for l in res for r in l]


def cached(key, fn):
    os.makedirs(CACHE, exist_ok=True)
    path = os.path.join(CACHE, key + ".json")
    lock = open(path + ".lock", "w")
    fcntl.flock(lock, fcntl.LOCK_EX)
    try:
        if os.path.exists(path):
            try:
                return json.load(open(path))
            except Exception:
                pass
        val = fn()
        tmp = path + ".tmp"
        json.dump(val, open(tmp, "w"))
        os.rename(tmp, path)
        return val
    finally:
        fcntl.flock(lock, fcntl.LOCK_UN)
        lock.close()


def extra(pid):
    """the `extra` hook of props.PROPS: (tier, seed, build hash, repo hash) -> {"name", "results"}"""
    def go(tier, seed, bh, rh):
        key = "meta-%s-%s-%d-%s-%s" % (pid, tier, seed, bh[:12], rh[:16])
        def compute():
            t0 = time.time()
            res = run_meta(pid, tier, seed)
            return {"results": res, "seconds": time.time() - t0}
        val = cached(key, compute)
        return {"name": "metamorphic-%s" % pid, "results": val["results"]}
    return go


if __name__ == "__main__":
    # python metamorphic.py Cxx [seed] [scale]   (development driver: no build, no cache)
    pid = sys.argv[1]
    seed = int(sys.argv[2]) if len(sys.argv) > 2 else 1
    scale = float(sys.argv[3]) if len(sys.argv) > 3 else 1.0
    t0 = time.time()
    res = run_meta(pid, os.environ.get("VERIF_TIER", "quick"), seed, scale=scale)
    kinds = Counter()
    nt = 0
    bad = 0
    for r in res:
        if "harness_error" in r:
            print("HARNESS ERROR", r["profile"], r["seed"], r["harness_error"][-1500:])
            bad += 1
            continue
        for k, v in r["kinds"].items():
            kinds[k] += v
        nt += r["nontrivial"].get(pid, 0)
        if r["meta"].get(pid):
            bad += 1
            d = r["meta"][pid]
            print("VIOLATION", r["profile"], r["seed"], d["what"])
            print("   ", json.dumps(d["first_difference"])[:1500])
    print("%s: %d histories, nontrivial=%d, failures=%d, %.1fs" % (pid, len(res), nt, bad, time.time() - t0))
    print(json.dumps(dict(kinds), sort_keys=True))
