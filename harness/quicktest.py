import sys, json, time
sys.path.insert(0, "/verif/harness")
import gen as G, trace as T, runner as R
n = int(sys.argv[1]); base = int(sys.argv[2]) if len(sys.argv) > 2 else 0
t=time.time()
hs = [G.generate_history(base + i) for i in range(n)]
t1=time.time()
mos = T.run_model([h["lines"] for h in hs])
t2=time.time()
nev = sum(len(h["events"]) for h in hs)
print("generated", n, "histories,", nev, "events in %.1fs; model %.1fs" % (t1-t, t2-t1))
bad = 0
from collections import Counter
cnt = Counter()
for h, mo in zip(hs, mos):
    r = R.compare(h["lines"], h["obs"], mo)
    an = [a for o in h["obs"] for a in o["anomalies"]]
    if an: cnt["anomaly"] += 1
    if r:
        bad += 1
        i, d, ci, cm = r
        cnt[tuple(d)] += 1
        if bad <= int(sys.argv[3]) if len(sys.argv) > 3 else 3:
            print("seed", h["seed"], "cfg", h["cfg"], "DIVERGE at", i, d)
            print("  line:", h["lines"][i] if i < len(h["lines"]) else None)
            for k in d:
                if ci: print("   impl ", k, json.dumps(ci[k])[:600]); print("   model", k, json.dumps(cm[k])[:600])
            if an: print("  anomalies:", an[:3])
print("divergent:", bad, dict(cnt))
