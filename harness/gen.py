"""gen.py -- history generator.  Adaptive: it runs the real server while
generating, so that commands can refer to what the server answered (mailbox
ids learned from `claimed`, nameplates from `allocated`) and so that the
known-finding triggers (DESIGN.md section 6: KF1 KF2 KF3) can be avoided or
provoked on purpose.  Every choice comes from one random.Random.

A generated history is a static list of event dicts annotated with the oracle
the implementation drew (`ev["oracle"]`), so it can be replayed exactly, also
in modified form (metamorphic checks).
"""
import random, json
import world as WORLD
import trace as T

APPS = ["a1", "a2", "a3"]
SIDES = ["s1", "s2", "s3", "s4"]
NAMES = ["1", "2", "7", "10", "n", "01"]
MBOXES = ["m1", "m2"]
PHASES = ["pake", "version", "0"]
BODIES = ["", "00", "c0ffee", "é世\U0001f600", "a\u0000b"]
# (the last three are the server's OWN result names -- a client may send them as its mood like any other string)
MOODS = ["happy", "lonely", "scary", "errory", "weird", "", "pruney", "crowded", "quiet"]
IDS = ["i1", "i2", "ü"]
# unusual but valid identifiers ("string-valued identifiers of any Unicode content"; no lone surrogates:
# those are outside the properties' domain).  Used with probability Profile.p_odd wherever a client
# supplies a string: non-NFC spellings next to their NFC forms, empty, NUL, non-BMP, numeric-looking,
# very long, differing only by case or by a trailing space.
ODD = ["cafe\u0301", "caf\u00e9", "\u212b", "\u00c5", "\uf900", "\u8c48", "", "a\u0000b", "\U0001F600",
       "007", "1e3", " 1", "1 ", "x" * 300, "Ab", "ab", "ab "]


KNOWN_KEYS = {"type", "id", "appid", "side", "nameplate", "mailbox", "phase", "body", "mood", "ping", "client_version"}


def learned_keys():
    """message keys the CURRENT handler source reads beyond the documented ones (grey-box input generation: the
    property quantifies over "arbitrary extra keys", and a key only matters if the code looks at it): every string
    constant used as `msg[...]`, `msg.get(...)` or `... in msg` in server_websocket.py"""
    import ast, os
    path = os.path.join(WORLD.REPO_SRC, "wormhole_mailbox_server", "server_websocket.py")
    keys = set()
    try:
        tree = ast.parse(open(path).read())
    except Exception:
        return []
    def is_msg(n):
        return isinstance(n, ast.Name) and n.id in ("msg", "message", "m", "command", "cmd")
    for node in ast.walk(tree):
        if isinstance(node, ast.Subscript) and is_msg(node.value):
            sl = node.slice
            if isinstance(sl, ast.Constant) and isinstance(sl.value, str):
                keys.add(sl.value)
        elif isinstance(node, ast.Call) and isinstance(node.func, ast.Attribute) and node.func.attr in ("get", "pop") \
                and is_msg(node.func.value) and node.args and isinstance(node.args[0], ast.Constant) \
                and isinstance(node.args[0].value, str):
            keys.add(node.args[0].value)
        elif isinstance(node, ast.Compare) and len(node.ops) == 1 and isinstance(node.ops[0], (ast.In, ast.NotIn)) \
                and is_msg(node.comparators[0]) and isinstance(node.left, ast.Constant) and isinstance(node.left.value, str):
            keys.add(node.left.value)
    return sorted(keys - KNOWN_KEYS)


def learned_types():
    """command types the CURRENT handler source dispatches on beyond the documented nine: string constants compared
    with == / in, or used as keys of a dict literal, in server_websocket.py"""
    import ast, os
    path = os.path.join(WORLD.REPO_SRC, "wormhole_mailbox_server", "server_websocket.py")
    try:
        tree = ast.parse(open(path).read())
    except Exception:
        return []
    out = set()
    for node in ast.walk(tree):
        if isinstance(node, ast.Compare):
            for c in [node.left] + list(node.comparators):
                if isinstance(c, ast.Constant) and isinstance(c.value, str):
                    out.add(c.value)
                if isinstance(c, (ast.Tuple, ast.List, ast.Set)):
                    for e in c.elts:
                        if isinstance(e, ast.Constant) and isinstance(e.value, str):
                            out.add(e.value)
        elif isinstance(node, ast.Dict):
            for k in node.keys:
                if isinstance(k, ast.Constant) and isinstance(k.value, str):
                    out.add(k.value)
    known = set(WORLD.KNOWN_TYPES) | KNOWN_KEYS | {"welcome", "ack", "pong", "error", "nameplates", "allocated", "claimed",
                                                  "released", "closed", "message", "server_tx", "server_rx", "orig", "pruney",
                                                  "crowded", "happy", "lonely", "scary", "errory", "quiet"}
    return sorted(t for t in out - known if t and len(t) < 40)


LEARNED_KEYS = learned_keys()
LEARNED_TYPES = learned_types()
LEARNED_VALUES = [True, False, 0, 1, 1.5, -1, "x", "last-time", None, [], {}, 10 ** 12]


class Profile(object):
    """knobs of a stream"""
    def __init__(self, **kw):
        self.n_apps = 2
        self.n_sides = 3
        self.max_conns = 5
        self.length = (10, 60)
        self.p_malformed = 0.2
        self.p_crash = 0.04
        self.p_restart = 0.03
        self.p_advance = 0.12
        self.p_sweep = 0.02
        self.p_fault = 0.15        # of sweeps / due advances
        self.p_disconnect = 0.06
        self.p_connect = 0.12
        self.kf = "avoid"          # avoid | allow
        self.names = NAMES
        self.mboxes = MBOXES
        self.final_quiesce = True  # end with: disconnect all, run the timer past EXP + 2*PERIOD
        self.p_repeat = 0.0        # of malformed commands: a complete, well-formed command sent out of order / a second time
        self.script = None         # scripted stream (scripts.py) instead of the random walk
        self.p_odd = 0.0           # probability of an unusual string (ODD) wherever the client supplies one
        self.p_restart_after_retire = 0.0   # restart right after a command that retired a nameplate (C03: reincarnation)
        self.burst = 0.25          # probability that the next event arrives within the same reactor turn (world._turn)
        self.__dict__.update(kw)


def kf1(chan, app, m):
    h = WORLD.hx(m)
    ha = WORLD.hx(app)
    return any(r[1] == h and r[0] != ha for r in chan["mb"])


def crowded_for(chan, m, side):
    h = WORLD.hx(m)
    rows = [r for r in chan["mbs"] if r[0] == h]
    return len(rows) > 2 and WORLD.hx(side) in [r[2] for r in rows[:2]]


class Session(object):
    """generates one history while running it on the real code"""

    def __init__(self, rng, cfg, profile, seed):
        self.rng = rng
        self.seed = seed
        self.cfg = cfg
        self.p = profile
        self.burst = getattr(profile, "burst", 0)
        # local time zone and start instant of the server process (profile.tz: list of (zone, start in epoch seconds);
        # the case is picked by the seed): code that converts epoch seconds to local wall-clock time misbehaves
        # around daylight-saving transitions only
        self._old_tz = None
        t0 = None
        tzc = getattr(profile, "tz", None)
        if tzc:
            import os, time as _time
            zone, start = tzc[seed % len(tzc)]
            self._old_tz = os.environ.get("TZ", "")
            os.environ["TZ"] = zone
            _time.tzset()
            t0 = start * WORLD.TPS + 3
        self.w = WORLD.World(cfg, seed=seed, t0=t0)
        self.events = []
        self.obs = [self.w.observe()]
        self.lines = [T.encode_cfg(cfg, self.w.EXP, self.w.PERIOD, self.w.t0)]
        self.next_conn = 1
        self.learned = {}      # app -> list of mailbox ids seen in `claimed`
        self.allocated = {}    # app -> list of nameplates seen in `allocated`
        self.cinfo = {}        # conn -> dict(app, side, claimed_name, mailbox)
        self.kf_fired = set()

    def close(self):
        self.w.close()
        if self._old_tz is not None:
            import os, time as _time
            if self._old_tz:
                os.environ["TZ"] = self._old_tz
            else:
                os.environ.pop("TZ", None)
            _time.tzset()

    # ---------------------------------------------------------------- running
    def emit(self, ev):
        if getattr(self, "burst", 0) and ev["k"] in ("connect", "cmd", "disconnect") and self.rng.random() < self.burst:
            ev = dict(ev, same_turn=True)       # the next event arrives within the same reactor turn
        o = self.w.do_event(ev)
        base = ev["e"] if ev["k"] == "crash" else ev
        ev = dict(ev)
        if base["k"] == "cmd":
            ev["oracle"] = {"urandom": [[n, b.hex()] for (n, b) in o["oracle"]["urandom"]],
                            "choice": list(o["oracle"]["choice"]),
                            "randrange": [list(x) for x in o["oracle"]["randrange"]]}
        self.events.append(ev)
        self.obs.append(o)
        self.lines.append(T.encode_event(ev, o["oracle"]))
        # learn from frames
        for e in o["log"]:
            if e[0] == "F":
                c = e[1]
                info = self.cinfo.get(c)
                if info is None or info.get("app") is None:
                    continue
                if e[3] == "claimed" and isinstance(e[4], str):
                    m = bytes.fromhex(e[4]).decode("utf-8")
                    self.learned.setdefault(info["app"], [])
                    if m not in self.learned[info["app"]]:
                        self.learned[info["app"]].append(m)
                    info["claimed_mailbox"] = m
                if e[3] == "allocated" and isinstance(e[4], str):
                    n = bytes.fromhex(e[4]).decode("utf-8")
                    self.allocated.setdefault(info["app"], []).append(n)
                    info["allocated"] = n
        if ev["k"] in ("restart", "crash") or o["exc"]:
            live = set(self.w.conns.keys())
            for c in list(self.cinfo):
                if c not in live:
                    del self.cinfo[c]
        return o

    # ---------------------------------------------------------------- choices
    def maybe_odd(self, scale=1.0):
        """an unusual string, with probability p_odd*scale (no PRNG draw at all when p_odd is 0)"""
        if self.p.p_odd and self.rng.random() < self.p.p_odd * scale:
            return self.rng.choice(ODD)
        return None

    def pick_mailbox(self, info):
        r = self.rng
        o = self.maybe_odd()
        if o is not None:
            return o
        cands = list(self.p.mboxes)
        cands += self.learned.get(info["app"], [])
        if info.get("claimed_mailbox") and r.random() < 0.6:
            return info["claimed_mailbox"]
        if r.random() < 0.1:
            # a mailbox id learned in ANOTHER app (KF1 territory unless avoided)
            other = [m for a, l in self.learned.items() if a != info["app"] for m in l]
            if other:
                return r.choice(other)
        return r.choice(cands)

    def pick_name(self, info):
        r = self.rng
        o = self.maybe_odd()
        if o is not None:
            return o
        if info.get("allocated") and r.random() < 0.5:
            return info["allocated"]
        al = self.allocated.get(info["app"], [])
        if al and r.random() < 0.3:
            return r.choice(al)
        return r.choice(self.p.names)

    def extra_keys(self, msg):
        if LEARNED_KEYS and self.rng.random() < 0.35:
            # a key the handlers of this source tree read although the protocol does not document it
            k = self.rng.choice(LEARNED_KEYS)
            if k not in msg:
                msg[k] = self.rng.choice(LEARNED_VALUES)
        if self.rng.random() < 0.15:
            msg["x-" + self.rng.choice(["junk", "side", "appid"])] = self.rng.choice([1, "v", None, [1, 2], {"a": 1}])
        if self.rng.random() < 0.3 and "id" not in msg:
            msg["id"] = self.rng.choice(IDS + [None])
            o = self.maybe_odd()
            if o is not None:
                msg["id"] = o
        return msg

    def sensible_cmd(self, c, info):
        """the next command a well-behaved (but impatient) client might send"""
        r = self.rng
        if info.get("app") is None:
            msg = {"type": "bind", "appid": r.choice(APPS[:self.p.n_apps]), "side": r.choice(SIDES[:self.p.n_sides])}
            self.odd_bind(msg)
            x = r.random()
            if x < 0.3:
                msg["client_version"] = ["python", "0.12." + str(r.randrange(3))]
            elif x < 0.4:
                msg["client_version"] = ["rust", None, "junk"]
            return msg
        opts = []
        if not info.get("did_allocate"):
            opts.append(("allocate", 2))
        if not info.get("did_claim"):
            opts.append(("claim", 5))
        opts.append(("list", 1))
        if info.get("mailbox") is None:
            opts.append(("open", 5))
        else:
            opts.append(("add", 6))
        if info.get("did_claim") and not info.get("did_release"):
            opts.append(("release", 3))
        if not info.get("did_close"):
            opts.append(("close", 3 if info.get("opened") else 1))
        opts.append(("ping", 0.5))
        kind = weighted(r, opts)
        return self.make_cmd(kind, info, wellformed=True)

    def make_cmd(self, kind, info, wellformed):
        r = self.rng
        msg = {"type": kind}
        if kind == "claim":
            msg["nameplate"] = self.pick_name(info) if info.get("app") else r.choice(self.p.names)
        elif kind == "release":
            x = r.random()
            if x < 0.4 and info.get("claimed_name"):
                msg["nameplate"] = info["claimed_name"]
            elif x < 0.6 or not info.get("claimed_name"):
                msg["nameplate"] = self.pick_name(info) if info.get("app") else r.choice(self.p.names)
        elif kind == "open":
            msg["mailbox"] = self.pick_mailbox(info) if info.get("app") else r.choice(self.p.mboxes)
        elif kind == "add":
            msg["phase"] = r.choice(PHASES)
            msg["body"] = r.choice(BODIES)
            o = self.maybe_odd()
            if o is not None:
                msg["phase"] = o
            o = self.maybe_odd()
            if o is not None:
                msg["body"] = o
            if r.random() < 0.2:
                msg["side"] = "bogus"   # must be ignored: the bind's side is stamped
        elif kind == "close":
            x = r.random()
            if x < 0.35 and info.get("mailbox_id"):
                msg["mailbox"] = info["mailbox_id"]
            elif x < 0.6 or not info.get("mailbox_id"):
                msg["mailbox"] = self.pick_mailbox(info) if info.get("app") else r.choice(self.p.mboxes)
            y = r.random()
            if y < 0.7:
                msg["mood"] = r.choice(MOODS)
                o = self.maybe_odd()
                if o is not None:
                    msg["mood"] = o
            elif y < 0.8:
                msg["mood"] = None
        elif kind == "ping":
            msg["ping"] = r.randrange(100)
        elif kind == "bind":
            msg["appid"] = r.choice(APPS[:self.p.n_apps])
            msg["side"] = r.choice(SIDES[:self.p.n_sides])
            self.odd_bind(msg)
        return msg

    def odd_bind(self, msg):
        o = self.maybe_odd(0.5)
        if o is not None:
            msg["side"] = o
        o = self.maybe_odd(0.25)
        if o is not None:
            msg["appid"] = o

    def malformed_cmd(self, c, info):
        r = self.rng
        if self.p.p_repeat and r.random() < self.p.p_repeat:
            # all fields present: erroneous only because of the connection's state (C17)
            kind = r.choice(["bind", "allocate", "claim", "release", "open", "open", "close", "add"])
            return self.make_cmd(kind, info, wellformed=False)
        x = r.random()
        if x < 0.15:
            return {"id": "noty"}                      # no type
        if x < 0.3:
            return {"type": r.choice(["___", "CLAIM", "subscribe", ""] + LEARNED_TYPES)}
        kind = r.choice(["bind", "allocate", "claim", "release", "open", "add", "close", "list", "ping"])
        msg = self.make_cmd(kind, info, wellformed=False)
        if r.random() < 0.5:
            ks = [k for k in msg if k not in ("type",)]
            if ks:
                del msg[r.choice(ks)]
        return msg

    def note_cmd(self, c, msg, o):
        """update the generator's picture of the connection from the real objects"""
        p = self.w.conns.get(c)
        info = self.cinfo.get(c)
        if p is None or info is None:
            return
        # (from the command and its answer only -- FlagBridge.v is the statement that the server's own per-connection
        # flags are this function of the commands sent; the private attributes themselves may be renamed by a refactoring)
        if o.get("exc") or not isinstance(msg, dict):
            return
        fs = [e for e in o["log"] if e[0] == "F" and e[1] == c]
        err = next((e[4] for e in fs if e[3] == "error"), None)
        kinds = [e[3] for e in fs]
        t = msg.get("type")
        sstr = lambda k: isinstance(msg.get(k), str)
        if t == "bind" and err is None and info.get("app") is None and sstr("appid") and sstr("side"):
            info["app"], info["side"] = msg["appid"], msg["side"]
        if info.get("app") is None:
            return
        if t == "allocate" and "allocated" in kinds:
            info["did_allocate"] = True
        elif t == "claim" and sstr("nameplate") and err != "other" and not info.get("did_claim"):
            info["did_claim"] = True
            info["claimed_name"] = msg["nameplate"]
        elif t == "release" and "released" in kinds:
            info["did_release"] = True
        elif t == "open" and sstr("mailbox") and err != "other" and not info.get("opened"):
            info["mailbox_id"] = msg["mailbox"]
            if err is None:
                info["mailbox"] = msg["mailbox"]
                info["opened"] = True
        elif t == "close" and "closed" in kinds:
            info["did_close"] = True
            info["mailbox"] = None
            info["opened"] = False

    def kf_triggers(self, c, msg):
        """Python twin of coq/theories/Findings.v (cross-checked against the model's `kf` output)"""
        info = self.cinfo.get(c) or {}
        app, side = info.get("app"), info.get("side")
        if app is None:
            return set()
        chan = self.w.dump_chan(self.w.chan_db)
        t = msg.get("type")
        out = set()
        if t in ("open", "close") and isinstance(msg.get("mailbox"), str):
            if kf1(chan, app, msg["mailbox"]):
                out.add(1)
        if t == "open" and isinstance(msg.get("mailbox"), str):
            if crowded_for(chan, msg["mailbox"], side):
                out.add(2)
        if t == "close" and info.get("mailbox") is None:
            m = msg.get("mailbox") if isinstance(msg.get("mailbox"), str) else info.get("mailbox_id")
            if m is not None and crowded_for(chan, m, side):
                out.add(2)
        if t == "claim" and isinstance(msg.get("nameplate"), str):
            ha, hn = WORLD.hx(app), WORLD.hx(msg["nameplate"])
            for r in chan["np"]:
                if r[1] == ha and r[2] == hn:
                    if crowded_for(chan, bytes.fromhex(r[3]).decode("utf-8"), side):
                        out.add(2)
        return out

    def gen_cmd_event(self):
        r = self.rng
        c = r.choice(sorted(self.cinfo))
        info = self.cinfo[c]
        for attempt in range(8):
            if r.random() < self.p.p_malformed:
                msg = self.malformed_cmd(c, info)
            else:
                msg = self.sensible_cmd(c, info)
            msg = self.extra_keys(msg)
            trig = self.kf_triggers(c, msg)
            if trig and self.p.kf == "avoid":
                continue
            self.kf_fired |= trig
            return {"k": "cmd", "c": c, "msg": msg}
        return {"k": "cmd", "c": c, "msg": {"type": "ping", "ping": 0}}

    def advance_dt(self):
        r = self.rng
        E, P = self.w.EXP, self.w.PERIOD
        cands = [0, 1, 8, 59 * 8, P - 1, P, P + 1, E - P, E - 1, E, E + 1, E + P, 5000 * 8]
        weights = [2, 3, 4, 4, 3, 4, 3, 2, 2, 2, 2, 1, 1]
        return max(0, weighted(r, list(zip(cands, weights))))

    def step(self):
        r = self.rng
        p = self.p
        x = r.random()
        live = sorted(self.cinfo)
        if not live or (len(live) < p.max_conns and x < p.p_connect):
            c = self.next_conn
            self.next_conn += 1
            self.cinfo[c] = {}
            return self.emit({"k": "connect", "c": c})
        x = r.random()
        if x < p.p_restart:
            return self.emit({"k": "restart"})
        x = r.random()
        if x < p.p_advance:
            ev = {"k": "advance", "dt": self.advance_dt(), "fault": r.random() < p.p_fault}
        elif x < p.p_advance + p.p_sweep:
            ev = {"k": "sweep", "fault": r.random() < p.p_fault}
        elif x < p.p_advance + p.p_sweep + p.p_disconnect:
            c = r.choice(live)
            del self.cinfo[c]
            ev = {"k": "disconnect", "c": c}
        else:
            ev = self.gen_cmd_event()
        if r.random() < p.p_crash and ev["k"] != "disconnect":
            ev = {"k": "crash", "n": r.randrange(0, 6), "e": ev}
            if r.random() < 0.4:
                # die between two SQL statements that follow that commit, not right at it (world.on_statement):
                # the same crash state, as long as the statements between two commits are one transaction
                ev["after_stmt"] = r.randrange(1, 5)
        o = self.emit(ev)
        base = ev["e"] if ev["k"] == "crash" else ev
        if base["k"] == "cmd" and ev["k"] != "crash":
            self.note_cmd(base["c"], base["msg"], o)
            if p.p_restart_after_retire and len(o["chan"]["np"]) < len(self.obs[-2]["chan"]["np"]) \
               and r.random() < p.p_restart_after_retire:
                return self.emit({"k": "restart"})     # the retired nameplate's name is claimed again later on
        return o

    def quiesce(self):
        """all clients go away; the timer runs past EXP + 2*PERIOD"""
        for c in sorted(self.cinfo):
            self.emit({"k": "disconnect", "c": c})
        self.cinfo = {}
        E, P = self.w.EXP, self.w.PERIOD
        n = E // P + 3
        for i in range(n):
            self.emit({"k": "advance", "dt": P, "fault": False})

    def generate(self):
        if self.p.script:
            import scripts
            scripts.run(self.p.script, self)
            if self.p.final_quiesce:
                self.quiesce()
            return self.events, self.obs, self.lines
        n = self.rng.randrange(self.p.length[0], self.p.length[1] + 1)
        for i in range(n):
            self.step()
        if self.p.final_quiesce:
            self.quiesce()
        return self.events, self.obs, self.lines


def weighted(r, opts):
    tot = sum(w for _, w in opts)
    x = r.random() * tot
    for v, w in opts:
        x -= w
        if x <= 0:
            return v
    return opts[-1][0]


CONFIGS = [
    {"allow_list": True, "usage": True, "blur": None},
    {"allow_list": True, "usage": False, "blur": None},
    {"allow_list": False, "usage": True, "blur": 7},
    {"allow_list": True, "usage": True, "blur": 3600},
    {"allow_list": False, "usage": False, "blur": 60},
    {"allow_list": True, "usage": True, "blur": 1},
    {"allow_list": True, "usage": True, "blur": 86400, "motd": "hello", "advertise": "1.2.3"},
    {"allow_list": False, "usage": True, "blur": None, "signal_error": "go away"},
]


def generate_history(seed, profile=None, cfg=None):
    """returns dict(cfg, seed, events, obs, lines, kf)"""
    rng = random.Random(seed)
    if cfg is None:
        cfg = CONFIGS[rng.randrange(len(CONFIGS))]
    profile = profile or Profile()
    s = Session(rng, cfg, profile, seed)
    try:
        events, obs, lines = s.generate()
        return {"cfg": cfg, "seed": seed, "events": events, "obs": obs, "lines": lines,
                "kf": sorted(s.kf_fired)}
    finally:
        s.close()
