"""profiles.py -- the core stream and the per-property focus streams (DESIGN.md section 7)."""
import gen as G


def get(name):
    P = G.Profile
    if name == "core":
        return P(p_odd=0.03)
    if name == "kf":            # provoke the known findings on purpose
        return P(kf="allow", n_sides=4, n_apps=2, p_crash=0.0, p_restart=0.01, length=(30, 70),
                 mboxes=["m1"], names=["1", "2"], final_quiesce=False)
    if name == "kf-q":          # C13: the known-finding triggers, then everybody leaves: the store must still empty
        return P(kf="allow", n_sides=3, n_apps=2, p_crash=0.02, p_restart=0.02, length=(20, 50),
                 mboxes=["m1", "m2"], names=["1", "2"], final_quiesce=True)
    if name == "two-app":       # C06: identical names/sides/ids in several apps
        return P(n_apps=3, n_sides=2, names=["1", "2"], mboxes=["m1", "m2"], p_malformed=0.05)
    if name == "crowd":         # C05: 3-4 sides on one nameplate/mailbox
        return P(n_apps=1, n_sides=4, names=["1"], mboxes=["m1"], max_conns=6, p_malformed=0.05,
                 p_crash=0.01, length=(20, 60))
    if name == "crash":         # C09 C10: crash at every kind of commit
        return P(p_crash=0.25, p_restart=0.05, p_malformed=0.05, length=(10, 40))
    if name == "sweep":         # C12 C13: time around the cut-offs, faults
        return P(p_advance=0.35, p_sweep=0.05, p_fault=0.25, p_crash=0.02, p_malformed=0.05,
                 n_apps=2, length=(20, 60))
    if name == "session":       # C01 C02 C07 C08 C14: long well-formed sessions, few apps
        return P(n_apps=1, n_sides=2, p_malformed=0.03, p_crash=0.0, p_restart=0.02,
                 p_advance=0.05, max_conns=6, names=["1", "2", "7"], length=(30, 80))
    if name == "malformed":     # C17
        return P(p_malformed=0.6, p_crash=0.0, length=(20, 60), p_odd=0.12)
    if name == "usage":         # C15 C16: usage db always on, many retirements
        return P(n_apps=2, n_sides=3, p_malformed=0.03, p_crash=0.0, p_advance=0.2, length=(20, 60))
    if name == "restart":       # C11: restarts between a side's visits, with expiry in between, same ids re-used
        return P(n_apps=2, n_sides=2, p_restart=0.07, p_crash=0.02, p_advance=0.25, p_sweep=0.04,
                 p_malformed=0.03, p_disconnect=0.10, names=["1", "2"], mboxes=["m1", "m2"], length=(25, 70))
    if name == "config":        # C18: no crash events (the n-th commit is configuration dependent)
        return P(n_apps=2, n_sides=3, p_malformed=0.05, p_crash=0.0, p_restart=0.03, p_advance=0.15,
                 names=["1", "2", "7"], length=(20, 60))
    if name == "discipline":    # C17: complete commands sent out of order on long-lived connections
        return P(n_apps=2, n_sides=2, p_malformed=0.4, p_repeat=0.6, p_crash=0.0, p_restart=0.01, p_disconnect=0.03,
                 p_advance=0.05, max_conns=4, length=(30, 70), p_odd=0.12)
    if name == "reincarnate":   # C03: the same few names retired (last release / last close) and claimed again, restarts right after
        return P(n_apps=1, n_sides=2, names=["1", "2"], mboxes=["m1"], p_restart_after_retire=0.5, p_restart=0.03,
                 p_crash=0.03, p_malformed=0.03, p_advance=0.08, length=(30, 70))
    if name == "unicode":       # C17: unusual but valid identifiers, exact names vs look-alike twins
        return P(script="unicode", n_apps=1)
    if name == "holes":         # C04: size classes filled by explicit claims (numeric and decoys), holes, then allocate
        return P(script="holes", n_apps=2)
    if name == "moods":             # C15 C17: every combination of sides and reported moods, usage database on
        return P(script=name, n_apps=2, kf="allow")
    if name == "warm-order":        # C03 C04 C07: sides come back after a restart in every order, retire by every route, claim again
        return P(script=name, n_apps=2)
    if name == "lingering":         # C08 C02 C01 C11 C14: one side over several connections, retirement elsewhere, then they speak
        return P(script=name, n_apps=2)
    if name == "pipeline":          # C01 C02 C03 C07 C08 C09 C14: commands that arrive within one reactor turn
        return P(script=name, n_apps=2)
    if name == "np-cross":          # C03 C07: several live nameplates, one retired with its mailbox, then releases and re-claims
        return P(script=name, n_apps=2)
    if name == "dst":               # C12 C13: local time zone around daylight-saving transitions
        return P(script=name, n_apps=2, tz=[('US/Eastern', 1772952000), ('Europe/Berlin', 1774744500), ('US/Eastern', 1793511600), ('Australia/Lord_Howe', 1791040200), ('Europe/Berlin', 1792888200), ('UTC', 1772952000)])
    if name == "reuse-after-prune":   # C01 C02 C05 C08 C11: ids that come back after expiry in the same process
        return P(script=name, n_apps=2)
    if name == "crowd-retry":       # C05: the third side retries through every door while the first two come back (KF2 on purpose)
        return P(script=name, n_apps=1, kf="allow", final_quiesce=False)
    if name == "stale-ns":          # C03 C02 C11 C12: a connection bound across sweeps after a restart
        return P(script=name, n_apps=2)
    if name == "late-sweep":        # C05 C12: subscribers across late / failing sweeps, several apps
        return P(script=name, n_apps=3)
    if name.startswith("scale-"):   # far beyond the ranges of the random walk (scripts.py)
        return P(script=name, n_apps=1)
    raise KeyError(name)


USAGE_CFGS = [c for c in G.CONFIGS if c.get("usage")] + [
    {"allow_list": True, "usage": True, "blur": 11},
    {"allow_list": True, "usage": True, "blur": 97},
]


def cfg_for(name, seed):
    if name == "usage":
        return USAGE_CFGS[seed % len(USAGE_CFGS)]
    if name == "reincarnate":        # with and without a usage database, in turn
        return [{"allow_list": True, "usage": False, "blur": None}, {"allow_list": True, "usage": True, "blur": None},
                {"allow_list": False, "usage": False, "blur": 60}, {"allow_list": True, "usage": True, "blur": 3600}][seed % 4]
    if name in ("scale-time", "moods"):      # usage database on (C15), with and without blur
        return USAGE_CFGS[seed % len(USAGE_CFGS)]
    if name.startswith("scale-") or name in ("late-sweep", "stale-ns", "crowd-retry", "reuse-after-prune", "dst", "np-cross", "pipeline", "lingering", "warm-order"):
        return G.CONFIGS[seed % len(G.CONFIGS)]
    if name.startswith("holes"):     # listing allowed and disallowed, usage on and off, in turn
        return G.CONFIGS[seed % len(G.CONFIGS)]
    return None
