"""profiles.py -- the core stream and the per-property focus streams (DESIGN.md section 7)."""
import gen as G


def get(name):
    P = G.Profile
    if name == "core":
        return P()
    if name == "kf":            # provoke the known findings on purpose
        return P(kf="allow", n_sides=4, n_apps=2, p_crash=0.0, p_restart=0.01, length=(30, 70),
                 mboxes=["m1"], names=["1", "2"], final_quiesce=False)
    if name == "two-app":       # C06: identical names/sides/ids in several apps
        return P(n_apps=3, n_sides=2, names=["1", "2"], mboxes=["m1", "m2"], p_malformed=0.05)
    if name == "crowd":         # C05: 3-4 sides on one nameplate/mailbox
        return P(n_apps=1, n_sides=4, names=["1"], mboxes=["m1"], max_conns=6, p_malformed=0.05,
                 p_crash=0.01, length=(20, 60))
    if name == "crash":         # C09 C10: crash at every kind of commit
        return P(p_crash=0.25, p_restart=0.05, p_malformed=0.05, length=(10, 40))
    if name == "sweep":         # C12 C13: time around the cut-offs, faults
        return P(p_advance=0.35, p_sweep=0.05, p_fault=0.25, p_crash=0.02, p_malformed=0.05,
                 n_apps=2, length=(20, 60))
    if name == "session":       # C01 C02 C07 C08 C14: long well-formed sessions, few apps
        return P(n_apps=1, n_sides=2, p_malformed=0.03, p_crash=0.0, p_restart=0.02,
                 p_advance=0.05, max_conns=6, names=["1", "2", "7"], length=(30, 80))
    if name == "malformed":     # C17
        return P(p_malformed=0.6, p_crash=0.0, length=(20, 60))
    if name == "usage":         # C15 C16: usage db always on, many retirements
        return P(n_apps=2, n_sides=3, p_malformed=0.03, p_crash=0.0, p_advance=0.2, length=(20, 60))
    raise KeyError(name)


USAGE_CFGS = [c for c in G.CONFIGS if c.get("usage")] + [
    {"allow_list": True, "usage": True, "blur": 11},
    {"allow_list": True, "usage": True, "blur": 97},
]


def cfg_for(name, seed):
    if name == "usage":
        return USAGE_CFGS[seed % len(USAGE_CFGS)]
    return None
