"""scripts.py -- scripted focus streams (DESIGN.md section 7) driven through gen.Session, i.e.
generated while running on the real server, with every choice from the session's PRNG.

  holes       C04: histories that explicitly claim many short names so that size classes fill up
              (numeric 1..9, in some histories 10..99; decoys such as "x" "0" "07" "01" "ab"),
              release one or a few, then `allocate` -- two apps, listing allowed and disallowed
              (the configuration comes from profiles.cfg_for).
  unicode     C17: unusual but valid strings (non-NFC, empty, NUL, non-BMP, numeric-looking, long, case /
              trailing-space twins) as every client-supplied identifier; exact names accepted, twins refused.
  every-hole  (extra_C04, not a generator script: driven directly, without per-event table dumps)
              1..999 all taken plus decoys, then for EVERY k in 1..999: release k, allocate -- must
              answer exactly k; finally the all-taken case (4-6 digits); listing allowed and disallowed.
"""
DECOYS1 = ["x", "0", "Z", "é", "_", " "]
DECOYS2 = ["07", "01", "ab", "0x", "00", "1x", "x1", "-1", "+1", "1 ", "१२"]
DECOYS3 = ["007", "abc", "010", "1e2", "0x1", "12x"]
DECOYS0 = ["", "1000", "0999", "12345", "n"]


class Client(object):
    """one connection of the script"""
    def __init__(self, s, app, side):
        self.s, self.app, self.side = s, app, side
        self.c = s.next_conn
        s.next_conn += 1
        s.cinfo[self.c] = {}
        s.emit({"k": "connect", "c": self.c})
        self.cmd({"type": "bind", "appid": app, "side": side})

    def cmd(self, msg):
        if self.c not in self.s.w.conns:      # the server dropped this connection (an exception escaped a handler)
            return {"log": [], "exc": None}
        import gen as _G
        if _G.LEARNED_KEYS and self.s.rng.random() < 0.3:
            k = self.s.rng.choice(_G.LEARNED_KEYS)
            if k not in msg:
                msg = dict(msg)
                msg[k] = self.s.rng.choice(_G.LEARNED_VALUES)
        if self.s.rng.random() < 0.2:
            msg = dict(msg, id=self.s.rng.choice(["i1", "i2", None]))
        o = self.s.emit({"k": "cmd", "c": self.c, "msg": msg})
        self.s.note_cmd(self.c, msg, o)
        return o

    def drop(self):
        if self.c in self.s.cinfo:
            del self.s.cinfo[self.c]
            if self.c in self.s.w.conns:
                self.s.emit({"k": "disconnect", "c": self.c})


def claim(s, app, side, name, keep=False):
    cl = Client(s, app, side)
    cl.cmd({"type": "claim", "nameplate": name})
    if not keep and s.rng.random() < 0.7:
        cl.drop()
    return cl


def release(s, app, side, name):
    cl = Client(s, app, side)
    cl.cmd({"type": "release", "nameplate": name})
    if s.rng.random() < 0.7:
        cl.drop()


def allocate(s, app, side, then_claim=False):
    cl = Client(s, app, side)
    o = cl.cmd({"type": "allocate"})
    got = None
    for e in o["log"]:
        if e[0] == "F" and e[1] == cl.c and e[3] == "allocated" and isinstance(e[4], str):
            got = bytes.fromhex(e[4]).decode("utf-8")
    if then_claim and got is not None:
        cl.cmd({"type": "claim", "nameplate": got})
    if s.rng.random() < 0.3:
        cl.cmd({"type": "list"})
    if s.rng.random() < 0.5:
        cl.drop()
    return got


def pause(s):
    if s.rng.random() < 0.15:
        s.emit({"k": "advance", "dt": s.rng.choice([0, 1, 8, 59 * 8]), "fault": False})


def holes(s):
    r = s.rng
    apps = ["a1", "a2"]
    r.shuffle(apps)
    main, other = apps
    sides = ["s1", "s2", "s3"]
    x = r.random()
    depth = 1 if x < 0.85 else 2      # which size class is (nearly) filled
    # ---- the main app: fill
    held = {}                          # name -> side holding it
    def take(name):
        side = r.choice(sides)
        claim(s, main, side, name)
        held[name] = side
        pause(s)
    ones = [str(k) for k in range(1, 10)]
    twos = [str(k) for k in range(10, 100)]
    if depth == 1:
        free = r.sample(ones, r.choice([0, 1, 1, 1, 2, 3]))
        order = [n for n in ones if n not in free]
        r.shuffle(order)
        decoys = r.sample(DECOYS1, r.choice([0, 1, 1, 2, 3])) + r.sample(DECOYS2 + DECOYS0, r.choice([0, 0, 1, 2]))
    else:
        free = r.sample(twos, r.choice([0, 1, 1, 2, 3, 5]))
        if r.random() < 0.25:
            free += r.sample(ones, 1)
        order = ones + [n for n in twos if n not in free]
        order = [n for n in order if n not in free]
        if r.random() < 0.5:
            r.shuffle(order)
        decoys = r.sample(DECOYS2, r.choice([0, 1, 2, 3, 5])) + r.sample(DECOYS1 + DECOYS3 + DECOYS0, r.choice([0, 1, 2]))
    todo = order + decoys
    if r.random() < 0.5:
        r.shuffle(todo)
    if r.random() < 0.6:
        # an early list / allocate (whatever the server remembers about the names in use starts now)
        w0 = Client(s, main, r.choice(sides))
        w0.cmd({"type": "list"})
        if r.random() < 0.4:
            o = w0.cmd({"type": "allocate"})
            for e in o["log"]:
                if e[0] == "F" and e[3] == "allocated" and isinstance(e[4], str):
                    got0 = bytes.fromhex(e[4]).decode("utf-8")
                    w0.cmd({"type": "claim", "nameplate": got0})
                    w0.cmd({"type": "release"})
        w0.drop()
    # the other app holds some of the same names (must not matter)
    other_names = r.sample(ones + decoys + free, min(len(ones + decoys + free), r.choice([0, 2, 4])))
    for i, n in enumerate(todo):
        take(n)
        if other_names and r.random() < 0.1:
            claim(s, other, r.choice(sides), other_names.pop())
    for n in other_names:
        claim(s, other, r.choice(sides), n)
    # a nameplate held by two sides of which one released (still live: not free)
    if r.random() < 0.3 and order:
        n = r.choice(order)
        second = r.choice([x_ for x_ in sides if x_ != held[n]])
        claim(s, main, second, n)
        release(s, main, held[n], n)
        held[n] = second
    # ---- rounds of: release a few, allocate a few
    for _round in range(r.choice([1, 1, 2, 3])):
        numeric = [n for n in held if n.isdigit() and not n.startswith("0") and n.isascii()]
        for n in r.sample(numeric, min(len(numeric), r.choice([0, 1, 1, 2]))):
            if r.random() < 0.35:
                # retired by the last close of its mailbox instead of by release (the nameplate goes with the mailbox)
                cl = claim(s, main, held.pop(n), n, keep=True)
                mb = s.cinfo.get(cl.c, {}).get("claimed_mailbox")
                if mb is not None:
                    cl.cmd({"type": "open", "mailbox": mb})
                    cl.cmd({"type": "close", "mood": r.choice(["happy", "lonely"])})
                else:
                    cl.cmd({"type": "release"})
                cl.drop()
            else:
                release(s, main, held.pop(n), n)
            free.append(n)
            pause(s)
        if r.random() < 0.2 and decoys:
            d = r.choice(decoys)
            if d in held:
                release(s, main, held.pop(d), d)
        numeric = [n for n in numeric if n in held]
        if r.random() < 0.5 and numeric:
            # a differently spelled twin of a HELD canonical name (anything a numeric parser would fold onto it)
            # is claimed and retired again -- by release or by closing its mailbox; the canonical one stays taken
            n = r.choice(numeric)
            twin = r.choice(["0%s", " %s", "+%s", "%s ", "00%s", "\u0660%s", "%s\n", "%s.0", "0x%s"]) % n
            if twin not in held:
                cl = claim(s, main, r.choice(sides), twin, keep=True)
                if r.random() < 0.5:
                    cl.cmd({"type": "release"})
                else:
                    o = None
                    mb = s.cinfo.get(cl.c, {}).get("claimed_mailbox")
                    if mb is not None:
                        cl.cmd({"type": "open", "mailbox": mb})
                        cl.cmd({"type": "close", "mood": "happy"})
                    else:
                        cl.cmd({"type": "release"})
                cl.drop()
        for _ in range(r.choice([1, 2, 3])):
            side = r.choice(sides)
            got = allocate(s, main, side, then_claim=r.random() < 0.3)
            if got is not None:
                held[got] = side
            if r.random() < 0.25:
                allocate(s, other, r.choice(sides))
            pause(s)


# pairs of distinct strings that a careless server might identify (normalisation, case folding,
# trimming, numeric parsing, C-string truncation) -- all valid identifiers, no lone surrogates
TWINS = [("cafe\u0301", "caf\u00e9"), ("\u212b", "\u00c5"), ("\uf900", "\u8c48"), ("Ab", "ab"), ("ab", "ab "), (" 1", "1"),
         ("007", "7"), ("1e3", "1000"), ("", "\u0000"), ("a\u0000b", "a"), ("x" * 300, "x" * 299),
         ("\U0001F600", "\U0001F601"), ("\ufb01", "fi"), ("\u00df", "ss"), ("1", "\u0661")]


def unicode_ids(s):
    """C17 (C03/C07/C08 monitors watch too): unusual but valid strings as nameplate, mailbox, side, phase,
    body, message id and mood; a command naming exactly what was claimed/opened must be accepted, one naming
    the twin is one harmless error; twins are different nameplates / mailboxes / sides"""
    r = s.rng
    app = r.choice(["a1", "a2", "caf\u00e9"])
    for _round in range(r.choice([2, 3, 4])):
        a, b = r.choice(TWINS)
        if r.random() < 0.5:
            a, b = b, a
        if r.random() < 0.25:
            s1, s2 = r.choice(TWINS)          # twin strings as the two sides
        else:
            s1, s2 = "s1", "s2"
        c1 = Client(s, app, s1)
        c2 = Client(s, app, s2)
        do_np = r.random() < 0.75
        do_mb = r.random() < 0.6
        if do_np:
            c1.cmd({"type": "claim", "nameplate": a})
            c2.cmd({"type": "claim", "nameplate": b})        # another nameplate: another mailbox
            if r.random() < 0.4:
                c2.cmd({"type": "list"})
        if do_mb:
            c1.cmd({"type": "open", "mailbox": "m" + a})
            c2.cmd({"type": "open", "mailbox": "m" + b})
            c1.cmd({"type": "add", "phase": a, "body": b, "id": a})     # c2 listens to another mailbox
            if r.random() < 0.5:
                c2.cmd({"type": "add", "phase": b, "body": a, "id": b})
        pause(s)
        if do_np:
            if r.random() < 0.5:
                c1.cmd({"type": "release", "nameplate": b})             # names something else: one error, harmless
            c1.cmd({"type": "release", "nameplate": a} if r.random() < 0.8 else {"type": "release"})
            if r.random() < 0.7:
                c2.cmd({"type": "release", "nameplate": b})
        if do_mb:
            if r.random() < 0.5:
                c1.cmd({"type": "close", "mailbox": "m" + b, "mood": "happy"})   # names something else
            c1.cmd({"type": "close", "mailbox": "m" + a, "mood": r.choice(["happy", a, ""])})
            if r.random() < 0.8:
                c2.cmd({"type": "close", "mailbox": "m" + b, "mood": b})
        if r.random() < 0.7:
            c1.drop()
        if r.random() < 0.7:
            c2.drop()


SCRIPTS = {"holes": holes, "unicode": unicode_ids}


# ---------------------------------------------------------------------- scale streams
# Histories far beyond the ranges of the random walk (10-60 events, a handful of messages, mailboxes,
# apps; minutes of virtual time): batching, paging, caching and age-based housekeeping code only
# misbehaves past some size or age.  Each runs through gen.Session like every other history: full
# trace, model comparison, all monitors.

def _adv(s, dt, fault=False):
    s.emit({"k": "advance", "dt": dt, "fault": fault})


def scale_msgs(s):
    """C01 C13 (C02): one mailbox holding hundreds of stored messages (several pages / batches of any
    plausible size), replayed to a late second side, again after a restart, then abandoned and swept
    (final quiesce) next to a small mailbox of the same and of another app"""
    r = s.rng
    n = [130, 520, 210, 640, 330][s.seed % 5]          # (every size within five consecutive seeds)
    app = r.choice(["a1", "a2"])
    c1 = Client(s, app, "s1")
    c1.cmd({"type": "open", "mailbox": "mbig"})
    small = Client(s, app, "s3")
    small.cmd({"type": "open", "mailbox": "msmall"})
    small.cmd({"type": "add", "phase": "p", "body": "00"})
    oth = Client(s, "a3", "s1")
    oth.cmd({"type": "open", "mailbox": "mbig"}) if False else oth.cmd({"type": "open", "mailbox": "mother"})
    oth.cmd({"type": "add", "phase": "p", "body": "ff"})
    for i in range(n):
        c1.cmd({"type": "add", "phase": "p%d" % (i % 7), "body": "%04x" % i})
        if i % 97 == 50:
            _adv(s, r.choice([1, 8, 80]))
    c2 = Client(s, app, "s2")
    c2.cmd({"type": "open", "mailbox": "mbig"})            # replays n messages
    c2.cmd({"type": "add", "phase": "x", "body": "01"})     # both subscribers get it
    if r.random() < 0.5:
        s.emit({"k": "restart"})
        s.cinfo.clear()
        c3 = Client(s, app, r.choice(["s1", "s2"]))
        c3.cmd({"type": "open", "mailbox": "mbig"})        # replays n+1 messages
    if r.random() < 0.3:
        # retire it by the two closes instead of by expiry
        for side in ("s1", "s2"):
            c = Client(s, app, side)
            c.cmd({"type": "close", "mailbox": "mbig", "mood": "happy"})
        c4 = Client(s, app, "s1")
        c4.cmd({"type": "open", "mailbox": "mbig"})        # deleted id: starts empty


def scale_subs(s):
    """C12 (C02): more than a hundred mailboxes of one app, each with a silent connected subscriber,
    across several sweeps spanning more than the expiration time; nothing may expire, every subscriber
    still gets its traffic; plus idle mailboxes that must go"""
    r = s.rng
    n = [117, 101, 205, 130][s.seed % 4]
    app = "a1"
    subs = []
    for i in range(n):
        c = Client(s, app, "s%d" % (i % 2 + 1))
        c.cmd({"type": "open", "mailbox": "mb%03d" % i})
        subs.append(c)
        if i % 40 == 7:
            _adv(s, r.choice([1, 8]))
    idle = Client(s, app, "s1")
    idle.cmd({"type": "open", "mailbox": "idle"})
    idle.drop()
    E, P = s.w.EXP, s.w.PERIOD
    for k in range(E // P + 2):
        _adv(s, P)
    for c in r.sample(subs, 12) + [subs[-1], subs[-2], subs[0], subs[100]]:
        c.cmd({"type": "add", "phase": "p", "body": "aa"})
    for k in range(E // P + 1):
        _adv(s, P + r.choice([0, 1]))
    for c in [subs[-1], subs[n // 2], subs[99], subs[100]]:
        c.cmd({"type": "add", "phase": "q", "body": "bb"})


def scale_apps(s):
    """C02 C06 C11: dozens of app ids known to one server process, with a bound-but-idle connection of
    the first app across all of it; then two connections of that app must still share one mailbox"""
    r = s.rng
    n = [40, 33, 70][s.seed % 3]
    a = Client(s, "x0", "s1")
    if r.random() < 0.5:
        a.cmd({"type": "claim", "nameplate": "1"})
    others = []
    for i in range(n):
        c = Client(s, "app%02d" % i, "s1")
        x = r.random()
        if x < 0.4:
            c.cmd({"type": "claim", "nameplate": "1"})
        elif x < 0.6:
            c.cmd({"type": "open", "mailbox": "m1"})
        if r.random() < 0.7:
            c.drop()
        else:
            others.append(c)
        if i % 16 == 5:
            _adv(s, s.w.PERIOD)
    a.cmd({"type": "open", "mailbox": "mx"})
    b = Client(s, "x0", "s2")
    b.cmd({"type": "open", "mailbox": "mx"})
    a.cmd({"type": "add", "phase": "p", "body": "01"})
    b.cmd({"type": "add", "phase": "p", "body": "02"})
    b.cmd({"type": "list"})
    _adv(s, s.w.PERIOD)
    a.cmd({"type": "add", "phase": "p", "body": "03"})


def scale_time(s):
    """C05 C07 C12 C15: a channel kept alive by one connected side for more than a day (its peer
    released, closed and left long ago): the claim, both side records and the crowding decision must
    be as on the first day; the final retirement still yields its usage records"""
    r = s.rng
    app = "a1"
    name = r.choice(["1", "7", "n"])
    c1 = Client(s, app, "s1")
    o = c1.cmd({"type": "claim", "nameplate": name})
    mbox = None
    for e in o["log"]:
        if e[0] == "F" and e[3] == "claimed" and isinstance(e[4], str):
            mbox = bytes.fromhex(e[4]).decode("utf-8")
    c1.cmd({"type": "open", "mailbox": mbox})
    c2 = Client(s, app, "s2")
    c2.cmd({"type": "claim", "nameplate": name})
    c2.cmd({"type": "open", "mailbox": mbox})
    c2.cmd({"type": "add", "phase": "pake", "body": "00"})
    c1.cmd({"type": "add", "phase": "pake", "body": "01"})
    x = r.random()
    if x < 0.7:
        c2.cmd({"type": "release"})
    if x > 0.2:
        c2.cmd({"type": "close", "mood": "happy"})
    c2.drop()
    P = s.w.PERIOD
    day = 86400 * 8
    t = 0
    # a few sweeps at the normal period, then hour-sized steps (the subscriber keeps it alive), past one day
    for k in range(4):
        _adv(s, P)
        t += P
    while t < day + r.choice([1, 2, 5]) * 3600 * 8:
        dt = r.choice([3600 * 8, 3600 * 8, 7200 * 8, P * 7])
        _adv(s, dt)
        t += dt
        if r.random() < 0.15:
            c1.cmd({"type": "add", "phase": "p", "body": "02"})
    _adv(s, P)
    c1.cmd({"type": "list"})
    # a third side must still be refused; the second side still cannot re-claim after its release
    c3 = Client(s, app, "s3")
    c3.cmd({"type": "claim", "nameplate": name})
    c3.cmd({"type": "open", "mailbox": mbox})
    c3.drop()
    c2b = Client(s, app, "s2")
    c2b.cmd({"type": "claim", "nameplate": name})
    c2b.drop()
    _adv(s, P)
    # the first side is still served
    c1.cmd({"type": "add", "phase": "p", "body": "03"})
    c1.cmd({"type": "release"})
    c1.cmd({"type": "close", "mood": r.choice(["happy", "lonely"])})


def scale_name(s):
    """C17 C04: well-formed identifiers of thousands of characters -- a canonical decimal nameplate far
    beyond any machine integer (and beyond Python's int<->str digit limit), long sides / mailbox ids /
    bodies; allocate must keep working for everybody"""
    r = s.rng
    app = "a1"
    big = ["1" + "0" * 4400, "9" * 4800, "12" * 2300][s.seed % 3]
    c1 = Client(s, app, "s1")
    c1.cmd({"type": "claim", "nameplate": big})
    c2 = Client(s, app, "s2" + "x" * 700)
    c2.cmd({"type": "allocate"})
    c2.cmd({"type": "list"})
    c2.cmd({"type": "claim", "nameplate": big})
    c3 = Client(s, app, "s3")
    c3.cmd({"type": "allocate"})
    c3.cmd({"type": "open", "mailbox": "m" * 900})
    c3.cmd({"type": "add", "phase": "p" * 500, "body": "ab" * 1500})
    c3.cmd({"type": "close", "mailbox": "m" * 900, "mood": "happy"})
    c1.cmd({"type": "release", "nameplate": big})
    c2.cmd({"type": "release", "nameplate": big})
    c4 = Client(s, app, "s1")
    c4.cmd({"type": "allocate"})


SCRIPTS.update({"scale-msgs": scale_msgs, "scale-subs": scale_subs, "scale-apps": scale_apps,
                "scale-time": scale_time, "scale-name": scale_name})


def late_sweep(s):
    """C05 C12 (C06): two sides connected to a mailbox while the periodic sweep is late, skipped or failing for
    longer than the expiration time (so the mailbox's stamp is old although it has subscribers), other apps
    -- sorting before and after -- having expired and fresh channels of their own in the same sweep; afterwards
    the first two sides are still the only ones served and a third side is still refused"""
    r = s.rng
    apps = ["a1", "a2", "a3"]
    victim = r.choice(apps)
    name = r.choice(["1", "7"])
    use_np = r.random() < 0.5
    v1 = Client(s, victim, "s1")
    v2 = Client(s, victim, "s2")
    mbox = "mv"
    if use_np:
        o = v1.cmd({"type": "claim", "nameplate": name})
        for e in o["log"]:
            if e[0] == "F" and e[3] == "claimed" and isinstance(e[4], str):
                mbox = bytes.fromhex(e[4]).decode("utf-8")
        v2.cmd({"type": "claim", "nameplate": name})
    v1.cmd({"type": "open", "mailbox": mbox})
    v2.cmd({"type": "open", "mailbox": mbox})
    v1.cmd({"type": "add", "phase": "pake", "body": "00"})
    v2.cmd({"type": "add", "phase": "pake", "body": "01"})
    for a in apps:
        if a != victim or r.random() < 0.5:
            c = Client(s, a, r.choice(["s1", "s3"]))
            if r.random() < 0.6:
                c.cmd({"type": "claim", "nameplate": r.choice(["1", "2"])})
            c.cmd({"type": "open", "mailbox": r.choice(["m1", "mv", "m2"]) if a != victim else "m1"})
            c.cmd({"type": "add", "phase": "p", "body": "aa"})
            if r.random() < 0.7:
                c.drop()
    E, P = s.w.EXP, s.w.PERIOD
    x = r.random()
    if x < 0.4:
        _adv(s, E + r.choice([1, P, 3 * P]))                 # one late tick
    elif x < 0.8:
        for k in range(E // P + 1):
            _adv(s, P, fault=True)                            # failing sweeps
        _adv(s, P)
    else:
        _adv(s, P)
        _adv(s, E + P + 1)
    # the first two are still served ...
    v1.cmd({"type": "add", "phase": "p", "body": "02"})
    if r.random() < 0.5:
        v1b = Client(s, victim, "s1")
        v1b.cmd({"type": "open", "mailbox": mbox})
        if use_np and r.random() < 0.5:
            v1b.cmd({"type": "claim", "nameplate": name})
    # ... and a third and a fourth side are not
    for side in ("s3", "s4"):
        c = Client(s, victim, side)
        if use_np and r.random() < 0.5:
            c.cmd({"type": "claim", "nameplate": name})
        c.cmd({"type": "open", "mailbox": mbox})
        c.cmd({"type": "add", "phase": "p", "body": "03"})
        if r.random() < 0.5:
            c.drop()
    v2.cmd({"type": "add", "phase": "p", "body": "04"})
    _adv(s, P)
    v2.cmd({"type": "close", "mood": "happy"})
    v1.cmd({"type": "close", "mood": "happy"})


SCRIPTS["late-sweep"] = late_sweep


def stale_ns(s):
    """C03 C02 C11 C12 (the shape of defect D5 and of every 'drop idle in-memory objects' change): after a restart
    on a database that still has rows of the app, a connection binds and then sits through sweeps (at which its
    app has nothing live in memory); only then does it allocate / claim / open, idles again until its nameplate
    is retired by expiry, and finally meets a second connection of the same app on the same name and mailbox"""
    r = s.rng
    app = r.choice(["a1", "a2"])
    P, E = s.w.PERIOD, s.w.EXP
    pre = Client(s, app, "s3")
    pre.cmd({"type": "claim", "nameplate": "9"})
    if r.random() < 0.5:
        pre.cmd({"type": "open", "mailbox": "mold"})
        pre.cmd({"type": "add", "phase": "p", "body": "00"})
    s.emit({"k": "restart"})
    s.cinfo.clear()
    c1 = Client(s, app, "s1")
    for k in range(r.choice([1, 2])):
        _adv(s, P)
    use_alloc = r.random() < 0.6
    name = None
    if use_alloc:
        o = c1.cmd({"type": "allocate"})
        for e in o["log"]:
            if e[0] == "F" and e[3] == "allocated" and isinstance(e[4], str):
                name = bytes.fromhex(e[4]).decode("utf-8")
    if name is None:
        name = r.choice(["1", "4"])
        c1b = Client(s, app, "s1")
        c1b.cmd({"type": "claim", "nameplate": name})
        c1b.drop()
    # idle until the nameplate (and its mailbox) has expired
    for k in range(E // P + 2):
        _adv(s, P)
    c1.cmd({"type": "list"})
    c2 = Client(s, app, "s2")
    o = c2.cmd({"type": "claim", "nameplate": name})
    mbox = None
    for e in o["log"]:
        if e[0] == "F" and e[3] == "claimed" and isinstance(e[4], str):
            mbox = bytes.fromhex(e[4]).decode("utf-8")
    c1.cmd({"type": "claim", "nameplate": name})           # must be told the same (new) mailbox
    if mbox is not None:
        c1.cmd({"type": "open", "mailbox": mbox})
        c2.cmd({"type": "open", "mailbox": mbox})
        c1.cmd({"type": "add", "phase": "pake", "body": "01"})
        c2.cmd({"type": "add", "phase": "pake", "body": "02"})
    c2.cmd({"type": "list"})
    _adv(s, P)
    c1.cmd({"type": "add", "phase": "p", "body": "03"})
    if r.random() < 0.5:
        c1.cmd({"type": "release"})
        c2.cmd({"type": "release"})
        c1.cmd({"type": "close", "mood": "happy"})
        c2.cmd({"type": "close", "mood": "happy"})


SCRIPTS["stale-ns"] = stale_ns


def crowd_retry(s):
    """C05 (C07 C08): two sides share a nameplate / mailbox; a third side is refused; then the first two reconnect
    and re-send their claim / open / close (answered `crowded` once a third side's row exists: known finding KF2),
    in every combination and order, and the third side (and a fourth) keeps retrying through every door --
    claim, open, close by name -- on fresh connections: it must be refused every time"""
    r = s.rng
    app = r.choice(["a1", "a2"])
    name = r.choice(["1", "7"])
    A = Client(s, app, "s1")
    B = Client(s, app, "s2")
    o = A.cmd({"type": "claim", "nameplate": name})
    mbox = "m1"
    for e in o["log"]:
        if e[0] == "F" and e[3] == "claimed" and isinstance(e[4], str):
            mbox = bytes.fromhex(e[4]).decode("utf-8")
    B.cmd({"type": "claim", "nameplate": name})
    A.cmd({"type": "open", "mailbox": mbox})
    B.cmd({"type": "open", "mailbox": mbox})
    A.cmd({"type": "add", "phase": "pake", "body": "aa01"})
    B.cmd({"type": "add", "phase": "pake", "body": "bb02"})
    if r.random() < 0.3:
        B.cmd({"type": "release"})
    if r.random() < 0.3:
        B.cmd({"type": "close", "mood": "happy"})
    if r.random() < 0.4:
        B.drop()

    def intruder(side):
        c = Client(s, app, side)
        doors = [{"type": "claim", "nameplate": name}, {"type": "open", "mailbox": mbox},
                 {"type": "close", "mailbox": mbox, "mood": "happy"}]
        r.shuffle(doors)
        for d in doors[:r.choice([1, 2, 3])]:
            c.cmd(d)
        if r.random() < 0.3:
            c.cmd({"type": "add", "phase": "x", "body": "ee"})
        if r.random() < 0.6:
            c.drop()

    # a third side may look like one of the first two (letter case, surrounding blanks, compatibility forms):
    # side ids are compared exactly, it is still a third side
    twins = ["S1", "S2", "s1 ", " s2", "\uff531", "s\u00b9"]
    intruder(r.choice(["s3", "s3", r.choice(twins)]))
    for _round in range(r.choice([1, 2, 3])):
        # one of the first two comes back on a fresh connection and re-sends
        back = Client(s, app, r.choice(["s1", "s2"]))
        cmds = [{"type": "claim", "nameplate": name}, {"type": "open", "mailbox": mbox}]
        if r.random() < 0.3:
            cmds.append({"type": "close", "mailbox": mbox, "mood": "lonely"})
        if r.random() < 0.5:
            r.shuffle(cmds)
        for d in cmds[:r.choice([1, 2, 2, 3])]:
            back.cmd(d)
        if r.random() < 0.5:
            back.drop()
        pause(s)
        intruder(r.choice(["s3", "s3", "s4", r.choice(twins)]))
    A.cmd({"type": "add", "phase": "p", "body": "aa03"})
    intruder(r.choice(["s4", "s4", r.choice(twins)]))


SCRIPTS["crowd-retry"] = crowd_retry


def reuse_after_prune(s):
    """C01 C02 C05 C08 C11 (every change that keeps something about a mailbox or nameplate in memory): a mailbox
    (with or without nameplate) is used by some sides, everybody drops WITHOUT closing (so the server's in-memory
    object stays), the expiry sweep deletes its rows, and then the same mailbox id / nameplate name is used again in
    the same process -- by other sides, by the same sides, by more than before: it must behave like a brand-new one
    (empty, uncrowded, closable), exactly as it would on a server rebuilt from the files"""
    r = s.rng
    app = r.choice(["a1", "a2"])
    P, E = s.w.PERIOD, s.w.EXP
    mbox = r.choice(["m1", "mreuse"])
    name = r.choice(["1", "5"])
    use_np = r.random() < 0.4
    first = r.sample(["s1", "s2", "s3"], r.choice([1, 2, 2, 3]))
    conns = []
    for side in first:
        c = Client(s, app, side)
        if use_np:
            o = c.cmd({"type": "claim", "nameplate": name})
            for e in o["log"]:
                if e[0] == "F" and e[3] == "claimed" and isinstance(e[4], str):
                    mbox = bytes.fromhex(e[4]).decode("utf-8")
        c.cmd({"type": "open", "mailbox": mbox})
        c.cmd({"type": "add", "phase": "old", "body": "0%d" % len(conns)})
        conns.append(c)
    if r.random() < 0.3 and conns:
        conns[0].cmd({"type": "close", "mood": "happy"})       # one of them closes properly, the others just vanish
    if r.random() < 0.3:
        conns[-1].cmd({"type": "list"})
    for c in conns:
        c.drop()
    other = Client(s, "a3", "s1")                               # (another app keeps a live channel through all of it)
    other.cmd({"type": "open", "mailbox": mbox})
    x = r.random()
    if x < 0.5:
        for k in range(E // P + 2):
            _adv(s, P)
            if k == 1:
                other.cmd({"type": "add", "phase": "p", "body": "aa"})
    else:
        _adv(s, E + P + r.choice([0, 1, P]))
    # the id comes back
    second = r.sample(["s1", "s2", "s3", "s4"], r.choice([1, 2, 2, 3]))
    back = []
    for side in second:
        c = Client(s, app, side)
        if use_np:
            o = c.cmd({"type": "claim", "nameplate": name})
            m2 = None
            for e in o["log"]:
                if e[0] == "F" and e[3] == "claimed" and isinstance(e[4], str):
                    m2 = bytes.fromhex(e[4]).decode("utf-8")
            c.cmd({"type": "open", "mailbox": m2 if (m2 is not None and r.random() < 0.6) else mbox})
        else:
            c.cmd({"type": "open", "mailbox": mbox})
        c.cmd({"type": "add", "phase": "new", "body": "1%d" % len(back)})
        back.append(c)
    if r.random() < 0.5:
        s.emit({"k": "restart"})
        s.cinfo.clear()
        c = Client(s, app, second[0])
        c.cmd({"type": "open", "mailbox": mbox})
        back = [c]
    for c in back:
        if r.random() < 0.8:
            c.cmd({"type": "close", "mailbox": mbox, "mood": r.choice(["happy", "lonely"])})
    late = Client(s, app, r.choice(second))
    late.cmd({"type": "open", "mailbox": mbox})
    late.cmd({"type": "list"})


SCRIPTS["reuse-after-prune"] = reuse_after_prune


def dst(s):
    """C12 C13 (C16): the server runs in a local time zone around a daylight-saving transition (profile.tz): a
    subscribed channel, a channel with recent activity refreshed now and then, and an abandoned one, across
    an hour of sweeps straddling the transition"""
    r = s.rng
    P, E = s.w.PERIOD, s.w.EXP
    a1 = Client(s, "a1", "s1")
    a1.cmd({"type": "claim", "nameplate": "1"})
    a1.cmd({"type": "open", "mailbox": "msub"})              # stays connected: must never expire
    a1.cmd({"type": "add", "phase": "p", "body": "00"})
    idle = Client(s, "a2", "s1")
    idle.cmd({"type": "open", "mailbox": "midle"})
    idle.cmd({"type": "add", "phase": "p", "body": "01"})
    idle.drop()                                               # abandoned: gone after EXP + one period
    t = 0
    k = 0
    while t < 90 * 60 * 8:
        if k % 2 == 0:
            c = Client(s, "a2", r.choice(["s1", "s2"]))       # comes back every other period: stays alive
            c.cmd({"type": "claim", "nameplate": "7"})
            c.cmd({"type": "open", "mailbox": "mactive"})
            if r.random() < 0.5:
                c.cmd({"type": "add", "phase": "p", "body": "%02x" % (k % 256)})
            c.drop()
        dt = P + r.choice([0, 0, 1, 8])
        _adv(s, dt)
        t += dt
        k += 1
    a1.cmd({"type": "add", "phase": "p", "body": "ff"})
    late = Client(s, "a1", "s2")
    late.cmd({"type": "claim", "nameplate": "1"})
    late.cmd({"type": "open", "mailbox": "msub"})


SCRIPTS["dst"] = dst


def np_cross(s):
    """C03 C07 (C06): several nameplates live side by side (two apps); one client gives up the lonely way -- claim,
    open, close WITHOUT release, so its nameplate goes with its mailbox -- and only then do the holders of the OTHER
    nameplates release, re-claim, and new sides claim the retired names: each name's new incarnation must get a fresh
    mailbox id, releases must retire exactly their own nameplate, `reclaimed` must still be answered"""
    r = s.rng
    apps = ["a1", "a2"]
    names = ["1", "2", "4"]
    holders = {}
    for a in apps:
        for n in r.sample(names, r.choice([1, 2, 3])):
            c = Client(s, a, "s1")
            o = c.cmd({"type": "claim", "nameplate": n})
            if r.random() < 0.5:
                c2 = Client(s, a, "s2")
                c2.cmd({"type": "claim", "nameplate": n})
                if r.random() < 0.5:
                    c2.drop()
            holders[(a, n)] = c
    # the lonely client(s)
    for _ in range(r.choice([1, 2])):
        a = r.choice(apps)
        free = [n for n in names + ["9"] if (a, n) not in holders]
        n = r.choice(free) if free else "9"
        l = Client(s, a, "s3")
        o = l.cmd({"type": "claim", "nameplate": n})
        mb = None
        for e in o["log"]:
            if e[0] == "F" and e[3] == "claimed" and isinstance(e[4], str):
                mb = bytes.fromhex(e[4]).decode("utf-8")
        if mb is not None:
            l.cmd({"type": "open", "mailbox": mb})
            l.cmd({"type": "add", "phase": "p", "body": "00"})
            l.cmd({"type": "close", "mood": "lonely"})
        l.drop()
        pause(s)
    keys = list(holders)
    r.shuffle(keys)
    for (a, n) in keys:
        c = holders[(a, n)]
        x = r.random()
        if x < 0.7:
            c.cmd({"type": "release"})
            if r.random() < 0.5:
                other = Client(s, a, "s2")
                other.cmd({"type": "release", "nameplate": n})
                other.drop()
            if r.random() < 0.5:
                again = Client(s, a, "s1")
                again.cmd({"type": "claim", "nameplate": n})      # reclaimed if the name is still live, a new incarnation otherwise
                again.drop()
        newc = Client(s, a, r.choice(["s4", "s5"]))
        newc.cmd({"type": "claim", "nameplate": n})
        newc.cmd({"type": "list"})
        if r.random() < 0.5:
            newc.cmd({"type": "release"})
        newc.drop()
        pause(s)


SCRIPTS["np-cross"] = np_cross


def _claimed_mb(o):
    for e in o["log"]:
        if e[0] == "F" and e[3] == "claimed" and isinstance(e[4], str):
            return bytes.fromhex(e[4]).decode("utf-8")
    return None


def pipeline(s):
    """C01 C02 C03 C07 C08 C09 C14 (every change that answers first and works later): commands that arrive within
    ONE reactor turn -- several frames in one socket read, several sockets readable in one poll.  The events
    between burst(True) and burst(False) carry same_turn: the world lets no reactor turn pass after them, so work
    queued for 'the next turn' runs only after the whole burst.  The code as it is queues nothing, and the model
    handles every command atomically; the flavours are the pairs where late work would land on the wrong object:
    add + last close, re-sent release + re-claim, re-sent close + open by the peer, release + claim by the peer."""
    r = s.rng
    def burst(on):
        s.burst = 1.0 if on else 0.0
    app = r.choice(["a1", "a2"])
    for _ in range(r.choice([2, 3, 4])):
        name = r.choice(["1", "2", "6"])
        fl = r.choice(["add-close", "dup-release-reclaim", "release-reclaim", "dup-close-reopen", "close-reopen", "mixed"])
        a = Client(s, app, "s1")
        mb = _claimed_mb(a.cmd({"type": "claim", "nameplate": name})) or "m1"
        two = r.random() < 0.5
        b = None
        if two:
            b = Client(s, app, "s2")
            b.cmd({"type": "claim", "nameplate": name})
            b.cmd({"type": "open", "mailbox": mb})
        a.cmd({"type": "open", "mailbox": mb})
        a.cmd({"type": "add", "phase": "pake", "body": "01"})
        if two:
            b.cmd({"type": "add", "phase": "pake", "body": "02"})
            b.cmd({"type": "release"})
        if fl == "add-close":
            a.cmd({"type": "release"})
            if two:
                b.cmd({"type": "close", "mood": "happy"})
            burst(True)
            a.cmd({"type": "add", "phase": "last", "body": "ff"})
            if r.random() < 0.3:
                a.cmd({"type": "add", "phase": "last2", "body": "fe"})
            burst(False)
            a.cmd({"type": "close", "mood": "happy"})
            a.drop()
            if r.random() < 0.3:
                s.emit({"k": "restart"})
                s.cinfo.clear()
            c = Client(s, app, r.choice(["s1", "s3"]))
            c.cmd({"type": "open", "mailbox": mb})                  # the id again: must start empty
            c.cmd({"type": "add", "phase": "new", "body": "10"})
            c.cmd({"type": "close", "mood": "lonely"})
            c.drop()
        elif fl in ("dup-release-reclaim", "release-reclaim"):
            if two:
                b.cmd({"type": "close", "mood": "happy"})
            a.cmd({"type": "close", "mood": "happy"})
            a.cmd({"type": "release"})                                # the last claimer: the nameplate is retired
            a.drop()
            burst(True)
            if fl == "dup-release-reclaim":
                d = Client(s, app, "s1")
                d.cmd({"type": "release", "nameplate": name})         # the re-sent release (its answer was lost)
                d.drop()
            n = Client(s, app, "s1")
            burst(False)
            mb2 = _claimed_mb(n.cmd({"type": "claim", "nameplate": name}))   # a new incarnation, claimed by s1
            p = Client(s, app, "s2")
            mb3 = _claimed_mb(p.cmd({"type": "claim", "nameplate": name}))   # the peer must join it
            p.cmd({"type": "list"})
            for c in (n, p):
                if r.random() < 0.7:
                    c.cmd({"type": "release"})
                c.drop()
        elif fl in ("dup-close-reopen", "close-reopen"):
            a.cmd({"type": "release"})
            if two:
                b.cmd({"type": "close", "mood": "happy"})
            a.cmd({"type": "close", "mood": "happy"})                 # the last side: the mailbox is retired
            a.drop()
            burst(True)
            if fl == "dup-close-reopen":
                d = Client(s, app, "s1")
                d.cmd({"type": "close", "mailbox": mb, "mood": "happy"})   # the re-sent close
                d.drop()
            p = Client(s, app, "s2")
            burst(False)
            p.cmd({"type": "open", "mailbox": mb})                    # the id again, by the peer, within the same turn
            p.cmd({"type": "add", "phase": "new", "body": "20"})
            p.cmd({"type": "close", "mood": "lonely"})
            p.drop()
        else:
            burst(True)
            s.burst = 0.7
            if not two:
                b = Client(s, app, "s2")
                b.cmd({"type": "claim", "nameplate": name})
                b.cmd({"type": "open", "mailbox": mb})
                b.cmd({"type": "add", "phase": "pake", "body": "02"})
                b.cmd({"type": "release"})
            a.cmd({"type": "release"})
            a.cmd({"type": "add", "phase": "v", "body": "03"})
            b.cmd({"type": "add", "phase": "v", "body": "04"})
            order = [a, b]
            r.shuffle(order)
            order[0].cmd({"type": "close", "mood": "happy"})
            order[1].cmd({"type": "close", "mood": "happy"})
            order[0].drop()
            c = Client(s, app, "s3")
            c.cmd({"type": "claim", "nameplate": name})
            c.cmd({"type": "list"})
            order[1].drop()
            burst(False)
            c.cmd({"type": "release"})
            c.drop()
        if b is not None:
            b.drop()
        a.drop()
        burst(False)
        pause(s)


SCRIPTS["pipeline"] = pipeline


def lingering(s):
    """C08 C02 C01 C11 C14 (tear-down paths): one side is attached over SEVERAL connections (an old one that never
    noticed it was replaced, and a new one); the mailbox is closed by its last open side over one of them, or swept, or
    the service restarts, while the others are still connected -- and only then do the lingering connections send
    their own first close / add / a second open / release, or just disconnect.  Each of them is a connection that
    never closed: its close must be answered `closed`, its other commands as on any connection without a mailbox."""
    r = s.rng
    app = r.choice(["a1", "a2"])
    for _ in range(r.choice([1, 2, 3])):
        name = r.choice(["1", "3"])
        use_np = r.random() < 0.6
        olds = []
        mb = r.choice(["m1", "mling"])
        for i in range(r.choice([1, 2, 2, 3])):
            c = Client(s, app, "s1")
            if use_np:
                mb = _claimed_mb(c.cmd({"type": "claim", "nameplate": name})) or mb
            c.cmd({"type": "open", "mailbox": mb})
            if r.random() < 0.5:
                c.cmd({"type": "add", "phase": "p%d" % i, "body": "0%d" % i})
            olds.append(c)
        b = None
        if r.random() < 0.6:
            b = Client(s, app, "s2")
            if use_np and r.random() < 0.6:
                b.cmd({"type": "claim", "nameplate": name})
            b.cmd({"type": "open", "mailbox": mb})
            b.cmd({"type": "add", "phase": "b", "body": "bb"})
            if r.random() < 0.4:
                olds.append(Client(s, app, "s2"))
                olds[-1].cmd({"type": "open", "mailbox": mb})
        new = Client(s, app, "s1")
        if use_np and r.random() < 0.5:
            new.cmd({"type": "claim", "nameplate": name})
        new.cmd({"type": "open", "mailbox": mb})
        foreign = None
        if r.random() < 0.35:
            # a client of ANOTHER app names the same mailbox id (known finding KF1: refused with an internal error and
            # dropped; if it is ever let in, it must not outlive the mailbox with a usable handle)
            foreign = Client(s, "a3" if app != "a3" else "a1", r.choice(["s1", "s2"]))
            foreign.cmd({"type": "open", "mailbox": mb})
        how = r.choice(["close", "close", "close", "sweep", "restart"])
        if how == "close":
            if b is not None:
                if use_np and r.random() < 0.5:
                    b.cmd({"type": "release"})
                b.cmd({"type": "close", "mood": "happy"})
                if r.random() < 0.5:
                    b.drop()
            if use_np and r.random() < 0.5:
                new.cmd({"type": "release"})
            new.cmd({"type": "close", "mood": "happy"})          # the last open side closes: the mailbox is retired
            if r.random() < 0.5:
                new.drop()
        elif how == "sweep":
            if b is not None:
                b.drop()
            new.drop()
            for c in olds:
                c.drop()
            olds = [Client(s, app, "s1")]                          # bound, nothing open, across the sweeps
            _adv(s, s.w.EXP + s.w.PERIOD + 1)
        else:
            s.emit({"k": "restart"})
            s.cinfo.clear()
            olds = []
            c = Client(s, app, "s1")
            c.cmd({"type": "open", "mailbox": mb})
            olds.append(c)
            c2 = Client(s, app, "s1")
            c2.cmd({"type": "open", "mailbox": mb})
            c2.cmd({"type": "close", "mood": "lonely"})
            if b is not None:
                b2 = Client(s, app, "s2")
                b2.cmd({"type": "close", "mailbox": mb, "mood": "happy"})
                b2.drop()
        # the lingering connections speak up
        r.shuffle(olds)
        for c in olds:
            x = r.random()
            if x < 0.5:
                c.cmd({"type": "close", "mood": "happy"} if r.random() < 0.5 else {"type": "close", "mailbox": mb, "mood": "happy"})
                if r.random() < 0.3:
                    c.cmd({"type": "close", "mailbox": mb})      # a second close on the same connection: refused
            elif x < 0.7:
                c.cmd({"type": "add", "phase": "late", "body": "ee"})
                if r.random() < 0.4:
                    c.cmd({"type": "close", "mood": "errory"})
            elif x < 0.85:
                if use_np:
                    c.cmd({"type": "release"})
                c.cmd({"type": "open", "mailbox": mb})
                c.cmd({"type": "close"})
            if r.random() < 0.7:
                c.drop()
        if foreign is not None:
            foreign.cmd({"type": "add", "phase": "f", "body": "ff"})
            if r.random() < 0.5:
                foreign.cmd({"type": "close", "mood": "happy"})
            foreign.drop()
        if r.random() < (0.3 if foreign is not None else 0.7):
            peer = Client(s, app, "s2")
            peer.cmd({"type": "open", "mailbox": mb})               # the id again: must start empty
            peer.cmd({"type": "list"})
            peer.cmd({"type": "close", "mood": "lonely"})
            peer.drop()
        for c in olds + [new] + ([b] if b else []):
            c.drop()
        pause(s)


SCRIPTS["lingering"] = lingering


def warm_order(s):
    """C03 C04 C07 (whatever a process remembers about names, claims and mailboxes is filled in SOME order): a
    nameplate is claimed by one or two sides, the server restarts (or not), and the sides come back in every order of
    {open the mailbox, claim the name again, list, allocate} -- the open before the claim, the peer before the owner;
    then the incarnation is retired by every route (releases and closes, closes only, one of each, a sweep), and the
    name is claimed again by the same side and by a new one: a fresh mailbox id, the same for both, listed once."""
    r = s.rng
    app = r.choice(["a1", "a2"])
    for _ in range(r.choice([1, 2, 3])):
        name = r.choice(["1", "2", "5"])
        a = Client(s, app, "s1")
        mb = _claimed_mb(a.cmd({"type": "claim", "nameplate": name}))
        if mb is None:
            a.drop()
            continue
        two = r.random() < 0.6
        if two:
            b = Client(s, app, "s2")
            b.cmd({"type": "claim", "nameplate": name})
            if r.random() < 0.5:
                b.cmd({"type": "open", "mailbox": mb})
        if r.random() < 0.5:
            a.cmd({"type": "open", "mailbox": mb})
            a.cmd({"type": "add", "phase": "p", "body": "01"})
        if r.random() < 0.7:
            s.emit({"k": "restart"})
            s.cinfo.clear()
        else:
            a.drop()
            if two:
                b.drop()
        # they come back, in some order
        A, B = Client(s, app, "s1"), (Client(s, app, "s2") if two else None)
        steps = [(A, {"type": "open", "mailbox": mb}), (A, {"type": "claim", "nameplate": name})]
        if two:
            steps += [(B, {"type": "open", "mailbox": mb}), (B, {"type": "claim", "nameplate": name})]
        if r.random() < 0.4:
            steps.append((A, {"type": "list"}))
        if r.random() < 0.3:
            steps.append((Client(s, app, "s4"), {"type": "allocate"}))
        r.shuffle(steps)
        for c, m in steps:
            c.cmd(m)
        # retire the incarnation
        route = r.choice(["close-only", "close-only", "release-close", "mixed", "sweep"])
        sides = [A] + ([B] if two else [])
        if route == "sweep":
            for c in sides:
                c.drop()
            _adv(s, s.w.EXP + s.w.PERIOD + 1)
        else:
            for i, c in enumerate(sides):
                if route == "release-close" or (route == "mixed" and i == 0):
                    c.cmd({"type": "release", "nameplate": name})
                c.cmd({"type": "close", "mailbox": mb, "mood": "happy"})
                if r.random() < 0.5:
                    c.drop()
        # the name again
        again = Client(s, app, "s1") if r.random() < 0.6 else A
        m1 = _claimed_mb(again.cmd({"type": "claim", "nameplate": name}))
        other = Client(s, app, r.choice(["s2", "s3"]))
        m2 = _claimed_mb(other.cmd({"type": "claim", "nameplate": name}))
        other.cmd({"type": "list"})
        if r.random() < 0.5 and m1:
            again.cmd({"type": "open", "mailbox": m1})
            again.cmd({"type": "add", "phase": "q", "body": "02"})
        for c in (again, other):
            c.cmd({"type": "release", "nameplate": name})
            c.drop()
        for c in sides:
            c.drop()
        pause(s)


SCRIPTS["warm-order"] = warm_order


MOODS = ["happy", "lonely", "errory", "scary", "unwelcome", "", None, "pruney", "crowded", "HAPPY", "happy ", "\u00e9rrory"]


def moods(s):
    """C15 C17 (C08): every combination of number of sides (1-4) and reported moods -- known, unknown, empty, missing,
    the server's own result words, look-alikes -- on mailboxes with and without a nameplate, retired by the last close;
    with a usage database the record must be classified by the documented precedence, and no combination may make
    the close fail"""
    r = s.rng
    app = r.choice(["a1", "a2"])
    for i in range(r.choice([3, 4, 5])):
        k = r.choice([1, 2, 2, 2, 3, 4])
        use_np = r.random() < 0.4
        mb = "mm%d" % i
        name = str(r.choice([1, 2, 3]) + 3 * i)
        cs = []
        for j in range(k):
            c = Client(s, app, "s%d" % (j + 1))
            if use_np and j < 2:
                mb = _claimed_mb(c.cmd({"type": "claim", "nameplate": name})) or mb
            c.cmd({"type": "open", "mailbox": mb})
            if r.random() < 0.5:
                c.cmd({"type": "add", "phase": "p", "body": "0%d" % j})
            cs.append(c)
            if r.random() < 0.3:
                s.emit({"k": "advance", "dt": r.choice([1, 8, 61]), "fault": False})
        if use_np:
            for c in cs[:2]:
                if r.random() < 0.7:
                    c.cmd({"type": "release"})
        order = list(cs)
        r.shuffle(order)
        for c in order:
            m = r.choice(MOODS)
            msg = {"type": "close"}
            if m is not None:
                msg["mood"] = m
            if r.random() < 0.3:
                msg["mailbox"] = mb
            c.cmd(msg)
            if r.random() < 0.6:
                c.drop()
        for c in cs:
            c.drop()
        pause(s)


SCRIPTS["moods"] = moods


def run(name, session):
    SCRIPTS[name](session)


# ---------------------------------------------------------------------- C04 thorough: every single hole of 1..999
def _every_hole_slice(args):
    """all of 1..999 (and a few decoys) claimed in one app; for every k of the slice: release k, allocate --
    the answer must be exactly k, held and committed (monitors.alloc_violations is the property text);
    finally the all-taken case.  Driven on the real code without per-event table dumps."""
    cfg, lo, hi, seed = args
    import traceback
    import world as WORLD, monitors as M
    res = {"seed": seed, "profile": "every-hole:%d-%d" % (lo, hi), "cfg": cfg, "n_events": 0, "div": None, "mon": {},
           "nontrivial": {"C04": 0}, "kf": [], "stale": [], "kinds": {}, "meta": {}, "no_model": True}
    try:
        w = WORLD.World(cfg, seed=seed)
    except Exception:
        return {"seed": seed, "profile": res["profile"], "harness_error": traceback.format_exc()}
    try:
        w.is_clean = lambda: True     # (C09's flag is not this sweep's business: saves four table dumps per frame)
        app, viol, n_ev, last = "a1", [], [0], [0]

        def do(ev):
            w._reset_event()
            n_ev[0] += 1
            exc = w.do_base(ev)
            return exc, list(w.log)

        def client(side):
            last[0] += 1
            c = last[0]
            do({"k": "connect", "c": c})
            do({"k": "cmd", "c": c, "msg": {"type": "bind", "appid": app, "side": side}})
            return c

        def names():
            return set(r[0] for r in w.reader_c.execute("SELECT name FROM nameplates WHERE app_id=?", (app,)).fetchall())

        def probe(side, expect):
            c = client(side)
            if expect is not None:
                do({"k": "cmd", "c": c, "msg": {"type": "release", "nameplate": expect}})
            used = names()
            exc, log = do({"k": "cmd", "c": c, "msg": {"type": "allocate"}})
            got = [e for e in log if e[0] == "F" and e[1] == c and e[3] == "allocated" and isinstance(e[4], str)]
            res["nontrivial"]["C04"] += 1
            if exc is not None or not got:
                viol.append("hole %s: allocate answered %s (exception %s)" % (expect, [e[3:] for e in log if e[0] == "F"], exc))
            else:
                n = M.unhex(got[0][4])
                msgs = M.alloc_violations(M.H(app), M.H(side), n, used, w.dump_chan(w.reader_c))
                if expect is not None and n != expect and not msgs:
                    msgs = ["the only free nameplate of up to 3 digits is %s, allocate answered %s" % (expect, n)]
                for m in msgs:
                    viol.append("names in use: 1..999 except %s, plus decoys; %s" % (expect, m))
            do({"k": "disconnect", "c": c})

        for k in range(1, 1000):
            c = client("s1")
            do({"k": "cmd", "c": c, "msg": {"type": "claim", "nameplate": str(k)}})
            do({"k": "disconnect", "c": c})
        for d in ["x", "0", "07", "007", "ab", "1000"]:
            c = client("s2")
            do({"k": "cmd", "c": c, "msg": {"type": "claim", "nameplate": d}})
            do({"k": "disconnect", "c": c})
        for k in range(lo, hi + 1):
            probe("s1", str(k))
            if len(viol) > 3:
                break
        for _ in range(3):
            probe("s2", None)           # all 999 taken: 4 to 6 digits, free, held
        res["n_events"] = n_ev[0]
        res["kinds"] = {"every-hole:probes": res["nontrivial"]["C04"]}
        if viol:
            res["meta"]["C04"] = {"meta": "C04-every-hole", "what": viol[0], "cfg": cfg, "variant_cfg": cfg, "seed": seed,
                                  "base_events": [], "variant_events": [], "first_difference": {"violations": viol[:6]},
                                  "recipe": "one app: claim 1..999 and the decoys x 0 07 007 ab 1000 (one connection each), "
                                            "then for k in %d..%d: bind, release k, allocate" % (lo, hi)}
        return res
    except Exception:
        return {"seed": seed, "profile": res["profile"], "harness_error": traceback.format_exc()}
    finally:
        w.close()


def extra_C04(tier, seed, bh, rh):
    """every single hole k in 1..999, listing allowed and disallowed (cheap: ~10 CPU-seconds per configuration)"""
    import metamorphic as MM, multiprocessing, time
    def compute():
        t0 = time.time()
        tasks = []
        for cfg in ({"allow_list": True, "usage": True, "blur": None}, {"allow_list": False, "usage": False, "blur": None}):
            edges = list(range(1, 1000, 125)) + [1000]
            for lo, hi in zip(edges[:-1], edges[1:]):
                tasks.append((cfg, lo, hi - 1, seed))
        ctx = multiprocessing.get_context("fork")
        with ctx.Pool(min(16, len(tasks))) as pool:
            res = pool.map(_every_hole_slice, tasks, 1)
        return {"results": res, "seconds": time.time() - t0}
    val = MM.cached("everyhole-%d-%s-%s" % (seed, bh[:12], rh[:16]), compute)
    return {"name": "every-hole", "results": val["results"]}
