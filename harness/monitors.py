"""monitors.py -- the properties C01..C17 in executable form, evaluated on the
IMPLEMENTATION's own trace (frames per connection, rows of the database files
as seen by the server and by a second reader, after every event).  A monitor
rejection is a concrete failing history of the property itself, independent of
the Coq model.  (C06 C11 C14 C18 are two-trace properties: metamorphic.py.)

A history is dict(cfg, events, obs) with obs[0] the observation after boot and
obs[i+1] the observation after events[i].  All strings are hex (utf-8).
`kf[i]` = known-finding triggers that fired at event i (from the model).
"""
import re, json
from collections import defaultdict

TPS = 8


def H(s):
    return s.encode("utf-8").hex()


def unhex(h):
    return bytes.fromhex(h).decode("utf-8", "surrogatepass")


def frames(o, c=None):
    return [e for e in o["log"] if e[0] == "F" and (c is None or e[1] == c)]


class Ctx(object):
    """per-event context derived from commands and frames only"""
    pass


def walk(hist):
    """yield Ctx for each event: pre/post observation, the command, who is bound
    and subscribed according to the protocol-level definition of the properties"""
    events, obs = hist["events"], hist["obs"]
    bound = {}     # c -> (app_hex, side_hex)
    holds = {}     # c -> (app_hex, mbox_hex): subscribed (successful open, not closed, mailbox still there)
    named_np = {}  # c -> the nameplate the connection named in its (first) claim, refused-as-crowded included (FlagBridge.v)
    named_mb = {}  # c -> the mailbox the connection named in its (last) open while holding none
    out = []
    for i, ev in enumerate(events):
        pre, post = obs[i], obs[i + 1]
        x = Ctx()
        x.i, x.ev, x.pre, x.post = i, ev, pre, post
        x.base = ev["e"] if ev["k"] == "crash" else ev
        x.crash = ev["k"] == "crash"
        x.kind = x.base["k"] if ev["k"] != "restart" else "restart"
        x.bound_pre = dict(bound)
        x.holds_pre = dict(holds)
        x.named_np_pre = dict(named_np)
        x.named_mb_pre = dict(named_mb)
        x.c = x.base.get("c")
        x.msg = x.base.get("msg") if x.kind == "cmd" else None
        x.mtype = x.msg.get("type") if x.msg is not None else None
        fs = frames(post, x.c) if x.kind == "cmd" else []
        x.frames_c = fs
        x.error = next((f[4] for f in fs if f[3] == "error"), None)
        x.exc = post["exc"]
        x.truncated = x.crash and (not fs or post["exc"] is None) and _crash_truncated(ev, post)
        x.ok = (x.kind == "cmd" and x.error is None and x.exc is None and not x.truncated)
        # ---- update protocol-level picture
        if x.kind == "connect":
            pass
        elif x.kind == "disconnect":
            bound.pop(x.c, None)
            holds.pop(x.c, None)
            named_np.pop(x.c, None)
            named_mb.pop(x.c, None)
        elif x.kind == "cmd" and not x.crash:
            c, msg = x.c, x.msg
            if x.exc is not None:
                bound.pop(c, None)
                holds.pop(c, None)
                named_np.pop(c, None)
                named_mb.pop(c, None)
            elif c in bound and x.error != "other":
                if x.mtype == "claim" and isinstance(msg.get("nameplate"), str) and c not in named_np:
                    named_np[c] = msg["nameplate"]
                elif x.mtype == "open" and isinstance(msg.get("mailbox"), str) and c not in holds:
                    named_mb[c] = msg["mailbox"]
            if x.exc is not None:
                pass
            elif x.ok:
                if x.mtype == "bind" and c not in bound:
                    bound[c] = (H(msg["appid"]), H(msg["side"]))
                elif x.mtype == "open" and c in bound:
                    holds[c] = (bound[c][0], H(msg["mailbox"]))
                elif x.mtype == "close" and c in bound:
                    holds.pop(c, None)
        if ev["k"] in ("restart", "crash"):
            bound.clear()
            holds.clear()
            named_np.clear()
            named_mb.clear()
        # a mailbox that is gone takes its subscriptions with it
        live = set((r[0], r[1]) for r in post["chan"]["mb"])
        for c in list(holds):
            if holds[c] not in live:
                del holds[c]
        x.bound_post = dict(bound)
        x.holds_post = dict(holds)
        out.append(x)
    return out


def _crash_truncated(ev, post):
    """a crash event whose command did not run to completion"""
    n = ev["n"]
    commits = len([e for e in post["log"] if e[0] in ("C", "U")])
    return commits >= n   # died at the n-th commit (or before the event for n=0)


# ---------------------------------------------------------------------- C01
def mon_C01(hist, ctxs, kf):
    """every successful open is sent exactly the messages added to that mailbox
    incarnation (per the commands seen), nothing else"""
    v = []
    ledger = defaultdict(list)    # (app, mbox) -> [(side, phase, body, rx, id)]
    nontrivial = 0
    for x in ctxs:
        if x.kind == "cmd" and x.mtype == "add" and x.c in x.holds_pre and x.c in x.bound_pre:
            committed = x.ok or (x.crash and any(e[0] == "C" for e in x.post["log"]))
            if committed and isinstance(x.msg.get("phase"), str) and isinstance(x.msg.get("body"), str):
                a, m = x.holds_pre[x.c]
                mid = x.msg.get("id")
                ledger[(a, m)].append([x.bound_pre[x.c][1], H(x.msg["phase"]), H(x.msg["body"]),
                                       x.pre["now"], None if mid is None else H(mid)])
        if x.kind == "cmd" and x.mtype == "open" and x.ok and x.c in x.bound_pre:
            key = (x.bound_pre[x.c][0], H(x.msg["mailbox"]))
            got = sorted(json.dumps(f[4:9]) for f in x.frames_c if f[3] == "message")
            want = sorted(json.dumps(r) for r in ledger.get(key, []))
            if want:
                nontrivial += 1
            if got != want:
                v.append((x.i, "open of %s/%s replayed %s, messages added and not discarded: %s"
                          % (unhex(key[0]), unhex(key[1]), got, want)))
            rxs = [f[7] for f in x.frames_c if f[3] == "message"]
            if rxs != sorted(rxs):
                v.append((x.i, "replay not in server_rx order: %r" % (rxs,)))
        live = set((r[0], r[1]) for r in x.post["chan"]["mb"])
        for key in list(ledger):
            if key not in live:
                del ledger[key]
    return v, nontrivial


# ---------------------------------------------------------------------- C02
def mon_C02(hist, ctxs, kf):
    v = []
    nontrivial = 0
    for x in ctxs:
        if x.kind != "cmd" or x.crash:
            continue
        msgframes = [f for f in frames(x.post) if f[3] == "message"]
        if x.mtype == "add" and x.ok and x.c in x.holds_pre:
            a, m = x.holds_pre[x.c]
            subs = sorted(c for c, k in x.holds_pre.items() if k == (a, m))
            mid = x.msg.get("id")
            want = [x.bound_pre[x.c][1], H(x.msg["phase"]), H(x.msg["body"]), x.pre["now"],
                    None if mid is None else H(mid)]
            got = sorted((f[1], json.dumps(f[4:9])) for f in msgframes)
            exp = sorted((c, json.dumps(want)) for c in subs)
            if len(subs) > 1:
                nontrivial += 1
            if got != exp:
                v.append((x.i, "add into %s/%s by conn %d: delivered %s, subscribed connections %s expect %s"
                          % (unhex(a), unhex(m), x.c, got, subs, json.dumps(want))))
        elif x.mtype == "open" and x.ok:
            other = [f for f in msgframes if f[1] != x.c]
            if other:
                v.append((x.i, "message frames to connections other than the opener: %s" % other))
        elif msgframes:
            v.append((x.i, "message frames outside add/open: %s" % msgframes))
    for x in ctxs:
        if x.kind != "cmd":
            fs = [f for f in frames(x.post) if f[3] == "message"]
            if fs:
                v.append((x.i, "message frames during %s: %s" % (x.kind, fs)))
    return v, nontrivial


# ---------------------------------------------------------------------- C03
def mon_C03(hist, ctxs, kf):
    v = []
    inc = defaultdict(int)       # (app,name) -> incarnation counter
    ids = {}                     # (app,name,inc) -> mailbox id
    owner = {}                   # mailbox id -> (app,name,inc)
    held = defaultdict(set)      # (app,name) -> sides holding a claim, from the command stream
    unknown_alloc = set()        # (app, side) whose allocate was cut short by a crash: it may hold a name we do not know
    nontrivial = 0
    for x in ctxs:
        if x.kind == "cmd" and x.mtype == "claim" and x.c in x.bound_pre:
            for f in x.frames_c:
                if f[3] == "claimed":
                    a = x.bound_pre[x.c][0]
                    n = H(x.msg["nameplate"])
                    key = (a, n, inc[(a, n)])
                    mid = f[4]
                    if key in ids:
                        nontrivial += 1
                        if ids[key] != mid:
                            v.append((x.i, "nameplate %s/%s: claimed answered %s, earlier %s"
                                      % (unhex(a), unhex(n), mid, ids[key])))
                    ids[key] = mid
                    if mid in owner and owner[mid] != key:
                        v.append((x.i, "mailbox id %s handed out for %r and for %r" % (mid, owner[mid], key)))
                    owner[mid] = key
                    row = [r for r in x.post["chan"]["np"] if r[1] == a and r[2] == n]
                    if len(row) != 1 or row[0][3] != mid:
                        v.append((x.i, "claimed %s is not the nameplate row's mailbox: %s" % (mid, row)))
        # ---- a ledger of claimants kept from the command stream (not from the rows, which a broken server may
        # fail to maintain): a side holds (a, n) from its `claimed` / `allocated` / refused-as-crowded claim (the
        # server honours its release) until its own `released`; a command cut short by a crash may or may not
        # have recorded the claim -- it counts as holding (conservative).  When the LAST holder is answered
        # `released`, that incarnation of the name is retired: whoever claims the name next is a new incarnation
        # and must be told a mailbox id never handed out before.
        if x.kind == "cmd" and x.c in x.bound_pre and x.mtype in ("claim", "allocate", "release"):
            a, side = x.bound_pre[x.c]
            if x.mtype == "claim" and isinstance(x.msg.get("nameplate"), str):
                n = H(x.msg["nameplate"])
                if x.crash or x.error == "crowded" or any(f[3] == "claimed" for f in x.frames_c):
                    held[(a, n)].add(side)
            elif x.mtype == "allocate":
                got = [f[4] for f in x.frames_c if f[3] == "allocated" and isinstance(f[4], str)]
                for n in got:
                    held[(a, n)].add(side)
                if x.crash and not got:
                    unknown_alloc.add((a, side))
            elif x.mtype == "release" and not x.crash and any(f[3] == "released" for f in x.frames_c):
                n = x.msg.get("nameplate")
                if isinstance(n, str):
                    n = H(n)
                else:
                    n = x.named_np_pre.get(x.c)
                    n = H(n) if isinstance(n, str) else None
                if n is not None and side in held.get((a, n), ()) and (a, side) not in unknown_alloc:
                    held[(a, n)].discard(side)
                    if not held[(a, n)]:
                        inc[(a, n)] += 1          # retired by its last release
        live = set((r[1], r[2]) for r in x.post["chan"]["np"])
        seen = set((r[1], r[2]) for r in x.pre["chan"]["np"])
        for key in seen - live:
            inc[key] += 1
            held.pop(key, None)
    return v, nontrivial


# ---------------------------------------------------------------------- C04
DEC = re.compile(r"^[1-9][0-9]*$")


def alloc_violations(a, side, n, used, view):
    """the property's text for one `allocated n` answer to a connection bound to (a, side):
    used = names with a nameplates row in app a before the command; view = rows a second reader
    of the files sees after it"""
    out = []
    if not DEC.match(n):
        return ["allocated %r is not a positive decimal without leading zeros" % n]
    if n in used:
        out.append("allocated %r is already in use in app %s" % (n, unhex(a)))
    for d in (1, 2, 3):
        if any(str(k) not in used for k in range(10 ** (d - 1), 10 ** d)):
            if len(n) > d:
                out.append("allocated %r although a free %d-digit nameplate exists" % (n, d))
            break
    if len(n) > 6:
        out.append("allocated %r longer than 6 digits" % n)
    if view is not None:
        # held, and committed, when the answer is sent
        rows = [r for r in view["np"] if r[1] == a and r[2] == H(n)]
        ok = False
        for r in rows:
            if any(s[0] == r[0] and s[2] == side and s[1] for s in view["nps"]):
                ok = True
        if not ok:
            out.append("allocated %r but no committed claim of side %s on it" % (n, unhex(side)))
    return out


def mon_C04(hist, ctxs, kf):
    v = []
    nontrivial = 0
    for x in ctxs:
        if x.kind != "cmd" or x.mtype != "allocate" or x.c not in x.bound_pre:
            continue
        for f in x.frames_c:
            if f[3] != "allocated":
                continue
            a, side = x.bound_pre[x.c]
            n = unhex(f[4])
            used = set(unhex(r[2]) for r in x.pre["chan"]["np"] if r[1] == a)
            if used:
                nontrivial += 1
            for msg in alloc_violations(a, side, n, used, None if x.crash else x.post["chan_c"]):
                v.append((x.i, msg))
    return v, nontrivial


# ---------------------------------------------------------------------- C05
def mon_C05(hist, ctxs, kf):
    v = []
    mb_inc = defaultdict(int)
    np_inc = defaultdict(int)
    mb_sides = defaultdict(set)    # (app, mbox, inc) -> sides served
    np_sides = defaultdict(set)
    nontrivial = 0
    for x in ctxs:
        if x.kind == "cmd":
            for f in frames(x.post):
                c = f[1]
                if f[3] == "message" and c in x.holds_pre or (f[3] == "message" and c == x.c):
                    hold = x.holds_post.get(c) or x.holds_pre.get(c)
                    if hold is None and c == x.c and x.mtype == "open" and c in x.bound_pre:
                        hold = (x.bound_pre[c][0], H(x.msg["mailbox"]))
                    if hold is not None and c in x.bound_pre:
                        key = hold + (mb_inc[hold],)
                        mb_sides[key].add(x.bound_pre[c][1])
                if f[3] == "claimed" and c == x.c and c in x.bound_pre and x.mtype == "claim":
                    key0 = (x.bound_pre[c][0], H(x.msg["nameplate"]))
                    np_sides[key0 + (np_inc[key0],)].add(x.bound_pre[c][1])
            if x.mtype == "open" and x.ok and x.c in x.bound_pre:
                hold = (x.bound_pre[x.c][0], H(x.msg["mailbox"]))
                mb_sides[hold + (mb_inc[hold],)].add(x.bound_pre[x.c][1])
        for key, sides in list(mb_sides.items()):
            if len(sides) > 2:
                v.append((x.i, "mailbox %s/%s served %d sides: %s" % (unhex(key[0]), unhex(key[1]), len(sides), sorted(map(unhex, sides)))))
                del mb_sides[key]
        for key, sides in list(np_sides.items()):
            if len(sides) > 2:
                v.append((x.i, "nameplate %s/%s told its mailbox to %d sides" % (unhex(key[0]), unhex(key[1]), len(sides))))
                del np_sides[key]
        if x.error == "crowded":
            nontrivial += 1
            if any(f[3] in ("claimed", "message") for f in x.frames_c):
                v.append((x.i, "crowded answer accompanied by claimed/message frames"))
        live_mb = set((r[0], r[1]) for r in x.post["chan"]["mb"])
        for key in set((r[0], r[1]) for r in x.pre["chan"]["mb"]) - live_mb:
            mb_inc[key] += 1
        live_np = set((r[1], r[2]) for r in x.post["chan"]["np"])
        for key in set((r[1], r[2]) for r in x.pre["chan"]["np"]) - live_np:
            np_inc[key] += 1
    return v, nontrivial


# ---------------------------------------------------------------------- C07
def np_holders(chan):
    """{(app,name): {side: claimed}}"""
    byid = {r[0]: (r[1], r[2], r[3]) for r in chan["np"]}
    res = {}
    for r in chan["np"]:
        res[(r[1], r[2])] = {}
    for s in chan["nps"]:
        if s[0] in byid:
            a, n, _ = byid[s[0]]
            res[(a, n)][s[2]] = s[1]
    return res


def mon_C07(hist, ctxs, kf):
    v = []
    nontrivial = 0
    for x in ctxs:
        pre, post = x.pre["chan"], x.post["chan"]
        hp, hq = np_holders(pre), np_holders(post)
        mb_post = set(r[1] for r in post["mb"])
        np_mbox = {(r[1], r[2]): r[3] for r in pre["np"]}
        releaser = None
        if x.kind == "cmd" and x.mtype == "release" and x.c in x.bound_pre:
            releaser = x.bound_pre[x.c]
        for key, sides in hp.items():
            for side, claimed in sides.items():
                if not claimed:
                    continue
                still = hq.get(key, {}).get(side, False)
                same_mbox = key in hq and dict(((r[1], r[2]), r[3]) for r in post["np"]).get(key) == np_mbox[key]
                if still and same_mbox:
                    continue
                if releaser is not None and releaser == (key[0], side):
                    named = x.msg.get("nameplate")
                    if named is None or H(named) == key[1]:
                        nontrivial += 1
                        continue
                if np_mbox[key] not in mb_post:
                    continue     # its mailbox was deleted (last close or expiry)
                v.append((x.i, "claim of side %s on nameplate %s/%s ended (or re-pointed) by %s"
                          % (unhex(side), unhex(key[0]), unhex(key[1]), describe(x))))
        if x.kind == "cmd" and x.mtype == "release" and x.c in x.bound_pre and not x.crash:
            a, side = x.bound_pre[x.c]
            if x.error is None and x.exc is None:
                if not any(f[3] == "released" for f in x.frames_c):
                    v.append((x.i, "release not answered released"))
                named = x.msg.get("nameplate")
                # which nameplate was meant is connection state; decide by effect:
                held_before = [k for k, s in hp.items() if k[0] == a and s.get(side)]
                changed = pre != post
                if changed and not held_before:
                    v.append((x.i, "release by a side holding no claim changed the database"))
                # after the last release the nameplate is gone
                for key, sides in hq.items():
                    if sides and not any(sides.values()) and hp.get(key, {}).get(side) and key[0] == a:
                        # this release ended the last claim (a nameplate left claim-less by a crash
                        # between release's two commits is C10's business, not this check's)
                        v.append((x.i, "nameplate %s/%s has no claimant left but still exists" % (unhex(key[0]), unhex(key[1]))))
        if x.kind == "cmd" and x.error == "reclaimed":
            nontrivial += 1
            if pre != post:
                v.append((x.i, "reclaimed answer but the database changed"))
        if x.kind == "cmd" and x.mtype == "list" and x.c in x.bound_pre and not x.crash \
           and hist["cfg"].get("allow_list", True):
            # a nameplate is listed exactly while it lives: from its first claim until the last release, its
            # expiry or the deletion of its mailbox -- never after, never twice
            a = x.bound_pre[x.c][0]
            for f in x.frames_c:
                if f[3] == "nameplates" and isinstance(f[4], list):
                    nontrivial += 1
                    live = sorted(r[2] for r in pre["np"] if r[1] == a)
                    if sorted(f[4]) != live:
                        v.append((x.i, "list in app %s answered %s but the live nameplates of that app are %s"
                                  % (unhex(a), [unhex(n) for n in sorted(f[4])], [unhex(n) for n in live])))
        if x.kind == "cmd" and x.mtype == "claim" and not x.crash and x.c in x.bound_pre \
           and isinstance(x.msg.get("nameplate"), str):
            # a `claimed` answer is a live nameplate row with a claim of that side behind it - whatever
            # happened to the nameplate since this connection last heard of it (released over another
            # connection, expired, its mailbox closed); a side that released a still-live nameplate is refused
            a, side = x.bound_pre[x.c]
            n = H(x.msg["nameplate"])
            got = [f for f in x.frames_c if f[3] == "claimed"]
            before = hp.get((a, n))
            if got:
                if before is not None:
                    nontrivial += 1
                for view in (x.post["chan"], x.post["chan_c"]):
                    rows = [r for r in view["np"] if r[1] == a and r[2] == n]
                    ok = len(rows) == 1 and rows[0][3] == got[0][4] and \
                        any(s[0] == rows[0][0] and s[2] == side and s[1] for s in view["nps"])
                    if not ok:
                        v.append((x.i, "claim of %s/%s by side %s answered claimed %s, but the stored nameplate/claim rows are %s / %s"
                                  % (unhex(a), unhex(n), unhex(side), got[0][4], rows,
                                     [s for s in view["nps"] if rows and s[0] == rows[0][0]])))
                        break
                if before is not None and before.get(side) is False:
                    v.append((x.i, "side %s released the still-live nameplate %s/%s earlier and is answered claimed instead of reclaimed"
                              % (unhex(side), unhex(a), unhex(n))))
            if x.error == "crowded" and x.exc is None:
                # a refused (crowded) claim is still a recorded claim - the server honours its release - and the
                # refusal must not end anybody's claim, least of all the claimant's own earlier one
                nontrivial += 1
                rows = [r for r in x.post["chan"]["np"] if r[1] == a and r[2] == n]
                if not (len(rows) == 1 and any(s[0] == rows[0][0] and s[2] == side and s[1] for s in x.post["chan"]["nps"])):
                    v.append((x.i, "claim of %s/%s by side %s answered crowded, and afterwards that side has no recorded claim on it "
                              "(nameplate rows %s, claims %s)" % (unhex(a), unhex(n), unhex(side), rows,
                                                                 [s for s in x.post["chan"]["nps"] if rows and s[0] == rows[0][0]])))
    return v, nontrivial


def describe(x):
    if x.kind == "cmd":
        return "command %s of connection %s" % (json.dumps(x.msg), x.c)
    return x.kind


# ---------------------------------------------------------------------- C08
def _names_foreign_mailbox(x):
    """KF1 from the implementation's own rows: the mailbox a close resolves to (named, or remembered
    by the connection) exists under another app"""
    a, _side = x.bound_pre[x.c]
    m = x.msg.get("mailbox")
    m = H(m) if isinstance(m, str) else None
    if m is None:
        m = x.named_mb_pre.get(x.c)
        m = H(m) if isinstance(m, str) else None
    return m is not None and any(r[1] == m and r[0] != a for r in x.pre["chan"]["mb"])


def mon_C08(hist, ctxs, kf):
    v = []
    nontrivial = 0
    closed_ledger = defaultdict(set)     # (app, mailbox) -> sides that were answered `closed` for this incarnation
    sent = {"opened": {}, "closed": set()}   # per connection, from the raw commands it sent (as in C17's monitor)
    for x in ctxs:
        if x.kind == "cmd" and not x.crash and x.c in x.bound_pre and x.exc is None and isinstance(x.mtype, str):
            kinds_c = [f[3] for f in x.frames_c]
            if x.mtype == "close":
                msg = x.msg
                if x.c in sent["closed"]:
                    legit = False
                elif "mailbox" in msg:
                    legit = isinstance(msg["mailbox"], str) and not (x.c in sent["opened"] and msg["mailbox"] != sent["opened"][x.c])
                else:
                    legit = x.c in sent["opened"]
                if legit and x.error == "other":
                    # close always completes: the first close of a connection, naming what it opened (or anything, if it
                    # opened nothing), is answered `closed` -- whatever happened to the mailbox in the meantime
                    v.append((x.i, "the first close of connection %s (it had opened %r; close names %r) is refused with a protocol error "
                              "instead of being answered closed" % (x.c, sent["opened"].get(x.c), msg.get("mailbox"))))
                if "closed" in kinds_c:
                    sent["closed"].add(x.c)
            elif x.mtype == "open" and isinstance(x.msg.get("mailbox"), str) and x.c not in x.holds_pre:
                # (also when the open is refused as crowded: the connection has named its mailbox -- as in C17's monitor)
                sent["opened"][x.c] = x.msg["mailbox"]
        if x.kind in ("restart",) or x.crash:
            sent = {"opened": {}, "closed": set()}
        # a mailbox that has no row any more starts a new incarnation
        live = set((r[0], r[1]) for r in x.post["chan"]["mb"])
        if x.kind != "cmd" or x.crash:
            for key in [k for k in closed_ledger if k not in live]:
                del closed_ledger[key]
            continue      # (a crash event's post-state includes the restart's sweep)
        pre, post = x.pre["chan"], x.post["chan"]
        closer = None
        if x.mtype == "close" and x.c in x.bound_pre:
            closer = x.bound_pre[x.c]
        open_sides = defaultdict(set)
        for s in pre["mbs"]:
            if s[1]:
                open_sides[s[0]].add(s[2])
        post_mb = set(r[1] for r in post["mb"])
        for r in pre["mb"]:
            m = r[1]
            others = set(open_sides.get(m, ()))
            if closer is not None and closer[0] == r[0]:
                others.discard(closer[1])
            if others:
                # somebody else still has it open: it must survive, messages and their side rows intact
                if m not in post_mb:
                    v.append((x.i, "mailbox %s/%s deleted while sides %s still have it open (%s)"
                              % (unhex(r[0]), unhex(m), sorted(map(unhex, others)), describe(x))))
                    continue
                if [q for q in pre["msg"] if q[1] == m] != [q for q in post["msg"] if q[1] == m][:len([q for q in pre["msg"] if q[1] == m])]:
                    v.append((x.i, "messages of mailbox %s changed by %s" % (unhex(m), describe(x))))
                for s in pre["mbs"]:
                    if s[0] == m and s[2] in others and s not in post["mbs"]:
                        v.append((x.i, "side record %s of mailbox %s changed by %s" % (unhex(s[2]), unhex(m), describe(x))))
            elif m not in post_mb and closer is not None:
                nontrivial += 1
        if x.mtype == "close" and not x.crash and x.c in x.bound_pre and x.exc is None:
            if x.error is None and not any(f[3] == "closed" for f in x.frames_c):
                v.append((x.i, "close neither answered closed nor with an error"))
            if any(f[3] == "closed" for f in x.frames_c):
                # `closed` means: this side no longer has the mailbox open (or the mailbox is gone altogether)
                a, side = x.bound_pre[x.c]
                m = x.msg.get("mailbox")
                m = H(m) if isinstance(m, str) else None
                if m is None:
                    m = x.named_mb_pre.get(x.c)
                    m = H(m) if isinstance(m, str) else None
                if m is not None and any(r[0] == a and r[1] == m for r in post["mb"]):
                    srow = [s for s in post["mbs"] if s[0] == m and s[2] == side]
                    if not srow or srow[0][1]:
                        v.append((x.i, "close of %s/%s by side %s answered closed, but the mailbox is still there and the side is %s"
                                  % (unhex(a), unhex(m), unhex(side), "still recorded as having it open" if srow else "not recorded at all")))
                    closed_ledger[(a, m)].add(side)
                    sides_of_m = set(s[2] for s in post["mbs"] if s[0] == m)
                    if srow and not srow[0][1] and sides_of_m and sides_of_m <= closed_ledger[(a, m)]:
                        # every side that ever joined this mailbox has been answered `closed` (a closed side never
                        # becomes open again -- whatever it re-sends): the last open side has closed
                        if any(s[0] == m and s[1] for s in post["mbs"]):
                            v.append((x.i, "close of %s/%s by side %s answered closed; every side of the mailbox (%s) has now been "
                                      "answered `closed`, yet the mailbox is still there with side(s) %s recorded as open again"
                                      % (unhex(a), unhex(m), unhex(side), sorted(map(unhex, sides_of_m)),
                                         sorted(unhex(s[2]) for s in post["mbs"] if s[0] == m and s[1]))))
                    if not srow or srow[0][1]:
                        pass
                    elif not any(s[0] == m and s[1] for s in post["mbs"]):
                        # when the last open side closes, the mailbox goes -- with its messages, side records and nameplate
                        v.append((x.i, "close of %s/%s by side %s answered closed and no side has the mailbox open any more, but the "
                                  "mailbox (with %d messages, %d side records) is still there"
                                  % (unhex(a), unhex(m), unhex(side), len([q for q in post["msg"] if q[1] == m]),
                                     len([s for s in post["mbs"] if s[0] == m]))))
        # close always completes: it never fails internally (except through known finding KF1:
        # the named mailbox id exists under another app)
        if x.mtype == "close" and not x.crash and x.c in x.bound_pre and x.exc is not None \
                and not (kf and set(kf[x.i]) & {1}) and not _names_foreign_mailbox(x):
            v.append((x.i, "close failed internally (%s): no `closed` was sent and the connection was dropped (%s)"
                      % (x.exc, describe(x))))
        # the last close deletes the mailbox together with everything that hangs on it
        gone = set(r[1] for r in pre["mb"]) - post_mb
        for m in gone:
            if any(q[1] == m for q in post["msg"]) or any(s[0] == m for s in post["mbs"]) \
               or any(n[3] == m for n in post["np"]):
                v.append((x.i, "mailbox %s deleted but rows referring to it remain" % unhex(m)))
        for key in [k for k in closed_ledger if k not in live]:
            del closed_ledger[key]
        # subscriptions of others survive a close that does not delete the mailbox
        for c, hold in x.holds_pre.items():
            if c != x.c and hold[1] in post_mb and c in x.bound_post and x.holds_post.get(c) != hold:
                v.append((x.i, "subscription of connection %d dropped" % c))
    return v, nontrivial


# ---------------------------------------------------------------------- C09
def mon_C09(hist, ctxs, kf):
    v = []
    n = 0
    for x in ctxs:
        for f in frames(x.post):
            n += 1
            if not f[2]:
                v.append((x.i, "frame %s to connection %d sent while the server's view differs from what a second reader of the files sees" % (f[3], f[1])))
    return v, n


# ---------------------------------------------------------------------- C10 / C13 helpers
def integrity_problems(chan):
    p = []
    keys = [(r[1], r[2]) for r in chan["np"]]
    if len(keys) != len(set(keys)):
        p.append("duplicate nameplate (app,name)")
    ids = [r[0] for r in chan["np"]]
    if len(ids) != len(set(ids)):
        p.append("duplicate nameplate id")
    k = [(r[0], r[2]) for r in chan["nps"]]
    if len(k) != len(set(k)):
        p.append("duplicate nameplate side")
    k = [r[1] for r in chan["mb"]]
    if len(k) != len(set(k)):
        p.append("duplicate mailbox id")
    k = [(r[0], r[2]) for r in chan["mbs"]]
    if len(k) != len(set(k)):
        p.append("duplicate mailbox side")
    mbs = set(r[1] for r in chan["mb"])
    for r in chan["np"]:
        if r[3] not in mbs:
            p.append("nameplate %s refers to missing mailbox" % r[0])
    for r in chan["nps"]:
        if r[0] not in ids:
            p.append("nameplate side refers to missing nameplate %s" % r[0])
    for r in chan["mbs"]:
        if r[0] not in mbs:
            p.append("mailbox side refers to missing mailbox")
    return p


def is_empty(chan):
    return not (chan["np"] or chan["nps"] or chan["mb"] or chan["mbs"] or chan["msg"])


def mon_C10(hist, ctxs, kf):
    v = []
    crashes = 0
    seen_crash = False
    for x in ctxs:
        if x.crash:
            crashes += 1
            seen_crash = True
        if x.crash or x.ev["k"] == "restart":
            for pr in integrity_problems(x.post["chan_c"]):
                v.append((x.i, "after %s: %s" % (x.ev["k"], pr)))
        if seen_crash and x.post["exc"] is not None and not (set(kf[x.i]) & {1, 3}):
            v.append((x.i, "internal error %s after a crash (%s)" % (x.post["exc"], describe(x))))
    if seen_crash and hist.get("quiesced") and not is_empty(ctxs[-1].post["chan_c"]):
        v.append((len(ctxs) - 1, "store not empty after everybody left and the expiry time passed: %s"
                  % json.dumps(ctxs[-1].post["chan_c"])))
    return v, crashes


# ---------------------------------------------------------------------- C12
def sweeps_in(x, EXP):
    """did an expiry sweep run in this event, and was it faulty?  (None = no sweep)"""
    if x.kind == "sweep":
        return bool(x.base.get("fault"))
    if x.kind == "advance":
        due = x.pre["next_due"]
        if due is not None and x.post["now"] >= due:
            return bool(x.base.get("fault"))
        return None
    return None


def activity_of(x):
    """(app, mailbox) stamped by this command according to the property text: a successfully answered
    claim / allocate / open / add (also by a side that already has its side row)"""
    if x.kind != "cmd" or x.crash or not x.ok or x.c not in x.bound_pre:
        return None
    a = x.bound_pre[x.c][0]
    if x.mtype == "open" and isinstance(x.msg.get("mailbox"), str):
        return (a, H(x.msg["mailbox"]))
    if x.mtype == "add":
        return x.holds_pre.get(x.c)
    if x.mtype == "claim":
        for f in x.frames_c:
            if f[3] == "claimed" and isinstance(f[4], str):
                return (a, f[4])
    if x.mtype == "allocate":
        for f in x.frames_c:
            if f[3] == "allocated" and isinstance(f[4], str):
                for r in x.post["chan"]["np"]:
                    if r[1] == a and r[2] == f[4]:
                        return (a, r[3])
    return None


def mon_C12(hist, ctxs, kf):
    v = []
    EXP = hist["exp"]
    nontrivial = 0
    ledger = {}      # (app, mailbox) -> instant of the last claim/allocate/open/add, kept from the commands alone
    for x in ctxs:
        for msg in _c12_sweep(x, EXP, ledger):
            if msg is None:
                nontrivial += 1
            else:
                v.append((x.i, msg))
        key = activity_of(x)
        if key is not None:
            ledger[key] = x.pre["now"]
        live = set((r[0], r[1]) for r in x.post["chan"]["mb"])
        for key in list(ledger):
            if key not in live:
                del ledger[key]
    return v, nontrivial


def _c12_sweep(x, EXP, ledger):
    """yields None per protected mailbox examined, or a violation text"""
    sw = sweeps_in(x, EXP)
    if x.ev["k"] in ("restart",) or (x.crash):
        sw_boot = True
    else:
        sw_boot = False
    if sw is None and not sw_boot:
        return
    pre, post = x.pre["chan_c"] if sw_boot else x.pre["chan"], x.post["chan"]
    if x.crash:
        return   # the state the boot sweep started from is not observed
    t = x.post["now"]
    subscribed = set(k for k in x.holds_pre.values()) if not sw_boot else set()
    post_mb = {(r[0], r[1]): r for r in post["mb"]}
    for r in pre["mb"]:
        key = (r[0], r[1])
        fresh = r[2] > t - EXP
        active = ledger.get(key) is not None and ledger[key] > t - EXP
        if fresh or active or key in subscribed:
            yield None
            if key not in post_mb:
                yield ("sweep at %d deleted mailbox %s/%s (updated %d, last claim/allocate/open/add at %s, expiration %d, subscribed=%s)"
                       % (t, unhex(r[0]), unhex(r[1]), r[2], ledger.get(key), EXP, key in subscribed))
                continue
            for tab, col in (("mbs", 0), ("msg", 1), ("np", 3)):
                a = [q for q in pre[tab] if q[col] == r[1]]
                b = [q for q in post[tab] if q[col] == r[1]]
                if a != b:
                    yield "sweep changed %s rows of surviving mailbox %s" % (tab, unhex(r[1]))
            npids = [q[0] for q in pre["np"] if q[3] == r[1]]
            for npid in npids:
                if [q for q in pre["nps"] if q[0] == npid] != [q for q in post["nps"] if q[0] == npid]:
                    yield "sweep changed claims of nameplate %s of surviving mailbox" % npid


# ---------------------------------------------------------------------- C13
def mon_C13(hist, ctxs, kf):
    v = []
    EXP = hist["exp"]
    nontrivial = 0
    for x in ctxs:
        sw = sweeps_in(x, EXP)
        if x.kind == "advance":
            # the timer must stay alive and keep its grid
            if x.post["next_due"] is None:
                v.append((x.i, "the expiry timer is dead"))
            elif x.post["next_due"] <= x.post["now"]:
                v.append((x.i, "sweep overdue: due %s, now %s" % (x.post["next_due"], x.post["now"])))
        if sw is None or sw or x.crash:
            continue
        t = x.post["now"]
        subscribed = set(x.holds_pre.values())
        post = x.post["chan"]
        for r in x.pre["chan"]["mb"]:
            key = (r[0], r[1])
            if r[2] <= t - EXP and key not in subscribed:
                nontrivial += 1
                if any(q[1] == r[1] for q in post["mb"]):
                    v.append((x.i, "sweep at %d left idle mailbox %s/%s (updated %d)" % (t, unhex(r[0]), unhex(r[1]), r[2])))
        mbs = set(q[1] for q in post["mb"])
        for q in post["msg"]:
            if q[1] not in mbs:
                v.append((x.i, "message without mailbox after sweep: %s/%s" % (unhex(q[0]), unhex(q[1]))))
        for pr in integrity_problems(post):
            v.append((x.i, "after sweep: " + pr))
    if hist.get("quiesced"):
        last = ctxs[-1].post
        if not is_empty(last["chan_c"]) or not is_empty(last["chan"]):
            v.append((len(ctxs) - 1, "store not empty after all clients left and expiration+period passed: %s"
                      % json.dumps(last["chan_c"])))
        else:
            nontrivial += 1
    return v, nontrivial


# ---------------------------------------------------------------------- C15
def py_nameplate_result(n, pruned):
    if n > 2:
        return "crowded"
    if pruned:
        return "pruney"
    return "happy" if n == 2 else "lonely"


def py_mailbox_result(n, moods, pruned):
    if n > 2:
        return "crowded"
    if pruned:
        return "pruney"
    for m in ("scary", "errory", "lonely"):
        if m in moods:
            return m
    return {0: "quiet", 1: "lonely"}.get(n, "happy")


def blur_of(hist):
    b = hist["cfg"].get("blur")
    return None if b is None else b * TPS


def rnd(b, t):
    return t if not b else b * (t // b)


def mon_C15(hist, ctxs, kf):
    v = []
    if not hist["cfg"].get("usage"):
        return v, 0
    b = blur_of(hist)
    nontrivial = 0
    for x in ctxs:
        if x.crash or x.ev["k"] == "restart":
            continue
        pre, post = x.pre, x.post
        t = post["now"]
        pruned = x.kind in ("sweep", "advance")
        # nameplates retired in this event
        want_np, want_mb = [], []
        post_np = set(r[0] for r in post["chan"]["np"])
        for r in pre["chan"]["np"]:
            if r[0] not in post_np:
                sides = [s for s in pre["chan"]["nps"] if s[0] == r[0]]
                # a side may have joined inside this very event
                times = sorted(s[3] for s in sides)
                if not times:
                    continue
                want_np.append([r[1], rnd(b, times[0]), (times[1] - times[0]) if len(times) > 1 else None,
                                t - times[0], H(py_nameplate_result(len(times), pruned))])
        post_mb = set(r[1] for r in post["chan"]["mb"])
        for r in pre["chan"]["mb"]:
            if r[1] not in post_mb:
                sides = [s for s in pre["chan"]["mbs"] if s[0] == r[1]]
                want_mb.append((r, sides))
        new_np = multiset_diff(post["usage"]["np"], pre["usage"]["np"])
        new_mb = multiset_diff(post["usage"]["mb"], pre["usage"]["mb"])
        if new_np is None or new_mb is None:
            v.append((x.i, "usage records disappeared"))
            continue
        if want_np or want_mb:
            nontrivial += 1
        simple = x.kind != "cmd" or x.mtype not in ("claim", "allocate", "open", "close")
        if sorted(map(json.dumps, new_np)) != sorted(map(json.dumps, want_np)) and \
           (simple or len(new_np) != len(want_np)):
            v.append((x.i, "nameplate usage records written %s, retired nameplates call for %s (%s)"
                      % (json.dumps(new_np), json.dumps(want_np), describe(x))))
        if len(new_mb) != len(want_mb) and not (x.kind == "cmd" and x.mtype == "close"):
            v.append((x.i, "%d mailbox usage records written for %d retired mailboxes (%s)"
                      % (len(new_mb), len(want_mb), describe(x))))
        if x.kind == "cmd" and x.mtype == "close":
            # a close may create (open-then-close) and retire a mailbox inside one event
            extra = len(new_mb) - len(want_mb)
            if extra not in (0, 1) or (extra == 1 and not x.ok):
                v.append((x.i, "%d mailbox usage records written for %d retired mailboxes (%s)"
                          % (len(new_mb), len(want_mb), describe(x))))
        # classification and times of the mailbox records whose side rows we know exactly (sweeps)
        if pruned and len(new_mb) == len(want_mb):
            exp_rows = []
            for r, sides in want_mb:
                times = sorted(s[3] for s in sides)
                first = times[0] if times else t
                moods = [unhex(s[4]) for s in sides if s[4]]
                exp_rows.append([r[0], r[3], rnd(b, first), t - first,
                                 (times[1] - times[0]) if len(times) > 1 else None,
                                 H(py_mailbox_result(len(times), moods, True))])
            if sorted(map(json.dumps, exp_rows)) != sorted(map(json.dumps, new_mb)):
                v.append((x.i, "mailbox usage records %s, expected %s" % (json.dumps(new_mb), json.dumps(exp_rows))))
        # status row
        if x.kind in ("sweep", "advance") and sweeps_in(x, hist["exp"]) is not None and x.exc is None:
            cur = post["usage"]["cur"]
            want = [[post["boot_time"], t, b, len(x.holds_post)]]
            if cur != want:
                v.append((x.i, "status row %s, expected %s" % (cur, want)))
    return v, nontrivial


def multiset_diff(after, before):
    a = [json.dumps(r) for r in after]
    for r in before:
        k = json.dumps(r)
        if k in a:
            a.remove(k)
        else:
            return None
    return [json.loads(k) for k in a]


# ---------------------------------------------------------------------- C16
def mon_C16(hist, ctxs, kf):
    v = []
    b = blur_of(hist)
    if not hist["cfg"].get("usage") or not b:
        return v, 0
    n = 0
    for x in ctxs:
        pre, post = x.pre["usage"], x.post["usage"]
        t = x.post["now"]
        # the true first-arrival times of what this event retired, from the side rows stored before it (not from the
        # record's own total_time: a record summarised from the wrong side rows is consistent with itself)
        cands = {"np": {}, "mb": {}}
        pc, qc = x.pre["chan"], x.post["chan"]
        left_np = set(r[0] for r in qc["np"])
        for r in pc["np"]:
            if r[0] not in left_np:
                ts = [s[3] for s in pc["nps"] if s[0] == r[0]]
                cands["np"].setdefault(r[1], []).append(min(ts) if ts else None)
        left_mb = set(r[1] for r in qc["mb"])
        for r in pc["mb"]:
            if r[1] not in left_mb:
                ts = [s[3] for s in pc["mbs"] if s[0] == r[1]]
                cands["mb"].setdefault(r[0], []).append(min(ts) if ts else None)     # (no side row: only after a crash, C10)
        for tab, col in (("np", 1), ("mb", 2), ("cv", 2)):
            new = multiset_diff(post[tab], pre[tab])
            for r in (new or []):
                n += 1
                if r[col] % b != 0:
                    v.append((x.i, "%s usage record time %d is not a multiple of the blur interval %d" % (tab, r[col], b)))
                if tab == "cv" and not (r[col] <= t < r[col] + b):
                    v.append((x.i, "connect_time %d not within one blur interval below the arrival time %d" % (r[col], t)))
                if tab in ("np", "mb"):
                    total = r[3]
                    first = t - total      # the true first-arrival time, by the record's own total_time
                    if not (r[col] <= first < r[col] + b):
                        v.append((x.i, "%s started %d not within one interval below the true time %d" % (tab, r[col], first)))
                    cs = cands[tab].get(r[0])
                    if cs and None not in cs and not x.crash and not any(r[col] <= f < r[col] + b for f in cs):
                        v.append((x.i, "%s usage record started %d is not within one interval below the first arrival of anything "
                                  "this event retired for that app (first arrivals: %s)" % (tab, r[col], sorted(cs))))
    return v, n


# ---------------------------------------------------------------------- C17
ERRONEOUS_FREE = ("ping",)


def mon_C17(hist, ctxs, kf):
    v = []
    n = 0
    # what each connection claimed / opened / already did, from the raw commands it sent (not from the
    # server's own per-connection fields: a server that remembers something else than what was sent is the point)
    st = {"claimed": {}, "allocated": set(), "released": set(), "opened": {}, "closed": set()}
    for x in ctxs:
        if x.kind == "connect":
            fs = frames(x.post, x.c)
            if not fs or fs[0][3] != "welcome":
                v.append((x.i, "first frame of a connection is not welcome: %s" % fs))
        for a in x.post.get("anomalies", []):
            if not a.startswith("STALE"):
                v.append((x.i, "frame discipline: " + a))
        if x.kind != "cmd":
            continue
        if x.exc is not None and not (set(kf[x.i]) & {1, 3}):
            v.append((x.i, "internal error %s on %s" % (x.exc, describe(x))))
            continue
        if x.crash:
            continue
        fs = x.frames_c
        msg = x.msg
        if "type" in msg:
            if not fs or fs[0][3] != "ack":
                v.append((x.i, "command not answered by ack first: %s" % fs))
            else:
                want = msg.get("id")
                if fs[0][4] != (None if want is None else H(want)):
                    v.append((x.i, "ack id %r for command id %r" % (fs[0][4], want)))
        if x.mtype == "ping" and "ping" in msg:
            if not any(f[3] == "pong" and f[4] == msg["ping"] for f in fs):
                v.append((x.i, "ping not answered by the same pong"))
        errs = [f for f in fs if f[3] == "error"]
        if len(errs) > 1:
            v.append((x.i, "more than one error frame"))
        if errs and errs[0][4] == "other":
            n += 1
            # harmless: nothing stored changes
            for key in ("chan", "chan_c", "usage", "usage_c"):
                if x.pre[key] != x.post[key]:
                    v.append((x.i, "erroneous command %s changed stored state (%s)" % (json.dumps(msg), key)))
            if x.holds_pre != x.holds_post:
                v.append((x.i, "erroneous command changed subscriptions"))
            if fs[-1][3] != "error" or len(fs) > 2:
                v.append((x.i, "erroneous command answered by %s" % [f[3] for f in fs]))
        bad = erroneous(x, st)
        if bad and not errs:
            v.append((x.i, "malformed/out-of-order command %s of connection %s not answered by an error" % (json.dumps(msg), x.c)))
        if not bad and errs and errs[0][4] == "other":
            v.append((x.i, "well-formed, in-order command %s of connection %s (claimed %r, opened %r) refused with a protocol error"
                      % (json.dumps(msg), x.c, st["claimed"].get(x.c), st["opened"].get(x.c))))
        # ---- what the connection has done so far
        c, t = x.c, x.mtype
        if c in x.bound_pre and isinstance(t, str):
            kinds = [f[3] for f in fs]
            if t == "claim" and isinstance(msg.get("nameplate"), str) and c not in st["claimed"]:
                st["claimed"][c] = msg["nameplate"]
            elif t == "allocate" and "allocated" in kinds:
                st["allocated"].add(c)
            elif t == "release" and "released" in kinds:
                st["released"].add(c)
            elif t == "open" and isinstance(msg.get("mailbox"), str) and c not in x.holds_pre:
                st["opened"][c] = msg["mailbox"]
            elif t == "close" and "closed" in kinds:
                st["closed"].add(c)
    return v, n


def erroneous(x, st):
    """the property's list, decided from the commands seen so far"""
    msg = x.msg
    if "type" not in msg:
        return True
    t = msg["type"]
    if t not in ("ping", "bind", "list", "allocate", "claim", "release", "open", "add", "close"):
        return True
    if t == "ping":
        return "ping" not in msg
    if t == "bind":
        return x.c in x.bound_pre or "appid" not in msg or "side" not in msg
    if x.c not in x.bound_pre:
        return True
    if t == "claim" and "nameplate" not in msg:
        return True
    if t == "open" and "mailbox" not in msg and x.c not in x.holds_pre:
        return True
    if t == "open" and x.c in x.holds_pre:
        return True
    if t == "add" and x.c not in x.holds_pre:
        return True
    if t == "add" and ("phase" not in msg or "body" not in msg):
        return True
    c = x.c
    if t == "claim" and c in st["claimed"]:
        return True
    if t == "allocate" and c in st["allocated"]:
        return True
    if t == "release":
        if c in st["released"]:
            return True
        if "nameplate" in msg:
            return c in st["claimed"] and msg["nameplate"] != st["claimed"][c]
        return c not in st["claimed"]
    if t == "close":
        if c in st["closed"]:
            return True
        if "mailbox" in msg:
            return c in st["opened"] and msg["mailbox"] != st["opened"][c]
        return c not in st["opened"]
    return False


MONITORS = {
    "C01": mon_C01, "C02": mon_C02, "C03": mon_C03, "C04": mon_C04, "C05": mon_C05,
    "C07": mon_C07, "C08": mon_C08, "C09": mon_C09, "C10": mon_C10, "C12": mon_C12,
    "C13": mon_C13, "C15": mon_C15, "C16": mon_C16, "C17": mon_C17,
}


def run_all(hist, kf=None):
    """returns {prop: (violations, nontrivial_count)}"""
    ctxs = walk(hist)
    if kf is None:
        kf = [[] for _ in hist["events"]]
    res = {}
    for pid, f in MONITORS.items():
        try:
            res[pid] = f(hist, ctxs, kf)
        except Exception as e:   # a monitor must never hide behind its own crash
            import traceback
            res[pid] = ([(-1, "MONITOR ERROR %s: %s" % (pid, traceback.format_exc()))], 0)
    return res
