"""dbfiles_mutate.py -- validation of the C19/C20 machinery: applies seeded defects to an isolated copy of /repo
(and runs an isolated copy of /verif against it through VERIF_REPO_SRC), one at a time, and reports which check
catches what.  Not used by the checks.  Usage: /venv/bin/python harness/dbfiles_mutate.py [mutation names]"""
import os, sys, shutil, subprocess, time, re, json
MUT = "/dev/shm/mut"
DBPY = "src/wormhole_mailbox_server/database.py"
UPSQL = "src/wormhole_mailbox_server/db-schemas/upgrade-usage-to-v2.sql"
def sub(path, old, new, count=1):
    s = open(path).read(); assert old in s, (path, old); open(path, "w").write(s.replace(old, new, count))
M = {}
M["a-create-in-place"] = [(DBPY, '''    temp_dbfile = _get_temporary_dbfile(dbfile)
    db = _open_db_connection(temp_dbfile)
    _initialize_db_schema(db, name, target_version)
    db.close()
    os.rename(temp_dbfile, dbfile)
    return _open_db_connection(dbfile)''', '''    db = _open_db_connection(dbfile)
    _initialize_db_schema(db, name, target_version)
    return db''')]
M["b1-rename-before-close"] = [(DBPY, '''    db.close()
    os.rename(temp_dbfile, dbfile)''', '''    os.rename(temp_dbfile, dbfile)
    db.close()''')]
M["b2-rename-before-version-insert"] = [(DBPY, '''    _initialize_db_schema(db, name, target_version)
    db.close()
    os.rename(temp_dbfile, dbfile)''', '''    db.executescript(get_schema(name, target_version))
    os.rename(temp_dbfile, dbfile)
    db.execute("INSERT INTO version (version) VALUES (?)", (target_version,))
    db.commit()
    db.close()''')]
M["c1-no-backup"] = [(DBPY, "        shutil.copy(dbfile, backup_fn)\n", "        pass\n")]
M["c2-backup-after-upgrade"] = [(DBPY, '''    if version < target_version and dbfile != ":memory:":
        backup_fn = "%s-backup-v%d" % (dbfile, version)
        log.msg(" storing backup of v%d db in %s" % (version, backup_fn))
        shutil.copy(dbfile, backup_fn)
''', '''    old_version = version
'''), (DBPY, '''    if version != target_version:''', '''    if old_version < target_version and dbfile != ":memory:":
        shutil.copy(dbfile, "%s-backup-v%d" % (dbfile, old_version))
    if version != target_version:''')]
M["d-upgrader-without-transaction"] = [(UPSQL, "BEGIN;\n", ""), (UPSQL, "COMMIT;\n", "")]
M["e-create-only-no-exists-check"] = [(DBPY, '''    elif os.path.exists(dbfile):
        raise DBAlreadyExists()
    else:
        db = _atomic_create_and_initialize_db(dbfile, "channel",''', '''    else:
        db = _atomic_create_and_initialize_db(dbfile, "channel",''')]
M["f-open-only-creates"] = [(DBPY, '''    if not os.path.exists(dbfile):
        raise DBDoesntExist()''', '''    if not os.path.exists(dbfile):
        return create_or_upgrade_channel_db(dbfile)''')]
M["g-upgrader-recreates-nameplates"] = [(UPSQL, "DELETE FROM `version`;", '''DROP TABLE `nameplates`;
CREATE TABLE `nameplates`
(
 `app_id` VARCHAR,
 `started` INTEGER,
 `waiting_time` INTEGER,
 `total_time` INTEGER,
 `result` VARCHAR
);
CREATE INDEX `nameplates_idx` ON `nameplates` (`app_id`, `started`);
DELETE FROM `version`;''')]
M["h-accept-too-new"] = [(DBPY, "    if version != target_version:", "    if version < target_version:")]

def fresh():
    for d in ("verif", "repo"):
        shutil.rmtree(os.path.join(MUT, d), ignore_errors=True)
    subprocess.run("cp -a /verif %s/verif && mkdir -p %s/repo && cd /repo && git archive HEAD | tar -x -C %s/repo" % (MUT, MUT, MUT), shell=True, check=True)
    shutil.rmtree(os.path.join(MUT, "verif", "replays"), ignore_errors=True)

def run(pid, seed="1", tier="quick"):
    env = dict(os.environ, VERIF_REPO_SRC=MUT + "/repo/src", VERIF_SEED=seed)
    t = time.time()
    p = subprocess.run([MUT + "/verif/check", pid, "--tier", tier], env=env, stdout=subprocess.PIPE, stderr=subprocess.STDOUT)
    out = p.stdout.decode()
    return p.returncode, out, time.time() - t

if __name__ == "__main__":
    which = sys.argv[1:] or sorted(M)
    rows = []
    for name in which:
        fresh()
        for path, old, new in M[name]:
            sub(os.path.join(MUT, "repo", path), old, new)
        for pid in ("C19", "C20"):
            rc, out, dt = run(pid)
            lines = [l for l in out.splitlines() if l.startswith(("VIOLATION", "KNOWN", pid))]
            conc = sum(1 for l in lines if l.startswith("VIOLATION") and "no-failing-input-found" not in l)
            nf = sum(1 for l in lines if "no-failing-input-found" in l)
            what = ""
            m = re.search(r"replay=(\S+)", out)
            if m and os.path.exists(m.group(1)):
                r = json.load(open(m.group(1)))
                d = r.get("detail") or {}
                if r.get("kind") == "monitor":
                    what = "%s @k=%s %s" % (d.get("what"), d.get("crash_point_k"), (d.get("crash_at") or {}).get("op"))
                elif r.get("kind") == "correspondence":
                    dd = d.get("detail", d)
                    what = "div: %s" % (str(dd.get("what"))[:160],)
                else:
                    what = "%s: %s" % (r.get("kind"), str(r.get("broken"))[:200])
            rows.append((name, pid, rc, conc, nf, round(dt, 1), what))
            print("%-34s %s rc=%d concrete=%d nfif=%d %.1fs | %s" % rows[-1][:6] + (what,) if False else
                  "%-34s %s rc=%d concrete=%d nfif=%d %5.1fs | %s" % (name, pid, rc, conc, nf, dt, what), flush=True)
