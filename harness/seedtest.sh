#!/bin/bash
# seedtest.sh <Cxx> [name]: confirm a sub-agent's seeded change in its worktree, store it under
# /verif/seeded/<name>/, run the property's check on /repo with the change applied, undo.
set -u
P=$1; NAME=${2:-$1}; WT=/tmp/seed-$NAME; OUT=/verif/seeded/$NAME
mkdir -p $OUT
cp $WT/_seed/patch.diff $OUT/patch.diff; cp $WT/_seed/demo_test.py $OUT/ 2>/dev/null; cp $WT/_seed/meta.json $OUT/meta.agent.json 2>/dev/null
cd $WT
SUITE=$(PYTHONPATH=$WT/src /venv/bin/python -m pytest -q -p no:cacheprovider --timeout=900 src/wormhole_mailbox_server/test 2>&1 | tail -1)
PYTHONPATH=$WT/src /venv/bin/python $WT/_seed/demo_test.py >/dev/null 2>&1; WITH=$?
git stash -q -- src; PYTHONPATH=$WT/src /venv/bin/python $WT/_seed/demo_test.py >/dev/null 2>&1; WITHOUT=$?; git stash pop -q
rm -rf new.sql up.sql wormhole_mailbox_server.test.tes
echo "suite: $SUITE | demo with change exit=$WITH | without exit=$WITHOUT"
cd /verif
git -C /repo apply $OUT/patch.diff || { echo "patch does not apply to /repo"; exit 2; }
START=$(date +%s)
./check $P --tier quick > $OUT/check-output.txt 2>&1; RC=$?
git -C /repo checkout -- . 
echo "check $P exit=$RC in $(( $(date +%s) - START ))s"; grep -E "VIOLATION|KNOWN|FAIL|ok" $OUT/check-output.txt | cut -c1-200 | head -5
python3 - <<PY
import json
try: a=json.load(open("$OUT/meta.agent.json"))
except Exception: a={}
json.dump({"property":"$P","summary":a.get("summary"),"needs":a.get("needs"),"files":a.get("files"),
 "confirmed":{"suite":"$SUITE","demo_with_change_exit":$WITH,"demo_without_change_exit":$WITHOUT},
 "ran":"git -C /repo apply patch.diff; ./check $P --tier quick; git -C /repo checkout -- .","check_exit":$RC},open("$OUT/meta.json","w"),indent=1)
PY
