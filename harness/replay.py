"""replay.py -- ./check replay <file>: re-run a replay file on the real code and the model"""
import sys, json
import streams as S


def main(args):
    p = json.load(open(args[0]))
    ev = p.get("events")
    if str(p.get("profile", "")).startswith("dbfiles:") or p.get("engine") == "dbfiles" \
            or (isinstance(ev, dict) and ev.get("engine") == "dbfiles"):
        import dbfiles
        return dbfiles.replay(p)
    if isinstance(p.get("detail"), dict) and p["detail"].get("meta") == "closing-window":
        import validity
        r = validity._closing_case(p["detail"]["seed"])
        print("property:", p.get("property"), "closing-window scenario, seed", p["detail"]["seed"])
        print(p["detail"].get("recipe"))
        bad = r.get("meta", {}).get(p.get("property"))
        print(json.dumps(bad["first_difference"] if bad else {"ok": True}, indent=1))
        return 1 if bad else 0
    if isinstance(p.get("detail"), dict) and p["detail"].get("meta") == "lock":
        import faults
        return faults.replay(p)
    if isinstance(p.get("detail"), dict) and p["detail"].get("meta"):
        import metamorphic
        return metamorphic.replay_main(p)
    if not p.get("events") or p.get("cfg") is None:
        print(json.dumps(p, indent=1)[:4000])
        return 0
    r = S.replay(p["cfg"], p["events"], p.get("seed") or 0)
    print("property:", p.get("property"), "kind:", p.get("kind"))
    for i, ev in enumerate(r["events"]):
        print("%3d %s" % (i, json.dumps({k: v for k, v in ev.items() if k != "oracle"})))
    print("divergence:", json.dumps(r["div"], indent=1)[:3000] if r["div"] else None)
    print("monitors:", json.dumps(r["mon"], indent=1)[:3000])
    print("stale:", r["stale"])
    return 1 if (r["div"] or r["mon"] or r["stale"]) else 0
