"""mkdesign.py -- assemble DESIGN.md from DESIGN.part1.md (as built), the table of
seeded changes (seeded/*/meta.json, as last recorded by harness/seedall.py) and
DESIGN.part2.md (the design as written before implementation)."""
import os, json, glob
HERE = os.path.dirname(os.path.abspath(__file__))
VERIF = os.path.dirname(HERE)


def table():
    rows = ["| seed | property | needs, to manifest | detected by its property's quick check |", "|---|---|---|---|"]
    for d in sorted(glob.glob(os.path.join(VERIF, "seeded", "*/"))):
        name = os.path.basename(d.rstrip("/"))
        try:
            m = json.load(open(os.path.join(d, "meta.json")))
        except Exception:
            continue
        summ = (m.get("summary") or "").replace("\n", " ").replace("|", "/")
        needs = (m.get("needs") or "").replace("\n", " ").replace("|", "/")
        det = m.get("detection") or ("exit %s" % m.get("check_exit"))
        if m.get("kind") == "harmless-refactoring":
            det = "negative control: " + (m.get("detection") or "?")
        rows.append("| %s | %s | %s — *%s* | %s |" % (name, m.get("property", "all"), summ[:260], needs[:220], det))
    return "\n".join(rows)


def main():
    p1 = open(os.path.join(VERIF, "DESIGN.part1.md")).read().replace("<<SEEDED_TABLE>>", table())
    p2 = open(os.path.join(VERIF, "DESIGN.part2.md")).read()
    open(os.path.join(VERIF, "DESIGN.md"), "w").write(p1 + "\n" + p2)
    print("DESIGN.md written: %d lines" % (p1 + p2).count("\n"))


if __name__ == "__main__":
    main()
