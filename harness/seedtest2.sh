#!/bin/bash
# seedtest2.sh <Cxx> [name]: like seedtest.sh but runs the check against the sub-agent's worktree
# (VERIF_REPO_SRC=<worktree>/src) instead of patching /repo -- usable while other jobs use /repo.
set -u
P=$1; NAME=${2:-$1}; WT=${3:-/tmp/seed-$NAME}; OUT=/verif/seeded/$NAME
mkdir -p $OUT
cp $WT/_seed/patch.diff $OUT/patch.diff; cp $WT/_seed/demo_test.py $OUT/ 2>/dev/null; cp $WT/_seed/meta.json $OUT/meta.agent.json 2>/dev/null
cd $WT
git checkout -q -- src; git clean -fdq src; git apply _seed/patch.diff
SUITE=$(PYTHONPATH=$WT/src /venv/bin/python -m pytest -q -p no:cacheprovider --timeout=900 src/wormhole_mailbox_server/test 2>&1 | tail -1)
PYTHONPATH=$WT/src timeout 300 /venv/bin/python $WT/_seed/demo_test.py >/dev/null 2>&1; WITH=$?
git apply -R _seed/patch.diff; PYTHONPATH=$WT/src timeout 300 /venv/bin/python $WT/_seed/demo_test.py >/dev/null 2>&1; WITHOUT=$?; git apply _seed/patch.diff
rm -rf new.sql up.sql wormhole_mailbox_server.test.tes _trial_temp
echo "suite: $SUITE | demo with change exit=$WITH | without exit=$WITHOUT"
cd /verif
START=$(date +%s)
VERIF_REPO_SRC=$WT/src ./check $P --tier quick > $OUT/check-output.txt 2>&1; RC=$?
echo "check $P exit=$RC in $(( $(date +%s) - START ))s"; grep -E "VIOLATION|KNOWN|FAIL|ok" $OUT/check-output.txt | cut -c1-200 | head -5
python3 - <<PY
import json
try: a=json.load(open("$OUT/meta.agent.json"))
except Exception: a={}
json.dump({"property":"$P","summary":a.get("summary"),"needs":a.get("needs"),"files":a.get("files"),
 "confirmed":{"suite":"$SUITE","demo_with_change_exit":$WITH,"demo_without_change_exit":$WITHOUT},
 "ran":"VERIF_REPO_SRC=<worktree with patch.diff applied>/src ./check $P --tier quick (equivalent to: git -C /repo apply patch.diff; ./check $P --tier quick; git -C /repo checkout -- .)","check_exit":$RC},open("$OUT/meta.json","w"),indent=1)
PY
