"""gen_instances.py -- regenerate coq/gen/GenParams.v and coq/gen/GenSchemas.v
from /repo's current working tree.  Fail-closed: any construct that is not
recognised aborts generation (reported as a broken proof obligation)."""
import os, re, ast, sys, hashlib, json

HERE = os.path.dirname(os.path.abspath(__file__))
VERIF = os.path.dirname(HERE)
GEN = os.path.join(VERIF, "coq", "gen")
REPO_SRC = os.environ.get("VERIF_REPO_SRC", "/repo/src")
PKG = os.path.join(REPO_SRC, "wormhole_mailbox_server")
TPS = 8


class GenError(Exception):
    pass


def const_eval(node, env):
    if isinstance(node, ast.Constant) and isinstance(node.value, (int, float)) and not isinstance(node.value, bool):
        return node.value
    if isinstance(node, ast.Name) and node.id in env:
        return env[node.id]
    if isinstance(node, ast.BinOp) and isinstance(node.op, (ast.Mult, ast.Add, ast.Sub)):
        a, b = const_eval(node.left, env), const_eval(node.right, env)
        return {ast.Mult: lambda: a * b, ast.Add: lambda: a + b, ast.Sub: lambda: a - b}[type(node.op)]()
    if isinstance(node, ast.UnaryOp) and isinstance(node.op, ast.USub):
        return -const_eval(node.operand, env)
    raise GenError("cannot evaluate constant expression: %s" % ast.dump(node))


def module_constants(path, wanted):
    tree = ast.parse(open(path).read())
    env = {}
    for node in tree.body:
        if isinstance(node, ast.Assign) and len(node.targets) == 1 and isinstance(node.targets[0], ast.Name):
            name = node.targets[0].id
            try:
                env[name] = const_eval(node.value, env)
            except GenError:
                if name in wanted:
                    raise
    missing = [w for w in wanted if w not in env]
    if missing:
        raise GenError("constants not found in %s: %s" % (path, missing))
    return env


def to_ticks(x, what):
    v = x * TPS
    if int(v) != v:
        raise GenError("%s = %r s is not a multiple of 1/%d s" % (what, x, TPS))
    return int(v)


# ----------------------------------------------------------------- SQL scripts
def strip_sql_comments(sql):
    out = []
    for line in sql.split("\n"):
        i = line.find("--")
        if i >= 0:
            line = line[:i]
        out.append(line)
    return "\n".join(out)


def coq_str(s):
    if any(ord(c) > 126 or ord(c) < 32 for c in s):
        raise GenError("non-printable character in SQL text")
    return '"' + s.replace('"', '""') + '"'


def parse_script(path):
    sql = strip_sql_comments(open(path).read())
    if "'" in sql or '"' in sql:
        raise GenError("%s: string literal in schema script not supported" % path)
    stmts = [re.sub(r"\s+", " ", s).strip() for s in sql.split(";")]
    stmts = [s for s in stmts if s]
    out = []
    for s in stmts:
        m = re.match(r"^CREATE TABLE `(\w+)` ?\((.*)\)$", s, re.I)
        if m:
            out.append("CreateTable %s %s" % (coq_str(m.group(1)), coq_str(s)))
            continue
        m = re.match(r"^CREATE INDEX `(\w+)` ON `(\w+)` ?\((.*)\)$", s, re.I)
        if m:
            out.append("CreateIndex %s %s" % (coq_str(m.group(1)), coq_str(s.replace(" on ", " ON "))))
            continue
        m = re.match(r"^DELETE FROM `(\w+)`$", s, re.I)
        if m:
            out.append("DeleteAll %s" % coq_str(m.group(1)))
            continue
        m = re.match(r"^INSERT INTO `version` \(`version`\) VALUES \((\d+)\)$", s, re.I)
        if m:
            out.append("InsertVersion %s" % m.group(1))
            continue
        if re.match(r"^BEGIN( TRANSACTION)?$", s, re.I):
            out.append("Begin")
            continue
        if re.match(r"^(COMMIT|END)( TRANSACTION)?$", s, re.I):
            out.append("Commit")
            continue
        raise GenError("%s: unrecognised statement: %s" % (path, s))
    return out


def emit_script(name, stmts):
    body = ";\n    ".join(stmts)
    return "Definition %s : script :=\n  [ %s ].\n" % (name, body)


def canon_write(sql):
    """canonical form of a data-modifying SQL statement: kind, table, columns written, columns tested.  Anything that
    is not one of the three plain forms the model has functions for is returned as UNPARSED:<text> (it then matches
    nothing in Inst_Writes.v: fail-closed)."""
    s = re.sub(r"\s+", " ", sql.replace("`", "")).strip().rstrip(";").strip()
    ident = r"[A-Za-z_][A-Za-z_0-9]*"
    m = re.match(r"(?i)^INSERT INTO (%s) ?\(([^()]*)\) ?VALUES ?\(([ ?,]*)\)$" % ident, s)
    if m:
        cols = [c.strip() for c in m.group(2).split(",")]
        marks = [c.strip() for c in m.group(3).split(",")]
        if all(re.match(ident + "$", c) for c in cols) and marks == ["?"] * len(cols):
            return "INSERT %s(%s)" % (m.group(1), ",".join(cols))
    conds = r"(%s ?= ?\?(?: AND %s ?= ?\?)*)" % (ident, ident)
    def cols_of(txt, sep):
        return ",".join(p.split("=")[0].strip() for p in re.split(sep, txt))
    m = re.match(r"(?i)^UPDATE (%s) SET (%s ?= ?\?(?: ?, ?%s ?= ?\?)*) WHERE %s$" % (ident, ident, ident, conds), s)
    if m:
        return "UPDATE %s SET %s WHERE %s" % (m.group(1), cols_of(m.group(2), ","), cols_of(m.group(3), r"(?i) AND "))
    m = re.match(r"(?i)^DELETE FROM (%s)(?: WHERE %s)?$" % (ident, conds), s)
    if m:
        return "DELETE %s" % m.group(1) + ((" WHERE " + cols_of(m.group(2), r"(?i) AND ")) if m.group(2) else "")
    return "UNPARSED:" + s


def server_writes():
    """every data-modifying SQL statement that occurs as a string constant in the server modules (wherever: a helper,
    a module-level constant, a handler), as a sorted set of canonical forms"""
    out = set()
    for mod in ("server.py", "server_websocket.py", "server_tap.py"):
        tree = ast.parse(open(os.path.join(PKG, mod)).read())
        for node in ast.walk(tree):
            if isinstance(node, ast.Constant) and isinstance(node.value, str):
                s = node.value.replace("`", "").strip()
                if re.match(r"(?i)^(INSERT\s+(OR\s+\w+\s+)?INTO\b|REPLACE\s+INTO\b|UPDATE\s+(OR\s+\w+\s+)?\S+\s+SET\b|DELETE\s+FROM\b|"
                            r"DROP\s+(TABLE|INDEX|TRIGGER|VIEW)\b|ALTER\s+TABLE\b|CREATE\s+(TABLE|INDEX|UNIQUE|TRIGGER|TEMP|VIEW)\b|"
                            r"PRAGMA\s+\w+|VACUUM\s*;?$|(BEGIN|COMMIT|ROLLBACK|END)(\s+(TRANSACTION|IMMEDIATE|EXCLUSIVE|DEFERRED))*\s*;?$|SAVEPOINT\s+\w+\s*;?$)", s):
                    out.add(canon_write(node.value))
    return sorted(out)


def write_if_changed(path, txt):
    if not os.path.exists(path) or open(path).read() != txt:
        open(path, "w").write(txt)


def generate(write=True):
    """returns dict(ok, error, files: {name: sha256}); write=False only computes the hashes (seedall.py: does a
    seeded change alter the generated instances?)"""
    if write:
        os.makedirs(GEN, exist_ok=True)
    info = {"ok": True, "error": None, "files": {}}
    try:
        tap = module_constants(os.path.join(PKG, "server_tap.py"),
                               ["CHANNEL_EXPIRATION_TIME", "EXPIRATION_CHECK_PERIOD"])
        dbm = module_constants(os.path.join(PKG, "database.py"),
                               ["CHANNELDB_TARGET_VERSION", "USAGEDB_TARGET_VERSION"])
        params = ("(* generated by harness/gen_instances.py from server_tap.py and database.py -- do not edit *)\n"
                  "From Coq Require Import ZArith.\nOpen Scope Z_scope.\n"
                  "Definition gen_exp : Z := %d.     (* CHANNEL_EXPIRATION_TIME, ticks of 1/8 s *)\n"
                  "Definition gen_period : Z := %d.  (* EXPIRATION_CHECK_PERIOD, ticks *)\n"
                  "Definition gen_channel_target : Z := %d.\n"
                  "Definition gen_usage_target : Z := %d.\n"
                  % (to_ticks(tap["CHANNEL_EXPIRATION_TIME"], "CHANNEL_EXPIRATION_TIME"),
                     to_ticks(tap["EXPIRATION_CHECK_PERIOD"], "EXPIRATION_CHECK_PERIOD"),
                     int(dbm["CHANNELDB_TARGET_VERSION"]), int(dbm["USAGEDB_TARGET_VERSION"])))
        ct, ut = int(dbm["CHANNELDB_TARGET_VERSION"]), int(dbm["USAGEDB_TARGET_VERSION"])
        sd = os.path.join(PKG, "db-schemas")
        parts = ["(* generated by harness/gen_instances.py from db-schemas/*.sql -- do not edit *)\n"
                 "From Coq Require Import ZArith String List.\nFrom MW Require Import Sql.\n"
                 "Import ListNotations.\nOpen Scope string_scope.\nOpen Scope Z_scope.\n"]
        parts.append(emit_script("gen_channel_schema", parse_script(os.path.join(sd, "channel-v%d.sql" % ct))))
        parts.append(emit_script("gen_usage_schema", parse_script(os.path.join(sd, "usage-v%d.sql" % ut))))
        # older usage schemas and the upgraders between them
        olds, ups = [], []
        for v in range(1, ut):
            olds.append("(%d, %s)" % (v, "gen_usage_schema_v%d" % v))
            parts.append(emit_script("gen_usage_schema_v%d" % v, parse_script(os.path.join(sd, "usage-v%d.sql" % v))))
        for v in range(2, ut + 1):
            f = os.path.join(sd, "upgrade-usage-to-v%d.sql" % v)
            if os.path.exists(f):
                parts.append(emit_script("gen_usage_upgrade_to_v%d" % v, parse_script(f)))
                ups.append("(%d, %s)" % (v, "gen_usage_upgrade_to_v%d" % v))
        parts.append("Definition gen_usage_old_schemas : list (Z * script) := [%s].\n" % "; ".join(olds))
        parts.append("Definition gen_usage_upgraders : list (Z * script) := [%s].\n" % "; ".join(ups))
        schemas = "\n".join(parts)
        sqltxt = ("(* generated by harness/gen_instances.py from the SQL string constants of server.py, server_websocket.py\n"
                  "   and server_tap.py -- do not edit *)\nFrom Coq Require Import String List.\nImport ListNotations.\nLocal Open Scope string_scope.\n"
                  "Definition gen_server_writes : list string :=\n  [ %s ].\n" % ";\n    ".join(coq_str(w) for w in server_writes()))
    except (GenError, OSError, SyntaxError) as e:
        info["ok"] = False
        info["error"] = str(e)
        # an instance file that cannot be regenerated must not leave a stale one behind
        params = "(* generation failed: %s *)\nFrom Coq Require Import ZArith.\nDefinition generation_failed : Z := 0%%Z.\n" % str(e).replace("*)", "* )")
        schemas = params
        sqltxt = params
    for name, txt in (("GenParams.v", params), ("GenSchemas.v", schemas), ("GenSql.v", sqltxt)):
        if write:
            write_if_changed(os.path.join(GEN, name), txt)
        info["files"][name] = hashlib.sha256(txt.encode()).hexdigest()
    return info


if __name__ == "__main__" and len(sys.argv) > 1 and sys.argv[1] == "--hash":
    print(json.dumps(generate(write=False)["files"], sort_keys=True))
    sys.exit(0)

if __name__ == "__main__":
    print(generate())
