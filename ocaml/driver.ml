(* driver.ml -- I/O glue around the extracted model: one event line in, one
   observation line out.  All parsing, stepping and rendering is extracted
   Gallina (Model.process_line); this file only converts between OCaml and
   Coq strings.  A blank line or a line "RESET" starts a new history. *)
let bit c i = (Char.code c lsr i) land 1 = 1
let coq_ascii c =
  Model.Ascii (bit c 0, bit c 1, bit c 2, bit c 3, bit c 4, bit c 5, bit c 6, bit c 7)
let coq_string (s : string) : Model.string =
  let r = ref Model.EmptyString in
  for i = String.length s - 1 downto 0 do r := Model.String (coq_ascii s.[i], !r) done;
  !r
let ocaml_char (Model.Ascii (b0, b1, b2, b3, b4, b5, b6, b7)) =
  let v b i = if b then 1 lsl i else 0 in
  Char.chr (v b0 0 + v b1 1 + v b2 2 + v b3 3 + v b4 4 + v b5 5 + v b6 6 + v b7 7)
let print_coq_string oc (s : Model.string) =
  let rec go = function
    | Model.EmptyString -> ()
    | Model.String (c, r) -> output_char oc (ocaml_char c); go r in
  go s; output_char oc '\n'
let () =
  let st = ref Model.PStart in
  (try
     while true do
       let line = input_line stdin in
       if line = "RESET" then (st := Model.PStart; print_string "RESET\n")
       else begin
         let (st', outs) = Model.process_line !st (coq_string line) in
         st := st';
         List.iter (print_coq_string stdout) outs
       end
     done
   with End_of_file -> ());
  flush stdout
