(** MbFactsA.v -- C01 / C02 / C05: the complete effect of `open` and `add`. *)
From MW Require Import Base Store Monad Usage Server Websocket Service Findings
     Inv StoreFacts Hoare DbFactsA DbFactsB OpFacts ProtoFacts Obs.
Local Open Scope list_scope.

(** the channel database after AppNamespace.open_mailbox(m, side, when) by app a:
    the mailbox row is created if absent, the side row is appended if absent,
    the mailbox is stamped; nothing else *)
Definition touch_row (m : string) (when : Z) (r : mb_row) : mb_row :=
  if seqb (mb_id r) m then mkMb (mb_app r) (mb_id r) when (mb_fornp r) else r.

Definition open_db (d : chan_db) (a m side : string) (when : Z) : chan_db :=
  let mbs := match sel_mb d a m with
             | Some _ => mailboxes d
             | None => mailboxes d ++ [mkMb a m when false]
             end in
  let sides := match sel_mbs d m side with
               | Some _ => mb_sides d
               | None => mb_sides d ++ [mkMbs m true side when None]
               end in
  mkChan (nameplates d) (np_sides d) (map (touch_row m when) mbs) sides (messages d) (np_seq d).

(** * Auxiliary: frames of a log *)

Lemma frames_of_app l1 l2 : frames_of (l1 ++ l2) = frames_of l1 ++ frames_of l2.
Proof.
  induction l1 as [|e l1 IH]; cbn; [reflexivity|].
  destruct e; cbn; rewrite IH; reflexivity.
Qed.

Lemma frames_of_map_rows c (g : msg_row -> frame) b tx l :
  frames_of (map (fun r => LFrame c (g r) b tx) l) = map (fun r => (c, g r)) l.
Proof. induction l as [|r l IH]; cbn; [reflexivity|]. rewrite IH. reflexivity. Qed.

Lemma frames_of_map_conns f b tx (l : list nat) :
  frames_of (map (fun c' => LFrame c' f b tx) l) = map (fun c' => (c', f)) l.
Proof. induction l as [|r l IH]; cbn; [reflexivity|]. rewrite IH. reflexivity. Qed.

Lemma set_log_nil s : log s = [] -> set_log s [] = s.
Proof. destruct s; cbn; intros ->; reflexivity. Qed.

(** * Auxiliary: connection table *)

Lemma lookup_upd_same c cs l cs0 :
  lookup_conn c l = Some cs0 -> lookup_conn c (update_conn c cs l) = Some cs.
Proof.
  induction l as [|[c' cs'] l IH]; cbn; [discriminate|].
  destruct (Nat.eqb c c') eqn:E; cbn; rewrite E; auto.
Qed.

(** * Auxiliary: subscriptions *)

Lemma sub_is_true a m c p : sub_is a m c p = true -> p = (a, m, c).
Proof.
  destruct p as [[a' m'] c']. unfold sub_is; cbn. intros H.
  apply andb_true_iff in H. destruct H as [H Hc].
  apply andb_true_iff in H. destruct H as [Ha Hm].
  apply seqb_eq in Ha. apply seqb_eq in Hm. apply Nat.eqb_eq in Hc. subst. reflexivity.
Qed.

Lemma In_subs_of a m c l : In c (subs_of a m l) <-> In (a, m, c) l.
Proof.
  unfold subs_of. rewrite in_map_iff. split.
  - intros [[[a' m'] c'] [Hs Hin]]. cbn in Hs. subst c'.
    apply filter_In in Hin. destruct Hin as [Hin Hf]. cbn in Hf.
    apply andb_true_iff in Hf. destruct Hf as [Ha Hm].
    apply seqb_eq in Ha. apply seqb_eq in Hm. subst. exact Hin.
  - intros Hin. exists (a, m, c). split; [reflexivity|].
    apply filter_In. split; [exact Hin|]. cbn. rewrite !seqb_refl. reflexivity.
Qed.

Lemma subs_of_NoDup a m l : NoDup l -> NoDup (subs_of a m l).
Proof.
  induction l as [|p l IH]; intros Hnd; [constructor|].
  inversion Hnd as [|p' l' Hnin Hnd']; subst.
  unfold subs_of. cbn [filter].
  destruct (seqb (fst (fst p)) a && seqb (snd (fst p)) m) eqn:E.
  - cbn [map]. constructor; [|apply IH; exact Hnd'].
    intros Hin. fold (subs_of a m l) in Hin. apply In_subs_of in Hin.
    apply Hnin. destruct p as [[a' m'] c']. cbn in *.
    apply andb_true_iff in E. destruct E as [Ha Hm].
    apply seqb_eq in Ha. apply seqb_eq in Hm. subst. exact Hin.
  - apply IH. exact Hnd'.
Qed.

Lemma subs_of_holds_aux s a m c' :
  SInv s -> (In c' (subs_of a m (subs s)) <-> holds s c' a m).
Proof.
  intros Hinv. rewrite In_subs_of. split.
  - intros Hin. apply (si_subs s Hinv) in Hin. cbn in Hin.
    destruct Hin as [_ [cs [side [Hl [Hb Hm]]]]]. exists cs, side. auto.
  - intros [cs [side [Hl [Hb Hm]]]].
    pose proof (si_conns s Hinv c' cs Hl) as Hok. unfold conn_ok in Hok.
    rewrite Hm in Hok. destruct Hok as [a' [side' [Hb' [_ Hin]]]].
    rewrite Hb in Hb'. inversion Hb'; subst. exact Hin.
Qed.

Lemma no_sub_idle s c cs a m :
  SInv s -> lookup_conn c (conns s) = Some cs -> c_mailbox cs = None ->
  existsb (sub_is a m c) (subs s) = false.
Proof.
  intros Hinv Hl Hmb. apply existsb_false_iff. intros p Hin.
  destruct (sub_is a m c p) eqn:E; [|reflexivity].
  apply sub_is_true in E. subst p.
  apply (si_subs s Hinv) in Hin. cbn in Hin.
  destruct Hin as [_ [cs' [side [Hl' [_ Hm]]]]].
  rewrite Hl in Hl'. inversion Hl'; subst. rewrite Hmb in Hm. discriminate.
Qed.

(** * Auxiliary: exact effect of the monadic pieces *)

Lemma send_each_eval c l : forall s,
  send_each c l s =
  Ok tt (set_log s (rev (map (fun r => LFrame c (msg_frame r) (is_clean s) (now s)) l) ++ log s)).
Proof.
  induction l as [|r l IH]; intros s.
  - cbn. destruct s; reflexivity.
  - cbn [send_each].
    rewrite (bind_ok _ _ s tt (set_log s (LFrame c (msg_frame r) (is_clean s) (now s) :: log s)))
      by reflexivity.
    rewrite IH. cbn [map rev]. rewrite <- app_assoc. reflexivity.
Qed.

Lemma send_all_eval f l : forall s,
  send_all l f s =
  Ok tt (set_log s (rev (map (fun c => LFrame c f (is_clean s) (now s)) l) ++ log s)).
Proof.
  induction l as [|c l IH]; intros s.
  - cbn. destruct s; reflexivity.
  - cbn [send_all].
    rewrite (bind_ok _ _ s tt (set_log s (LFrame c f (is_clean s) (now s) :: log s)))
      by reflexivity.
    rewrite IH. cbn [map rev]. rewrite <- app_assoc. reflexivity.
Qed.

Lemma existsb_snoc {A} (f : A -> bool) l x : f x = true -> existsb f (l ++ [x]) = true.
Proof. intros H. rewrite existsb_app. cbn. rewrite H. apply orb_true_iff. right. reflexivity. Qed.

(** [open_db] is the closed form of [open_body] *)
Lemma open_body_eval d a m side when :
  (open_body d a m side when = TxFail XIntegrity d /\ pk_clash d a m) \/
  open_body d a m side when = TxOk tt (open_db d a m side when).
Proof.
  unfold open_body, add_mailbox, open_db.
  destruct (sel_mb d a m) as [r|] eqn:Emb.
  - right. apply sel_mb_some in Emb. destruct Emb as [Hin [_ Hid]].
    assert (Hex : mb_exists d m = true) by (apply mb_exists_iff; eauto).
    unfold mailbox_open_body. destruct (sel_mbs d m side) eqn:Es.
    + reflexivity.
    + unfold ins_mbs. cbn [mbs_mbox]. rewrite Hex. reflexivity.
  - unfold ins_mb. cbn [mb_id]. destruct (mb_exists d m) eqn:Hex.
    + left. split; [reflexivity|]. split; [exact Hex|].
      intros Hh. apply has_mb_sel in Hh. destruct Hh as [r Hr]. congruence.
    + right. unfold mailbox_open_body.
      change (sel_mbs (set_mailboxes d (mailboxes d ++ [mkMb a m when false])) m side)
        with (sel_mbs d m side).
      destruct (sel_mbs d m side) eqn:Es.
      * reflexivity.
      * unfold ins_mbs. cbn [mbs_mbox].
        assert (Hex' : mb_exists (set_mailboxes d (mailboxes d ++ [mkMb a m when false])) m = true).
        { unfold mb_exists. cbn [mailboxes set_mailboxes]. apply existsb_snoc. cbn. apply seqb_refl. }
        rewrite Hex'. reflexivity.
Qed.

Lemma open_mailbox_eval a m side when s :
  open_mailbox a m side when s =
  match open_body (chan_w s) a m side when with
  | TxFail e d1 => Exn e (set_chan_w s d1)
  | TxOk _ d' =>
      let s2 := mkState d' d' (usage_w s) (usage_c s) (subs s) (conns s) (now s) (boot s)
                        (timer_start s) (next_due s)
                        (LCommitChan d' :: LCommitChan d' :: log s) in
      if (2 <? List.length (sel_mbs_all d' m))%nat then Exn XCrowded s2 else Ok tt s2
  end.
Proof.
  unfold open_mailbox, bind, tx, commit_chan, q, raise, ret.
  destruct (open_body (chan_w s) a m side when) as [u d'|e d1]; cbn -[Nat.ltb]; [|reflexivity].
  destruct (2 <? List.length (sel_mbs_all d' m))%nat; reflexivity.
Qed.

Lemma open_db_messages d a m side when : messages (open_db d a m side when) = messages d.
Proof. reflexivity. Qed.

Lemma drop_conn_frame c s :
  chan_w (drop_conn c s) = chan_w s /\ chan_c (drop_conn c s) = chan_c s /\
  log (drop_conn c s) = log s.
Proof.
  unfold drop_conn, on_close. rewrite bind_get_conn.
  destruct (c_mailbox (conn_of s c)); [|cbn; auto].
  destruct (c_bound (conn_of s c)) as [[a side]|]; [|cbn; auto].
  destruct (c_listening (conn_of s c)); cbn; auto.
Qed.

Section WithConfig.
Variable cfg : config.

Lemma on_message_open s c cs a side msg o m :
  SInv s -> log s = [] ->
  lookup_conn c (conns s) = Some cs -> c_bound cs = Some (a, side) ->
  m_type msg = Some TOpen -> c_mailbox cs = None -> m_mailbox msg = Some m ->
  let d := chan_w s in
  let d' := open_db d a m side (now s) in
  match on_message cfg c msg o s with
  | Exn e s' =>
      e = XIntegrity /\ pk_clash d a m /\ chan_w s' = d /\ chan_c s' = d /\
      frames_of (rev (log s')) = [(c, FAck (m_id msg))]
  | Ok _ s' =>
      chan_w s' = d' /\ chan_c s' = d' /\
      (((2 < List.length (sel_mbs_all d' m))%nat /\
        frames_of (rev (log s')) = [(c, FAck (m_id msg)); (c, FError ErrCrowded msg)] /\
        subs s' = subs s /\ ~ holds s' c a m)
       \/
       ((List.length (sel_mbs_all d' m) <= 2)%nat /\
        frames_of (rev (log s')) =
          (c, FAck (m_id msg)) :: map (fun r => (c, msg_frame r)) (msg_sort (sel_msgs d a m)) /\
        subs s' = subs s ++ [(a, m, c)] /\ holds s' c a m))
  end.
Proof.
  intros Hinv Hlog Hc Hb Ht Hmb Hm d d'.
  pose proof (si_clean s Hinv) as [Hcl _].
  unfold on_message, try_catch. rewrite Ht.
  set (s0 := set_log s (LFrame c (FAck (m_id msg)) (is_clean s) (now s) :: log s)).
  rewrite (bind_ok _ _ s tt s0) by reflexivity.
  assert (Hc0 : conn_of s0 c = cs).
  { unfold conn_of, s0; cbn. rewrite Hc. reflexivity. }
  rewrite (dispatch_bound cfg c TOpen msg o s0 a side)
    by (try discriminate; rewrite Hc0; exact Hb).
  unfold handle_open. rewrite bind_get_conn, Hc0, Hmb, Hm.
  set (cs1 := set_mailbox_id cs (Some m)).
  set (s1 := set_conns s0 (update_conn c cs1 (conns s0))).
  rewrite (bind_ok _ _ s0 tt s1) by reflexivity.
  rewrite (bind_ok get _ s1 s1 s1) by reflexivity.
  assert (Hl1 : lookup_conn c (conns s1) = Some cs1).
  { unfold s1, s0; cbn. eapply lookup_upd_same; eauto. }
  unfold bind at 1. unfold catch_crowded, try_catch.
  rewrite open_mailbox_eval.
  change (chan_w s1) with d. change (now s1) with (now s).
  destruct (open_body_eval d a m side (now s)) as [[Hf Hclash]|Hok].
  - rewrite Hf. cbn. rewrite Hlog. cbn. auto.
  - rewrite Hok. fold d'. cbv zeta.
    destruct (2 <? List.length (sel_mbs_all d' m))%nat eqn:E23.
    + apply Nat.ltb_lt in E23. cbn. split; [reflexivity|]. split; [reflexivity|].
      left. split; [exact E23|]. rewrite Hlog. cbn. split; [reflexivity|]. split; [reflexivity|].
      intros [cs' [side' [Hl' [_ Hm']]]]. cbn in Hl'.
      change (lookup_conn c (conns s1) = Some cs') in Hl'.
      rewrite Hl1 in Hl'. inversion Hl'; subst cs'. cbn in Hm'. congruence.
    + apply Nat.ltb_ge in E23.
      set (s2 := mkState d' d' (usage_w s1) (usage_c s1) (subs s1) (conns s1) (now s)
                         (boot s1) (timer_start s1) (next_due s1)
                         (LCommitChan d' :: LCommitChan d' :: log s1)).
      rewrite bind_get_conn.
      assert (Hc2 : conn_of s2 c = cs1) by (unfold conn_of, s2; cbn [conns]; rewrite Hl1; reflexivity).
      rewrite Hc2.
      set (cs2 := set_listening (set_mailbox cs1 (Some m)) true).
      set (s3 := set_conns s2 (update_conn c cs2 (conns s2))).
      rewrite (bind_ok _ _ s2 tt s3) by reflexivity.
      set (s4 := set_subs s3 (subs s3 ++ [(a, m, c)])).
      assert (Hsub : add_sub a m c s3 = Ok tt s4).
      { unfold add_sub. change (subs s3) with (subs s).
        rewrite (no_sub_idle s c cs a m Hinv Hc Hmb). reflexivity. }
      rewrite (bind_ok _ _ s3 tt s4 Hsub).
      rewrite (bind_ok _ _ s4 (msg_sort (sel_msgs d' a m)) s4) by reflexivity.
      rewrite send_each_eval.
      assert (Hmsgs : sel_msgs d' a m = sel_msgs d a m) by reflexivity.
      rewrite Hmsgs.
      split; [reflexivity|]. split; [reflexivity|]. right.
      split; [exact E23|]. split; [|split; [reflexivity|]].
      * cbn [log set_log]. rewrite rev_app_distr, rev_involutive.
        cbn [log s4 s3 s2 s1 s0 set_subs set_conns set_log]. rewrite Hlog.
        cbn [rev app]. cbn [frames_of app]. rewrite frames_of_map_rows. reflexivity.
      * exists cs2, side. split; [|split].
        -- cbn [conns set_log s4 set_subs s3 set_conns]. eapply lookup_upd_same.
           change (conns s2) with (conns s1). exact Hl1.
        -- cbn. exact Hb.
        -- reflexivity.
Qed.

(** * open *)
Theorem open_outcome s c cs a side msg o m :
  SInv s -> log s = [] ->
  lookup_conn c (conns s) = Some cs -> c_bound cs = Some (a, side) ->
  m_type msg = Some TOpen -> erroneous cs msg = false -> m_mailbox msg = Some m ->
  let '(s', ob) := step cfg s (EB (ECmd c msg o)) in
  let d := chan_w s in
  let d' := chan_w s' in
  chan_c s' = d' /\
  ( (* the id exists under another app (known finding KF1): internal error, nothing changes *)
    (o_exc ob = Some XIntegrity /\ frames_of (o_log ob) = [(c, FAck (m_id msg))] /\ d' = d /\
     pk_clash d a m)
    \/
    (o_exc ob = None /\ d' = open_db d a m side (now s) /\
     ( (* a third (or later) side: refused, not subscribed, sent nothing of the mailbox *)
       ((2 < List.length (sel_mbs_all d' m))%nat /\
        frames_of (o_log ob) = [(c, FAck (m_id msg)); (c, FError ErrCrowded msg)] /\
        subs s' = subs s /\ ~ holds s' c a m)
       \/
       (* served: subscribed, and sent every stored message of exactly this
          mailbox of this app, oldest first, and nothing else *)
       ((List.length (sel_mbs_all d' m) <= 2)%nat /\
        frames_of (o_log ob) =
          (c, FAck (m_id msg)) :: map (fun r => (c, msg_frame r)) (msg_sort (sel_msgs d a m)) /\
        subs s' = subs s ++ [(a, m, c)] /\ holds s' c a m)) ) ).
Proof.
  intros Hinv Hlog Hc Hb Ht Herr Hm.
  assert (Hmb : c_mailbox cs = None).
  { unfold erroneous in Herr. rewrite Ht, Hb in Herr.
    destruct (c_mailbox cs); [discriminate|reflexivity]. }
  pose proof (on_message_open s c cs a side msg o m Hinv Hlog Hc Hb Ht Hmb Hm) as H.
  cbv zeta in H.
  unfold step. rewrite (set_log_nil s Hlog). unfold step_b, has_conn. rewrite Hc.
  destruct (on_message cfg c msg o s) as [u s1|e s1].
  - cbn. destruct H as [Hw [Hcc H]]. split; [congruence|]. right.
    split; [reflexivity|]. split; [exact Hw|]. rewrite Hw. exact H.
  - destruct H as [He [Hclash [Hw [Hcc Hfr]]]].
    destruct (drop_conn_frame c s1) as [Dw [Dc Dl]].
    cbn. rewrite Dw, Dc, Dl. split; [congruence|]. left. subst e. auto.
Qed.

(** * add: stored once, stamped with the adder's bound side and the arrival
    time, then delivered exactly once to every connection holding the mailbox
    (the adder included), to nobody else *)
Theorem add_effect s c cs a side msg o m phase body :
  SInv s -> log s = [] ->
  lookup_conn c (conns s) = Some cs -> c_bound cs = Some (a, side) -> c_mailbox cs = Some m ->
  m_type msg = Some TAdd -> m_phase msg = Some phase -> m_body msg = Some body ->
  let r := mkMsg a m side phase body (now s) (m_id msg) in
  let '(s', ob) := step cfg s (EB (ECmd c msg o)) in
  o_exc ob = None /\
  frames_of (o_log ob) =
    (c, FAck (m_id msg)) :: map (fun c' => (c', msg_frame r)) (subs_of a m (subs s)) /\
  chan_w s' = upd_touch (ins_msg (chan_w s) r) m (now s) /\ chan_c s' = chan_w s' /\
  usage_w s' = usage_w s /\ usage_c s' = usage_c s /\ subs s' = subs s /\ conns s' = conns s /\
  NoDup (subs_of a m (subs s)) /\ In c (subs_of a m (subs s)) /\
  (forall c', In c' (subs_of a m (subs s)) <-> holds s c' a m).
Proof.
  intros Hinv Hlog Hc Hb Hmb Ht Hph Hbd r.
  set (s0 := set_log s (LFrame c (FAck (m_id msg)) (is_clean s) (now s) :: log s)).
  assert (Hc0 : conn_of s0 c = cs).
  { unfold conn_of, s0; cbn. rewrite Hc. reflexivity. }
  set (d1 := upd_touch (ins_msg (chan_w s) r) m (now s)).
  set (s2 := mkState d1 d1 (usage_w s) (usage_c s) (subs s) (conns s) (now s) (boot s)
                     (timer_start s) (next_due s) (LCommitChan d1 :: log s0)).
  assert (Hom : on_message cfg c msg o s =
                Ok tt (set_log s2 (rev (map (fun c' => LFrame c' (msg_frame r) (is_clean s2) (now s2))
                                            (subs_of a m (subs s))) ++ log s2))).
  { apply (on_message_dispatch_ok cfg c msg o s TAdd _ Ht). fold s0.
    rewrite (dispatch_bound cfg c TAdd msg o s0 a side)
      by (try discriminate; rewrite Hc0; exact Hb).
    unfold handle_add. rewrite bind_get_conn, Hc0, Hmb, Hph, Hbd.
    rewrite (bind_ok get _ s0 s0 s0) by reflexivity.
    change (now s0) with (now s). fold r.
    unfold add_message.
    rewrite (bind_ok _ _ s0 tt (set_chan_w s0 d1)) by reflexivity.
    rewrite (bind_ok _ _ (set_chan_w s0 d1) tt s2) by reflexivity.
    rewrite (bind_ok get _ s2 s2 s2) by reflexivity.
    rewrite send_all_eval. reflexivity. }
  unfold step. rewrite (set_log_nil s Hlog). unfold step_b, has_conn. rewrite Hc, Hom.
  cbn [o_exc o_log log set_log chan_w chan_c usage_w usage_c subs conns s2].
  split; [reflexivity|]. split.
  { rewrite rev_app_distr, rev_involutive. unfold s0. cbn [log set_log]. rewrite Hlog.
    cbn [rev app]. cbn [frames_of app]. rewrite frames_of_map_conns. reflexivity. }
  split; [reflexivity|]. split; [reflexivity|]. split; [reflexivity|]. split; [reflexivity|].
  split; [reflexivity|]. split; [reflexivity|].
  split; [apply subs_of_NoDup, (si_subs_nodup s Hinv)|].
  split; [|intros c'; apply subs_of_holds_aux; exact Hinv].
  apply subs_of_holds_aux; [exact Hinv|]. exists cs, side. auto.
Qed.

(** who is subscribed, in any well-formed state: exactly the connections holding the mailbox *)
Lemma subs_of_holds s a m c' :
  SInv s -> (In c' (subs_of a m (subs s)) <-> holds s c' a m).
Proof. apply subs_of_holds_aux. Qed.

End WithConfig.
