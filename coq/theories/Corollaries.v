(** Corollaries.v -- history-level consequences of the master invariant
    theorem (StepFacts.v), in the form the property files quote. *)
From MW Require Import Base Store Monad Usage Server Websocket Service Findings
     Inv StoreFacts Hoare DbFactsA DbFactsB OpFacts ProtoFacts Obs StepFacts.
Local Open Scope list_scope.

Section WithConfig.
Variable cfg : config.
Hypothesis Hexp : 0 < exp cfg.

(** every reachable state is well-formed *)
Lemma reachable_SInv s : reachable cfg s -> SInv s /\ log s = [].
Proof.
  intros (t0 & h & ->). destruct (init_spec cfg Hexp t0) as [Hi Hl].
  split; [apply run_spec; auto|].
  revert Hi Hl. generalize (init cfg t0). induction h as [|e h IH]; intros s Hs Hl; cbn; [exact Hl|].
  pose proof (step_spec cfg Hexp s e Hs) as H. destruct (step cfg s e) as [s1 o1].
  destruct H as (Hs1 & Hl1 & _). specialize (IH s1 Hs1 Hl1).
  destruct (run cfg s1 h). exact IH.
Qed.

(** C09: every frame of every history was emitted with nothing pending *)
Lemma frames_after_commit t0 h o c f b tx :
  In o (snd (run cfg (init cfg t0) h)) ->
  In (LFrame c f b tx) (o_log o ++ o_boot_log o) -> b = true.
Proof.
  intros Ho Hin. destruct (init_spec cfg Hexp t0) as [Hi _].
  destruct (run_spec cfg Hexp _ h Hi) as [_ Hall]. destruct (Hall o Ho) as [H1 H2].
  apply in_app_or in Hin. destruct Hin as [Hin|Hin].
  - rewrite Forall_forall in H1. exact (H1 _ Hin).
  - rewrite Forall_forall in H2. exact (H2 _ Hin).
Qed.

(** C10: every committed snapshot of every history -- hence every database a
    crash can leave -- is well-formed *)
Lemma committed_snapshots_wf t0 h o d :
  In o (snd (run cfg (init cfg t0) h)) ->
  In (LCommitChan d) (o_log o ++ o_boot_log o) -> DbInv d.
Proof.
  intros Ho Hin. destruct (init_spec cfg Hexp t0) as [Hi _].
  destruct (run_spec cfg Hexp _ h Hi) as [_ Hall]. destruct (Hall o Ho) as [H1 H2].
  apply in_app_or in Hin. destruct Hin as [Hin|Hin].
  - rewrite Forall_forall in H1. exact (H1 _ Hin).
  - rewrite Forall_forall in H2. exact (H2 _ Hin).
Qed.

(** C10: after any history, crashes included, the files are well-formed and
    nothing is pending *)
Lemma crash_state_wf s :
  reachable cfg s -> DbInv (chan_c s) /\ chan_c s = chan_w s /\ usage_c s = usage_w s.
Proof.
  intros Hr. destruct (reachable_SInv s Hr) as [Hs _]. destruct (si_clean s Hs) as [E1 E2].
  split; [rewrite <- E1; apply (si_db s Hs)|]. split; symmetry; assumption.
Qed.

(** the triggers of the open known findings, as decidable-looking facts about
    the state in which the command arrives *)
Definition kf1_trigger (s : state) (c : nat) (msg : command) : Prop :=
  exists a side m, c_bound (conn_of s c) = Some (a, side) /\
    (m_type msg = Some TOpen \/ m_type msg = Some TClose) /\
    cmd_mailbox (conn_of s c) msg = Some m /\ pk_clash (chan_w s) a m.

Definition id_collision (s : state) (ora : oracle) : Prop :=
  exists bytes, o_draw ora = Some bytes /\ mb_exists (chan_w s) (genid bytes) = true.

(** C17: the only ways a handler can fail internally *)
Lemma internal_error_causes s e o ex :
  SInv s -> snd (step cfg s e) = o -> o_exc o = Some ex ->
  exists k c msg ora, (e = EB (ECmd c msg ora) \/ e = ECrash k (ECmd c msg ora)) /\
    (kf1_trigger s c msg \/ id_collision s ora \/ kf3_cmd s c msg ora = true \/ ex = XOracle).
Proof.
  intros Hs Ho Hx. pose proof (step_spec cfg Hexp s e Hs) as H.
  destruct (step cfg s e) as [s1 o1]. cbn in Ho. subst o1.
  destruct H as (_ & _ & _ & _ & Hesc). specialize (Hesc ex Hx).
  assert (G : forall c msg ora, esc (set_log s []) c msg ora ex ->
              kf1_trigger s c msg \/ id_collision s ora \/ kf3_cmd s c msg ora = true \/ ex = XOracle).
  { intros c msg ora (a & side & Hb & Hcase).
    destruct Hcase as [H1|[H2|[H3|[H4|H5]]]].
    - destruct H1 as (_ & Ht & m & Hm & Hclash). left. exists a, side, m. split; [exact Hb|]. split; [exact Ht|]. split; [exact Hm|exact Hclash].
    - destruct H2 as (_ & Ht & bytes & Hd & Hclash). right; left. exists bytes. split; auto. apply Hclash.
    - destruct H3 as (_ & Hk). right; right; left. exact Hk.
    - right; right; right. exact H4.
    - destruct H5 as (_ & Ht & bytes & Hd & Hmb). right; left. exists bytes. split; auto. cbn in Hmb.
      eapply has_mb_exists. exact Hmb. }
  destruct e as [b|k b|]; try contradiction.
  - destruct b as [c|c msg ora|c|f|dt f]; try contradiction.
    exists 0%nat, c, msg, ora. split; [left; reflexivity|]. apply G, Hesc.
  - destruct b as [c|c msg ora|c|f|dt f]; try contradiction.
    exists k, c, msg, ora. split; [right; reflexivity|]. apply G, Hesc.
Qed.

End WithConfig.
