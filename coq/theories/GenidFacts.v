(** GenidFacts.v -- C03, pure part: generate_mailbox_id (base32 of 8 random
    bytes, lower case, padding stripped) is injective on 8-byte inputs, always
    13 characters long, over the alphabet a-z2-7. *)
From MW Require Import Base Store Monad Usage Server.
From Coq Require Import Lia NArith.

Definition is_b32 (c : ascii) : bool :=
  let n := N_of_ascii c in
  (((97 <=? n) && (n <=? 122)) || ((50 <=? n) && (n <=? 55)))%N.

Fixpoint all_b32 (s : string) : bool :=
  match s with EmptyString => true | String c s' => is_b32 c && all_b32 s' end.

(** * auxiliary facts *)

(** powers as structural fixpoints (no [N.pow] on converted exponents) *)
Fixpoint p32 (k : nat) : N :=
  match k with O => 1%N | S k' => (32 * p32 k')%N end.

Fixpoint p256 (k : nat) : N :=
  match k with O => 1%N | S k' => (256 * p256 k')%N end.

Lemma p32_pos k : (0 < p32 k)%N.
Proof. induction k as [|k IH]; cbn [p32]; lia. Qed.

Lemma p256_pos k : (0 < p256 k)%N.
Proof. induction k as [|k IH]; cbn [p256]; lia. Qed.

(** ** the base-32 alphabet *)

Lemma b32char_code n :
  (n < 32)%N ->
  N_of_ascii (b32char n) = if (n <? 26)%N then (97 + n)%N else (24 + n)%N.
Proof.
  intros Hn. unfold b32char.
  destruct (n <? 26)%N eqn:E; apply N_ascii_embedding.
  - apply N.ltb_lt in E. lia.
  - lia.
Qed.

Lemma b32char_is_b32 n : (n < 32)%N -> is_b32 (b32char n) = true.
Proof.
  intros Hn. unfold is_b32. cbv zeta. rewrite (b32char_code n Hn).
  destruct (n <? 26)%N eqn:E.
  - apply N.ltb_lt in E. apply orb_true_iff. left.
    apply andb_true_iff. split; apply N.leb_le; lia.
  - apply N.ltb_ge in E. apply orb_true_iff. right.
    apply andb_true_iff. split; apply N.leb_le; lia.
Qed.

Lemma b32char_inj a b :
  (a < 32)%N -> (b < 32)%N -> b32char a = b32char b -> a = b.
Proof.
  intros Ha Hb Heq.
  assert (Hc : N_of_ascii (b32char a) = N_of_ascii (b32char b)) by (now rewrite Heq).
  rewrite (b32char_code a Ha), (b32char_code b Hb) in Hc.
  destruct (a <? 26)%N eqn:Ea; destruct (b <? 26)%N eqn:Eb;
    try apply N.ltb_lt in Ea; try apply N.ltb_ge in Ea;
    try apply N.ltb_lt in Eb; try apply N.ltb_ge in Eb; lia.
Qed.

Lemma mod32_lt n : (n mod 32 < 32)%N.
Proof. apply N.mod_lt. discriminate. Qed.

(** ** [b32digits] *)

Lemma b32digits_length k : forall n acc,
  String.length (b32digits k n acc) = (k + String.length acc)%nat.
Proof.
  induction k as [|k IH]; intros n acc; cbn [b32digits].
  - reflexivity.
  - rewrite IH. cbn [String.length]. lia.
Qed.

Lemma b32digits_alphabet k : forall n acc,
  all_b32 acc = true -> all_b32 (b32digits k n acc) = true.
Proof.
  induction k as [|k IH]; intros n acc Hacc; cbn [b32digits].
  - exact Hacc.
  - apply IH. cbn [all_b32]. rewrite Hacc, andb_true_r.
    apply b32char_is_b32, mod32_lt.
Qed.

Lemma mod_p32_succ k n :
  (n mod p32 (S k) = n mod 32 + 32 * ((n / 32) mod p32 k))%N.
Proof.
  cbn [p32]. apply N.mod_mul_r.
  - discriminate.
  - pose proof (p32_pos k). lia.
Qed.

Lemma b32digits_inj k : forall n1 n2 acc1 acc2,
  String.length acc1 = String.length acc2 ->
  b32digits k n1 acc1 = b32digits k n2 acc2 ->
  (n1 mod p32 k = n2 mod p32 k)%N /\ acc1 = acc2.
Proof.
  induction k as [|k IH]; intros n1 n2 acc1 acc2 Hlen Heq.
  - cbn [b32digits] in Heq. cbn [p32]. rewrite !N.mod_1_r. now split.
  - cbn [b32digits] in Heq.
    apply IH in Heq; [| cbn [String.length]; now rewrite Hlen].
    destruct Heq as [Hmod Hstr].
    injection Hstr as Hc Hacc.
    apply b32char_inj in Hc; try apply mod32_lt.
    split; [| exact Hacc].
    rewrite !mod_p32_succ, Hc, Hmod. reflexivity.
Qed.

(** ** [N_of_bytes] *)

Lemma N_of_ascii_inj a b : N_of_ascii a = N_of_ascii b -> a = b.
Proof.
  intros H. rewrite <- (ascii_N_embedding a), <- (ascii_N_embedding b). now rewrite H.
Qed.

Lemma N_of_bytes_bound s : forall acc,
  (N_of_bytes s acc < (acc + 1) * p256 (String.length s))%N.
Proof.
  induction s as [|c s IH]; intros acc; cbn [N_of_bytes String.length p256].
  - lia.
  - specialize (IH (acc * 256 + N_of_ascii c)%N).
    pose proof (N_ascii_bounded c) as Hc.
    pose proof (p256_pos (String.length s)) as HP.
    set (P := p256 (String.length s)) in *.
    apply N.lt_le_trans with (1 := IH).
    replace ((acc + 1) * (256 * P))%N with (((acc + 1) * 256) * P)%N by lia.
    apply N.mul_le_mono_r. lia.
Qed.

Lemma N_of_bytes_inj s1 : forall s2 acc1 acc2,
  String.length s1 = String.length s2 ->
  N_of_bytes s1 acc1 = N_of_bytes s2 acc2 ->
  acc1 = acc2 /\ s1 = s2.
Proof.
  induction s1 as [|c1 s1 IH]; intros s2 acc1 acc2 Hlen Heq;
    destruct s2 as [|c2 s2]; cbn [String.length] in Hlen; try discriminate.
  - cbn [N_of_bytes] in Heq. now split.
  - cbn [N_of_bytes] in Heq.
    apply IH in Heq; [| lia].
    destruct Heq as [Hacc Hs].
    pose proof (N_ascii_bounded c1) as H1.
    pose proof (N_ascii_bounded c2) as H2.
    assert (Hc : N_of_ascii c1 = N_of_ascii c2) by lia.
    split; [lia|].
    apply N_of_ascii_inj in Hc. now subst.
Qed.

(** * the required statements *)

Lemma genid_length bytes : String.length (genid bytes) = 13%nat.
Proof. unfold genid. rewrite b32digits_length. reflexivity. Qed.

Lemma genid_alphabet bytes : all_b32 (genid bytes) = true.
Proof. unfold genid. apply b32digits_alphabet. reflexivity. Qed.

(** two different 64-bit draws never yield the same mailbox id *)
Theorem genid_inj b1 b2 :
  String.length b1 = 8%nat -> String.length b2 = 8%nat ->
  genid b1 = genid b2 -> b1 = b2.
Proof.
  intros H1 H2 Heq. unfold genid in Heq.
  apply b32digits_inj in Heq; [| reflexivity].
  destruct Heq as [Hmod _].
  pose proof (N_of_bytes_bound b1 0) as B1.
  pose proof (N_of_bytes_bound b2 0) as B2.
  rewrite H1 in B1. rewrite H2 in B2.
  change (p256 8) with 18446744073709551616%N in B1, B2.
  change (p32 13) with 36893488147419103232%N in Hmod.
  rewrite !N.mod_small in Hmod by lia.
  assert (Hn : N_of_bytes b1 0 = N_of_bytes b2 0) by lia.
  apply N_of_bytes_inj in Hn; [| congruence].
  apply Hn.
Qed.

(** a concrete value, to be compared with Python's
    base64.b32encode(bytes(range(1,9))).lower().strip(b"=") = "aebagbafaydqq" *)
Example genid_example :
  genid (String (ascii_of_N 1) (String (ascii_of_N 2) (String (ascii_of_N 3) (String (ascii_of_N 4)
        (String (ascii_of_N 5) (String (ascii_of_N 6) (String (ascii_of_N 7) (String (ascii_of_N 8) ""))))))))
  = "aebagbafaydqq"%string.
Proof. vm_compute. reflexivity. Qed.
