(** TwoSidesEver.v -- C05 at the level of whole histories.

    CrowdFacts.v / CrashLife.v state C05 per state and per step.  Here the
    statement is about a run: over one incarnation of a mailbox (a maximal
    stretch of the run during which its row exists) all the sides that are
    ever SERVED -- a connection bound to the side holds the mailbox after some
    event of the stretch, or is sent message frames in answer to its `open` of
    it (also when the process dies right after) -- are among the first two
    entries of the mailbox's side list; likewise all the sides that are ever
    told the mailbox id of one incarnation of a nameplate (one nameplate row:
    ids are never reused) are among the first two entries of its side list.
    Every event is allowed, crashes after any commit included.

    Part A: the shape of the log of one event (no commit follows a message /
            claimed frame), hence [crash_told_completed]: a crash event whose
            observed log contains such a frame is an event that completed
            before the process died.
    Part B: [served_in]: the sides served by the current incarnation of a
            mailbox over a history; [two_sides_ever_mailbox] (+ [_alive],
            [at_most_two_sides_mailbox]).
    Part C: [told_in]: the sides told the mailbox id of a nameplate row;
            [two_sides_ever_nameplate] (+ [_alive], [at_most_two_sides_nameplate]).
    Part D: the definitions miss nothing: every message frame of a run goes to
            a served side ([message_frames_accounted], [message_frames_to_served]),
            every claimed frame is a [told_step] ([claimed_frames_accounted]).
    Then:   [served_in_spec] / [told_in_spec] (what the recursions say, without
            recursion), [two_sides_ever_mailbox_last] / [..._nameplate_last] (the
            event that ends an incarnation).
    Part E: non-vacuity. *)
From MW Require Import Base Store Monad Usage Server Websocket Service Findings
     Inv StoreFacts Hoare DbFactsA DbFactsB OpFacts ProtoFacts Obs StepFacts SweepFacts
     NpFactsA MbFactsA MbFactsB CrowdFacts LifeFacts NpFactsB ResumeFacts HistFacts CrashLife.
Local Open Scope list_scope.

Definition is_msg (f : frame) : Prop :=
  match f with FMessage _ _ _ _ _ => True | _ => False end.
Definition is_claimed (f : frame) : Prop :=
  match f with FClaimed _ => True | _ => False end.

(** * Part A: the shape of the log of one event *)

(** ** a calculus: every entry an operation appends to the log satisfies [P] *)
Section LogForall.
Variable P : log_entry -> Prop.

Definition Lf {A} (m : M A) : Prop :=
  forall s, exists k, log (out (m s)) = k ++ log s /\ Forall P k.

Lemma Lf_same {A} (m : M A) : (forall s, log (out (m s)) = log s) -> Lf m.
Proof. intros H s. exists []. split; [apply H|constructor]. Qed.

Lemma Lf_one {A} (m : M A) :
  (forall s, exists e, log (out (m s)) = e :: log s /\ P e) -> Lf m.
Proof.
  intros H s. destruct (H s) as (e & E & He). exists [e]. split; [exact E|].
  constructor; [exact He|constructor].
Qed.

Lemma Lf_bind {A B} (m : M A) (k : A -> M B) : Lf m -> (forall a, Lf (k a)) -> Lf (bind m k).
Proof.
  intros Hm Hk s. unfold bind. destruct (Hm s) as (k1 & E1 & F1).
  destruct (m s) as [a s1|e s1]; cbn [out] in *.
  - destruct (Hk a s1) as (k2 & E2 & F2). exists (k2 ++ k1). split.
    + rewrite E2, E1. apply app_assoc.
    + apply Forall_app. split; assumption.
  - exists k1. split; assumption.
Qed.

Lemma Lf_try_catch {A} (m : M A) (h : exn -> M A) :
  Lf m -> (forall e, Lf (h e)) -> Lf (try_catch m h).
Proof.
  intros Hm Hh s. unfold try_catch. destruct (Hm s) as (k1 & E1 & F1).
  destruct (m s) as [a s1|e s1]; cbn [out] in *.
  - exists k1. split; assumption.
  - destruct (Hh e s1) as (k2 & E2 & F2). exists (k2 ++ k1). split.
    + rewrite E2, E1. apply app_assoc.
    + apply Forall_app. split; assumption.
Qed.

Lemma Lf_ret {A} (a : A) : Lf (ret a).
Proof. apply Lf_same. reflexivity. Qed.
Lemma Lf_raise {A} e : Lf (@raise A e).
Proof. apply Lf_same. reflexivity. Qed.
Lemma Lf_err {A} : Lf (@err A).
Proof. apply Lf_raise. Qed.
Lemma Lf_get : Lf get.
Proof. apply Lf_same. reflexivity. Qed.
Lemma Lf_q {A} (f : chan_db -> A) : Lf (q f).
Proof. apply Lf_same. reflexivity. Qed.
Lemma Lf_tx {A} (f : chan_db -> txres A) : Lf (tx f).
Proof. apply Lf_same. intros s. unfold tx. destruct (f (chan_w s)); reflexivity. Qed.
Lemma Lf_utx f : Lf (utx f).
Proof. apply Lf_same. reflexivity. Qed.
Lemma Lf_get_conn c : Lf (get_conn c).
Proof. apply Lf_same. reflexivity. Qed.
Lemma Lf_set_conn c X : Lf (set_conn c X).
Proof. apply Lf_same. reflexivity. Qed.
Lemma Lf_add_sub a m c : Lf (add_sub a m c).
Proof. apply Lf_same. intros s. unfold add_sub. destruct (existsb _ _); reflexivity. Qed.
Lemma Lf_remove_sub a m c : Lf (remove_sub a m c).
Proof. apply Lf_same. reflexivity. Qed.
Lemma Lf_stop_listeners a m : Lf (stop_listeners a m).
Proof. apply Lf_same. reflexivity. Qed.

Lemma Lf_commit_chan : (forall d, P (LCommitChan d)) -> Lf commit_chan.
Proof. intros H. apply Lf_one. intros s. eexists. split; [reflexivity|apply H]. Qed.
Lemma Lf_commit_usage : (forall u, P (LCommitUsage u)) -> Lf commit_usage.
Proof. intros H. apply Lf_one. intros s. eexists. split; [reflexivity|apply H]. Qed.
Lemma Lf_send c f : (forall b t, P (LFrame c f b t)) -> Lf (send c f).
Proof. intros H. apply Lf_one. intros s. eexists. split; [reflexivity|apply H]. Qed.

End LogForall.

Lemma Lf_weaken {A} (P P' : log_entry -> Prop) (m : M A) :
  (forall x, P x -> P' x) -> Lf P m -> Lf P' m.
Proof.
  intros H Hm s. destruct (Hm s) as (k & E & F). exists k. split; [exact E|].
  revert F. apply Forall_impl. exact H.
Qed.

(** side conditions of the calculus are closed by [lf_side] *)
Ltac lf_side := fail.
Ltac lf_ops := fail.
Ltac lf_step :=
  first
    [ lf_ops
    | apply Lf_ret | apply Lf_raise | apply Lf_err | apply Lf_get | apply Lf_q | apply Lf_tx
    | apply Lf_utx | apply Lf_get_conn | apply Lf_set_conn | apply Lf_add_sub
    | apply Lf_remove_sub | apply Lf_stop_listeners
    | apply Lf_commit_chan; lf_side | apply Lf_commit_usage; lf_side
    | apply Lf_send; lf_side
    | apply Lf_bind; [|intros ?]
    | apply Lf_try_catch; [|intros ?]
    | match goal with
      | |- Lf _ (match ?y with _ => _ end) => destruct y
      | |- Lf _ (let '(_, _) := ?y in _) => destruct y
      end ].
Ltac lf := repeat lf_step.

(** ** the operations of server.py send no frame at all *)
Definition nofr_e (x : log_entry) : Prop :=
  match x with LFrame _ _ _ _ => False | _ => True end.

Section NoFrames.
Variable cfg : config.

Ltac lf_side ::= (intros; exact I).

Lemma Nf_open_mailbox a m side w : Lf nofr_e (open_mailbox a m side w).
Proof. unfold open_mailbox. lf. Qed.

Ltac lf_ops ::= first [ apply Nf_open_mailbox ].

Lemma Nf_claim_nameplate a n side w draw : Lf nofr_e (claim_nameplate a n side w draw).
Proof. unfold claim_nameplate. lf. Qed.

Ltac lf_ops ::= first [ apply Nf_open_mailbox | apply Nf_claim_nameplate ].

Lemma Nf_allocate_nameplate a side w o draw : Lf nofr_e (allocate_nameplate a side w o draw).
Proof. unfold allocate_nameplate. lf. Qed.

Lemma Nf_release_nameplate a n side w : Lf nofr_e (release_nameplate cfg a n side w).
Proof. unfold release_nameplate, write_usage. lf. Qed.

Lemma Nf_mailbox_close a m side mood w : Lf nofr_e (mailbox_close cfg a m side mood w).
Proof. unfold mailbox_close, write_usage. lf. Qed.

Lemma Nf_log_client_version a side w cv : Lf nofr_e (log_client_version cfg a side w cv).
Proof. unfold log_client_version. lf. Qed.

Lemma Nf_prune_app a w o : Lf nofr_e (prune_app cfg a w o).
Proof. unfold prune_app, write_usage. lf. Qed.

Lemma Nf_prune_apps w o : forall apps, Lf nofr_e (prune_apps cfg apps w o).
Proof.
  induction apps as [|a rest IH]; cbn [prune_apps]; [lf|].
  apply Lf_bind; [apply Nf_prune_app|intros _; exact IH].
Qed.

Lemma Nf_expire fault : Lf nofr_e (expire cfg fault).
Proof.
  unfold expire, prune_all_apps, dump_stats. lf_step; [lf|]. lf_step.
  - destruct fault; [lf|]. lf_step; [|lf]. lf_step; [lf|]. apply Nf_prune_apps.
  - lf.
Qed.

End NoFrames.

(** ** quiet part, then tail: once a told frame has been sent, nothing is committed *)
Section Shape.
(** the frames of interest: message frames and / or claimed frames *)
Variable told : frame -> Prop.
Hypothesis told_only : forall f, told f -> is_msg f \/ is_claimed f.

Definition quiet_e (x : log_entry) : Prop :=
  match x with LFrame _ f _ _ => ~ told f | _ => True end.
Definition nocommit_e (x : log_entry) : Prop := is_commit x = false.

(** first entries that are no told frames, then entries that are no commits *)
Definition Lqt {A} (m : M A) : Prop :=
  forall s, exists k2 k1, log (out (m s)) = k2 ++ k1 ++ log s /\
                          Forall quiet_e k1 /\ Forall nocommit_e k2.

Lemma Lqt_of_Q {A} (m : M A) : Lf quiet_e m -> Lqt m.
Proof.
  intros H s. destruct (H s) as (k & E & F). exists [], k. split; [exact E|]. split; [exact F|constructor].
Qed.

Lemma Lqt_of_T {A} (m : M A) : Lf nocommit_e m -> Lqt m.
Proof.
  intros H s. destruct (H s) as (k & E & F). exists k, []. split; [exact E|]. split; [constructor|exact F].
Qed.

Lemma Lqt_bind_Q {A B} (m : M A) (k : A -> M B) :
  Lf quiet_e m -> (forall a, Lqt (k a)) -> Lqt (bind m k).
Proof.
  intros Hm Hk s. unfold bind. destruct (Hm s) as (k0 & E0 & F0).
  destruct (m s) as [a s1|e s1]; cbn [out] in *.
  - destruct (Hk a s1) as (k2 & k1 & E & F1 & F2). exists k2, (k1 ++ k0). split.
    + rewrite E, E0, <- app_assoc. reflexivity.
    + split; [apply Forall_app; split; assumption|exact F2].
  - exists [], k0. split; [exact E0|]. split; [exact F0|constructor].
Qed.

Lemma Lqt_bind_T {A B} (m : M A) (k : A -> M B) :
  Lqt m -> (forall a, Lf nocommit_e (k a)) -> Lqt (bind m k).
Proof.
  intros Hm Hk s. unfold bind. destruct (Hm s) as (k2 & k1 & E & F1 & F2).
  destruct (m s) as [a s1|e s1]; cbn [out] in *.
  - destruct (Hk a s1) as (k3 & E3 & F3). exists (k3 ++ k2), k1. split.
    + rewrite E3, E, <- app_assoc. reflexivity.
    + split; [exact F1|apply Forall_app; split; assumption].
  - exists k2, k1. auto.
Qed.

Lemma Lqt_try_T {A} (m : M A) (h : exn -> M A) :
  Lqt m -> (forall e, Lf nocommit_e (h e)) -> Lqt (try_catch m h).
Proof.
  intros Hm Hh s. unfold try_catch. destruct (Hm s) as (k2 & k1 & E & F1 & F2).
  destruct (m s) as [a s1|e s1]; cbn [out] in *.
  - exists k2, k1. auto.
  - destruct (Hh e s1) as (k3 & E3 & F3). exists (k3 ++ k2), k1. split.
    + rewrite E3, E, <- app_assoc. reflexivity.
    + split; [exact F1|apply Forall_app; split; assumption].
Qed.

Lemma nofr_quiet x : nofr_e x -> quiet_e x.
Proof. destruct x; cbn; [auto|auto|intros []]. Qed.

Lemma Q_of_Nf {A} (m : M A) : Lf nofr_e m -> Lf quiet_e m.
Proof. apply Lf_weaken. exact nofr_quiet. Qed.

Lemma T_send_each c l : Lf nocommit_e (send_each c l).
Proof.
  induction l as [|r l IH]; cbn [send_each]; [apply Lf_ret|].
  apply Lf_bind; [apply Lf_send; reflexivity|intros _; exact IH].
Qed.

Lemma T_send_all l f : Lf nocommit_e (send_all l f).
Proof.
  induction l as [|c l IH]; cbn [send_all]; [apply Lf_ret|].
  apply Lf_bind; [apply Lf_send; reflexivity|intros _; exact IH].
Qed.

Section Handlers.
Variable cfg : config.

Ltac lf_side ::=
  first [ (intros; exact I)
        | (let b := fresh in let t := fresh in let Ht := fresh in let K := fresh in
           intros b t Ht; destruct (told_only _ Ht) as [K|K]; exact K) ].
Ltac lf_ops ::=
  first [ apply Q_of_Nf; apply Nf_open_mailbox
        | apply Q_of_Nf; apply Nf_claim_nameplate
        | apply Q_of_Nf; apply Nf_allocate_nameplate
        | apply Q_of_Nf; apply Nf_release_nameplate
        | apply Q_of_Nf; apply Nf_mailbox_close
        | apply Q_of_Nf; apply Nf_log_client_version ].

Lemma Q_handle_ping c msg : Lf quiet_e (handle_ping c msg).
Proof. unfold handle_ping. lf. Qed.

Lemma Q_handle_bind c msg : Lf quiet_e (handle_bind cfg c msg).
Proof. unfold handle_bind. lf. Qed.

Lemma Q_handle_list c a : Lf quiet_e (handle_list cfg c a).
Proof. unfold handle_list. lf. Qed.

Lemma Q_handle_allocate c a side o : Lf quiet_e (handle_allocate c a side o).
Proof. unfold handle_allocate. lf. Qed.

Lemma Q_handle_release c a side msg : Lf quiet_e (handle_release cfg c a side msg).
Proof. unfold handle_release. lf. Qed.

Lemma Q_handle_close c a side msg : Lf quiet_e (handle_close cfg c a side msg).
Proof. unfold handle_close, catch_crowded. lf. Qed.

(** claim: everything, then the claimed frame *)
Lemma QT_handle_claim c a side msg o : Lqt (handle_claim c a side msg o).
Proof.
  unfold handle_claim, catch_crowded_reclaimed.
  destruct (m_nameplate msg) as [n|]; [|apply Lqt_of_Q; lf].
  apply Lqt_bind_Q; [lf|intros cs]. destruct (c_did_claim cs); [apply Lqt_of_Q; lf|].
  apply Lqt_bind_Q; [lf|intros _]. apply Lqt_bind_Q; [lf|intros ?].
  apply Lqt_bind_Q; [lf|intros ?]. apply Lqt_of_T. apply Lf_send. reflexivity.
Qed.

Lemma Q_handle_claim c a side msg o :
  (forall m, ~ told (FClaimed m)) -> Lf quiet_e (handle_claim c a side msg o).
Proof.
  intros Hn. unfold handle_claim, catch_crowded_reclaimed.
  destruct (m_nameplate msg) as [n|]; [|lf].
  apply Lf_bind; [lf|intros cs]. destruct (c_did_claim cs); [lf|].
  apply Lf_bind; [lf|intros _]. apply Lf_bind; [lf|intros ?].
  apply Lf_bind; [lf|intros ?]. apply Lf_send. intros b t. apply Hn.
Qed.

(** open: everything, then the replayed messages *)
Lemma QT_handle_open c a side msg : Lqt (handle_open c a side msg).
Proof.
  unfold handle_open, catch_crowded, get_messages.
  apply Lqt_bind_Q; [lf|intros cs]. destruct (c_mailbox cs); [apply Lqt_of_Q; lf|].
  destruct (m_mailbox msg) as [m|]; [|apply Lqt_of_Q; lf].
  apply Lqt_bind_Q; [lf|intros _]. apply Lqt_bind_Q; [lf|intros ?].
  apply Lqt_bind_Q; [lf|intros _]. apply Lqt_bind_Q; [lf|intros ?].
  apply Lqt_bind_Q; [lf|intros _]. apply Lqt_bind_Q; [lf|intros _].
  apply Lqt_bind_Q; [lf|intros ?]. apply Lqt_of_T. apply T_send_each.
Qed.

(** add: stored and committed, then the fan-out *)
Lemma QT_handle_add c a side msg : Lqt (handle_add c a side msg).
Proof.
  unfold handle_add, add_message.
  apply Lqt_bind_Q; [lf|intros cs]. destruct (c_mailbox cs) as [m|]; [|apply Lqt_of_Q; lf].
  destruct (m_phase msg); [|apply Lqt_of_Q; lf]. destruct (m_body msg); [|apply Lqt_of_Q; lf].
  apply Lqt_bind_Q; [lf|intros ?]. apply Lqt_bind_Q; [lf|intros _].
  apply Lqt_bind_Q; [lf|intros _]. apply Lqt_bind_Q; [lf|intros ?].
  apply Lqt_of_T. apply T_send_all.
Qed.

Lemma QT_dispatch c t msg o : Lqt (dispatch cfg c t msg o).
Proof.
  destruct t; unfold dispatch; cbv iota;
    try (apply Lqt_of_Q; apply Q_handle_ping);
    try (apply Lqt_of_Q; apply Q_handle_bind);
    (apply Lqt_bind_Q; [lf|intros cs]);
    (destruct (c_bound cs) as [[a side]|]; [|apply Lqt_of_Q; lf]).
  - apply Lqt_of_Q, Q_handle_list.
  - apply Lqt_of_Q, Q_handle_allocate.
  - apply QT_handle_claim.
  - apply Lqt_of_Q, Q_handle_release.
  - apply QT_handle_open.
  - apply QT_handle_add.
  - apply Lqt_of_Q, Q_handle_close.
  - apply Lqt_of_Q. lf.
Qed.

Lemma QT_on_message c msg o : Lqt (on_message cfg c msg o).
Proof.
  unfold on_message. apply Lqt_try_T.
  - destruct (m_type msg) as [t|]; [|apply Lqt_of_Q; lf].
    apply Lqt_bind_Q; [lf|intros _]. apply QT_dispatch.
  - intros e. destruct e; try apply Lf_raise. apply Lf_send. reflexivity.
Qed.

(** open and add send no told frame if message frames are not told *)
Lemma Q_send_each c l : (forall f, is_msg f -> ~ told f) -> Lf quiet_e (send_each c l).
Proof.
  intros Hn. induction l as [|r l IH]; cbn [send_each]; [apply Lf_ret|].
  apply Lf_bind; [apply Lf_send; intros b t; apply Hn; exact I|intros _; exact IH].
Qed.

Lemma Q_send_all l r : (forall f, is_msg f -> ~ told f) -> Lf quiet_e (send_all l (msg_frame r)).
Proof.
  intros Hn. induction l as [|c l IH]; cbn [send_all]; [apply Lf_ret|].
  apply Lf_bind; [apply Lf_send; intros b t; apply Hn; exact I|intros _; exact IH].
Qed.

Lemma Q_handle_open c a side msg :
  (forall f, is_msg f -> ~ told f) -> Lf quiet_e (handle_open c a side msg).
Proof.
  intros Hn. unfold handle_open, catch_crowded, get_messages.
  apply Lf_bind; [lf|intros cs]. destruct (c_mailbox cs); [lf|].
  destruct (m_mailbox msg) as [m|]; [|lf].
  apply Lf_bind; [lf|intros ?]. apply Lf_bind; [lf|intros ?].
  apply Lf_bind; [lf|intros ?]. apply Lf_bind; [lf|intros ?].
  apply Lf_bind; [lf|intros ?]. apply Lf_bind; [lf|intros ?].
  apply Lf_bind; [lf|intros ?]. apply Q_send_each. exact Hn.
Qed.

Lemma Q_handle_add c a side msg :
  (forall f, is_msg f -> ~ told f) -> Lf quiet_e (handle_add c a side msg).
Proof.
  intros Hn. unfold handle_add, add_message.
  apply Lf_bind; [lf|intros cs]. destruct (c_mailbox cs) as [m|]; [|lf].
  destruct (m_phase msg); [|lf]. destruct (m_body msg); [|lf].
  apply Lf_bind; [lf|intros ?]. apply Lf_bind; [lf|intros ?].
  apply Lf_bind; [lf|intros ?]. apply Lf_bind; [lf|intros ?].
  apply Q_send_all. exact Hn.
Qed.

(** a command sends no told frame, unless it is an open or an add and message
    frames are told, or a claim and claimed frames are told *)
Lemma Q_on_message_other c msg o :
  (m_type msg = Some TOpen \/ m_type msg = Some TAdd -> forall f, is_msg f -> ~ told f) ->
  (m_type msg = Some TClaim -> forall m, ~ told (FClaimed m)) ->
  Lf quiet_e (on_message cfg c msg o).
Proof.
  intros H1 H3. unfold on_message. apply Lf_try_catch.
  - destruct (m_type msg) as [t|]; [|lf].
    apply Lf_bind; [lf|intros _].
    destruct t; unfold dispatch; cbv iota;
      try apply Q_handle_ping; try apply Q_handle_bind;
      (apply Lf_bind; [lf|intros cs]);
      (destruct (c_bound cs) as [[a side]|]; [|lf]).
    + apply Q_handle_list.
    + apply Q_handle_allocate.
    + apply Q_handle_claim. apply H3. reflexivity.
    + apply Q_handle_release.
    + apply Q_handle_open. apply H1. left. reflexivity.
    + apply Q_handle_add. apply H1. right. reflexivity.
    + apply Q_handle_close.
    + lf.
  - intros e. destruct e; lf.
Qed.

(** ** base events *)
Definition qt_log (l0 l : list log_entry) : Prop :=
  exists k2 k1, l = k2 ++ k1 ++ l0 /\ Forall quiet_e k1 /\ Forall nocommit_e k2.

Lemma qt_log_refl l : qt_log l l.
Proof. exists [], []. split; [reflexivity|]. split; constructor. Qed.

Lemma qt_log_Q {A} (m : M A) s : Lf quiet_e m -> qt_log (log s) (log (out (m s))).
Proof.
  intros H. destruct (H s) as (k & E & F). exists [], k. split; [exact E|]. split; [exact F|constructor].
Qed.

Lemma step_b_shape s b : qt_log (log s) (log (fst (fst (step_b cfg s b)))).
Proof.
  destruct b as [c|c m o|c|fault|dt fault]; unfold step_b.
  - destruct (has_conn c s); [apply qt_log_refl|]. unfold run_m, on_open, send. cbn [fst log set_log set_conns].
    exists [], [LFrame c (FWelcome (welcome cfg)) (is_clean (set_conns s (conns s ++ [(c, new_conn)]))) (now s)].
    split; [reflexivity|]. split; [|constructor]. constructor; [|constructor].
    intros Ht. destruct (told_only _ Ht) as [K|K]; exact K.
  - destruct (has_conn c s); [|apply qt_log_refl].
    pose proof (QT_on_message c m o s) as H.
    destruct (on_message cfg c m o s) as [u s'|e s']; cbn [out fst] in *; [exact H|].
    destruct (MbFactsA.drop_conn_frame c s') as (_ & _ & ->). exact H.
  - destruct (has_conn c s); [|apply qt_log_refl]. cbn [fst].
    destruct (MbFactsA.drop_conn_frame c s) as (_ & _ & ->). apply qt_log_refl.
  - unfold run_m. pose proof (qt_log_Q (expire cfg fault) s (Q_of_Nf _ (Nf_expire cfg fault))) as H.
    destruct (expire cfg fault s); exact H.
  - destruct (dt <? 0); [apply qt_log_refl|]. cbv zeta.
    set (s1 := set_now s (now s + dt)).
    destruct (next_due s1 <=? now s1); [|apply qt_log_refl].
    unfold run_m.
    pose proof (qt_log_Q (expire cfg fault) s1 (Q_of_Nf _ (Nf_expire cfg fault))) as H.
    destruct (expire cfg fault s1); exact H.
Qed.

(** ... and so does every other base event *)
Lemma step_b_quiet s b :
  (forall c msg o, b = ECmd c msg o ->
     (m_type msg = Some TOpen \/ m_type msg = Some TAdd -> forall f, is_msg f -> ~ told f) /\
     (m_type msg = Some TClaim -> forall m, ~ told (FClaimed m))) ->
  exists k, log (fst (fst (step_b cfg s b))) = k ++ log s /\ Forall quiet_e k.
Proof.
  intros Hb.
  assert (Hid : exists k, log s = k ++ log s /\ Forall quiet_e k)
    by (exists []; split; [reflexivity|constructor]).
  destruct b as [c|c m o|c|fault|dt fault]; unfold step_b.
  - destruct (has_conn c s); [exact Hid|]. unfold run_m, on_open, send. cbn [fst log set_log set_conns].
    exists [LFrame c (FWelcome (welcome cfg)) (is_clean (set_conns s (conns s ++ [(c, new_conn)]))) (now s)].
    split; [reflexivity|]. constructor; [|constructor].
    intros Ht. destruct (told_only _ Ht) as [K|K]; exact K.
  - destruct (has_conn c s); [|exact Hid].
    destruct (Hb c m o eq_refl) as [H1 H3].
    pose proof (Q_on_message_other c m o H1 H3 s) as H.
    destruct (on_message cfg c m o s) as [u s'|e s']; cbn [out fst] in *; [exact H|].
    destruct (MbFactsA.drop_conn_frame c s') as (_ & _ & ->). exact H.
  - destruct (has_conn c s); [|exact Hid]. cbn [fst].
    destruct (MbFactsA.drop_conn_frame c s) as (_ & _ & ->). exact Hid.
  - unfold run_m. pose proof (Q_of_Nf _ (Nf_expire cfg fault) s) as H.
    destruct (expire cfg fault s); exact H.
  - destruct (dt <? 0); [exact Hid|]. cbv zeta.
    set (s1 := set_now s (now s + dt)).
    destruct (next_due s1 <=? now s1); [|exact Hid].
    unfold run_m. pose proof (Q_of_Nf _ (Nf_expire cfg fault) s1) as H.
    destruct (expire cfg fault s1); exact H.
Qed.

End Handlers.

(** ** cutting such a log at a commit cuts every told frame off *)

Lemma log_prefix_0 l : log_prefix 0 l = [].
Proof. destruct l; reflexivity. Qed.

Lemma log_prefix_Forall (Pp : log_entry -> Prop) l : Forall Pp l ->
  forall k, Forall Pp (log_prefix k l).
Proof.
  induction 1 as [|x l Hx Hl IH]; intros k.
  - destruct k; constructor.
  - destruct k as [|k]; [constructor|]. cbn [log_prefix].
    destruct (is_commit x); constructor; auto.
Qed.

Lemma count_commits_app l1 l2 :
  count_commits (l1 ++ l2) = (count_commits l1 + count_commits l2)%nat.
Proof. unfold count_commits. rewrite filter_app, app_length. reflexivity. Qed.

Lemma count_commits_none l : Forall nocommit_e l -> count_commits l = 0%nat.
Proof.
  unfold count_commits. induction 1 as [|x l Hx Hl IH]; [reflexivity|].
  cbn [filter]. unfold nocommit_e in Hx. rewrite Hx. exact IH.
Qed.

Lemma log_prefix_app l1 l2 : forall k,
  (k <= count_commits l1)%nat -> log_prefix k (l1 ++ l2) = log_prefix k l1.
Proof.
  induction l1 as [|x l1 IH]; intros k H.
  - cbn in H. assert (k = 0%nat) by lia. subst k. rewrite !log_prefix_0. reflexivity.
  - destruct k as [|k]; [reflexivity|].
    cbn [app log_prefix]. unfold count_commits in H. cbn [filter] in H.
    destruct (is_commit x).
    + cbn [List.length] in H. f_equal. apply IH. unfold count_commits. lia.
    + f_equal. apply IH. exact H.
Qed.

Lemma cut_quiet k l1 l2 :
  Forall quiet_e l1 -> Forall nocommit_e l2 -> (k <= count_commits (l1 ++ l2))%nat ->
  Forall quiet_e (log_prefix k (l1 ++ l2)).
Proof.
  intros F1 F2 H. rewrite count_commits_app, (count_commits_none l2 F2), Nat.add_0_r in H.
  rewrite (log_prefix_app l1 l2 k H). apply log_prefix_Forall. exact F1.
Qed.

Lemma quiet_no_told l c f : Forall quiet_e l -> In (c, f) (frames_of l) -> ~ told f.
Proof.
  induction 1 as [|x l Hx Hl IH]; cbn [frames_of]; [intros []|].
  destruct x as [d|u|c' f' b]; try exact IH.
  intros [K|K]; [inversion K; subst; exact Hx|exact (IH K)].
Qed.

(** a crash event that shows a told frame is an event that completed: the
    process died after the event's last commit, the state restarts from the
    databases the whole event left, the observed log is the whole log *)
Theorem crash_told_completed cfg s k b c f :
  told f -> In (c, f) (frames_of (o_log (snd (step cfg s (ECrash k b))))) ->
  step cfg s (ECrash k b) =
    let '(s1, ob1) := step cfg s (EB b) in
    let '(s2, bl, x2) := boot_on cfg (chan_c s1) (usage_c s1) (now s1) in
    (s2, mkObs (o_valid ob1) (o_log ob1) (o_exc ob1) bl).
Proof.
  intros Ht. unfold step. cbv zeta.
  pose proof (step_b_shape cfg (set_log s []) b) as (k2 & k1 & E & F1 & F2).
  destruct (step_b cfg (set_log s []) b) as [[s1 valid] x]. cbn [fst log set_log] in E.
  rewrite app_nil_r in E.
  destruct ((count_commits (rev (log s1)) <? k)%nat || negb valid) eqn:Ec.
  - intros _. cbn [chan_c usage_c now set_log o_valid o_log o_exc]. reflexivity.
  - intros Hin. exfalso.
    apply orb_false_iff in Ec. destruct Ec as [Ec _]. apply Nat.ltb_ge in Ec.
    destruct (replay_commits _ _ _) as [c0 u0].
    destruct (boot_on cfg c0 u0 (now s1)) as [[s2 bl] x2]. cbn [snd o_log] in Hin.
    rewrite E, rev_app_distr in Hin, Ec.
    assert (Fq : Forall quiet_e (log_prefix k (rev k1 ++ rev k2))).
    { apply cut_quiet; [apply Forall_rev; exact F1|apply Forall_rev; exact F2|exact Ec]. }
    exact (quiet_no_told _ c f Fq Hin Ht).
Qed.

End Shape.

(** * Part B: the sides served by one incarnation of a mailbox *)

Definition base_of (e : event) : option bevent :=
  match e with EB b => Some b | ECrash _ b => Some b | ERestart => None end.

Lemma msg_frame_dec c (l : list (nat * frame)) :
  (exists f, is_msg f /\ In (c, f) l) \/ (forall f, is_msg f -> ~ In (c, f) l).
Proof.
  induction l as [|[c' f'] l IH].
  - right. intros f _ [].
  - destruct IH as [(f & Hf & Hin)|IH]; [left; exists f; split; [exact Hf|right; exact Hin]|].
    destruct (Nat.eq_dec c' c) as [->|Hne].
    + destruct f';
        try (right; intros f Hf [K|K]; [inversion K; subst f; exact Hf|exact (IH f Hf K)]).
      left. eexists. split; [|left; reflexivity]. exact I.
    + right. intros f Hf [K|K]; [inversion K; congruence|exact (IH f Hf K)].
Qed.

Lemma has_mb_alive d a m : has_mb d a m -> Obs.mb_alive d m.
Proof. intros (r & Hr & _ & Hi). exists r. auto. Qed.

Section Mailbox.
Variable cfg : config.
Hypothesis Hexp : 0 < exp cfg.

(** side [sd] holds mailbox (a, m): a connection bound to (a, sd) holds it
    (is subscribed to it: [LifeFacts.holds_iff_sub]) *)
Definition side_holds (s : state) (a m sd : string) : Prop :=
  exists c cs, lookup_conn c (conns s) = Some cs /\ c_bound cs = Some (a, sd) /\
               c_mailbox cs = Some m.

(** the event is (the processing of) an `open` of mailbox [m] sent on a
    connection bound to (a, sd), and that connection is sent a message frame --
    whether or not the process survives the event *)
Definition open_replayed (s : state) (e : event) (a m sd : string) : Prop :=
  exists c msg o f, base_of e = Some (ECmd c msg o) /\ m_type msg = Some TOpen /\
    m_mailbox msg = Some m /\ bound_to s c a sd /\ is_msg f /\
    In (c, f) (frames_of (o_log (snd (step cfg s e)))).

(** what event [e], processed in state [s], serves of mailbox (a, m) *)
Definition served_step (s : state) (e : event) (a m sd : string) : Prop :=
  side_holds (fst (step cfg s e)) a m sd \/ open_replayed s e a m sd.

(** the sides served by the current incarnation of mailbox (a, m) over a
    history: what was gathered is forgotten when an event starts in a state
    in which the mailbox has no row (so the sides served by the very event
    that deletes the mailbox still count for the incarnation that ends) *)
Fixpoint served_in (s : state) (h : list event) (a m : string) (acc : string -> Prop)
  : string -> Prop :=
  match h with
  | [] => acc
  | e :: h' =>
      served_in (fst (step cfg s e)) h' a m
        (fun sd => (has_mb (chan_w s) a m /\ acc sd) \/ served_step s e a m sd)
  end.

Lemma bound_to_fun s c a sd a' sd' :
  bound_to s c a sd -> bound_to s c a' sd' -> a = a' /\ sd = sd'.
Proof. intros (cs & H1 & H2) (cs' & H1' & H2'). rewrite H1 in H1'. split; congruence. Qed.

Lemma side_holds_first_two s a m sd :
  SInv s -> subs_first_two s -> side_holds s a m sd ->
  has_mb (chan_w s) a m /\ In sd (firstn 2 (mb_side_list (chan_w s) m)).
Proof.
  intros HS H2 (c & cs & Hl & Hb & Hm).
  assert (Hh : holds s c a m) by (exists cs, sd; auto).
  apply (holds_iff_sub s c a m HS) in Hh.
  destruct (si_subs s HS _ Hh) as [Hmb _]. split; [exact Hmb|].
  destruct (H2 a m c Hh) as (side & (cs' & Hl' & Hb') & Hin).
  rewrite Hl in Hl'. inversion Hl'; subst cs'. rewrite Hb in Hb'. inversion Hb'; subst side.
  exact Hin.
Qed.

(** an `open` that is answered with a message frame subscribes its connection *)
Lemma open_replayed_holds s b a m sd :
  SInv s -> log s = [] -> open_replayed s (EB b) a m sd ->
  side_holds (fst (step cfg s (EB b))) a m sd.
Proof.
  intros HS Hlog (c & msg & o & f & Hb & Ht & Hm & (cs & Hl & Hbd) & Hf & Hin).
  cbn [base_of] in Hb. inversion Hb; subst b. clear Hb.
  destruct (erroneous cs msg) eqn:Herr.
  - exfalso. revert Hin. unfold step. rewrite (set_log_nil s Hlog). unfold step_b, has_conn.
    rewrite Hl. rewrite (erroneous_harmless cfg c msg o s)
      by (unfold conn_of; rewrite Hl; exact Herr).
    rewrite Ht, Hlog. cbn. intros [K|[K|[]]]; inversion K; subst f; exact Hf.
  - pose proof (open_outcome cfg s c cs a sd msg o m HS Hlog Hl Hbd Ht Herr Hm) as H.
    pose proof (step_rel cfg s (ECmd c msg o) HS) as (_ & RB & _).
    destruct (step cfg s (EB (ECmd c msg o))) as [s' ob]. cbn [fst snd] in *. cbv zeta in H.
    destruct H as (_ & [(_ & Hfr & _)|(_ & _ & [(_ & Hfr & _)|(_ & _ & _ & Hh)])]).
    + exfalso. rewrite Hfr in Hin. destruct Hin as [K|[]]. inversion K; subst f; exact Hf.
    + exfalso. rewrite Hfr in Hin. destruct Hin as [K|[K|[]]]; inversion K; subst f; exact Hf.
    + destruct Hh as (cs' & side' & Hl' & Hb' & Hm'). exists c, cs'.
      split; [exact Hl'|]. split; [|exact Hm'].
      destruct (RB c cs' Hl') as [K|K]; unfold conn_of in K; rewrite Hl in K; congruence.
Qed.

Lemma open_replayed_dec s e a m :
  (exists sd, open_replayed s e a m sd) \/ (forall sd, ~ open_replayed s e a m sd).
Proof.
  destruct (base_of e) as [[c|c msg o|c|fl|dt fl]|] eqn:Eb;
    try (right; intros sd (c' & msg' & o' & f & Hb & _); congruence).
  destruct (lookup_conn c (conns s)) as [cs|] eqn:El;
    [|right; intros sd (c' & msg' & o' & f & Hb & _ & _ & (cs' & Hl & _) & _);
      rewrite Eb in Hb; inversion Hb; subst; congruence].
  destruct (c_bound cs) as [[a' sd']|] eqn:Ebd;
    [|right; intros sd (c' & msg' & o' & f & Hb & _ & _ & (cs' & Hl & Hbd) & _);
      rewrite Eb in Hb; inversion Hb; subst; congruence].
  destruct (string_dec a' a) as [->|Hna];
    [|right; intros sd (c' & msg' & o' & f & Hb & _ & _ & (cs' & Hl & Hbd) & _);
      rewrite Eb in Hb; inversion Hb; subst; congruence].
  destruct (m_type msg) as [t|] eqn:Et;
    [|right; intros sd (c' & msg' & o' & f & Hb & Ht & _); rewrite Eb in Hb; inversion Hb; subst; congruence].
  destruct (m_mailbox msg) as [m'|] eqn:Em;
    [|right; intros sd (c' & msg' & o' & f & Hb & _ & Hm & _); rewrite Eb in Hb; inversion Hb; subst; congruence].
  destruct (string_dec m' m) as [->|Hnm];
    [|right; intros sd (c' & msg' & o' & f & Hb & _ & Hm & _); rewrite Eb in Hb; inversion Hb; subst; congruence].
  destruct (msg_frame_dec c (frames_of (o_log (snd (step cfg s e))))) as [(f & Hf & Hin)|Hno];
    [|right; intros sd (c' & msg' & o' & f & Hb & _ & _ & _ & Hf & Hin);
      rewrite Eb in Hb; inversion Hb; subst; exact (Hno f Hf Hin)].
  destruct t; try (right; intros sd (c' & msg' & o' & f' & Hb & Ht & _);
                   rewrite Eb in Hb; inversion Hb; subst; congruence).
  left. exists sd', c, msg, o, f. split; [exact Eb|]. split; [exact Et|]. split; [exact Em|].
  split; [exists cs; auto|]. auto.
Qed.

(** one event: the sides it serves are among the first two of a list that
    extends the mailbox's side list before the event and is its side list
    after the event (if the mailbox is still there) *)
Lemma served_step_first_two s e a m :
  SInv s -> log s = [] -> subs_first_two s ->
  let s' := fst (step cfg s e) in
  exists L, (Obs.mb_alive (chan_w s') m -> mb_side_list (chan_w s') m = L) /\
            (exists l, L = mb_side_list (chan_w s) m ++ l) /\
            forall sd, served_step s e a m sd -> In sd (firstn 2 L).
Proof.
  intros HS Hlog H2 s'.
  pose proof (step_inv cfg Hexp s e HS) as [HS' Hlog'].
  pose proof (step_subs_first_two cfg Hexp s e HS Hlog H2) as H2'.
  (* holders after the event *)
  assert (Hhold : forall sd, side_holds s' a m sd ->
            Obs.mb_alive (chan_w s') m /\ In sd (firstn 2 (mb_side_list (chan_w s') m))).
  { intros sd Hh. destruct (side_holds_first_two s' a m sd HS' H2' Hh) as [A B].
    split; [exact (has_mb_alive _ _ _ A)|exact B]. }
  (* the generic list: that of the database between growth and deletion *)
  assert (Hgen : (forall sd, open_replayed s e a m sd -> side_holds s' a m sd) ->
            exists L, (Obs.mb_alive (chan_w s') m -> mb_side_list (chan_w s') m = L) /\
                      (exists l, L = mb_side_list (chan_w s) m ++ l) /\
                      forall sd, served_step s e a m sd -> In sd (firstn 2 L)).
  { intros Hop. destruct (step_Step_all cfg s e HS Hlog) as (d1 & [G _] & (_ & Sh & _)).
    exists (mb_side_list d1 m).
    assert (E : Obs.mb_alive (chan_w s') m -> mb_side_list (chan_w s') m = mb_side_list d1 m).
    { intros Ha. exact (f_equal (map mbs_side) (Sh m Ha)). }
    split; [exact E|]. split; [exact (G m)|].
    intros sd [Hh|Ho]; [|apply Hop in Ho]; destruct (Hhold sd ltac:(eassumption)) as [Ha Hin];
      rewrite <- (E Ha); exact Hin. }
  destruct e as [b|k b|].
  - apply Hgen. intros sd. apply open_replayed_holds; assumption.
  - destruct (open_replayed_dec s (ECrash k b) a m) as [(sd & Ho)|Hno];
      [|apply Hgen; intros sd Ho; destruct (Hno sd Ho)].
    (* the event completed; the list is the one it left, before the start-up sweep *)
    assert (Ho' := Ho). destruct Ho' as (c & msg & o & f & Hb & Ht & Hm & Hbd & Hf & Hin).
    cbn [base_of] in Hb. inversion Hb; subst b. clear Hb.
    pose proof (crash_told_completed is_msg (fun f H => or_introl H) cfg s k
                  (ECmd c msg o) c f Hf Hin) as Ecr.
    pose proof (step_inv cfg Hexp s (EB (ECmd c msg o)) HS) as [HS1 Hlog1].
    pose proof (step_subs_first_two cfg Hexp s (EB (ECmd c msg o)) HS Hlog H2) as H21.
    pose proof (mb_sides_only_grow_all cfg s (EB (ECmd c msg o)) m HS Hlog) as Hgrow.
    assert (Ho1 : open_replayed s (EB (ECmd c msg o)) a m sd).
    { exists c, msg, o, f. repeat (split; [first [reflexivity|assumption]|]).
      rewrite Ecr in Hin. destruct (step cfg s (EB (ECmd c msg o))) as [s1 ob1].
      destruct (boot_on cfg _ _ _) as [[s2 bl] x2]. exact Hin. }
    pose proof (open_replayed_holds s (ECmd c msg o) a m sd HS Hlog Ho1) as Hh1.
    assert (Hs' : s' = fst (fst (boot_on cfg (chan_c (fst (step cfg s (EB (ECmd c msg o)))))
                                   (usage_c (fst (step cfg s (EB (ECmd c msg o)))))
                                   (now (fst (step cfg s (EB (ECmd c msg o)))))))).
    { unfold s'. rewrite Ecr. destruct (step cfg s (EB (ECmd c msg o))) as [s1 ob1].
      cbn [fst]. destruct (boot_on cfg _ _ _) as [[s2 bl] x2]. reflexivity. }
    set (s1 := fst (step cfg s (EB (ECmd c msg o)))) in *. cbv zeta in Hgrow.
    destruct (side_holds_first_two s1 a m sd HS1 H21 Hh1) as [Hmb1 Hin1].
    exists (mb_side_list (chan_w s1) m). split; [|split].
    + intros Ha. rewrite Hs' in Ha |- *.
      destruct (si_clean s1 HS1) as [Ec _]. rewrite <- Ec in Ha |- *.
      destruct (boot_Shrink cfg (chan_w s1) (usage_c s1) (now s1) (si_db s1 HS1)) as (_ & Sh & _).
      unfold mb_side_list. rewrite (Sh m Ha). reflexivity.
    + exact (Hgrow (has_mb_alive _ _ _ Hmb1)).
    + intros sd' [Hh|Ho2].
      * destruct Hh as (c' & cs' & Hl' & Hb' & Hm').
        exfalso. apply (crash_holds_nothing cfg Hexp s k (ECmd c msg o) c' a m HS).
        exists cs', sd'. auto.
      * destruct Ho2 as (c2 & msg2 & o2 & f2 & Hb2 & _ & _ & Hbd2 & _).
        cbn [base_of] in Hb2. inversion Hb2; subst c2 msg2 o2.
        destruct (bound_to_fun s c a sd a sd' Hbd Hbd2) as [_ <-]. exact Hin1.
  - apply Hgen. intros sd (c & msg & o & f & Hb & _). discriminate.
Qed.

(** the invariant of a run *)
Lemma served_in_first_two a m h : forall s (acc : string -> Prop),
  SInv s -> log s = [] -> subs_first_two s ->
  (exists L, (Obs.mb_alive (chan_w s) m -> mb_side_list (chan_w s) m = L) /\
             forall sd, acc sd -> In sd (firstn 2 L)) ->
  let s' := fst (run cfg s h) in
  exists L, (Obs.mb_alive (chan_w s') m -> mb_side_list (chan_w s') m = L) /\
            forall sd, served_in s h a m acc sd -> In sd (firstn 2 L).
Proof.
  induction h as [|e h IH]; intros s acc HS Hlog H2 Hacc; [exact Hacc|].
  cbv zeta. rewrite run_cons_fst. cbn [served_in].
  destruct (step_inv cfg Hexp s e HS) as [HS1 Hlog1].
  apply IH; [exact HS1|exact Hlog1|exact (step_subs_first_two cfg Hexp s e HS Hlog H2)|].
  destruct (served_step_first_two s e a m HS Hlog H2) as (L' & A1 & (l & A2) & A3).
  destruct Hacc as (L & B1 & B2).
  exists L'. split; [exact A1|]. intros sd [[Hmb Ha]|Hs]; [|exact (A3 sd Hs)].
  rewrite A2, (B1 (has_mb_alive _ _ _ Hmb)). apply firstn_app_In. exact (B2 sd Ha).
Qed.

Definition nobody : string -> Prop := fun _ => False.

(** C05, mailboxes, over a whole history (every event allowed, crashes
    included): all the sides served by the current incarnation of mailbox
    (a, m) -- the one living at the end of the history, or the one the last
    event deleted -- are among the first two entries of one list, which is the
    mailbox's side list at the end of the history if the mailbox is still there *)
Theorem two_sides_ever_mailbox t0 h a m :
  let s := fst (run cfg (init cfg t0) h) in
  exists L, (has_mb (chan_w s) a m -> mb_side_list (chan_w s) m = L) /\
            forall sd, served_in (init cfg t0) h a m nobody sd -> In sd (firstn 2 L).
Proof.
  cbv zeta. destruct (init_spec cfg Hexp t0) as [Hi Hl].
  assert (H0 : subs_first_two (init cfg t0)).
  { apply (reachable_subs_first_two cfg Hexp). exists t0, []. reflexivity. }
  destruct (served_in_first_two a m h (init cfg t0) nobody Hi Hl H0) as (L & A & B).
  { exists []. split; [|intros sd []]. intros Ha. exfalso.
    destruct Ha as (r & Hr & _). unfold init in Hr.
    destruct (boot_Shrink cfg empty_chan empty_usage t0 DbInv_empty) as (Sh & _).
    destruct (Sh (mb_id r)) as (r0 & [] & _). exists r. auto. }
  exists L. split; [|exact B]. intros Hmb. apply A. exact (has_mb_alive _ _ _ Hmb).
Qed.

(** ... in particular, while the mailbox lives: every side served so far is
    one of the first two of its side list now *)
Corollary two_sides_ever_mailbox_alive t0 h a m sd :
  let s := fst (run cfg (init cfg t0) h) in
  has_mb (chan_w s) a m -> served_in (init cfg t0) h a m nobody sd ->
  In sd (firstn 2 (mb_side_list (chan_w s) m)).
Proof.
  cbv zeta. intros Hmb Hs. destruct (two_sides_ever_mailbox t0 h a m) as (L & A & B).
  rewrite (A Hmb). exact (B sd Hs).
Qed.

(** ... and in any case: at most two distinct sides *)
Corollary at_most_two_sides_mailbox t0 h a m :
  exists x y, forall sd, served_in (init cfg t0) h a m nobody sd -> sd = x \/ sd = y.
Proof.
  destruct (two_sides_ever_mailbox t0 h a m) as (L & _ & B).
  destruct L as [|x [|y L]].
  - exists "", "". intros sd Hs. destruct (B sd Hs).
  - exists x, x. intros sd Hs. destruct (B sd Hs) as [K|[]]. left. auto.
  - exists x, y. intros sd Hs. destruct (B sd Hs) as [K|[K|[]]]; auto.
Qed.

End Mailbox.

(** * Part C: the sides told the mailbox id of one incarnation of a nameplate *)

Section Nameplate.
Variable cfg : config.
Hypothesis Hexp : 0 < exp cfg.

(** the event is (the processing of) a `claim` of nameplate (np_app np,
    np_name np) sent on a connection bound to (np_app np, sd), and that
    connection is sent `claimed` with the nameplate's mailbox id -- whether or
    not the process survives the event *)
Definition told_step (s : state) (e : event) (np : np_row) (sd : string) : Prop :=
  exists c msg o, base_of e = Some (ECmd c msg o) /\ m_type msg = Some TClaim /\
    m_nameplate msg = Some (np_name np) /\ bound_to s c (np_app np) sd /\
    In (c, FClaimed (np_mbox np)) (frames_of (o_log (snd (step cfg s e)))).

(** the sides told the mailbox id of nameplate row [np] (one incarnation:
    ids are never reused) over a history; forgotten when an event starts in a
    state in which the row does not exist *)
Fixpoint told_in (s : state) (h : list event) (np : np_row) (acc : string -> Prop)
  : string -> Prop :=
  match h with
  | [] => acc
  | e :: h' =>
      told_in (fst (step cfg s e)) h' np
        (fun sd => (In np (nameplates (chan_w s)) /\ acc sd) \/ told_step s e np sd)
  end.

Lemma told_step_dec s e np :
  (exists sd, told_step s e np sd) \/ (forall sd, ~ told_step s e np sd).
Proof.
  destruct (base_of e) as [[c|c msg o|c|fl|dt fl]|] eqn:Eb;
    try (right; intros sd (c' & msg' & o' & Hb & _); congruence).
  destruct (lookup_conn c (conns s)) as [cs|] eqn:El;
    [|right; intros sd (c' & msg' & o' & Hb & _ & _ & (cs' & Hl & _) & _);
      rewrite Eb in Hb; inversion Hb; subst; congruence].
  destruct (c_bound cs) as [[a' sd']|] eqn:Ebd;
    [|right; intros sd (c' & msg' & o' & Hb & _ & _ & (cs' & Hl & Hbd) & _);
      rewrite Eb in Hb; inversion Hb; subst; congruence].
  destruct (string_dec a' (np_app np)) as [->|Hna];
    [|right; intros sd (c' & msg' & o' & Hb & _ & _ & (cs' & Hl & Hbd) & _);
      rewrite Eb in Hb; inversion Hb; subst; congruence].
  destruct (m_type msg) as [t|] eqn:Et;
    [|right; intros sd (c' & msg' & o' & Hb & Ht & _); rewrite Eb in Hb; inversion Hb; subst;
      congruence].
  destruct (m_nameplate msg) as [n'|] eqn:En;
    [|right; intros sd (c' & msg' & o' & Hb & _ & Hn & _); rewrite Eb in Hb; inversion Hb; subst;
      congruence].
  destruct (string_dec n' (np_name np)) as [->|Hnn];
    [|right; intros sd (c' & msg' & o' & Hb & _ & Hn & _); rewrite Eb in Hb; inversion Hb; subst;
      congruence].
  destruct (in_dec (fun p q : nat * frame =>
                      ltac:(decide equality; [repeat (decide equality;
                              auto using string_dec, Z.eq_dec, ostring_dec, list_eq_dec)
                            |apply Nat.eq_dec]) : {p = q} + {p <> q})
                   (c, FClaimed (np_mbox np)) (frames_of (o_log (snd (step cfg s e)))))
    as [Hin|Hno];
    [|right; intros sd (c' & msg' & o' & Hb & _ & _ & _ & Hin);
      rewrite Eb in Hb; inversion Hb; subst; exact (Hno Hin)].
  destruct t; try (right; intros sd (c' & msg' & o' & Hb & Ht & _);
                   rewrite Eb in Hb; inversion Hb; subst; congruence).
  left. exists sd', c, msg, o. split; [exact Eb|]. split; [exact Et|]. split; [exact En|].
  split; [exists cs; auto|exact Hin].
Qed.

(** the row a `claim` answered with `claimed` is about *)
Lemma claim_told_row s c msg o np sd :
  SInv s -> log s = [] -> told_step s (EB (ECmd c msg o)) np sd ->
  let s1 := fst (step cfg s (EB (ECmd c msg o))) in
  exists np', In np' (nameplates (chan_w s1)) /\ np_app np' = np_app np /\
              np_name np' = np_name np /\
              In sd (firstn 2 (np_side_list (chan_w s1) (np_id np'))) /\
              (In np (nameplates (chan_w s)) -> np' = np).
Proof.
  intros HS Hlog (c' & msg' & o' & Hb & Ht & Hn & (cs & Hl & Hbd) & Hin).
  cbn [base_of] in Hb. inversion Hb; subst c' msg' o'. clear Hb. cbv zeta.
  destruct (erroneous cs msg) eqn:Herr.
  - exfalso. revert Hin. unfold step. rewrite (set_log_nil s Hlog). unfold step_b, has_conn.
    rewrite Hl. rewrite (erroneous_harmless cfg c msg o s)
      by (unfold conn_of; rewrite Hl; exact Herr).
    rewrite Ht, Hlog. cbn. intros [K|[K|[]]]; inversion K.
  - pose proof (claimed_first_two cfg Hexp s c cs (np_app np) sd msg o (np_name np) (np_mbox np)
                  HS Hlog Hl Hbd Ht Herr Hn) as H1.
    pose proof (claim_outcome cfg s c cs (np_app np) sd msg o (np_name np)
                  HS Hlog Hl Hbd Ht Herr Hn) as H2.
    destruct (step cfg s (EB (ECmd c msg o))) as [s1 ob]. cbn [fst snd] in *. cbv zeta in H2.
    destruct (H1 Hin) as (np' & Hs1 & _ & Hf & _).
    destruct (sel_np_some _ _ _ _ Hs1) as (Hin' & Ha' & Hn').
    exists np'. split; [exact Hin'|]. split; [exact Ha'|]. split; [exact Hn'|]. split; [exact Hf|].
    intros Hnp.
    assert (Hs0 : sel_np (chan_w s) (np_app np) (np_name np) = Some np).
    { apply sel_np_of_In; [apply inv_np_key, (si_db s HS)|exact Hnp|reflexivity|reflexivity]. }
    destruct H2 as (_ & [(Hfr & _)|[(Hfr & _)|(_ & _ & _ & _ & np2 & Hs2 & Hu & _)]]).
    + exfalso. rewrite Hfr in Hin. destruct Hin as [K|[K|[]]]; inversion K.
    + exfalso. rewrite Hfr in Hin. destruct Hin as [K|[]]; inversion K.
    + rewrite Hs1 in Hs2. inversion Hs2; subst np2. exact (Hu np Hs0).
Qed.

Lemma told_step_first_two s e np :
  SInv s -> log s = [] ->
  let s' := fst (step cfg s e) in
  exists L, (In np (nameplates (chan_w s')) -> np_side_list (chan_w s') (np_id np) = L) /\
            (In np (nameplates (chan_w s)) ->
             exists l, L = np_side_list (chan_w s) (np_id np) ++ l) /\
            forall sd, told_step s e np sd -> In sd (firstn 2 L).
Proof.
  intros HS Hlog s'.
  destruct (told_step_dec s e np) as [(sd & Ht)|Hno].
  2:{ destruct (step_Step_all cfg s e HS Hlog) as (d1 & [_ G] & (_ & _ & _ & Sh)).
      exists (np_side_list d1 (np_id np)). split; [|split].
      - intros Hin. exact (f_equal (map nps_side) (Sh np Hin)).
      - intros _. exact (G (np_id np)).
      - intros sd Ht. destruct (Hno sd Ht). }
  (* the event behind [e], and what it left *)
  assert (Hb : exists c msg o, base_of e = Some (ECmd c msg o)).
  { destruct Ht as (c & msg & o & Hb & _). eauto. }
  destruct Hb as (c & msg & o & Hb).
  set (s1 := fst (step cfg s (EB (ECmd c msg o)))).
  pose proof (step_inv cfg Hexp s (EB (ECmd c msg o)) HS) as [HS1 Hlog1]. fold s1 in HS1, Hlog1.
  assert (Hrel : told_step s (EB (ECmd c msg o)) np sd /\ Shrink (chan_w s1) (chan_w s')).
  { destruct e as [b|k b|]; cbn [base_of] in Hb; [|  |discriminate]; inversion Hb; subst b.
    - split; [exact Ht|reflexivity].
    - destruct Ht as (c' & msg' & o' & Hb' & Hty & Hn & Hbd & Hin).
      cbn [base_of] in Hb'. inversion Hb'; subst c' msg' o'.
      pose proof (crash_told_completed is_claimed (fun f H => or_intror H) cfg s k
                    (ECmd c msg o) c (FClaimed (np_mbox np)) I Hin) as Ecr.
      split.
      + exists c, msg, o. repeat (split; [first [reflexivity|assumption]|]).
        rewrite Ecr in Hin. destruct (step cfg s (EB (ECmd c msg o))) as [s1' ob1].
        destruct (boot_on cfg _ _ _) as [[s2 bl] x2]. exact Hin.
      + assert (Hs' : s' = fst (fst (boot_on cfg (chan_c s1) (usage_c s1) (now s1)))).
        { unfold s', s1. rewrite Ecr. destruct (step cfg s (EB (ECmd c msg o))) as [s1' ob1].
          cbn [fst]. destruct (boot_on cfg _ _ _) as [[s2 bl] x2]. reflexivity. }
        rewrite Hs'. destruct (si_clean s1 HS1) as [Ec _]. rewrite <- Ec.
        apply boot_Shrink. exact (si_db s1 HS1). }
  destruct Hrel as [Ht1 (_ & _ & Sh3 & Sh4)].
  destruct (claim_told_row s c msg o np sd HS Hlog Ht1) as (np' & Hin' & Ha' & Hn' & Hf & Hu).
  fold s1 in Hin', Hf.
  assert (Hsame : forall r, In r (nameplates (chan_w s1)) -> np_app r = np_app np ->
                            np_name r = np_name np -> r = np').
  { intros r Hr Ha Hn.
    pose proof (sel_np_of_In (chan_w s1) (np_app np) (np_name np) r
                  (inv_np_key _ (si_db s1 HS1)) Hr Ha Hn) as E1.
    pose proof (sel_np_of_In (chan_w s1) (np_app np) (np_name np) np'
                  (inv_np_key _ (si_db s1 HS1)) Hin' Ha' Hn') as E2.
    congruence. }
  exists (np_side_list (chan_w s1) (np_id np')). split; [|split].
  - intros Hin. pose proof (Sh3 np Hin) as Hin1.
    rewrite <- (Hsame np Hin1 eq_refl eq_refl).
    exact (f_equal (map nps_side) (Sh4 np Hin)).
  - intros Hin. rewrite (Hu Hin) in *.
    exact (np_sides_only_grow_all cfg s (EB (ECmd c msg o)) np HS Hlog Hin Hin').
  - intros sd' (c2 & msg2 & o2 & Hb2 & _ & _ & Hbd2 & _).
    rewrite Hb in Hb2. inversion Hb2; subst c2 msg2 o2.
    destruct Ht1 as (c3 & msg3 & o3 & Hb3 & _ & _ & Hbd3 & _).
    cbn [base_of] in Hb3. inversion Hb3; subst c3 msg3 o3.
    destruct (bound_to_fun s c _ sd _ sd' Hbd3 Hbd2) as [_ <-]. exact Hf.
Qed.

Lemma told_in_first_two np h : forall s (acc : string -> Prop),
  SInv s -> log s = [] ->
  (exists L, (In np (nameplates (chan_w s)) -> np_side_list (chan_w s) (np_id np) = L) /\
             forall sd, acc sd -> In sd (firstn 2 L)) ->
  let s' := fst (run cfg s h) in
  exists L, (In np (nameplates (chan_w s')) -> np_side_list (chan_w s') (np_id np) = L) /\
            forall sd, told_in s h np acc sd -> In sd (firstn 2 L).
Proof.
  induction h as [|e h IH]; intros s acc HS Hlog Hacc; [exact Hacc|].
  cbv zeta. rewrite run_cons_fst. cbn [told_in].
  destruct (step_inv cfg Hexp s e HS) as [HS1 Hlog1].
  apply IH; [exact HS1|exact Hlog1|].
  destruct (told_step_first_two s e np HS Hlog) as (L' & A1 & A2 & A3).
  destruct Hacc as (L & B1 & B2).
  exists L'. split; [exact A1|]. intros sd [[Hin Ha]|Hs]; [|exact (A3 sd Hs)].
  destruct (A2 Hin) as [l ->]. rewrite (B1 Hin). apply firstn_app_In. exact (B2 sd Ha).
Qed.

(** C05, nameplates, over a whole history (every event allowed, crashes
    included): all the sides told the mailbox id of nameplate row [np] during
    its current incarnation -- the one living at the end of the history, or
    the one the last event deleted -- are among the first two entries of one
    list, which is the nameplate's side list at the end of the history if the
    row is still there *)
Theorem two_sides_ever_nameplate t0 h np :
  let s := fst (run cfg (init cfg t0) h) in
  exists L, (In np (nameplates (chan_w s)) -> np_side_list (chan_w s) (np_id np) = L) /\
            forall sd, told_in (init cfg t0) h np nobody sd -> In sd (firstn 2 L).
Proof.
  cbv zeta. destruct (init_spec cfg Hexp t0) as [Hi Hl].
  apply (told_in_first_two np h (init cfg t0) nobody Hi Hl).
  exists []. split; [|intros sd []]. intros Hin. exfalso. unfold init in Hin.
  destruct (boot_Shrink cfg empty_chan empty_usage t0 DbInv_empty) as (_ & _ & Sh & _).
  exact (Sh np Hin).
Qed.

Corollary two_sides_ever_nameplate_alive t0 h np sd :
  let s := fst (run cfg (init cfg t0) h) in
  In np (nameplates (chan_w s)) -> told_in (init cfg t0) h np nobody sd ->
  In sd (firstn 2 (np_side_list (chan_w s) (np_id np))).
Proof.
  cbv zeta. intros Hin Hs. destruct (two_sides_ever_nameplate t0 h np) as (L & A & B).
  rewrite (A Hin). exact (B sd Hs).
Qed.

Corollary at_most_two_sides_nameplate t0 h np :
  exists x y, forall sd, told_in (init cfg t0) h np nobody sd -> sd = x \/ sd = y.
Proof.
  destruct (two_sides_ever_nameplate t0 h np) as (L & _ & B).
  destruct L as [|x [|y L]].
  - exists "", "". intros sd Hs. destruct (B sd Hs).
  - exists x, x. intros sd Hs. destruct (B sd Hs) as [K|[]]. left. auto.
  - exists x, y. intros sd Hs. destruct (B sd Hs) as [K|[K|[]]]; auto.
Qed.

End Nameplate.

(** * Part D: every message frame of a run goes to a served side *)

Lemma frames_of_log_prefix l p : forall k, In p (frames_of (log_prefix k l)) -> In p (frames_of l).
Proof.
  induction l as [|x l IH]; intros k H.
  - rewrite (match k with O => eq_refl | S _ => eq_refl end : log_prefix k [] = []) in H. exact H.
  - destruct k as [|k]; [destruct H|]. cbn [log_prefix] in H.
    destruct x as [d|u|c f b]; cbn [is_commit frames_of] in *;
      try exact (IH _ H).
    destruct H as [H|H]; [left; exact H|right; exact (IH _ H)].
Qed.

Section Accounting.
Variable cfg : config.
Hypothesis Hexp : 0 < exp cfg.

(** what a crash event shows is part of what the event shows *)
Lemma crash_frames_sub s k b p :
  In p (frames_of (o_log (snd (step cfg s (ECrash k b))))) ->
  In p (frames_of (o_log (snd (step cfg s (EB b))))).
Proof.
  unfold step. cbv zeta. destruct (step_b cfg (set_log s []) b) as [[s1 valid] x].
  destruct (_ || _).
  - destruct (boot_on cfg _ _ _) as [[s2 bl] x2]. cbn [snd o_log]. auto.
  - destruct (replay_commits _ _ _) as [c0 u0]. destruct (boot_on cfg _ _ _) as [[s2 bl] x2].
    cbn [snd o_log]. apply frames_of_log_prefix.
Qed.

(** a message frame of a base event: it answers an `open` on the receiving
    connection, or it is the fan-out of an `add` to a connection that holds
    the adder's mailbox *)
Lemma eb_msg_frames s b c f :
  SInv s -> log s = [] -> is_msg f ->
  In (c, f) (frames_of (o_log (snd (step cfg s (EB b))))) ->
  exists c0 msg o cs a sd,
    b = ECmd c0 msg o /\ lookup_conn c0 (conns s) = Some cs /\ c_bound cs = Some (a, sd) /\
    ((m_type msg = Some TOpen /\ c0 = c /\ exists m, m_mailbox msg = Some m) \/
     (m_type msg = Some TAdd /\ exists m, holds s c a m)).
Proof.
  intros HS Hlog Hf Hin.
  assert (Hq : (forall c0 msg o, b = ECmd c0 msg o ->
                  m_type msg <> Some TOpen /\ m_type msg <> Some TAdd) -> False).
  { intros Hb. revert Hin. unfold step. cbv zeta.
    destruct (step_b_quiet is_msg (fun f H => or_introl H) cfg (set_log s []) b) as (k & E & F).
    { intros c0 msg o Eb. destruct (Hb c0 msg o Eb) as [N1 N2]. split.
      - intros [K|K]; contradiction.
      - intros _ m K. exact K. }
    destruct (step_b cfg (set_log s []) b) as [[s1 valid] x]. cbn [fst snd o_log log set_log] in *.
    rewrite app_nil_r in E. rewrite E. intros Hin.
    exact (quiet_no_told is_msg _ c f (Forall_rev F) Hin Hf). }
  destruct b as [c0|c0 msg o|c0|fl|dt fl]; try (exfalso; apply Hq; intros; discriminate).
  destruct (lookup_conn c0 (conns s)) as [cs|] eqn:El.
  2:{ exfalso. revert Hin. unfold step, step_b, has_conn. cbn [conns set_log]. rewrite El.
      cbn. intros []. }
  destruct (erroneous cs msg) eqn:Herr.
  { exfalso. revert Hin. unfold step. rewrite (set_log_nil s Hlog). unfold step_b, has_conn.
    rewrite El. rewrite (erroneous_harmless cfg c0 msg o s)
      by (unfold conn_of; rewrite El; exact Herr).
    rewrite Hlog. destruct (m_type msg); cbn; intros [K|K];
      try (inversion K; subst f; exact Hf); try destruct K as [K|[]];
      try (inversion K; subst f; exact Hf); destruct K. }
  destruct (m_type msg) as [t|] eqn:Et; [|exfalso; apply Hq; intros ? ? ? K; inversion K; subst;
                                           split; congruence].
  destruct t; try (exfalso; apply Hq; intros ? ? ? K; inversion K; subst; split; congruence).
  - (* open *)
    unfold erroneous in Herr. rewrite Et in Herr.
    destruct (c_bound cs) as [[a sd]|] eqn:Ebd; [|discriminate].
    destruct (c_mailbox cs) eqn:Emb; [discriminate|].
    destruct (m_mailbox msg) as [m|] eqn:Em; [|discriminate].
    assert (Herr' : erroneous cs msg = false)
      by (unfold erroneous; rewrite Et, Ebd, Emb, Em; reflexivity).
    pose proof (open_outcome cfg s c0 cs a sd msg o m HS Hlog El Ebd Et Herr' Em) as H.
    destruct (step cfg s (EB (ECmd c0 msg o))) as [s' ob]. cbn [snd] in Hin. cbv zeta in H.
    exists c0, msg, o, cs, a, sd. split; [reflexivity|]. split; [exact El|].
    split; [exact Ebd|]. left. split; [exact Et|]. split; [|exists m; exact Em].
    destruct H as (_ & [(_ & Hfr & _)|(_ & _ & [(_ & Hfr & _)|(_ & Hfr & _)])]);
      rewrite Hfr in Hin.
    + destruct Hin as [K|[]]. inversion K. reflexivity.
    + destruct Hin as [K|[K|[]]]; inversion K; reflexivity.
    + destruct Hin as [K|K]; [inversion K; reflexivity|].
      apply in_map_iff in K. destruct K as (r & K & _). inversion K. reflexivity.
  - (* add *)
    unfold erroneous in Herr. rewrite Et in Herr.
    destruct (c_bound cs) as [[a sd]|] eqn:Ebd; [|discriminate].
    destruct (c_mailbox cs) as [m|] eqn:Emb; [|discriminate].
    destruct (m_phase msg) as [ph|] eqn:Eph; [|discriminate].
    destruct (m_body msg) as [bd|] eqn:Ebo; [|discriminate].
    pose proof (add_effect cfg s c0 cs a sd msg o m ph bd HS Hlog El Ebd Emb Et Eph Ebo) as H.
    destruct (step cfg s (EB (ECmd c0 msg o))) as [s' ob]. cbn [snd] in Hin. cbv zeta in H.
    destruct H as (_ & Hfr & _ & _ & _ & _ & _ & _ & _ & _ & Hh).
    exists c0, msg, o, cs, a, sd. split; [reflexivity|]. split; [exact El|].
    split; [exact Ebd|]. right. split; [exact Et|]. exists m.
    rewrite Hfr in Hin. destruct Hin as [K|K]; [inversion K; subst f; destruct Hf|].
    apply in_map_iff in K. destruct K as (c' & K & Hc'). inversion K; subst c'.
    apply Hh. exact Hc'.
Qed.

(** every message frame an event sends (crashes included) goes to a
    connection bound to a side that held the mailbox when the event began or
    that is being served by this event's `open` *)
Theorem message_frames_accounted s e c f :
  SInv s -> log s = [] -> is_msg f ->
  In (c, f) (frames_of (o_log (snd (step cfg s e)))) ->
  exists a m sd, bound_to s c a sd /\
                 (side_holds s a m sd \/ open_replayed cfg s e a m sd).
Proof.
  intros HS Hlog Hf Hin.
  destruct e as [b|k b|].
  - destruct (eb_msg_frames s b c f HS Hlog Hf Hin)
      as (c0 & msg & o & cs & a & sd & -> & El & Ebd & [(Et & -> & m & Em)|(Et & m & Hh)]).
    + exists a, m, sd. split; [exists cs; auto|]. right.
      exists c, msg, o, f. split; [reflexivity|]. split; [exact Et|]. split; [exact Em|].
      split; [exists cs; auto|]. auto.
    + destruct Hh as (cs' & sd' & Hl' & Hb' & Hm').
      exists a, m, sd'. split; [exists cs'; auto|]. left. exists c, cs'. auto.
  - pose proof (crash_frames_sub s k b _ Hin) as Hin1.
    destruct (eb_msg_frames s b c f HS Hlog Hf Hin1)
      as (c0 & msg & o & cs & a & sd & -> & El & Ebd & [(Et & -> & m & Em)|(Et & m & Hh)]).
    + exists a, m, sd. split; [exists cs; auto|]. right.
      exists c, msg, o, f. split; [reflexivity|]. split; [exact Et|]. split; [exact Em|].
      split; [exists cs; auto|]. auto.
    + destruct Hh as (cs' & sd' & Hl' & Hb' & Hm').
      exists a, m, sd'. split; [exists cs'; auto|]. left. exists c, cs'. auto.
  - exfalso. revert Hin. unfold step. cbv zeta. destruct (boot_on cfg _ _ _) as [[s1 bl] x].
    cbn. intros [].
Qed.

(** ** along a run *)

Lemma served_in_snoc a m h e : forall s (acc : string -> Prop) sd,
  served_in cfg s (h ++ [e]) a m acc sd <->
  (has_mb (chan_w (fst (run cfg s h))) a m /\ served_in cfg s h a m acc sd) \/
  served_step cfg (fst (run cfg s h)) e a m sd.
Proof.
  induction h as [|e0 h IH]; intros s acc sd.
  - cbn [app served_in run fst]. reflexivity.
  - cbn [app served_in]. rewrite IH, run_cons_fst. reflexivity.
Qed.

(** whoever holds the mailbox after a history has been served by its current incarnation *)
Lemma holders_served t0 h a m sd :
  side_holds (fst (run cfg (init cfg t0) h)) a m sd ->
  served_in cfg (init cfg t0) h a m nobody sd.
Proof.
  destruct h as [|e0 h0].
  - cbn [run fst]. intros (c & cs & Hl & Hb & Hm). exfalso.
    assert (Hh : holds (init cfg t0) c a m) by (exists cs, sd; auto).
    apply (holds_iff_sub _ c a m (proj1 (init_spec cfg Hexp t0))) in Hh.
    unfold init in Hh. rewrite (boot_subs cfg) in Hh. destruct Hh.
  - destruct (@exists_last _ (e0 :: h0)) as (h' & e & E); [discriminate|]. rewrite E. clear E.
    intros Hh. apply served_in_snoc. right. left.
    revert Hh. clear. generalize (init cfg t0).
    induction h' as [|e1 h' IH]; intros s Hh.
    + cbn [app run] in Hh. cbn [run fst].
      destruct (step cfg s e) as [s1 o1]. exact Hh.
    + cbn [app] in Hh. rewrite run_cons_fst in Hh |- *. apply IH. exact Hh.
Qed.

(** C05 for message frames, over a whole history: whoever is sent a message
    frame by the event that follows history [h] is bound to a side that the
    current incarnation of a mailbox has served (that event included) *)
Theorem message_frames_to_served t0 h e c f :
  let s := fst (run cfg (init cfg t0) h) in
  is_msg f -> In (c, f) (frames_of (o_log (snd (step cfg s e)))) ->
  exists a m sd, bound_to s c a sd /\
                 served_in cfg (init cfg t0) (h ++ [e]) a m nobody sd.
Proof.
  cbv zeta. intros Hf Hin.
  destruct (init_spec cfg Hexp t0) as [Hi Hl].
  destruct (run_inv cfg Hexp h (init cfg t0) Hi Hl) as [HS Hlog].
  destruct (message_frames_accounted _ e c f HS Hlog Hf Hin) as (a & m & sd & Hb & [Hh|Ho]).
  - exists a, m, sd. split; [exact Hb|]. apply served_in_snoc. left. split.
    + assert (H2 : subs_first_two (fst (run cfg (init cfg t0) h))).
      { apply (reachable_subs_first_two cfg Hexp). exists t0, h. reflexivity. }
      exact (proj1 (side_holds_first_two _ a m sd HS H2 Hh)).
    + apply holders_served. exact Hh.
  - exists a, m, sd. split; [exact Hb|]. apply served_in_snoc. right. right. exact Ho.
Qed.

End Accounting.

(** ** claimed frames: every one is a [told_step] *)
Section AccountingNp.
Variable cfg : config.
Hypothesis Hexp : 0 < exp cfg.

Lemma eb_claimed_frames s b c mbox :
  SInv s -> log s = [] ->
  In (c, FClaimed mbox) (frames_of (o_log (snd (step cfg s (EB b))))) ->
  exists msg o cs a sd n,
    b = ECmd c msg o /\ lookup_conn c (conns s) = Some cs /\ c_bound cs = Some (a, sd) /\
    m_type msg = Some TClaim /\ m_nameplate msg = Some n.
Proof.
  intros HS Hlog Hin.
  assert (Hq : (forall c0 msg o, b = ECmd c0 msg o -> m_type msg <> Some TClaim) -> False).
  { intros Hb. revert Hin. unfold step. cbv zeta.
    destruct (step_b_quiet is_claimed (fun f H => or_intror H) cfg (set_log s []) b) as (k & E & F).
    { intros c0 msg o Eb. split.
      - intros _ f Hf K. destruct f; try destruct K; destruct Hf.
      - intros K. destruct (Hb c0 msg o Eb K). }
    destruct (step_b cfg (set_log s []) b) as [[s1 valid] x]. cbn [fst snd o_log log set_log] in *.
    rewrite app_nil_r in E. rewrite E. intros Hin.
    exact (quiet_no_told is_claimed _ c _ (Forall_rev F) Hin I). }
  destruct b as [c0|c0 msg o|c0|fl|dt fl]; try (exfalso; apply Hq; intros; discriminate).
  destruct (lookup_conn c0 (conns s)) as [cs|] eqn:El.
  2:{ exfalso. revert Hin. unfold step, step_b, has_conn. cbn [conns set_log]. rewrite El.
      cbn. intros []. }
  destruct (erroneous cs msg) eqn:Herr.
  { exfalso. revert Hin. unfold step. rewrite (set_log_nil s Hlog). unfold step_b, has_conn.
    rewrite El. rewrite (erroneous_harmless cfg c0 msg o s)
      by (unfold conn_of; rewrite El; exact Herr).
    rewrite Hlog. destruct (m_type msg); cbn; intros [K|K];
      try (inversion K); try destruct K as [K|[]]; try (inversion K); destruct K. }
  destruct (m_type msg) as [t|] eqn:Et; [|exfalso; apply Hq; intros ? ? ? K; inversion K; subst;
                                           congruence].
  destruct t; try (exfalso; apply Hq; intros ? ? ? K; inversion K; subst; congruence).
  assert (Herr' := Herr). unfold erroneous in Herr. rewrite Et in Herr.
  destruct (c_bound cs) as [[a sd]|] eqn:Ebd; [|discriminate].
  destruct (m_nameplate msg) as [n|] eqn:En; [|discriminate].
  pose proof (claim_outcome cfg s c0 cs a sd msg o n HS Hlog El Ebd Et Herr' En) as H.
  destruct (step cfg s (EB (ECmd c0 msg o))) as [s' ob]. cbn [snd] in Hin. cbv zeta in H.
  assert (c0 = c).
  { destruct H as (_ & [(Hfr & _)|[(Hfr & _)|(_ & _ & _ & _ & np & _ & _ & _ & [Hfr|Hfr])]]);
      rewrite Hfr in Hin.
    - destruct Hin as [K|[K|[]]]; inversion K; reflexivity.
    - destruct Hin as [K|[]]; inversion K; reflexivity.
    - destruct Hin as [K|[K|[]]]; inversion K; reflexivity.
    - destruct Hin as [K|[K|[]]]; inversion K; reflexivity. }
  subst c0. exists msg, o, cs, a, sd, n. auto.
Qed.

(** every `claimed` frame an event sends (crashes included) answers a `claim`
    of the receiving connection: it is a [told_step] of the (one) nameplate
    row with that app, name and mailbox id *)
Theorem claimed_frames_accounted s e c mbox :
  SInv s -> log s = [] ->
  In (c, FClaimed mbox) (frames_of (o_log (snd (step cfg s e)))) ->
  exists a n sd, bound_to s c a sd /\ forall i, told_step cfg s e (mkNp i a n mbox) sd.
Proof.
  intros HS Hlog Hin.
  assert (Hb : exists b, base_of e = Some b /\
                         In (c, FClaimed mbox) (frames_of (o_log (snd (step cfg s (EB b)))))).
  { destruct e as [b|k b|].
    - exists b. auto.
    - exists b. split; [reflexivity|]. exact (crash_frames_sub cfg s k b _ Hin).
    - exfalso. revert Hin. unfold step. cbv zeta. destruct (boot_on cfg _ _ _) as [[s1 bl] x].
      cbn. intros []. }
  destruct Hb as (b & Hb & Hin1).
  destruct (eb_claimed_frames s b c mbox HS Hlog Hin1)
    as (msg & o & cs & a & sd & n & -> & El & Ebd & Et & En).
  exists a, n, sd. split; [exists cs; auto|]. intros i.
  exists c, msg, o. split; [exact Hb|]. split; [exact Et|]. split; [exact En|].
  split; [exists cs; auto|exact Hin].
Qed.

End AccountingNp.

(** * What the two recursions say, without recursion *)
Lemma run_app_fst_t cfg h1 : forall h2 s,
  fst (run cfg s (h1 ++ h2)) = fst (run cfg (fst (run cfg s h1)) h2).
Proof.
  induction h1 as [|e h1 IH]; intros h2 s; [reflexivity|].
  cbn [app]. rewrite !run_cons_fst. apply IH.
Qed.

Section Gather.
Variable cfg : config.
(** the object (mailbox / nameplate row) exists in a state; what an event serves *)
Variable alive : state -> Prop.
Variable serves : state -> event -> string -> Prop.

Fixpoint gather (s : state) (h : list event) (acc : string -> Prop) : string -> Prop :=
  match h with
  | [] => acc
  | e :: h' =>
      gather (fst (step cfg s e)) h' (fun sd => (alive s /\ acc sd) \/ serves s e sd)
  end.

(** the object exists in every state of the run over [h] from [s], the last one excepted *)
Definition alive_along (s : state) (h : list event) : Prop :=
  forall h1 h2, h = h1 ++ h2 -> h2 <> [] -> alive (fst (run cfg s h1)).

Lemma alive_along_cons s e h :
  alive_along s (e :: h) <-> alive s /\ alive_along (fst (step cfg s e)) h.
Proof.
  split.
  - intros H. split.
    + apply (H [] (e :: h)); [reflexivity|discriminate].
    + intros h1 h2 E Hne. rewrite <- run_cons_fst. apply (H (e :: h1) h2); [|exact Hne].
      rewrite E. reflexivity.
  - intros [H0 H] h1 h2 E Hne. destruct h1 as [|e1 h1].
    + exact H0.
    + cbn [app] in E. inversion E; subst e1 h. rewrite run_cons_fst. apply (H h1 h2); auto.
Qed.

(** [sd] is gathered over [h] iff it was there at the start and the object
    existed all along, or some event of [h] served it and the object existed
    in every state after that event, the last one excepted *)
Theorem gather_spec h : forall s (acc : string -> Prop) sd,
  gather s h acc sd <->
  (acc sd /\ alive_along s h) \/
  (exists h1 e h2, h = h1 ++ e :: h2 /\ serves (fst (run cfg s h1)) e sd /\
                   alive_along (fst (run cfg s (h1 ++ [e]))) h2).
Proof.
  induction h as [|e0 h IH]; intros s acc sd.
  - cbn [gather]. split.
    + intros H. left. split; [exact H|]. intros h1 h2 E Hne.
      destruct h1; destruct h2; try discriminate. destruct (Hne eq_refl).
    + intros [[H _]|(h1 & e & h2 & E & _)]; [exact H|]. destruct h1; discriminate.
  - cbn [gather]. rewrite IH. split.
    + intros [[[[Ha Hacc]|Hs] Hal]|(h1 & e & h2 & E & Hs & Hal)].
      * left. split; [exact Hacc|]. apply alive_along_cons. auto.
      * right. exists [], e0, h. split; [reflexivity|]. split; [exact Hs|].
        cbn [app]. rewrite run_cons_fst. exact Hal.
      * right. exists (e0 :: h1), e, h2. split; [rewrite E; reflexivity|].
        rewrite run_cons_fst. split; [exact Hs|].
        change ((e0 :: h1) ++ [e]) with (e0 :: (h1 ++ [e])). rewrite run_cons_fst. exact Hal.
    + intros [[Hacc Hal]|(h1 & e & h2 & E & Hs & Hal)].
      * apply alive_along_cons in Hal. destruct Hal as [Ha Hal]. left. auto.
      * destruct h1 as [|e1 h1]; cbn [app] in E; inversion E; subst.
        -- left. split; [right; exact Hs|]. cbn [app] in Hal. rewrite run_cons_fst in Hal. exact Hal.
        -- right. exists h1, e, h2. split; [reflexivity|]. rewrite run_cons_fst in Hs.
           split; [exact Hs|].
           change ((e1 :: h1) ++ [e]) with (e1 :: (h1 ++ [e])) in Hal.
           rewrite run_cons_fst in Hal. exact Hal.
Qed.

End Gather.

Lemma served_in_gather cfg a m h : forall s acc,
  served_in cfg s h a m acc =
  gather cfg (fun s => has_mb (chan_w s) a m) (fun s e => served_step cfg s e a m) s h acc.
Proof. induction h as [|e h IH]; intros s acc; [reflexivity|]. cbn [served_in gather]. apply IH. Qed.

Lemma told_in_gather cfg np h : forall s acc,
  told_in cfg s h np acc =
  gather cfg (fun s => In np (nameplates (chan_w s))) (fun s e => told_step cfg s e np) s h acc.
Proof. induction h as [|e h IH]; intros s acc; [reflexivity|]. cbn [told_in gather]. apply IH. Qed.

(** served by the current incarnation = served by some event of the history
    after which the mailbox had a row in every state but possibly the last *)
Theorem served_in_spec cfg t0 h a m sd :
  served_in cfg (init cfg t0) h a m nobody sd <->
  exists h1 e h2, h = h1 ++ e :: h2 /\
    served_step cfg (fst (run cfg (init cfg t0) h1)) e a m sd /\
    forall h2a h2b, h2 = h2a ++ h2b -> h2b <> [] ->
      has_mb (chan_w (fst (run cfg (init cfg t0) (h1 ++ e :: h2a)))) a m.
Proof.
  rewrite served_in_gather, gather_spec. split.
  - intros [[[] _]|(h1 & e & h2 & E & Hs & Hal)]. exists h1, e, h2. split; [exact E|].
    split; [exact Hs|]. intros h2a h2b E2 Hne. specialize (Hal h2a h2b E2 Hne).
    rewrite <- run_app_fst_t, <- app_assoc in Hal. exact Hal.
  - intros (h1 & e & h2 & E & Hs & Hal). right. exists h1, e, h2. split; [exact E|].
    split; [exact Hs|]. intros h2a h2b E2 Hne. specialize (Hal h2a h2b E2 Hne).
    rewrite <- run_app_fst_t, <- app_assoc. exact Hal.
Qed.

Theorem told_in_spec cfg t0 h np sd :
  told_in cfg (init cfg t0) h np nobody sd <->
  exists h1 e h2, h = h1 ++ e :: h2 /\
    told_step cfg (fst (run cfg (init cfg t0) h1)) e np sd /\
    forall h2a h2b, h2 = h2a ++ h2b -> h2b <> [] ->
      In np (nameplates (chan_w (fst (run cfg (init cfg t0) (h1 ++ e :: h2a))))).
Proof.
  rewrite told_in_gather, gather_spec. split.
  - intros [[[] _]|(h1 & e & h2 & E & Hs & Hal)]. exists h1, e, h2. split; [exact E|].
    split; [exact Hs|]. intros h2a h2b E2 Hne. specialize (Hal h2a h2b E2 Hne).
    rewrite <- run_app_fst_t, <- app_assoc in Hal. exact Hal.
  - intros (h1 & e & h2 & E & Hs & Hal). right. exists h1, e, h2. split; [exact E|].
    split; [exact Hs|]. intros h2a h2b E2 Hne. specialize (Hal h2a h2b E2 Hne).
    rewrite <- run_app_fst_t, <- app_assoc. exact Hal.
Qed.

(** * The event that ends an incarnation *)
Section LastStep.
Variable cfg : config.
Hypothesis Hexp : 0 < exp cfg.

(** whatever event [e] follows history [h] -- in particular one that deletes
    the mailbox --: all the sides served by the incarnation living after [h],
    those served by [e] included, are among the first two entries of an
    extension of the mailbox's side list after [h] (its last side list, if
    [e] deletes it) *)
Theorem two_sides_ever_mailbox_last t0 h e a m :
  let s := fst (run cfg (init cfg t0) h) in
  has_mb (chan_w s) a m ->
  exists l, forall sd, served_in cfg (init cfg t0) (h ++ [e]) a m nobody sd ->
                       In sd (firstn 2 (mb_side_list (chan_w s) m ++ l)).
Proof.
  cbv zeta. intros Hmb.
  destruct (init_spec cfg Hexp t0) as [Hi Hl].
  destruct (run_inv cfg Hexp h (init cfg t0) Hi Hl) as [HS Hlog].
  assert (H2 : subs_first_two (fst (run cfg (init cfg t0) h))).
  { apply (reachable_subs_first_two cfg Hexp). exists t0, h. reflexivity. }
  destruct (served_step_first_two cfg Hexp _ e a m HS Hlog H2) as (L & _ & (l & ->) & A).
  exists l. intros sd Hs. apply served_in_snoc in Hs. destruct Hs as [[_ Hs]|Hs].
  - apply firstn_app_In. exact (two_sides_ever_mailbox_alive cfg Hexp t0 h a m sd Hmb Hs).
  - exact (A sd Hs).
Qed.

Lemma told_in_snoc np h e : forall s (acc : string -> Prop) sd,
  told_in cfg s (h ++ [e]) np acc sd <->
  (In np (nameplates (chan_w (fst (run cfg s h)))) /\ told_in cfg s h np acc sd) \/
  told_step cfg (fst (run cfg s h)) e np sd.
Proof.
  induction h as [|e0 h IH]; intros s acc sd.
  - cbn [app told_in run fst]. reflexivity.
  - cbn [app told_in]. rewrite IH, run_cons_fst. reflexivity.
Qed.

Theorem two_sides_ever_nameplate_last t0 h e np :
  let s := fst (run cfg (init cfg t0) h) in
  In np (nameplates (chan_w s)) ->
  exists l, forall sd, told_in cfg (init cfg t0) (h ++ [e]) np nobody sd ->
                       In sd (firstn 2 (np_side_list (chan_w s) (np_id np) ++ l)).
Proof.
  cbv zeta. intros Hin.
  destruct (init_spec cfg Hexp t0) as [Hi Hl].
  destruct (run_inv cfg Hexp h (init cfg t0) Hi Hl) as [HS Hlog].
  destruct (told_step_first_two cfg Hexp _ e np HS Hlog) as (L & _ & A2 & A).
  destruct (A2 Hin) as [l ->].
  exists l. intros sd Hs. apply told_in_snoc in Hs. destruct Hs as [[_ Hs]|Hs].
  - apply firstn_app_In. exact (two_sides_ever_nameplate_alive cfg Hexp t0 h np sd Hin Hs).
  - exact (A sd Hs).
Qed.

End LastStep.

(** * Part E: non-vacuity *)

Definition x_cfg : config := mkCfg true false None 5280 2400 (mkWelcome None None None).
Lemma x_exp : 0 < exp x_cfg.
Proof. reflexivity. Qed.
Definition x_o0 : oracle := mkOracle None (mkAO None []).
Definition x_o1 : oracle := mkOracle (Some "AAAAAAAA") (mkAO None []).
Definition x_mbox : string := Eval vm_compute in genid "AAAAAAAA".
Definition x_np : np_row := mkNp 1 "a" "7" x_mbox.
Definition x_bind (side : string) : command :=
  mkCmd (Some TBind) None (Some "a") (Some side) None None None None None None None.
Definition x_claim : command :=
  mkCmd (Some TClaim) None None None (Some "7") None None None None None None.
Definition x_open : command :=
  mkCmd (Some TOpen) None None None None (Some x_mbox) None None None None None.
Definition x_add : command :=
  mkCmd (Some TAdd) None None None None None (Some "p") (Some "b") None None None.

(** side A claims nameplate "7", opens its mailbox and adds a message.  Side B
    claims: it is told the mailbox id, then the process dies.  B comes back and
    opens the mailbox: the message is replayed to it, then the process dies
    again (B is never seen holding the mailbox in any state between events).
    A clean restart.  Then side C tries: claim (crowded), open twice
    (crowded), a claim cut short by a crash after its second commit (no
    answer), a claim on a third connection (crowded). *)
Definition x_hist : list event :=
  [ EB (EConnect 1); EB (ECmd 1 (x_bind "A") x_o0); EB (ECmd 1 x_claim x_o1);
    EB (ECmd 1 x_open x_o0); EB (ECmd 1 x_add x_o0);
    EB (EConnect 2); EB (ECmd 2 (x_bind "B") x_o0); ECrash 9 (ECmd 2 x_claim x_o0);
    EB (EConnect 3); EB (ECmd 3 (x_bind "B") x_o0); ECrash 9 (ECmd 3 x_open x_o0);
    ERestart;
    EB (EConnect 4); EB (ECmd 4 (x_bind "C") x_o0); EB (ECmd 4 x_claim x_o0);
    EB (ECmd 4 x_open x_o0); EB (ECmd 4 x_open x_o0);
    EB (EConnect 5); EB (ECmd 5 (x_bind "C") x_o0); ECrash 2 (ECmd 5 x_claim x_o0);
    EB (EConnect 6); EB (ECmd 6 (x_bind "C") x_o0); EB (ECmd 6 x_claim x_o0) ].

Notation x_end := (fst (run x_cfg (init x_cfg 0) x_hist)).

Ltac keep_mb := left; split; [apply has_mb_b_true; vm_compute; reflexivity|].
Ltac keep_np := left; split; [vm_compute; left; reflexivity|].

Example two_sides_ever_nonvacuous :
  (* what every connection was sent, event by event *)
  map (fun o => frames_of (o_log o)) (snd (run x_cfg (init x_cfg 0) x_hist)) =
    [ [(1%nat, FWelcome (mkWelcome None None None))]; [(1%nat, FAck None)];
      [(1%nat, FAck None); (1%nat, FClaimed x_mbox)];
      [(1%nat, FAck None)];
      [(1%nat, FAck None); (1%nat, FMessage "A" "p" "b" 0 None)];
      [(2%nat, FWelcome (mkWelcome None None None))]; [(2%nat, FAck None)];
      [(2%nat, FAck None); (2%nat, FClaimed x_mbox)];
      [(3%nat, FWelcome (mkWelcome None None None))]; [(3%nat, FAck None)];
      [(3%nat, FAck None); (3%nat, FMessage "A" "p" "b" 0 None)]; [];
      [(4%nat, FWelcome (mkWelcome None None None))]; [(4%nat, FAck None)];
      [(4%nat, FAck None); (4%nat, FError ErrCrowded x_claim)];
      [(4%nat, FAck None); (4%nat, FError ErrCrowded x_open)];
      [(4%nat, FAck None); (4%nat, FError ErrCrowded x_open)];
      [(5%nat, FWelcome (mkWelcome None None None))]; [(5%nat, FAck None)]; [(5%nat, FAck None)];
      [(6%nat, FWelcome (mkWelcome None None None))]; [(6%nat, FAck None)];
      [(6%nat, FAck None); (6%nat, FError ErrCrowded x_claim)] ] /\
  (* the mailbox and the nameplate are still there, with three sides recorded *)
  has_mb (chan_w x_end) "a" x_mbox /\ In x_np (nameplates (chan_w x_end)) /\
  mb_side_list (chan_w x_end) x_mbox = ["A"; "B"; "C"] /\
  np_side_list (chan_w x_end) 1 = ["A"; "B"; "C"] /\
  (* served / told: A and B, not C *)
  served_in x_cfg (init x_cfg 0) x_hist "a" x_mbox nobody "A" /\
  served_in x_cfg (init x_cfg 0) x_hist "a" x_mbox nobody "B" /\
  ~ served_in x_cfg (init x_cfg 0) x_hist "a" x_mbox nobody "C" /\
  told_in x_cfg (init x_cfg 0) x_hist x_np nobody "A" /\
  told_in x_cfg (init x_cfg 0) x_hist x_np nobody "B" /\
  ~ told_in x_cfg (init x_cfg 0) x_hist x_np nobody "C".
Proof.
  assert (Hmb : has_mb (chan_w x_end) "a" x_mbox) by (apply has_mb_b_true; vm_compute; reflexivity).
  assert (Hnp : In x_np (nameplates (chan_w x_end))) by (vm_compute; left; reflexivity).
  split; [vm_compute; reflexivity|]. split; [exact Hmb|]. split; [exact Hnp|].
  split; [vm_compute; reflexivity|]. split; [vm_compute; reflexivity|].
  split; [|split; [|split; [|split; [|split]]]].
  - (* A: holds the mailbox after its open *)
    unfold x_hist. cbn [served_in]. do 19 keep_mb. right. left.
    eexists 1%nat, _. split; [vm_compute; reflexivity|]. split; reflexivity.
  - (* B: sent the stored message by the open that the process did not survive *)
    unfold x_hist. cbn [served_in]. do 12 keep_mb. right. right.
    exists 3%nat, x_open, x_o0, (FMessage "A" "p" "b" 0 None).
    split; [reflexivity|]. split; [reflexivity|]. split; [reflexivity|].
    split; [eexists; split; [vm_compute; reflexivity|reflexivity]|].
    split; [exact I|]. vm_compute. right. left. reflexivity.
  - intros H.
    pose proof (two_sides_ever_mailbox_alive x_cfg x_exp 0 x_hist "a" x_mbox "C" Hmb H) as K.
    assert (E : firstn 2 (mb_side_list (chan_w x_end) x_mbox) = ["A"; "B"])
      by (vm_compute; reflexivity).
    rewrite E in K. destruct K as [K|[K|[]]]; discriminate K.
  - unfold x_hist. cbn [told_in]. do 20 keep_np. right.
    exists 1%nat, x_claim, x_o1. split; [reflexivity|]. split; [reflexivity|].
    split; [reflexivity|]. split; [eexists; split; [vm_compute; reflexivity|reflexivity]|].
    vm_compute. right. left. reflexivity.
  - (* B: told the mailbox id by the claim that the process did not survive *)
    unfold x_hist. cbn [told_in]. do 15 keep_np. right.
    exists 2%nat, x_claim, x_o0. split; [reflexivity|]. split; [reflexivity|].
    split; [reflexivity|]. split; [eexists; split; [vm_compute; reflexivity|reflexivity]|].
    vm_compute. right. left. reflexivity.
  - intros H.
    pose proof (two_sides_ever_nameplate_alive x_cfg x_exp 0 x_hist x_np "C" Hnp H) as K.
    assert (E : firstn 2 (np_side_list (chan_w x_end) (np_id x_np)) = ["A"; "B"])
      by (vm_compute; reflexivity).
    rewrite E in K. destruct K as [K|[K|[]]]; discriminate K.
Qed.

(** the message frames of that history went to served sides ([message_frames_to_served]
    applied to the replay that preceded the second crash) *)
Example replay_before_crash_accounted :
  exists a m sd,
    bound_to (fst (run x_cfg (init x_cfg 0) (firstn 10 x_hist))) 3 a sd /\
    served_in x_cfg (init x_cfg 0) (firstn 10 x_hist ++ [ECrash 9 (ECmd 3 x_open x_o0)])
              a m nobody sd.
Proof.
  apply (message_frames_to_served x_cfg x_exp 0 (firstn 10 x_hist) (ECrash 9 (ECmd 3 x_open x_o0))
           3%nat (FMessage "A" "p" "b" 0 None) I).
  vm_compute. right. left. reflexivity.
Qed.

Print Assumptions crash_told_completed.
Print Assumptions two_sides_ever_mailbox.
Print Assumptions two_sides_ever_mailbox_alive.
Print Assumptions at_most_two_sides_mailbox.
Print Assumptions two_sides_ever_nameplate.
Print Assumptions two_sides_ever_nameplate_alive.
Print Assumptions two_sides_ever_mailbox_last.
Print Assumptions two_sides_ever_nameplate_last.
Print Assumptions at_most_two_sides_nameplate.
Print Assumptions message_frames_accounted.
Print Assumptions message_frames_to_served.
Print Assumptions claimed_frames_accounted.
Print Assumptions served_in_spec.
Print Assumptions told_in_spec.
Print Assumptions two_sides_ever_nonvacuous.
Print Assumptions replay_before_crash_accounted.
