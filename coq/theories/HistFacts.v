(** HistFacts.v -- history-level corollaries: C01 (what an open replays, as a
    function of the whole history) and C17 (every command with a type is
    answered first by its ack). *)
From MW Require Import Base Store Monad Usage Server Websocket Service Findings
     Inv StoreFacts Hoare DbFactsA DbFactsB OpFacts ProtoFacts Obs StepFacts SweepFacts
     NpFactsA MbFactsA MbFactsB LifeFacts Corollaries.
Local Open Scope list_scope.

Definition mine (a m : string) (x : msg_row) : bool := seqb (msg_app x) a && seqb (msg_mbox x) m.

Definition has_mb_b (d : chan_db) (a m : string) : bool :=
  match sel_mb d a m with Some _ => true | None => false end.

(** * Auxiliary: lists, selection of the messages of one mailbox *)

Lemma hf_filter_filter_imp {A} (p q : A -> bool) l :
  (forall x, In x l -> p x = true -> q x = true) -> filter p (filter q l) = filter p l.
Proof.
  induction l as [|x l IH]; intros H; [reflexivity|].
  cbn [filter]. destruct (q x) eqn:Eq.
  - cbn [filter]. destruct (p x); rewrite IH; try reflexivity;
      intros y Hy; apply H; right; exact Hy.
  - destruct (p x) eqn:Ep.
    + rewrite (H x (or_introl eq_refl) Ep) in Eq. discriminate.
    + apply IH. intros y Hy. apply H. right. exact Hy.
Qed.

Lemma hf_filter_nil {A} (p : A -> bool) l : (forall x, In x l -> p x = false) -> filter p l = [].
Proof.
  induction l as [|x l IH]; intros H; [reflexivity|].
  cbn [filter]. rewrite (H x (or_introl eq_refl)). apply IH. intros y Hy. apply H. right. exact Hy.
Qed.

Lemma sel_msgs_mine d a m : sel_msgs d a m = filter (mine a m) (messages d).
Proof. reflexivity. Qed.

Lemma mine_true a m x : mine a m x = true -> msg_app x = a /\ msg_mbox x = m.
Proof.
  unfold mine. intros H. apply andb_true_iff in H. destruct H as [Ha Hm].
  apply seqb_eq in Ha. apply seqb_eq in Hm. split; assumption.
Qed.

Lemma has_mb_b_true d a m : has_mb_b d a m = true <-> has_mb d a m.
Proof.
  unfold has_mb_b. rewrite has_mb_sel. destruct (sel_mb d a m) as [r|].
  - split; [eauto|reflexivity].
  - split; [discriminate|]. intros [r Hr]. discriminate.
Qed.

Lemma has_mb_b_false d a m : has_mb_b d a m = false <-> ~ has_mb d a m.
Proof.
  rewrite <- has_mb_b_true. destruct (has_mb_b d a m); split; intros H;
    try reflexivity; try discriminate.
  - exfalso. apply H. reflexivity.
Qed.

(** one event, at the level of the databases: the stored messages of (a, m)
    after the event, given the evolution equation of the whole table *)
Lemma sel_msgs_step d d' a m add :
  DbInv d' ->
  messages d' = filter (fun x => mb_exists d' (msg_mbox x)) (messages d) ++ add ->
  sel_msgs d' a m =
    if has_mb_b d' a m then sel_msgs d a m ++ filter (mine a m) add else [].
Proof.
  intros Hinv Heq. destruct (has_mb_b d' a m) eqn:Eb.
  - rewrite !sel_msgs_mine, Heq, filter_app. f_equal.
    apply hf_filter_filter_imp. intros x _ Hx.
    apply mine_true in Hx. destruct Hx as [_ Hm]. rewrite Hm.
    apply (has_mb_exists d' a). apply has_mb_b_true. exact Eb.
  - rewrite sel_msgs_mine. apply hf_filter_nil. intros x Hx.
    destruct (mine a m x) eqn:Em; [|reflexivity].
    apply mine_true in Em. destruct Em as [Ha Hm].
    pose proof (inv_msg d' Hinv x Hx) as Hmb. rewrite Ha, Hm in Hmb.
    apply has_mb_b_true in Hmb. congruence.
Qed.

(** * Auxiliary: a log calculus -- the log only grows, and every frame
    appended goes to a connection satisfying [P] *)

Section LogCalc.
Variable P : nat -> Prop.

Definition Lx (s s' : state) : Prop :=
  exists l, log s' = l ++ log s /\ forall c f b tx, In (LFrame c f b tx) l -> P c.

Lemma Lx_refl s : Lx s s.
Proof. exists []. split; [reflexivity|]. intros c f b tx []. Qed.

Lemma Lx_trans s1 s2 s3 : Lx s1 s2 -> Lx s2 s3 -> Lx s1 s3.
Proof.
  intros [l1 [E1 H1]] [l2 [E2 H2]]. exists (l2 ++ l1). split.
  - rewrite E2, E1. apply app_assoc.
  - intros c f b tx Hin. apply in_app_or in Hin. destruct Hin as [Hin|Hin]; eauto.
Qed.

Lemma Lx_same s s' : log s' = log s -> Lx s s'.
Proof. intros H. exists []. split; [exact H|]. intros c f b tx []. Qed.

Lemma Lx_cons s s' e :
  log s' = e :: log s -> (forall c f b tx, e = LFrame c f b tx -> P c) -> Lx s s'.
Proof.
  intros H He. exists [e]. split; [exact H|].
  intros c f b tx [Hin|[]]. eapply He. exact Hin.
Qed.

Definition LxM {A} (m : M A) : Prop :=
  forall s, wp m (fun _ s' => Lx s s') (fun _ s' => Lx s s') s.

Lemma LxM_ret {A} (a : A) : LxM (ret a).
Proof. intros s. apply Lx_refl. Qed.

Lemma LxM_raise {A} e : LxM (@raise A e).
Proof. intros s. apply Lx_refl. Qed.

Lemma LxM_bind {A B} (m : M A) (k : A -> M B) : LxM m -> (forall a, LxM (k a)) -> LxM (bind m k).
Proof.
  intros Hm Hk s. specialize (Hm s). unfold wp, bind in *.
  destruct (m s) as [a s1|e s1]; [|exact Hm].
  specialize (Hk a s1). unfold wp in Hk.
  destruct (k a s1); eapply Lx_trans; eauto.
Qed.

Lemma LxM_try_catch {A} (m : M A) h : LxM m -> (forall e, LxM (h e)) -> LxM (try_catch m h).
Proof.
  intros Hm Hh s. specialize (Hm s). unfold wp, try_catch in *.
  destruct (m s) as [a s1|e s1]; [exact Hm|].
  specialize (Hh e s1). unfold wp in Hh.
  destruct (h e s1); eapply Lx_trans; eauto.
Qed.

Lemma LxM_get : LxM get.
Proof. intros s. apply Lx_refl. Qed.

Lemma LxM_q {A} (f : chan_db -> A) : LxM (q f).
Proof. intros s. apply Lx_refl. Qed.

Lemma LxM_tx {A} (f : chan_db -> txres A) : LxM (tx f).
Proof. intros s. unfold wp, tx. destruct (f (chan_w s)); apply Lx_same; reflexivity. Qed.

Lemma LxM_utx f : LxM (utx f).
Proof. intros s. apply Lx_same; reflexivity. Qed.

Lemma LxM_commit_chan : LxM commit_chan.
Proof.
  intros s. unfold wp, commit_chan. eapply Lx_cons; [reflexivity|]. intros c f b tx H. discriminate.
Qed.

Lemma LxM_commit_usage : LxM commit_usage.
Proof.
  intros s. unfold wp, commit_usage. eapply Lx_cons; [reflexivity|]. intros c f b tx H. discriminate.
Qed.

Lemma LxM_send c f : P c -> LxM (send c f).
Proof.
  intros Hc s. unfold wp, send. eapply Lx_cons; [reflexivity|].
  intros c' f' b tx H. inversion H; subst. exact Hc.
Qed.

Lemma LxM_get_conn c : LxM (get_conn c).
Proof. intros s. apply Lx_refl. Qed.

Lemma LxM_set_conn c cs : LxM (set_conn c cs).
Proof. intros s. apply Lx_same; reflexivity. Qed.

Lemma LxM_add_sub a m c : LxM (add_sub a m c).
Proof.
  intros s. unfold wp, add_sub. destruct (existsb (sub_is a m c) (subs s));
    apply Lx_same; reflexivity.
Qed.

Lemma LxM_remove_sub a m c : LxM (remove_sub a m c).
Proof. intros s. apply Lx_same; reflexivity. Qed.

Lemma LxM_stop_listeners a m : LxM (stop_listeners a m).
Proof. intros s. apply Lx_same; reflexivity. Qed.

Lemma LxM_send_each c l : P c -> LxM (send_each c l).
Proof.
  intros Hc. induction l as [|r l IH]; cbn [send_each]; [apply LxM_ret|].
  apply LxM_bind; [apply LxM_send; exact Hc|intros _; exact IH].
Qed.

End LogCalc.

Lemma LxM_send_all l f : LxM (fun _ => True) (send_all l f).
Proof.
  induction l as [|c l IH]; cbn [send_all]; [apply LxM_ret|].
  apply LxM_bind; [apply LxM_send; exact I|intros _; exact IH].
Qed.

(** symbolic execution with the log calculus *)
Create HintDb lxdb.
Ltac lx_step :=
  lazymatch goal with
  | |- LxM _ (bind _ _) => apply LxM_bind; [|intros ?]
  | |- LxM _ (ret _) => apply LxM_ret
  | |- LxM _ (raise _) => apply LxM_raise
  | |- LxM _ (try_catch _ _) => apply LxM_try_catch; [|intros ?]
  | |- LxM _ get => apply LxM_get
  | |- LxM _ (q _) => apply LxM_q
  | |- LxM _ (tx _) => apply LxM_tx
  | |- LxM _ (utx _) => apply LxM_utx
  | |- LxM _ commit_chan => apply LxM_commit_chan
  | |- LxM _ commit_usage => apply LxM_commit_usage
  | |- LxM _ (send _ _) => apply LxM_send; assumption
  | |- LxM _ (send_each _ _) => apply LxM_send_each; assumption
  | |- LxM _ (get_conn _) => apply LxM_get_conn
  | |- LxM _ (set_conn _ _) => apply LxM_set_conn
  | |- LxM _ (add_sub _ _ _) => apply LxM_add_sub
  | |- LxM _ (remove_sub _ _ _) => apply LxM_remove_sub
  | |- LxM _ (stop_listeners _ _) => apply LxM_stop_listeners
  | |- LxM _ (match ?x with _ => _ end) => destruct x eqn:?
  | |- LxM _ _ => solve [auto with lxdb nocore]
  end.
Ltac lx := repeat lx_step.

(** the server operations send nothing *)
Lemma LxM_open_mailbox P a m side w : LxM P (open_mailbox a m side w).
Proof. unfold open_mailbox. lx. Qed.
#[export] Hint Resolve LxM_open_mailbox : lxdb.

Lemma LxM_claim_nameplate P a n side w draw : LxM P (claim_nameplate a n side w draw).
Proof. unfold claim_nameplate. lx. Qed.
#[export] Hint Resolve LxM_claim_nameplate : lxdb.

Lemma LxM_allocate_nameplate P a side w o draw : LxM P (allocate_nameplate a side w o draw).
Proof. unfold allocate_nameplate. lx. Qed.
#[export] Hint Resolve LxM_allocate_nameplate : lxdb.

Section LxOps.
Variable cfg : config.

Lemma LxM_release_nameplate P a n side w : LxM P (release_nameplate cfg a n side w).
Proof. unfold release_nameplate, write_usage. lx. Qed.

Lemma LxM_mailbox_close P a m side mood w : LxM P (mailbox_close cfg a m side mood w).
Proof. unfold mailbox_close, write_usage. lx. Qed.

Lemma LxM_log_client_version P a side w cv : LxM P (log_client_version cfg a side w cv).
Proof. unfold log_client_version. lx. Qed.

End LxOps.
#[export] Hint Resolve LxM_release_nameplate LxM_mailbox_close LxM_log_client_version : lxdb.

(** the handlers: every frame of a handler other than `add` goes to its own connection *)
Section LxHandlers.
Variable cfg : config.
Variable P : nat -> Prop.
Variable c : nat.
Hypothesis Pc : P c.

Lemma LxM_handle_ping msg : LxM P (handle_ping c msg).
Proof. unfold handle_ping, err. lx. Qed.

Lemma LxM_handle_bind msg : LxM P (handle_bind cfg c msg).
Proof. unfold handle_bind, err. lx. Qed.

Lemma LxM_handle_list a : LxM P (handle_list cfg c a).
Proof. unfold handle_list. lx. Qed.

Lemma LxM_handle_allocate a side o : LxM P (handle_allocate c a side o).
Proof. unfold handle_allocate, err. lx. Qed.

Lemma LxM_handle_claim a side msg o : LxM P (handle_claim c a side msg o).
Proof. unfold handle_claim, err, catch_crowded_reclaimed. lx. Qed.

Lemma LxM_handle_release a side msg : LxM P (handle_release cfg c a side msg).
Proof. unfold handle_release, err. lx. Qed.

Lemma LxM_handle_open a side msg : LxM P (handle_open c a side msg).
Proof. unfold handle_open, err, catch_crowded, get_messages. lx. Qed.

Lemma LxM_handle_close a side msg : LxM P (handle_close cfg c a side msg).
Proof. unfold handle_close, err, catch_crowded. lx. Qed.

Lemma LxM_dispatch_not_add t msg o : t <> TAdd -> LxM P (dispatch cfg c t msg o).
Proof.
  intros Ht. destruct t; unfold dispatch, err;
    first [ apply LxM_handle_ping | apply LxM_handle_bind | idtac ];
    lx;
    first [ apply LxM_handle_list | apply LxM_handle_allocate | apply LxM_handle_claim
          | apply LxM_handle_release | apply LxM_handle_open | apply LxM_handle_close
          | exfalso; apply Ht; reflexivity ].
Qed.

Lemma LxM_on_message_not_add msg o :
  m_type msg <> Some TAdd -> LxM P (on_message cfg c msg o).
Proof.
  intros Ht. unfold on_message. apply LxM_try_catch.
  - destruct (m_type msg) as [t|]; [|unfold err; apply LxM_raise].
    apply LxM_bind; [apply LxM_send; exact Pc|intros _].
    apply LxM_dispatch_not_add. intros ->. apply Ht. reflexivity.
  - intros e. destruct e; lx.
Qed.

End LxHandlers.

Lemma LxM_handle_add c a side msg : LxM (fun _ => True) (handle_add c a side msg).
Proof.
  unfold handle_add, err, add_message. lx. apply LxM_send_all.
Qed.

Lemma LxM_dispatch_any cfg c t msg o : LxM (fun _ => True) (dispatch cfg c t msg o).
Proof.
  destruct (match t with TAdd => true | _ => false end) eqn:E.
  - destruct t; try discriminate. unfold dispatch, err. lx. apply LxM_handle_add.
  - apply LxM_dispatch_not_add; [exact I|]. intros ->. discriminate.
Qed.

(** * Auxiliary: frames of a log *)

Lemma frames_of_In c f l : In (c, f) (frames_of l) -> exists b tx, In (LFrame c f b tx) l.
Proof.
  induction l as [|e l IH]; cbn [frames_of]; [intros []|].
  destruct e as [d|u|c1 f1 b1 t1].
  - intros H. destruct (IH H) as [b [tx Hb]]. exists b, tx. right. exact Hb.
  - intros H. destruct (IH H) as [b [tx Hb]]. exists b, tx. right. exact Hb.
  - intros [H|H].
    + inversion H; subst. exists b1, t1. left. reflexivity.
    + destruct (IH H) as [b [tx Hb]]. exists b, tx. right. exact Hb.
Qed.

Lemma frames_of_rev_snoc l c f b tx :
  frames_of (rev (l ++ [LFrame c f b tx])) = (c, f) :: frames_of (rev l).
Proof. rewrite rev_app_distr. reflexivity. Qed.

Section WithConfig.
Variable cfg : config.
Hypothesis Hexp : 0 < exp cfg.

(** the ledger of mailbox (a, m) over a history: every message added to it
    (LifeFacts.added_msg: a well-formed `add` on a connection holding it, with the
    adder's bound side, phase, body and id as submitted, stamped with the arrival
    time) is appended; the ledger is emptied whenever the mailbox has no row
    after an event (last close, expiry) *)
Fixpoint ledger (s : state) (h : list event) (a m : string) (acc : list msg_row) : list msg_row :=
  match h with
  | [] => acc
  | e :: h' =>
      let s' := fst (step cfg s e) in
      let acc1 := acc ++ filter (mine a m) (added_msg s e) in
      ledger s' h' a m (if has_mb_b (chan_w s') a m then acc1 else [])
  end.

(** ** runs *)

Lemma run_cons_fst s e h :
  fst (run cfg s (e :: h)) = fst (run cfg (fst (step cfg s e)) h).
Proof.
  cbn [run]. destruct (step cfg s e) as [s1 o1]. cbn [fst].
  destruct (run cfg s1 h) as [s2 os]. reflexivity.
Qed.

Lemma step_inv s e :
  SInv s -> SInv (fst (step cfg s e)) /\ log (fst (step cfg s e)) = [].
Proof.
  intros Hs. pose proof (step_spec cfg Hexp s e Hs) as W.
  destruct (step cfg s e) as [s1 o1]. cbn [fst]. destruct W as (H1 & L1 & _).
  split; assumption.
Qed.

Lemma run_inv h : forall s,
  SInv s -> log s = [] -> SInv (fst (run cfg s h)) /\ log (fst (run cfg s h)) = [].
Proof.
  induction h as [|e h IH]; intros s Hs Hl; [split; assumption|].
  rewrite run_cons_fst. destruct (step_inv s e Hs) as [H1 L1]. apply IH; assumption.
Qed.

(** one event: the stored messages of (a, m) afterwards *)
Lemma sel_msgs_event s e a m :
  SInv s -> log s = [] -> not_crash e ->
  let s' := fst (step cfg s e) in
  sel_msgs (chan_w s') a m =
    if has_mb_b (chan_w s') a m
    then sel_msgs (chan_w s) a m ++ filter (mine a m) (added_msg s e) else [].
Proof.
  intros Hs Hl Hnc s'. apply sel_msgs_step.
  - apply si_db. apply (step_inv s e Hs).
  - exact (messages_evolution cfg Hexp s e Hs Hl Hnc).
Qed.

(** C01: after any history without crash events (restarts, sweeps, other apps
    and mailboxes, any connections allowed) the stored messages of (a, m), in
    rowid order, are exactly its ledger *)
Theorem stored_is_ledger h : forall s a m,
  SInv s -> log s = [] -> Forall not_crash h ->
  sel_msgs (chan_w (fst (run cfg s h))) a m = ledger s h a m (sel_msgs (chan_w s) a m).
Proof.
  induction h as [|e h IH]; intros s a m Hs Hl Hh; [reflexivity|].
  inversion Hh as [|e' h' Hnc Hh']; subst.
  rewrite run_cons_fst. cbn [ledger]. cbv zeta.
  destruct (step_inv s e Hs) as [H1 L1].
  rewrite (IH (fst (step cfg s e)) a m H1 L1 Hh').
  f_equal. exact (sel_msgs_event s e a m Hs Hl Hnc).
Qed.

(** the initial database holds no message *)
Lemma init_messages t0 : messages (chan_w (init cfg t0)) = [].
Proof.
  unfold init. rewrite boot_on_eq.
  set (s0 := mkState empty_chan empty_chan empty_usage empty_usage [] [] t0 t0 t0
                     (t0 + period cfg) []).
  pose proof (Fr_expire cfg (fun _ => True) false s0) as W. unfold wp in W.
  destruct (expire cfg false s0) as [u s1|e s1]; cbn [fst chan_w set_log];
    destruct W as [[q Hq] _]; rewrite Hq; reflexivity.
Qed.

(** a command whose handler let an exception escape has lost its connection *)
Lemma step_exc_dropped s c msg o s' ob e :
  step cfg s (EB (ECmd c msg o)) = (s', ob) -> o_exc ob = Some e ->
  lookup_conn c (conns s') = None.
Proof.
  unfold step. cbv zeta. unfold step_b.
  destruct (has_conn c (set_log s [])).
  - destruct (on_message cfg c msg o (set_log s [])) as [u s1|e1 s1]; intros H He;
      inversion H; subst; cbn in He; [discriminate|].
    cbn [conns set_log]. unfold drop_conn.
    destruct (on_close c s1); cbn [conns set_conns]; apply lookup_remove_same.
  - intros H He. inversion H; subst. cbn in He. discriminate.
Qed.

(** ... so a served open replays exactly the ledger of the history so far:
    every message added and not discarded, each once, nothing of any other
    mailbox or app, and nothing at all for a mailbox id that was deleted and is
    opened again *)
Theorem open_replays_ledger t0 h c cs a side msg o m :
  Forall not_crash h ->
  let s := fst (run cfg (init cfg t0) h) in
  lookup_conn c (conns s) = Some cs -> c_bound cs = Some (a, side) ->
  m_type msg = Some TOpen -> erroneous cs msg = false -> m_mailbox msg = Some m ->
  let '(s', ob) := step cfg s (EB (ECmd c msg o)) in
  holds s' c a m ->
  frames_of (o_log ob) =
    (c, FAck (m_id msg)) ::
    map (fun r => (c, msg_frame r)) (msg_sort (ledger (init cfg t0) h a m [])).
Proof.
  intros Hh s Hlk Hb Ht Herr Hm.
  destruct (init_spec cfg Hexp t0) as [Hi Li].
  destruct (run_inv h (init cfg t0) Hi Li) as [Hs Hl]. fold s in Hs, Hl.
  pose proof (open_outcome cfg s c cs a side msg o m Hs Hl Hlk Hb Ht Herr Hm) as W.
  destruct (step cfg s (EB (ECmd c msg o))) as [s' ob] eqn:Est.
  cbv zeta in W. destruct W as [_ W]. intros Hholds.
  destruct W as [(Hx & _)|(_ & _ & [(_ & _ & _ & Hn)|(_ & Hfr & _)])].
  - exfalso. pose proof (step_exc_dropped s c msg o s' ob XIntegrity Est Hx) as Hnone.
    destruct Hholds as [cs' [side' [Hl' _]]]. congruence.
  - exfalso. exact (Hn Hholds).
  - rewrite Hfr. unfold s.
    rewrite (stored_is_ledger h (init cfg t0) a m Hi Li Hh).
    rewrite sel_msgs_mine, init_messages. reflexivity.
Qed.

(** a mailbox that has no row has an empty ledger afterwards: a deleted id starts empty *)
Theorem ledger_reset_when_gone h : forall s a m acc,
  SInv s -> log s = [] -> Forall not_crash h ->
  ~ has_mb (chan_w (fst (run cfg s h))) a m -> h <> [] ->
  ledger s h a m acc = [].
Proof.
  induction h as [|e h IH]; intros s a m acc Hs Hl Hh Hno Hne; [contradiction|].
  inversion Hh as [|e' h' Hnc Hh']; subst.
  rewrite run_cons_fst in Hno. cbn [ledger]. cbv zeta.
  destruct (step_inv s e Hs) as [H1 L1].
  destruct h as [|e2 h2].
  - cbn [run fst] in Hno. apply has_mb_b_false in Hno. rewrite Hno. reflexivity.
  - apply IH; try assumption. discriminate.
Qed.

(** C17: every command carrying a type, on any connection, in any reachable
    state, is answered first by an ack echoing its id *)
Theorem ack_first s c msg o t :
  SInv s -> log s = [] -> has_conn c s = true -> m_type msg = Some t ->
  exists rest, frames_of (o_log (snd (step cfg s (EB (ECmd c msg o))))) =
               (c, FAck (m_id msg)) :: rest.
Proof using cfg Hexp.
  intros Hs Hl Hc Ht. unfold has_conn in Hc.
  destruct (lookup_conn c (conns s)) as [cs|] eqn:Hlk; [clear Hc|discriminate].
  rewrite (step_cmd cfg s c msg o t cs Hlk Ht).
  pose proof (LxM_dispatch_any cfg c t msg o
                (set_log s [LFrame c (FAck (m_id msg)) (is_clean s) (now s)])) as W.
  unfold wp in W.
  destruct (dispatch cfg c t msg o (set_log s [LFrame c (FAck (m_id msg)) (is_clean s) (now s)]))
    as [u s'|e s']; destruct W as [l [El _]]; cbn [log set_log] in El.
  - cbn [snd o_log]. rewrite El. eexists. apply frames_of_rev_snoc.
  - destruct (NpFactsA.drop_conn_frame c s') as [_ [_ Dl]].
    destruct e; cbn [snd o_log]; rewrite ?Dl, El; try (eexists; apply frames_of_rev_snoc).
    rewrite app_comm_cons. eexists. apply frames_of_rev_snoc.
Qed.

(** C17: all frames of a command go to the sender, except `message` frames of an add *)
Theorem frames_only_to_sender s c msg o :
  SInv s -> log s = [] -> has_conn c s = true -> m_type msg <> Some TAdd ->
  forall c' f, In (c', f) (frames_of (o_log (snd (step cfg s (EB (ECmd c msg o)))))) -> c' = c.
Proof using cfg Hexp.
  intros Hs Hl Hc Ht c' f.
  pose proof (LxM_on_message_not_add cfg (fun x => x = c) c eq_refl msg o Ht (set_log s [])) as W.
  unfold wp in W. unfold step. cbv zeta. unfold step_b.
  change (has_conn c (set_log s [])) with (has_conn c s). rewrite Hc.
  destruct (on_message cfg c msg o (set_log s [])) as [u s1|e s1];
    destruct W as [l [El Hl']]; cbn [log set_log] in El; rewrite app_nil_r in El;
    cbn [snd o_log].
  - rewrite El. intros Hin. apply frames_of_In in Hin. destruct Hin as [b [tx Hb]].
    apply in_rev in Hb. exact (Hl' c' f b tx Hb).
  - destruct (NpFactsA.drop_conn_frame c s1) as [_ [_ Dl]]. rewrite Dl, El.
    intros Hin. apply frames_of_In in Hin. destruct Hin as [b [tx Hb]].
    apply in_rev in Hb. exact (Hl' c' f b tx Hb).
Qed.

End WithConfig.
