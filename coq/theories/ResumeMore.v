(** ResumeMore.v -- C10, the parts of the crash model that ResumeFacts.v and
    Prop_C10.v leave open:

    A. the server dies INSIDE the start-up sweep of a restart, at any commit of
       it, any number of times in a row ([boot_crash_chain], [boot_chain_restarts]);
    B. the server stays down for a while: the restart happens at a later time
       than the crash ([boot_after_downtime], [crash_then_downtime]);
    C. what the four resume scenarios of ResumeFacts.v (crash at the k-th commit
       of a claim / release / open / close, then reconnect, bind, re-send) do to
       the USAGE database ([claim_resume_usage], [open_resume_usage],
       [release_resume_usage], [close_resume_usage], and the `_refuted` examples:
       a crash between the usage commit and the final channel commit of a
       retirement writes the retirement records twice; a close re-sent after
       the mailbox is gone records a transient mailbox);
    D. non-vacuity examples for the four resume theorems with k >= 1. *)
From MW Require Import Base Store Monad Usage Server Websocket Service Findings
     Inv StoreFacts Hoare DbFactsA DbFactsB OpFacts ProtoFacts Obs StepFacts SweepFacts
     NpFactsA MbFactsA MbFactsB DupFacts DupFactsLater ResumeFacts Corollaries
     QuiesceFacts UsageCount UsageCount2 RestartUsage.
From MW Require TimeInv.
Local Open Scope list_scope.

(** * A. Sub-databases *)

(** [d'] is [d] with some mailboxes deleted, together with everything that
    hangs on them: every mailbox row of [d'] is a row of [d]; a nameplate, side
    row or message of [d] is in [d'] exactly when its mailbox (its nameplate)
    still is ([SweepFacts.deps]).  No row is changed, none appears. *)
Definition SubDb (d d' : chan_db) : Prop :=
  (forall r, In r (mailboxes d') -> In r (mailboxes d)) /\ deps d d'.

Lemma SubDb_refl d : DbInv d -> SubDb d d.
Proof. intros H. split; [auto|apply deps_refl; exact H]. Qed.

Lemma SubDb_trans d0 d1 d2 : SubDb d0 d1 -> SubDb d1 d2 -> SubDb d0 d2.
Proof.
  intros [A1 A2] [B1 B2]. split; [auto|].
  apply (deps_trans d0 d1 d2 A2 B2). intros m (r & Hr & E). exists r. auto.
Qed.

(** every row of a sub-database is a row of the database *)
Lemma SubDb_rows d d' :
  SubDb d d' ->
  (forall r, In r (nameplates d') -> In r (nameplates d)) /\
  (forall r, In r (np_sides d') -> In r (np_sides d)) /\
  (forall r, In r (mailboxes d') -> In r (mailboxes d)) /\
  (forall r, In r (mb_sides d') -> In r (mb_sides d)) /\
  (forall r, In r (messages d') -> In r (messages d)) /\
  np_seq d' = np_seq d.
Proof.
  intros [M (A1 & A2 & A3 & A4 & A5)].
  split; [intros r H; exact (proj1 (proj1 (A1 r) H))|].
  split; [intros r H; exact (proj1 (proj1 (A2 r) H))|].
  split; [exact M|].
  split; [intros r H; exact (proj1 (proj1 (A3 r) H))|].
  split; [intros r H; exact (proj1 (proj1 (A4 r) H))|exact A5].
Qed.

(** a message (a side row) leaves only together with its mailbox *)
Lemma SubDb_keeps d d' :
  SubDb d d' ->
  (forall x, In x (messages d) -> mb_alive d' (msg_mbox x) -> In x (messages d')) /\
  (forall x, In x (mb_sides d) -> mb_alive d' (mbs_mbox x) -> In x (mb_sides d')) /\
  (forall n, In n (nameplates d) -> mb_alive d' (np_mbox n) -> In n (nameplates d')).
Proof.
  intros [_ (A1 & _ & A3 & A4 & _)].
  split; [intros x H1 H2; apply A4; auto|].
  split; [intros x H1 H2; apply A3; auto|intros x H1 H2; apply A1; auto].
Qed.

Lemma SubDb_times t d d' : SubDb d d' -> TimeInv.db_times_le t d -> TimeInv.db_times_le t d'.
Proof.
  intros H (T1 & T2 & T3 & T4). destruct (SubDb_rows d d' H) as (_ & R2 & R3 & R4 & R5 & _).
  unfold TimeInv.db_times_le. rewrite !Forall_forall in *.
  split; [intros r Hr; apply T1, R3, Hr|]. split; [intros r Hr; apply T2, R2, Hr|].
  split; [intros r Hr; apply T3, R4, Hr|intros r Hr; apply T4, R5, Hr].
Qed.

Section WithConfig.
Variable cfg : config.
Hypothesis Hexp : 0 < exp cfg.

Lemma prune_body_SubDb d a w old :
  DbInv d ->
  exists mo u1 u2 d', prune_body cfg d a w old = TxOk (mo, u1, u2) d' /\ DbInv d' /\ SubDb d d'.
Proof.
  intros Hdb.
  destruct (prune_body_char cfg Hexp d a w old Hdb)
    as (mo & u1 & u2 & d' & E & Hmb & Hnp & Hnps & Hmbs & Hmsg & Hseq).
  exists mo, u1, u2, d'. split; [exact E|].
  destruct (prune_body_ok cfg d a w old Hdb) as (mo' & u1' & u2' & d2 & E' & Hdb' & _).
  assert (d2 = d') by congruence. subst d2.
  split; [exact Hdb'|]. split; [intros r Hr; exact (proj1 (proj1 (Hmb r) Hr))|].
  unfold deps. auto.
Qed.

(** ** the sweep of a server without connections only deletes *)

(** the state moved to a sub-database, and every channel snapshot committed on
    the way is a well-formed sub-database of the starting one *)
Definition sweep_rel (s s' : state) : Prop :=
  subs s' = subs s /\ DbInv (chan_w s') /\ SubDb (chan_w s) (chan_w s') /\
  exists l, log s' = l ++ log s /\
            forall d, In (LCommitChan d) l -> DbInv d /\ SubDb (chan_w s) d.

Lemma sweep_rel_refl s : DbInv (chan_w s) -> sweep_rel s s.
Proof.
  intros H. split; [reflexivity|]. split; [exact H|]. split; [apply SubDb_refl; exact H|].
  exists []. split; [reflexivity|intros d []].
Qed.

Lemma sweep_rel_trans s1 s2 s3 : sweep_rel s1 s2 -> sweep_rel s2 s3 -> sweep_rel s1 s3.
Proof.
  intros (A1 & A2 & A3 & l1 & A4 & A5) (B1 & B2 & B3 & l2 & B4 & B5).
  split; [congruence|]. split; [exact B2|]. split; [eapply SubDb_trans; eassumption|].
  exists (l2 ++ l1). split; [rewrite B4, A4; apply app_assoc|].
  intros d Hd. apply in_app_or in Hd. destruct Hd as [Hd|Hd]; [|auto].
  destruct (B5 d Hd) as [K1 K2]. split; [exact K1|eapply SubDb_trans; eassumption].
Qed.

Lemma prune_app_sub a w old s :
  subs s = [] -> DbInv (chan_w s) ->
  wp (prune_app cfg a w old) (fun _ s' => sweep_rel s s') (fun _ _ => False) s.
Proof.
  intros Hs Hdb. unfold prune_app. wp_step. wp_step. wp_step. wp_step.
  rewrite Hs. cbn [listened_mailboxes filter map sdedup touch_all].
  wp_step. wp_step. wp_step. wp_step. cbn [chan_w set_chan_w].
  destruct (prune_body_SubDb (chan_w s) a w old Hdb) as (mo & u1 & u2 & d' & E & Hdb' & Hsub).
  rewrite E. cbv beta iota.
  assert (Hfin : forall s', subs s' = subs s -> chan_w s' = d' ->
            (exists l, log s' = l ++ log s /\
                       forall d, In (LCommitChan d) l -> d = chan_w s \/ d = d') ->
            sweep_rel s s').
  { intros s' E1 E2 (l & E3 & Hl). split; [exact E1|]. rewrite E2.
    split; [exact Hdb'|]. split; [exact Hsub|]. exists l. split; [exact E3|].
    intros d Hd. destruct (Hl d Hd) as [-> | ->]; [split; [exact Hdb|apply SubDb_refl; exact Hdb]|auto]. }
  wp_step. destruct mo.
  - destruct (usage_on cfg).
    + unfold write_usage. wp_step. wp_step. wp_step. wp_step. apply Hfin; st_simpl; [reflexivity..|].
      eexists [_; _; _]. split; [reflexivity|]. intros d Hd. cbn [In] in Hd.
      destruct Hd as [Hd|[Hd|[Hd|[]]]]; inversion Hd; auto.
    + wp_step. wp_step. wp_step. wp_step. apply Hfin; st_simpl; [reflexivity..|].
      eexists [_; _]. split; [reflexivity|]. intros d Hd. cbn [In] in Hd.
      destruct Hd as [Hd|[Hd|[]]]; inversion Hd; auto.
  - destruct (usage_on cfg).
    + unfold write_usage. wp_step. wp_step. apply Hfin; st_simpl; [reflexivity..|].
      eexists [_]. split; [reflexivity|]. intros d Hd. cbn [In] in Hd.
      destruct Hd as [Hd|[]]; inversion Hd; auto.
    + wp_step. wp_step. apply Hfin; st_simpl; [reflexivity..|].
      eexists [_]. split; [reflexivity|]. intros d Hd. cbn [In] in Hd.
      destruct Hd as [Hd|[]]; inversion Hd; auto.
Qed.

Lemma prune_apps_sub apps w old : forall s,
  subs s = [] -> DbInv (chan_w s) ->
  wp (prune_apps cfg apps w old) (fun _ s' => sweep_rel s s') (fun _ _ => False) s.
Proof.
  induction apps as [|a rest IH]; intros s Hs Hdb; cbn [prune_apps].
  - wp_step. apply sweep_rel_refl. exact Hdb.
  - wp_step. eapply wp_conseq; [exact (prune_app_sub a w old s Hs Hdb)| |].
    + intros [] s1 R1. cbv beta. destruct R1 as (E1 & D1 & R1).
      eapply wp_conseq; [apply (IH s1); [rewrite E1; exact Hs|exact D1]| |].
      * intros [] s2 R2. eapply sweep_rel_trans; [|exact R2]. split; [exact E1|]. split; assumption.
      * intros e s' [].
    + intros e s' [].
Qed.

Lemma expire_sub s :
  subs s = [] -> DbInv (chan_w s) ->
  wp (expire cfg false) (fun _ s' => sweep_rel s s') (fun _ _ => False) s.
Proof.
  intros Hs Hdb. unfold expire. wp_step. wp_step. wp_step. wp_step.
  unfold prune_all_apps. wp_step. wp_step.
  eapply wp_conseq; [apply (prune_apps_sub _ (now s) (now s - exp cfg) s Hs Hdb)| |].
  - intros [] s1 R1. cbv beta. unfold dump_stats.
    destruct (usage_on cfg).
    + wp_step. wp_step. wp_step. wp_step. wp_step.
      eapply sweep_rel_trans; [exact R1|].
      destruct R1 as (E1 & D1 & _). split; [reflexivity|]. split; [exact D1|].
      split; [apply SubDb_refl; exact D1|]. st_simpl. eexists [_]. split; [reflexivity|].
      intros d [Hd|[]]. discriminate.
    + wp_step. exact R1.
  - intros e s' [].
Qed.

(** ** the start-up sweep, with the snapshots it commits *)

Theorem boot_on_sub c u t :
  DbInv c ->
  let '(s1, bl, x) := boot_on cfg c u t in
  SubDb c (chan_w s1) /\ chan_c s1 = chan_w s1 /\
  forall d, In (LCommitChan d) bl -> DbInv d /\ SubDb c d.
Proof.
  intros Hdb. pose proof (boot_on_spec cfg Hexp c u t Hdb) as B. rewrite boot_on_eq in *.
  set (s0 := mkState c c u u [] [] t t t (t + period cfg) []) in *.
  pose proof (expire_sub s0 eq_refl Hdb) as W. unfold wp in W.
  destruct (expire cfg false s0) as [[] s'|e s']; [|destruct W].
  destruct B as (B1 & _). destruct W as (_ & _ & W3 & l & W4 & W5).
  split; [exact W3|]. split; [destruct (si_clean _ B1) as [K _]; symmetry; exact K|].
  intros d Hd. apply in_rev in Hd. rewrite W4, app_nil_r in Hd. exact (W5 d Hd).
Qed.

(** * A. The server dies inside the start-up sweep *)

(** the files left when the process, started at time [t] on the files
    [(c, u)], dies right after the [k]-th commit of its start-up sweep (the
    whole sweep if it commits fewer than [k] times) -- computed from the boot
    log exactly as [Service.step] computes the files a crashed event leaves *)
Definition boot_crash (c : chan_db) (u : usage_db) (t : Z) (k : nat) : chan_db * usage_db :=
  replay_commits (log_prefix k (snd (fst (boot_on cfg c u t)))) c u.

Theorem boot_crash_chain c u t k :
  DbInv c -> DbInv (fst (boot_crash c u t k)) /\ SubDb c (fst (boot_crash c u t k)).
Proof.
  intros Hdb. unfold boot_crash. pose proof (boot_on_sub c u t Hdb) as B.
  destruct (boot_on cfg c u t) as [[s1 bl] x]. cbn [fst snd]. destruct B as (_ & _ & B).
  destruct (replay_in bl k c u) as [-> |H].
  - split; [exact Hdb|apply SubDb_refl; exact Hdb].
  - exact (B _ H).
Qed.

(** any number of such deaths in a row: [(t, k)] = started at [t], died after
    the [k]-th commit of that start-up sweep *)
Fixpoint boot_chain (c : chan_db) (u : usage_db) (l : list (Z * nat)) : chan_db * usage_db :=
  match l with
  | [] => (c, u)
  | (t, k) :: l' => let '(c', u') := boot_crash c u t k in boot_chain c' u' l'
  end.

Lemma boot_chain_sub l : forall c u,
  DbInv c -> DbInv (fst (boot_chain c u l)) /\ SubDb c (fst (boot_chain c u l)).
Proof.
  induction l as [|[t k] l IH]; intros c u Hdb; cbn [boot_chain].
  - split; [exact Hdb|apply SubDb_refl; exact Hdb].
  - destruct (boot_crash_chain c u t k Hdb) as [H1 H2].
    destruct (boot_crash c u t k) as [c' u']. cbn [fst] in *.
    destruct (IH c' u' H1) as [H3 H4]. split; [exact H3|eapply SubDb_trans; eassumption].
Qed.

(** ... and the next start completes: the files every link of the chain
    leaves satisfy the hypothesis of [boot_on_spec] again *)
Theorem boot_chain_restarts c u l t :
  DbInv c ->
  let '(c', u') := boot_chain c u l in
  DbInv c' /\ SubDb c c' /\
  let '(s1, bl, x) := boot_on cfg c' u' t in
  SInv s1 /\ log s1 = [] /\ conns s1 = [] /\ subs s1 = [] /\ Forall entry_ok bl /\ x = None /\
  SubDb c (chan_w s1) /\ chan_c s1 = chan_w s1.
Proof.
  intros Hdb. destruct (boot_chain_sub l c u Hdb) as [H1 H2].
  destruct (boot_chain c u l) as [c' u']. cbn [fst] in *.
  split; [exact H1|]. split; [exact H2|].
  pose proof (boot_on_spec cfg Hexp c' u' t H1) as B. pose proof (boot_on_sub c' u' t H1) as S.
  destruct (boot_on cfg c' u' t) as [[s1 bl] x].
  destruct B as (B1 & B2 & B3 & B4 & B5 & B6). destruct S as (S1 & S2 & _).
  repeat (split; [assumption|]). split; [eapply SubDb_trans; eassumption|exact S2].
Qed.

(** * B. Downtime: the restart happens later than the crash *)

(** the files and the clock a crash inside event [b] (right after its [k]-th
    commit) leaves -- exactly what [Service.step] boots on, at once *)
Definition crash_files (s : state) (k : nat) (b : bevent) : chan_db * usage_db * Z :=
  let s0 := set_log s [] in
  let '(s1, valid, x) := step_b cfg s0 b in
  let full := rev (log s1) in
  if (count_commits full <? k)%nat || negb valid then (chan_c s1, usage_c s1, now s1)
  else let '(c, u) := replay_commits (log_prefix k full) (chan_c s0) (usage_c s0) in
       (c, u, now s1).

Lemma crash_is_boot s k b :
  let '(c, u, t) := crash_files s k b in
  fst (step cfg s (ECrash k b)) = fst (fst (boot_on cfg c u t)).
Proof.
  unfold crash_files, step. cbv zeta.
  destruct (step_b cfg (set_log s []) b) as [[s1 valid] x].
  destruct ((count_commits (rev (log s1)) <? k)%nat || negb valid).
  - destruct (boot_on cfg (chan_c s1) (usage_c s1) (now s1)) as [[s2 bl] x2]. reflexivity.
  - destruct (replay_commits (log_prefix k (rev (log s1))) (chan_c (set_log s []))
                (usage_c (set_log s []))) as [c u].
    destruct (boot_on cfg c u (now s1)) as [[s2 bl] x2]. reflexivity.
Qed.

(** they satisfy the hypothesis of [boot_on_spec]; no stored time is later
    than the clock at the crash, and the clock has not gone back *)
Theorem crash_files_spec s k b :
  SInv s ->
  let '(c, u, t) := crash_files s k b in
  DbInv c /\ now s <= t /\ (TimeInv.time_ok s -> TimeInv.db_times_le t c).
Proof.
  intros Hs. unfold crash_files. cbv zeta. set (s0 := set_log s []).
  assert (H0 : HInv s0) by (split; [apply (SInv_same s); auto|constructor]).
  assert (Hc0 : DbInv (chan_c s0)).
  { destruct (si_clean s Hs) as [K _]. cbn [chan_c s0 set_log]. rewrite <- K. apply (si_db s Hs). }
  pose proof (step_b_spec cfg Hexp s0 b H0) as W.
  assert (HT : forall bb, TimeInv.TI bb (now s) s ->
            TimeInv.TI bb (now (fst (fst (step_b cfg s0 b)))) (fst (fst (step_b cfg s0 b))) /\
            now s <= now (fst (fst (step_b cfg s0 b)))).
  { intros bb Hb. apply (TimeInv.step_b_TI cfg bb s0 b). apply TimeInv.set_log_nil_TI. exact Hb. }
  destruct (step_b cfg s0 b) as [[s1 valid] x]. cbn [fst] in HT.
  destruct W as ([Hs1 L1] & _ & _).
  pose proof (proj2 (HT false (TimeInv.TI_false s))) as Hle.
  destruct ((count_commits (rev (log s1)) <? k)%nat || negb valid).
  - split; [destruct (si_clean s1 Hs1) as [K _]; rewrite <- K; apply (si_db s1 Hs1)|].
    split; [exact Hle|]. intros Ht.
    destruct (HT true (proj1 (TimeInv.time_ok_TI s) Ht)) as [[H1 _] _].
    exact (proj1 (proj2 (H1 eq_refl))).
  - assert (Hfull : Forall entry_ok (rev (log s1))) by (apply Forall_rev_ok; exact L1).
    pose proof (log_prefix_ok _ Hfull k) as Hpre.
    pose proof (replay_commits_DbInv _ (chan_c s0) (usage_c s0) Hpre Hc0) as Hc.
    assert (Hti : TimeInv.time_ok s -> TimeInv.db_times_le (now s1)
              (fst (replay_commits (log_prefix k (rev (log s1))) (chan_c s0) (usage_c s0)))).
    { intros Ht. destruct (HT true (proj1 (TimeInv.time_ok_TI s) Ht)) as [[H1 _] _].
      destruct (H1 eq_refl) as (_ & _ & Hl). apply TimeInv.replay_le.
      - apply TimeInv.log_prefix_Forall. apply Forall_rev. exact Hl.
      - eapply TimeInv.db_times_le_mono; [exact Hle|]. exact (proj1 (proj2 Ht)). }
    destruct (replay_commits (log_prefix k (rev (log s1))) (chan_c s0) (usage_c s0)) as [c u].
    cbn [fst] in *. split; [exact Hc|]. split; [exact Hle|exact Hti].
Qed.

Hypothesis Hperiod : 0 < period cfg.

(** starting at ANY later time [t'] on files that are well-formed and carry no
    time after [t']: the start-up sweep completes, the state satisfies the
    master invariant with no pending write, the timer is armed, no stored time
    is in the future -- the hypotheses of every per-event theorem
    ([step_spec], [internal_error_causes]) and of [store_returns_to_empty] *)
Theorem boot_after_downtime c u t' :
  DbInv c -> TimeInv.db_times_le t' c ->
  let '(s', bl, x) := boot_on cfg c u t' in
  SInv s' /\ log s' = [] /\ conns s' = [] /\ subs s' = [] /\ Forall entry_ok bl /\ x = None /\
  now s' = t' /\ TimeInv.time_ok s' /\ timer_inv cfg s' /\
  SubDb c (chan_w s') /\ chan_c s' = chan_w s'.
Proof.
  intros Hdb Ht. pose proof (boot_on_spec cfg Hexp c u t' Hdb) as B.
  pose proof (boot_on_sub c u t' Hdb) as S.
  pose proof (TimeInv.boot_on_TI cfg true c u t' (fun _ => Ht)) as T.
  pose proof (boot_on_timer cfg Hperiod c u t') as Tm.
  destruct (boot_on cfg c u t') as [[s' bl] x]. cbn [fst] in *.
  destruct B as (B1 & B2 & B3 & B4 & B5 & B6). destruct S as (S1 & S2 & _).
  repeat (split; [assumption|]).
  destruct (TimeInv.TI_self _ _ _ T) as [T1 T2].
  split; [symmetry; exact T2|]. split; [apply TimeInv.time_ok_TI; exact T1|].
  split; [exact Tm|]. split; assumption.
Qed.

(** the crash of any event at any commit, then any number of deaths inside
    start-up sweeps (at any times), then -- after any downtime -- a start at
    [t' >= ] the time of the crash: the server is up in a good state, answers
    every later event without internal error (known findings apart), and the
    store returns to empty once nobody comes back *)
Theorem crash_then_downtime s k b l t' :
  SInv s -> TimeInv.time_ok s ->
  let '(c, u, t) := crash_files s k b in
  t <= t' ->
  let '(c', u') := boot_chain c u l in
  let '(s', bl, x) := boot_on cfg c' u' t' in
  (SInv s' /\ log s' = [] /\ conns s' = [] /\ Forall entry_ok bl /\ x = None /\ now s' = t' /\
   SubDb c (chan_w s') /\ chan_c s' = chan_w s') /\
  (forall e o ex, snd (step cfg s' e) = o -> o_exc o = Some ex ->
     exists k c msg ora, (e = EB (ECmd c msg ora) \/ e = ECrash k (ECmd c msg ora)) /\
       (kf1_trigger s' c msg \/ id_collision s' ora \/ kf3_cmd s' c msg ora = true \/
        ex = XOracle)) /\
  (forall l1 l2,
     Forall (fun p => 0 <= fst p) l1 ->
     Forall (fun p => 0 <= fst p /\ snd p = false) l2 ->
     exp cfg <= zsum (map fst l1) -> period cfg <= zsum (map fst l2) ->
     let s'' := fst (run cfg s' (advances (l1 ++ l2))) in
     chan_empty (chan_w s'') /\ chan_c s'' = chan_w s'' /\ conns s'' = []).
Proof.
  intros Hs Ht. pose proof (crash_files_spec s k b Hs) as F.
  destruct (crash_files s k b) as [[c u] t]. destruct F as (F1 & F2 & F3).
  intros Hle. destruct (boot_chain_sub l c u F1) as [C1 C2].
  destruct (boot_chain c u l) as [c' u']. cbn [fst] in *.
  assert (Tc : TimeInv.db_times_le t' c').
  { apply (SubDb_times t' c c' C2). eapply TimeInv.db_times_le_mono; [exact Hle|exact (F3 Ht)]. }
  pose proof (boot_after_downtime c' u' t' C1 Tc) as B.
  destruct (boot_on cfg c' u' t') as [[s' bl] x].
  destruct B as (B1 & B2 & B3 & B4 & B5 & B6 & B7 & B8 & B9 & B10 & B11).
  split; [|split].
  - repeat (split; [assumption|]). split; [eapply SubDb_trans; eassumption|exact B11].
  - intros e o ex. apply (internal_error_causes cfg Hexp). exact B1.
  - intros l1 l2 H1 H2 H3 H4.
    apply (store_returns_to_empty cfg Hexp Hperiod); assumption.
Qed.

End WithConfig.

(** * C. The usage database over crash + re-send *)

(** ** logs, commits, replay *)

Definition commits (l : list log_entry) : list log_entry := filter is_commit l.

Lemma log_prefix_0 l : log_prefix 0 l = [].
Proof. destruct l; reflexivity. Qed.

Lemma replay_prefix_commits l : forall k c u,
  replay_commits (log_prefix k l) c u = replay_commits (log_prefix k (commits l)) c u.
Proof.
  induction l as [|x l IH]; intros k c u; [reflexivity|].
  destruct k as [|k]; [rewrite !log_prefix_0; reflexivity|]. unfold commits. cbn [log_prefix filter].
  destruct x as [d|u'|c0 f b tx]; cbn [is_commit log_prefix replay_commits].
  - apply IH.
  - apply IH.
  - exact (IH (S k) c u).
Qed.

Lemma log_prefix_all l : forall k, (List.length l <= k)%nat -> log_prefix k l = l.
Proof.
  induction l as [|x l IH]; intros k Hk; destruct k as [|k]; cbn [log_prefix]; try reflexivity.
  - cbn in Hk. lia.
  - cbn [List.length] in Hk. destruct (is_commit x); f_equal; apply IH; lia.
Qed.

Lemma replay_all_commits l c u : replay_commits l c u = replay_commits (commits l) c u.
Proof.
  pose proof (replay_prefix_commits l (List.length l) c u) as H.
  rewrite (log_prefix_all l), (log_prefix_all (commits l)) in H; [exact H| |lia].
  unfold commits. clear. induction l as [|x l IH]; cbn [filter List.length]; [lia|].
  destruct (is_commit x); cbn [List.length]; lia.
Qed.

Lemma filter_rev {A} (p : A -> bool) l : filter p (rev l) = rev (filter p l).
Proof.
  induction l as [|x l IH]; [reflexivity|]. cbn [rev filter].
  rewrite filter_app, IH. cbn [filter]. destruct (p x); [reflexivity|apply app_nil_r].
Qed.

(** the files a crash right after the [k]-th commit of a log leaves, when the
    whole log replays to the final committed state: the replay of the first [k]
    commits, for EVERY [k] (beyond the last commit: the final state) *)
Definition files_at (T : list log_entry) (c : chan_db) (u : usage_db) (k : nat)
  : chan_db * usage_db := replay_commits (log_prefix k T) c u.

Lemma log_prefix_firstn T : forall k,
  (forall x, In x T -> is_commit x = true) -> log_prefix k T = firstn k T.
Proof.
  induction T as [|x T IH]; intros k H; destruct k as [|k]; cbn [log_prefix firstn]; try reflexivity.
  rewrite (H x (or_introl eq_refl)). f_equal. apply IH. intros y Hy. apply H. right. exact Hy.
Qed.

Ltac all_commits :=
  let x := fresh "x" in let Hx := fresh "Hx" in
  intros x Hx; cbn [app In] in Hx;
  repeat (destruct Hx as [<-|Hx]; [reflexivity|]); destruct Hx.

Lemma files_at_commits l c u k : files_at l c u k = files_at (commits l) c u k.
Proof. apply replay_prefix_commits. Qed.

Lemma files_at_late T c u k : (List.length T < k)%nat -> files_at T c u k = replay_commits T c u.
Proof. intros H. unfold files_at. rewrite log_prefix_all; [reflexivity|lia]. Qed.

Section UsageResume.
Variable cfg : config.
Hypothesis Hexp : 0 < exp cfg.

(** ** the start-up sweep of the restarted server and the usage database *)

(** the status row written by the start-up sweep's dump_stats at time [t]
    (rebooted = updated = t, no connection) *)
Definition boot_usage (u : usage_db) (t : Z) : usage_db :=
  if usage_on cfg then uset_current u (mkUCur t t (blur cfg) 0) else u.

Definition idle_post_u (s s' : state) : Prop :=
  chan_w s' = chan_w s /\ subs s' = subs s /\ now s' = now s /\ boot s' = boot s /\
  usage_w s' = usage_w s /\ usage_c s' = usage_c s.

Lemma prune_app_idle_u a when old s :
  subs s = [] -> old_mailboxes (chan_w s) a old = [] ->
  wp (prune_app cfg a when old) (fun _ s' => idle_post_u s s') (fun _ _ => False) s.
Proof.
  intros Hs Ho. unfold prune_app. wp_step. wp_step. wp_step. wp_step.
  rewrite Hs. cbn [listened_mailboxes filter map sdedup touch_all].
  wp_step. wp_step. wp_step. wp_step. cbn [chan_w set_chan_w].
  rewrite (prune_body_idle cfg _ a when old Ho). cbv beta iota.
  unfold idle_post_u.
  destruct (usage_on cfg).
  - unfold write_usage. wp_step. wp_step. wp_step. cbn. auto 10.
  - wp_step. wp_step. wp_step. cbn. auto 10.
Qed.

Lemma prune_apps_idle_u apps when old : forall s,
  subs s = [] -> (forall a, old_mailboxes (chan_w s) a old = []) ->
  wp (prune_apps cfg apps when old) (fun _ s' => idle_post_u s s') (fun _ _ => False) s.
Proof.
  induction apps as [|a rest IH]; intros s Hs Ho; cbn [prune_apps].
  - wp_step. unfold idle_post_u. auto 10.
  - wp_step. eapply wp_conseq; [exact (prune_app_idle_u a when old s Hs (Ho a))| |].
    + intros [] s1 (E1 & E2 & E3 & E4 & E5 & E6). cbv beta.
      eapply wp_conseq; [apply (IH s1)| |].
      * rewrite E2. exact Hs.
      * intros a'. rewrite E1. apply Ho.
      * intros [] s2 (F1 & F2 & F3 & F4 & F5 & F6). unfold idle_post_u.
        repeat split; congruence.
      * intros e s' [].
    + intros e s' [].
Qed.

Lemma expire_idle_u s :
  subs s = [] -> young (exp cfg) (now s) (chan_w s) ->
  wp (expire cfg false)
     (fun _ s' => chan_w s' = chan_w s /\
        usage_w s' = (if usage_on cfg
                      then uset_current (usage_w s) (mkUCur (boot s) (now s) (blur cfg) 0)
                      else usage_w s) /\
        usage_c s' = (if usage_on cfg then usage_w s' else usage_c s))
     (fun _ _ => False) s.
Proof.
  intros Hs Hy. unfold expire. wp_step. wp_step. wp_step. wp_step.
  unfold prune_all_apps. wp_step. wp_step.
  eapply wp_conseq; [apply (prune_apps_idle_u _ (now s) (now s - exp cfg) s Hs)| |].
  - intros a. apply (old_mailboxes_young cfg). exact Hy.
  - intros [] s1 (E1 & E2 & E3 & E4 & E5 & E6). cbv beta. unfold dump_stats.
    destruct (usage_on cfg).
    + wp_step. wp_step. wp_step. wp_step. wp_step. st_simpl. rewrite E2, Hs, E5.
      split; [exact E1|]. split; reflexivity.
    + wp_step. auto.
  - intros e s' [].
Qed.

Lemma boot_on_idle_u c u t :
  DbInv c -> young (exp cfg) t c ->
  let s1 := fst (fst (boot_on cfg c u t)) in
  SInv s1 /\ log s1 = [] /\ conns s1 = [] /\ subs s1 = [] /\ chan_w s1 = c /\ now s1 = t /\
  usage_w s1 = boot_usage u t /\ usage_c s1 = boot_usage u t.
Proof.
  intros Hdb Hy. pose proof (boot_on_idle cfg Hexp c u t Hdb Hy) as B. cbv zeta in *.
  destruct B as (B1 & B2 & B3 & B4 & B5 & B6).
  repeat (split; [assumption|]).
  rewrite boot_on_eq in *.
  set (s0 := mkState c c u u [] [] t t t (t + period cfg) []) in *.
  pose proof (expire_idle_u s0 eq_refl Hy) as W. unfold wp in W.
  destruct (expire cfg false s0) as [[] s'|e s']; [|destruct W].
  cbn [fst usage_w usage_c set_log]. destruct W as (_ & W2 & W3).
  unfold boot_usage. cbn [usage_w usage_c boot now s0] in W2, W3.
  destruct (usage_on cfg); [|split; assumption]. rewrite W3, W2. split; reflexivity.
Qed.

(** ** the state after a crash inside a command, files included *)

(** the files the crash at the [k]-th commit of command [msg] leaves *)
Definition cmd_files (s : state) (c : nat) (msg : command) (o : oracle) (k : nat)
  : chan_db * usage_db :=
  files_at (o_log (snd (step cfg s (EB (ECmd c msg o))))) (chan_w s) (usage_w s) k.

Lemma count_commits_length l : count_commits l = List.length (commits l).
Proof. reflexivity. Qed.

Lemma log_prefix_late l : forall k, (count_commits l < k)%nat -> log_prefix k l = l.
Proof.
  induction l as [|x l IH]; intros k Hk; destruct k as [|k]; cbn [log_prefix]; try reflexivity.
  - lia.
  - unfold count_commits in *. cbn [filter] in Hk.
    destruct (is_commit x); cbn [List.length] in Hk; f_equal; apply IH; lia.
Qed.

Lemma crash_state_u s c cs msg o k :
  SInv s -> log s = [] -> lookup_conn c (conns s) = Some cs ->
  let s1 := fst (step cfg s (EB (ECmd c msg o))) in
  let ob := snd (step cfg s (EB (ECmd c msg o))) in
  let sk := fst (step cfg s (ECrash k (ECmd c msg o))) in
  (* the log replays to the final state *)
  replay_commits (o_log ob) (chan_w s) (usage_w s) = (chan_w s1, usage_w s1) ->
  young (exp cfg) (now s) (chan_w s) ->
  (forall d, In (LCommitChan d) (o_log ob) -> young (exp cfg) (now s) d) ->
  SInv sk /\ log sk = [] /\ conns sk = [] /\ subs sk = [] /\ now sk = now s /\
  chan_w sk = fst (cmd_files s c msg o k) /\
  usage_w sk = boot_usage (snd (cmd_files s c msg o k)) (now s) /\ usage_c sk = usage_w sk.
Proof.
  intros Hs Hlog Hl s1 ob sk Hrep Hy0 Hyl.
  pose proof (step_spec cfg Hexp s (EB (ECmd c msg o)) Hs) as Spec.
  unfold cmd_files. fold ob. subst s1 ob sk. revert Hrep Hyl Spec.
  unfold step. rewrite (set_log_nil s Hlog).
  destruct (step_b_cmd_facts cfg s c cs msg o Hl) as (s1' & x & Eb & Hnow). rewrite Eb.
  cbn [fst snd o_log chan_w usage_w set_log]. intros Hrep Hyl (S1 & _ & Lok & _).
  cbn [o_log] in Lok.
  destruct (si_clean _ Hs) as [Hcw Hcu]. rewrite <- Hcw, <- Hcu.
  cbn [negb orb]. rewrite orb_false_r.
  assert (Hfiles : (if (count_commits (rev (log s1')) <? k)%nat
                    then (chan_c s1', usage_c s1')
                    else replay_commits (log_prefix k (rev (log s1'))) (chan_w s) (usage_w s)) =
                   files_at (rev (log s1')) (chan_w s) (usage_w s) k).
  { unfold files_at. destruct (count_commits (rev (log s1')) <? k)%nat eqn:E; [|reflexivity].
    apply Nat.ltb_lt in E. rewrite (log_prefix_late _ _ E), Hrep.
    destruct (si_clean _ S1) as [K1 K2]. cbn [chan_w chan_c usage_w usage_c set_log] in K1, K2.
    rewrite K1, K2. reflexivity. }
  assert (Hck : let ck := fst (files_at (rev (log s1')) (chan_w s) (usage_w s) k) in
                DbInv ck /\ young (exp cfg) (now s) ck).
  { cbv zeta. unfold files_at.
    destruct (replay_in (rev (log s1')) k (chan_w s) (usage_w s)) as [-> |R].
    - split; [exact (si_db _ Hs)|exact Hy0].
    - split; [exact (proj1 (Forall_forall _ _) Lok _ R)|exact (Hyl _ R)]. }
  cbv zeta in Hck. destruct Hck as [Hdbk Hyk].
  destruct (count_commits (rev (log s1')) <? k)%nat.
  - rewrite <- Hfiles in *. cbn [fst snd] in *.
    pose proof (boot_on_idle_u (chan_c s1') (usage_c s1') (now s1')) as B. rewrite Hnow in *.
    specialize (B Hdbk Hyk). cbv zeta in B.
    destruct (boot_on cfg (chan_c s1') (usage_c s1') (now s)) as [[s2 bl] x2]. cbn [fst] in *.
    destruct B as (B1 & B2 & B3 & B4 & B5 & B6 & B7 & B8).
    repeat (split; [assumption|]). congruence.
  - destruct (replay_commits (log_prefix k (rev (log s1'))) (chan_w s) (usage_w s)) as [c0 u0].
    rewrite <- Hfiles in *. cbn [fst snd] in *.
    pose proof (boot_on_idle_u c0 u0 (now s1')) as B. rewrite Hnow in *.
    specialize (B Hdbk Hyk). cbv zeta in B.
    destruct (boot_on cfg c0 u0 (now s)) as [[s2 bl] x2]. cbn [fst] in *.
    destruct B as (B1 & B2 & B3 & B4 & B5 & B6 & B7 & B8).
    repeat (split; [assumption|]). congruence.
Qed.

(** ** the duplicate (connect, bind, re-send, disconnect) and the usage database *)

Lemma step_cmd_usame s c msg o :
  m_type msg <> Some TBind -> m_type msg <> Some TRelease -> m_type msg <> Some TClose ->
  usame s (fst (step cfg s (EB (ECmd c msg o)))).
Proof.
  intros Hb Hr Hc. unfold step, step_b.
  change (has_conn c (set_log s [])) with (has_conn c s).
  destruct (has_conn c s); [|split; reflexivity].
  pose proof (upres_on_message cfg c msg o Hb Hr Hc (set_log s [])) as H.
  destruct (on_message cfg c msg o (set_log s [])) as [[] s'|e s']; cbn [fst].
  - exact H.
  - destruct (drop_conn_usage c s') as [Dw Dc]. destruct H as [Hw Hcc].
    split; cbn [usage_w usage_c set_log] in *; congruence.
Qed.

Lemma step_disconnect_usame s c : usame s (fst (step cfg s (EB (EDisconnect c)))).
Proof.
  unfold step, step_b. change (has_conn c (set_log s [])) with (has_conn c s).
  destruct (has_conn c s); [|split; reflexivity]. cbn [fst].
  destruct (drop_conn_usage c (set_log s [])) as [Dw Dc]. split; assumption.
Qed.

(** on a freshly started server: the state [s2] in which the re-sent command
    arrives, and what is left to look at *)
Lemma dup_usage_run sk c' a side cmd o :
  SInv sk -> log sk = [] -> conns sk = [] ->
  exists s2,
    SInv s2 /\ log s2 = [] /\ chan_w s2 = chan_w sk /\ subs s2 = subs sk /\ now s2 = now sk /\
    lookup_conn c' (conns s2) = Some (set_bound new_conn (Some (a, side))) /\
    usage_w s2 = dup_usage cfg (usage_w sk) a side (now sk) /\ usage_c s2 = usage_w s2 /\
    let s3 := fst (step cfg s2 (EB (ECmd c' cmd o))) in
    let s4 := fst (run cfg sk (dup_events c' a side cmd o)) in
    usage_w s4 = usage_w s3 /\ usage_c s4 = usage_c s3.
Proof.
  intros HS Hlog Hc.
  assert (Hno : has_conn c' sk = false) by (unfold has_conn; rewrite Hc; reflexivity).
  pose proof (step_connect cfg sk c' Hno) as E1.
  set (s1 := set_log (set_conns sk (conns sk ++ [(c', new_conn)])) []) in *.
  assert (HS1 : SInv s1 /\ log s1 = []).
  { pose proof (step_SInv cfg Hexp sk (EB (EConnect c')) HS) as H. rewrite E1 in H. exact H. }
  assert (Hl1 : lookup_conn c' (conns s1) = Some new_conn).
  { unfold s1. cbn [conns set_log set_conns]. rewrite Hc. cbn. rewrite Nat.eqb_refl. reflexivity. }
  assert (Hu1 : usage_c s1 = usage_w s1).
  { destruct (si_clean _ HS) as [_ K]. symmetry. exact K. }
  destruct (step_bind_u cfg s1 c' a side Hl1 Hu1)
    as (s2 & o2 & E2 & Hw & Hcc & Hs & Hcn & Hk & Hlg & Hu2 & Hu3).
  exists s2.
  pose proof (step_SInv cfg Hexp s1 (EB (ECmd c' (bind_cmd a side) no_oracle)) (proj1 HS1)) as H2.
  rewrite E2 in H2. cbn [fst] in H2.
  destruct (clk_inv _ _ Hk) as (Hn & _).
  split; [exact (proj1 H2)|]. split; [exact Hlg|]. split; [exact Hw|]. split; [exact Hs|].
  split; [exact Hn|].
  split. { rewrite Hcn. unfold s1. cbn [conns set_log set_conns]. rewrite Hc. cbn.
           rewrite Nat.eqb_refl. cbn. rewrite Nat.eqb_refl. reflexivity. }
  split; [exact Hu2|]. split; [exact Hu3|]. cbv zeta.
  unfold dup_events. rewrite run_cons_fst, E1. cbn [fst]. rewrite run_cons_fst, E2. cbn [fst].
  rewrite run_cons_fst, run_cons_fst. cbn [run fst].
  exact (step_disconnect_usame (fst (step cfg s2 (EB (ECmd c' cmd o)))) c').
Qed.

(** ** claim and open write no usage record: exact commit lists *)

Lemma claim_step_trace s c cs a side n cmd o npid mbox d1 d2 :
  lookup_conn c (conns s) = Some cs -> c_bound cs = Some (a, side) -> c_did_claim cs = false ->
  m_type cmd = Some TClaim -> m_nameplate cmd = Some n ->
  claim_body (chan_w s) a n side (now s) (o_draw o) = TxOk (npid, mbox) d1 ->
  open_body d1 a mbox side (now s) = TxOk tt d2 ->
  (List.length (sel_mbs_all d2 mbox) <= 2)%nat -> (List.length (sel_nps_all d2 npid) <= 2)%nat ->
  let s3 := fst (step cfg s (EB (ECmd c cmd o))) in
  let o3 := snd (step cfg s (EB (ECmd c cmd o))) in
  commits (o_log o3) = [LCommitChan d1; LCommitChan d2; LCommitChan d2] /\
  chan_w s3 = d2 /\ usage_w s3 = usage_w s /\ usage_c s3 = usage_c s.
Proof.
  intros Hl Hb Hdc Ht Hn Ecb Eob L1 L2.
  rewrite (step_cmd cfg s c cmd o TClaim cs Hl Ht).
  set (s0 := set_log s [LFrame c (FAck (m_id cmd)) (is_clean s) (now s)]).
  rewrite (dispatch_bound cfg c TClaim cmd o s0 a side)
    by (try discriminate; unfold conn_of, s0; cbn [conns set_log]; rewrite Hl; exact Hb).
  rewrite (handle_claim_eval c a side cmd o n s0 cs npid mbox d1 d2 Hl Hn Hdc Ecb Eob).
  rewrite (le2_ltb _ L1), (le2_ltb _ L2). cbn [orb]. cbv zeta.
  cbn [fst snd chan_w chan_c usage_w usage_c subs conns now timer_start next_due log set_log
       claimed_state claim_conn set_conns o_log o_exc s0 rev app commits filter is_commit].
  auto.
Qed.

Lemma commits_frames {A} (g : A -> log_entry) l :
  (forall x, is_commit (g x) = false) -> commits (map g l) = [].
Proof.
  intros H. unfold commits. induction l as [|x l IH]; cbn [map filter]; [reflexivity|].
  rewrite H. exact IH.
Qed.

Lemma open_step_trace s c cs a side m cmd o d' :
  lookup_conn c (conns s) = Some cs -> c_bound cs = Some (a, side) -> c_mailbox cs = None ->
  m_type cmd = Some TOpen -> m_mailbox cmd = Some m ->
  open_body (chan_w s) a m side (now s) = TxOk tt d' ->
  (List.length (sel_mbs_all d' m) <= 2)%nat ->
  existsb (sub_is a m c) (subs s) = false ->
  let s3 := fst (step cfg s (EB (ECmd c cmd o))) in
  let o3 := snd (step cfg s (EB (ECmd c cmd o))) in
  commits (o_log o3) = [LCommitChan d'; LCommitChan d'] /\
  chan_w s3 = d' /\ usage_w s3 = usage_w s /\ usage_c s3 = usage_c s.
Proof.
  intros Hl Hb Hmb Ht Hm Eob Hle Hns.
  apply le2_ltb in Hle.
  rewrite (step_cmd cfg s c cmd o TOpen cs Hl Ht).
  set (s0 := set_log s [LFrame c (FAck (m_id cmd)) (is_clean s) (now s)]).
  rewrite (dispatch_bound cfg c TOpen cmd o s0 a side)
    by (try discriminate; unfold conn_of, s0; cbn [conns set_log]; rewrite Hl; exact Hb).
  unfold handle_open. rewrite bind_get_conn. unfold conn_of.
  change (conns s0) with (conns s). rewrite Hl, Hmb, Hm.
  set (cs1 := set_mailbox_id cs (Some m)).
  set (s1 := set_conns s0 (update_conn c cs1 (conns s0))).
  rewrite (bind_ok _ _ s0 tt s1) by reflexivity.
  rewrite bind_get.
  set (s2 := mkState d' d' (usage_w s1) (usage_c s1) (subs s1) (conns s1) (now s1) (boot s1)
                     (timer_start s1) (next_due s1) (LCommitChan d' :: LCommitChan d' :: log s1)).
  assert (E2 : catch_crowded (open_mailbox a m side (now s1)) s1 = Ok tt s2).
  { unfold catch_crowded, try_catch. rewrite open_mailbox_eval.
    change (chan_w s1) with (chan_w s). change (now s1) with (now s). rewrite Eob.
    cbv zeta. rewrite Hle. reflexivity. }
  rewrite (bind_ok _ _ s1 tt s2 E2).
  assert (Hl1 : lookup_conn c (conns s1) = Some cs1).
  { unfold s1. cbn [conns set_conns]. eapply lookup_upd_same. exact Hl. }
  rewrite bind_get_conn. unfold conn_of. change (conns s2) with (conns s1). rewrite Hl1.
  set (cs2 := set_listening (set_mailbox cs1 (Some m)) true).
  set (s3 := set_conns s2 (update_conn c cs2 (conns s2))).
  rewrite (bind_ok _ _ s2 tt s3) by reflexivity.
  set (s4 := set_subs s3 (subs s3 ++ [(a, m, c)])).
  assert (Hsub : add_sub a m c s3 = Ok tt s4).
  { unfold add_sub. change (subs s3) with (subs s). rewrite Hns. reflexivity. }
  rewrite (bind_ok _ _ s3 tt s4 Hsub).
  rewrite (bind_ok _ _ s4 (msg_sort (sel_msgs d' a m)) s4) by reflexivity.
  rewrite send_each_eval. cbv zeta. cbn [fst snd o_log]. st_simpl.
  split; [|split; [reflexivity|split; reflexivity]].
  unfold commits. rewrite filter_rev, filter_app, filter_rev.
  fold (commits (map (fun r => LFrame c (msg_frame r) (is_clean s4) (now s4))
                     (msg_sort (sel_msgs d' a m)))).
  rewrite commits_frames by reflexivity.
  unfold s4, s3, s2, s1, s0. st_simpl. reflexivity.
Qed.

Lemma files_at_chan_only T c u k :
  (forall x, In x (commits T) -> exists d, x = LCommitChan d) -> snd (files_at T c u k) = u.
Proof.
  rewrite files_at_commits. unfold files_at. generalize (commits T). clear T.
  intros l. revert k c. induction l as [|x l IH]; intros k c H.
  - destruct k; reflexivity.
  - destruct k as [|k]; [reflexivity|].
    destruct (H x (or_introl eq_refl)) as [d ->]. cbn [log_prefix is_commit replay_commits].
    apply IH. intros y Hy. apply H. right. exact Hy.
Qed.

Lemma in_commits x l : In x (commits l) <-> In x l /\ is_commit x = true.
Proof. unfold commits. apply filter_In. Qed.

(** a command that writes no usage record, crashed at any commit and re-sent:
    the usage database is the original one plus the restart's status row and
    the duplicate's client-version row *)
Lemma resume_usage_nowrite s c cs a side msg o k c' :
  SInv s -> log s = [] -> nothing_expirable cfg s -> lookup_conn c (conns s) = Some cs ->
  m_type msg <> Some TBind -> m_type msg <> Some TRelease -> m_type msg <> Some TClose ->
  let s1 := fst (step cfg s (EB (ECmd c msg o))) in
  let ob := snd (step cfg s (EB (ECmd c msg o))) in
  replay_commits (o_log ob) (chan_w s) (usage_w s) = (chan_w s1, usage_w s1) ->
  (forall x, In x (commits (o_log ob)) ->
     exists d, x = LCommitChan d /\ young (exp cfg) (now s) d) ->
  let sk := fst (step cfg s (ECrash k (ECmd c msg o))) in
  let s2 := fst (run cfg sk (dup_events c' a side msg o)) in
  usage_w s2 = dup_usage cfg (boot_usage (usage_w s) (now s)) a side (now s) /\
  usage_c s2 = usage_w s2.
Proof.
  intros HS Hlog Hne Hl Hb Hr Hc s1 ob Hrep Hcm sk s2.
  assert (Hyl : forall d, In (LCommitChan d) (o_log ob) -> young (exp cfg) (now s) d).
  { intros d Hd. destruct (Hcm (LCommitChan d)) as (d0 & E & Hy); [apply in_commits; auto|].
    inversion E. subst d0. exact Hy. }
  destruct (crash_state_u s c cs msg o k HS Hlog Hl Hrep Hne Hyl)
    as (Sk & Lk & Ck & _ & Nk & _ & Uk & Uck).
  fold sk in Sk, Lk, Ck, Nk, Uk, Uck.
  unfold cmd_files in Uk. fold ob in Uk. rewrite files_at_chan_only in Uk.
  2:{ intros x Hx. destruct (Hcm x Hx) as (d & E & _). exists d. exact E. }
  destruct (dup_usage_run sk c' a side msg o Sk Lk Ck)
    as (s2' & _ & _ & _ & _ & _ & _ & U2 & Uc2 & U4 & Uc4).
  destruct (step_cmd_usame s2' c' msg o Hb Hr Hc) as [U3 Uc3].
  fold s2 in U4, Uc4. rewrite U4, Uc4, U3, Uc3, Uc2, U2, Uk, Nk. split; reflexivity.
Qed.

Theorem claim_resume_usage s c cs a side msg o n mbox k c' :
  SInv s -> log s = [] -> nothing_expirable cfg s ->
  lookup_conn c (conns s) = Some cs -> c_bound cs = Some (a, side) ->
  m_type msg = Some TClaim -> erroneous cs msg = false -> m_nameplate msg = Some n ->
  In (c, FClaimed mbox) (frames_of (o_log (snd (step cfg s (EB (ECmd c msg o)))))) ->
  let s1 := fst (step cfg s (EB (ECmd c msg o))) in
  let sk := fst (step cfg s (ECrash k (ECmd c msg o))) in
  let s2 := fst (run cfg sk (dup_events c' a side msg o)) in
  usage_w s1 = usage_w s /\
  usage_w s2 = dup_usage cfg (boot_usage (usage_w s1) (now s)) a side (now s) /\
  usage_c s2 = usage_w s2.
Proof.
  intros HS Hlog Hne Hl Hb Ht Herr Hn Hfr s1 sk s2.
  destruct (claim_orig cfg s c cs a side msg o n mbox HS Hlog Hl Hb Ht Herr Hn Hfr)
    as (np & d1 & Hdc & Ecb & Hmx & Hdb1 & Hnp1 & Hh1 & Eob & L1 & L2).
  subst mbox. set (t := now s) in *. set (d2 := open_db d1 a (np_mbox np) side t) in *.
  destruct (claim_step_trace s c cs a side n msg o (np_id np) (np_mbox np) d1 d2
              Hl Hb Hdc Ht Hn Ecb Eob L1 L2) as (Tr & Hw3 & Hu3 & _).
  fold s1 in Hw3, Hu3.
  assert (Hy0 : young (exp cfg) t (chan_w s)) by exact Hne.
  assert (Hy1 : young (exp cfg) t d1) by exact (claim_body_young _ _ _ _ _ _ _ _ _ Hexp Hy0 Ecb).
  assert (Hy2 : young (exp cfg) t d2) by exact (open_db_young _ _ _ _ _ _ Hexp Hy1).
  split; [exact Hu3|]. rewrite Hu3.
  apply (resume_usage_nowrite s c cs a side msg o k c' HS Hlog Hne Hl);
    try (rewrite Ht; discriminate).
  - rewrite replay_all_commits, Tr. cbn [replay_commits]. fold s1. rewrite Hw3, Hu3. reflexivity.
  - rewrite Tr. intros x [<-|[<-|[<-|[]]]]; eexists; split; try reflexivity; assumption.
Qed.

Theorem open_resume_usage s c cs a side msg o m k c' :
  SInv s -> log s = [] -> nothing_expirable cfg s ->
  lookup_conn c (conns s) = Some cs -> c_bound cs = Some (a, side) ->
  m_type msg = Some TOpen -> erroneous cs msg = false -> m_mailbox msg = Some m ->
  holds (fst (step cfg s (EB (ECmd c msg o)))) c a m ->
  let s1 := fst (step cfg s (EB (ECmd c msg o))) in
  let sk := fst (step cfg s (ECrash k (ECmd c msg o))) in
  let s2 := fst (run cfg sk (dup_events c' a side msg o)) in
  usage_w s1 = usage_w s /\
  usage_w s2 = dup_usage cfg (boot_usage (usage_w s1) (now s)) a side (now s) /\
  usage_c s2 = usage_w s2.
Proof.
  intros HS Hlog Hne Hl Hb Ht Herr Hm Hh s1 sk s2.
  assert (Hmb : c_mailbox cs = None).
  { unfold erroneous in Herr. rewrite Ht, Hb in Herr.
    destruct (c_mailbox cs); [discriminate|reflexivity]. }
  set (t := now s) in *. set (d' := open_db (chan_w s) a m side t).
  assert (Eok : open_body (chan_w s) a m side t = TxOk tt d' /\
                (List.length (sel_mbs_all d' m) <= 2)%nat).
  { pose proof (open_not_held cfg s c cs a side m msg o Hl Hb Hmb Ht Hm) as Hnot. fold t in Hnot.
    destruct (open_body_eval (chan_w s) a m side t) as [[Ef _]|Eok].
    - exfalso. rewrite Ef in Hnot. exact (Hnot I a m Hh).
    - split; [exact Eok|]. rewrite Eok in Hnot. fold d' in Hnot.
      destruct (2 <? List.length (sel_mbs_all d' m))%nat eqn:Ecr.
      + exfalso. exact (Hnot eq_refl a m Hh).
      + apply Nat.ltb_ge. exact Ecr. }
  destruct Eok as [Eok Hle].
  destruct (open_step_trace s c cs a side m msg o d' Hl Hb Hmb Ht Hm Eok Hle
              (no_sub_idle s c cs a m HS Hl Hmb)) as (Tr & Hw3 & Hu3 & _).
  fold s1 in Hw3, Hu3.
  assert (Hy0 : young (exp cfg) t (chan_w s)) by exact Hne.
  assert (Hy1 : young (exp cfg) t d') by exact (open_db_young _ _ _ _ _ _ Hexp Hy0).
  split; [exact Hu3|]. rewrite Hu3.
  apply (resume_usage_nowrite s c cs a side msg o k c' HS Hlog Hne Hl);
    try (rewrite Ht; discriminate).
  - rewrite replay_all_commits, Tr. cbn [replay_commits]. fold s1. rewrite Hw3, Hu3. reflexivity.
  - rewrite Tr. intros x [<-|[<-|[]]]; eexists; split; try reflexivity; assumption.
Qed.

(** ** release: the exact commit sequence *)

(** mark (commit), then -- when nobody else claims the nameplate -- delete,
    record (usage commit, with a usage database), commit *)
Definition rel_shape (a n side : string) (s s' : state) : Prop :=
  match release_mark_body (chan_w s) a n side with
  | None => commits (log s') = commits (log s) /\ chan_w s' = chan_w s /\
            usage_w s' = usage_w s /\ usage_c s' = usage_c s
  | Some (npid, dm) =>
      (commits (log s') = LCommitChan dm :: commits (log s) /\ chan_w s' = dm /\
       usage_w s' = usage_w s /\ usage_c s' = usage_c s) \/
      (commits (log s') =
         LCommitChan (chan_w s') ::
         (if usage_on cfg then [LCommitUsage (usage_w s')] else []) ++
         LCommitChan dm :: commits (log s) /\
       chan_w s' = rm_np dm npid /\
       (if usage_on cfg then usage_c s' = usage_w s'
        else usage_w s' = usage_w s /\ usage_c s' = usage_c s))
  end.

Lemma release_nameplate_shape a n side when s :
  DbInv (chan_w s) ->
  wp (release_nameplate cfg a n side when)
     (fun _ s' => rel_shape a n side s s' /\ conns s' = conns s /\ now s' = now s /\
                  exists l, log s' = l ++ log s /\ forall c f b t, ~ In (LFrame c f b t) l)
     (fun _ _ => False) s.
Proof.
  intros Hdb. unfold release_nameplate, rel_shape. wp_step. wp_step.
  destruct (release_mark_body (chan_w s) a n side) as [[npid d1]|] eqn:Erm.
  - destruct (release_mark_body_ok _ _ _ _ _ _ Hdb Erm) as (Hdb1 & _ & Hex1).
    cbv beta iota. wp_step. wp_step. wp_step. wp_step. cbn [chan_w set_chan_w].
    destruct (release_delete_body_ok cfg d1 a npid when Hdb1 Hex1) as (r & d' & E & _).
    rewrite E. apply release_delete_body_res in E.
    destruct r as [unps|]; cbv beta iota.
    + destruct E as [(_ & Hne & _)|(_ & _ & ->)]; [congruence|].
      wp_step. destruct (usage_on cfg).
      * unfold write_usage. wp_step. wp_step. wp_step. wp_step. st_simpl.
        split; [right; cbn [commits filter is_commit app]; auto|].
        split; [reflexivity|]. split; [reflexivity|].
        eexists [_; _; _]. split; [reflexivity|]. intros c f b t Hin. cbn [In] in Hin.
        destruct Hin as [H|[H|[H|[]]]]; discriminate.
      * wp_step. wp_step. st_simpl.
        split; [right; cbn [commits filter is_commit app]; auto|].
        split; [reflexivity|]. split; [reflexivity|].
        eexists [_; _]. split; [reflexivity|]. intros c f b t Hin. cbn [In] in Hin.
        destruct Hin as [H|[H|[]]]; discriminate.
    + destruct E as [(_ & _ & ->)|(_ & Hne & _)]; [|congruence].
      wp_step. st_simpl.
      split; [left; cbn [commits filter is_commit]; auto|].
      split; [reflexivity|]. split; [reflexivity|].
      eexists [_]. split; [reflexivity|]. intros c f b t Hin. cbn [In] in Hin.
      destruct Hin as [H|[]]; discriminate.
  - cbv beta iota. wp_step. rewrite set_chan_w_same.
    split; [auto|]. split; [reflexivity|]. split; [reflexivity|].
    exists []. split; [reflexivity|]. intros c f b t [].
Qed.

(** the commits of a release command and what it leaves *)
Definition rel_step_shape (D : chan_db) (U : usage_db) (a n side : string)
           (T : list log_entry) (D1 : chan_db) (U1 : usage_db) : Prop :=
  match release_mark_body D a n side with
  | None => T = [] /\ D1 = D /\ U1 = U
  | Some (npid, dm) =>
      (T = [LCommitChan dm] /\ D1 = dm /\ U1 = U) \/
      (T = LCommitChan dm :: (if usage_on cfg then [LCommitUsage U1] else []) ++ [LCommitChan D1] /\
       D1 = rm_np dm npid /\ (usage_on cfg = false -> U1 = U))
  end.

Lemma release_step_shape s c cs a side n cmd o :
  DbInv (chan_w s) ->
  lookup_conn c (conns s) = Some cs -> c_bound cs = Some (a, side) ->
  c_did_release cs = false -> name_mismatch (m_nameplate cmd) (c_nameplate_id cs) = false ->
  m_type cmd = Some TRelease -> m_nameplate cmd = Some n ->
  let s3 := fst (step cfg s (EB (ECmd c cmd o))) in
  let o3 := snd (step cfg s (EB (ECmd c cmd o))) in
  rel_step_shape (chan_w s) (usage_w s) a n side (commits (o_log o3)) (chan_w s3) (usage_w s3).
Proof.
  intros Hdb Hl Hb Hdr Hnm Ht Hn.
  rewrite (step_cmd cfg s c cmd o TRelease cs Hl Ht).
  set (s0 := set_log s [LFrame c (FAck (m_id cmd)) (is_clean s) (now s)]).
  rewrite (dispatch_bound cfg c TRelease cmd o s0 a side)
    by (try discriminate; unfold conn_of, s0; cbn [conns set_log]; rewrite Hl; exact Hb).
  unfold handle_release. rewrite bind_get_conn. unfold conn_of.
  change (conns s0) with (conns s). rewrite Hl, Hdr, Hn.
  assert (Hname : match c_nameplate_id cs with
                  | Some n' => if seqb n n' then ret n else err
                  | None => ret n
                  end = (ret n : M string)).
  { unfold name_mismatch in Hnm. rewrite Hn in Hnm. destruct (c_nameplate_id cs) as [n'|]; [|reflexivity].
    apply negb_false_iff in Hnm. rewrite Hnm. reflexivity. }
  rewrite Hname. rewrite bind_ret.
  set (s1 := set_conns s0 (update_conn c (set_did_release cs true) (conns s0))).
  rewrite (bind_ok _ _ s0 tt s1) by reflexivity.
  rewrite bind_get.
  pose proof (release_nameplate_shape a n side (now s1) s1 Hdb) as W.
  apply wp_elim in W. destruct W as [([] & s2 & E2 & Hsh & _)|(e & s2 & _ & [])].
  rewrite (bind_ok _ _ s1 tt s2 E2). unfold send. cbv zeta. cbn [fst snd o_log]. st_simpl.
  unfold commits. rewrite filter_rev. cbn [filter is_commit]. fold (commits (log s2)).
  unfold rel_shape in Hsh. unfold rel_step_shape.
  change (chan_w s1) with (chan_w s) in Hsh. change (usage_w s1) with (usage_w s) in Hsh.
  change (commits (log s1)) with (@nil log_entry) in Hsh.
  destruct (release_mark_body (chan_w s) a n side) as [[npid dm]|].
  - destruct Hsh as [(H1 & H2 & H3 & _)|(H1 & H2 & H3)].
    + left. rewrite H1. cbn [rev app]. auto.
    + right. rewrite H1. split; [|split; [exact H2|]].
      * destruct (usage_on cfg); cbn [app rev]; reflexivity.
      * intros Hoff. rewrite Hoff in H3. exact (proj1 H3).
  - destruct Hsh as (H1 & H2 & H3 & _). rewrite H1. cbn [rev]. auto.
Qed.

(** ** release: the record, and what the re-sent release finds *)

(** the record a release at database [d], time [t] writes: the summary of the
    nameplate, when this side's row exists and no other side still claims it
    (UsageCount.release_usage); nothing without a usage database *)
Definition release_rec (d : chan_db) (a n side : string) (t : Z) : option u_np_row :=
  if usage_on cfg then
    match sel_np d a n with
    | None => None
    | Some np =>
        match sel_nps d (np_id np) side with
        | None => None
        | Some _ =>
            if existsb (fun r => nps_claimed r && negb (seqb (nps_side r) side))
                       (sel_nps_all d (np_id np))
            then None else np_record cfg d t false np
        end
    end
  else None.

Definition add_np (u : usage_db) (r : option u_np_row) : usage_db :=
  match r with Some x => uins_np u x | None => u end.

Lemma add_np_same u r : add_np u r = u -> r = None.
Proof.
  destruct r as [x|]; [|reflexivity]. cbn [add_np]. intros H. exfalso.
  apply (f_equal (fun v => List.length (u_nameplates v))) in H. cbn in H.
  rewrite app_length in H. cbn in H. lia.
Qed.

Lemma add_np_comm u r t a side :
  add_np (dup_usage cfg (boot_usage u t) a side t) r =
  dup_usage cfg (boot_usage (add_np u r) t) a side t.
Proof. unfold dup_usage, boot_usage. destruct (usage_on cfg), r; reflexivity. Qed.

Lemma release_step_usage x c cs a side msg o n :
  SInv x -> log x = [] ->
  lookup_conn c (conns x) = Some cs -> c_bound cs = Some (a, side) ->
  m_type msg = Some TRelease -> erroneous cs msg = false -> m_nameplate msg = Some n ->
  usage_w (fst (step cfg x (EB (ECmd c msg o)))) =
  add_np (usage_w x) (release_rec (chan_w x) a n side (now x)).
Proof.
  intros HS Hlog Hl Hb Ht Herr Hn. unfold release_rec.
  destruct (usage_on cfg) eqn:Hon.
  - assert (Hcn : cmd_nameplate cs msg = Some n) by (unfold cmd_nameplate; rewrite Hn; reflexivity).
    pose proof (release_usage cfg Hexp Hon x c cs a side msg o n HS Hlog Hl Hb Ht Herr Hcn) as R.
    destruct (step cfg x (EB (ECmd c msg o))) as [s' ob]. cbn [fst]. cbv zeta in R.
    destruct R as [_ R].
    destruct (sel_np (chan_w x) a n) as [np|]; [|exact R].
    destruct (sel_nps (chan_w x) (np_id np) side); [|exact R].
    destruct (existsb _ _); [exact R|]. destruct R as (u & -> & ->). reflexivity.
  - assert (Hfl : c_did_release cs = false /\
                  name_mismatch (m_nameplate msg) (c_nameplate_id cs) = false).
    { unfold erroneous in Herr. rewrite Ht, Hb in Herr. apply orb_false_iff in Herr. exact Herr. }
    pose proof (release_step_shape x c cs a side n msg o (si_db x HS) Hl Hb (proj1 Hfl) (proj2 Hfl)
                  Ht Hn) as Sh. cbv zeta in Sh. unfold rel_step_shape in Sh.
    cbn [add_np].
    destruct (release_mark_body (chan_w x) a n side) as [[npid dm]|].
    + destruct Sh as [(_ & _ & H)|(_ & _ & H)]; [exact H|exact (H Hon)].
    + exact (proj2 (proj2 Sh)).
Qed.

(** after the mark the rest of the release writes the same record ... *)
Lemma release_rec_marked d a n side t npid dm :
  release_mark_body d a n side = Some (npid, dm) ->
  release_rec dm a n side t = release_rec d a n side t.
Proof.
  intros Em. destruct (release_mark_body_inv _ _ _ _ _ _ Em) as (np & r & Hnp & Hr & -> & ->).
  unfold release_rec. destruct (usage_on cfg); [|reflexivity].
  set (f := fun r0 : nps_row => if (nps_npid r0 =? np_id np) && seqb (nps_side r0) side
                   then mkNps (nps_npid r0) false (nps_side r0) (nps_added r0) else r0).
  set (dm := upd_nps_release d (np_id np) side).
  assert (Hnp' : sel_np dm a n = Some np) by exact Hnp.
  assert (Hr' : sel_nps dm (np_id np) side = Some (f r)).
  { unfold sel_nps, dm, upd_nps_release. cbn [np_sides set_np_sides].
    apply find_map_same; [|exact Hr]. intros x. unfold f. cbv beta.
    destruct ((nps_npid x =? np_id np) && seqb (nps_side x) side) eqn:E;
      cbn [nps_npid nps_side]; rewrite ?E; reflexivity. }
  assert (Hex : existsb (fun r0 => nps_claimed r0 && negb (seqb (nps_side r0) side))
                        (sel_nps_all dm (np_id np)) =
                existsb (fun r0 => nps_claimed r0 && negb (seqb (nps_side r0) side))
                        (sel_nps_all d (np_id np))).
  { unfold sel_nps_all, dm, upd_nps_release. cbn [np_sides set_np_sides].
    apply existsb_filter_map_same. intros x.
    destruct ((nps_npid x =? np_id np) && seqb (nps_side x) side) eqn:E; [|auto].
    cbn [nps_npid nps_side nps_claimed]. split; [reflexivity|].
    apply andb_true_iff in E. destruct E as [_ E]. rewrite E. cbn. rewrite andb_false_r. reflexivity. }
  rewrite Hnp', Hr', Hnp, Hr, Hex. clear Hex.
  destruct (existsb _ (sel_nps_all d (np_id np))); [reflexivity|].
  unfold np_record. apply summarize_nameplate_added. apply added_after_release.
Qed.

(** ... and once the nameplate is deleted a release writes nothing *)
Lemma release_rec_deleted d a n side t npid dm :
  DbInv d -> release_mark_body d a n side = Some (npid, dm) ->
  release_rec (rm_np dm npid) a n side t = None.
Proof.
  intros Hdb Em. destruct (release_mark_body_inv _ _ _ _ _ _ Em) as (np & r & Hnp & Hr & -> & ->).
  unfold release_rec. destruct (usage_on cfg); [|reflexivity].
  assert (E : sel_np (rm_np (upd_nps_release d (np_id np) side) (np_id np)) a n = None).
  { apply sel_np_none. intros x Hx [Ea En]. unfold rm_np in Hx. cbn [nameplates] in Hx.
    apply filter_In in Hx. destruct Hx as [Hx Hid].
    destruct (sel_np_some _ _ _ _ Hnp) as (Hin & Ea' & En').
    assert (x = np) by (apply (np_unique d); auto; congruence). subst x.
    rewrite Z.eqb_refl in Hid. discriminate. }
  rewrite E. reflexivity.
Qed.

Lemma young_rm_np e t d i : young e t d -> young e t (rm_np d i).
Proof. apply young_same. reflexivity. Qed.

(** release, crashed at its k-th commit and re-sent: the usage database is the
    uncrashed one plus the restart's status row and the duplicate's
    client-version row -- and, when the crash fell between the usage commit and
    the deleting channel commit (k = 2) of a release that retires the
    nameplate, the retirement record A SECOND TIME *)
Theorem release_resume_usage s c cs a side msg o n k c' :
  SInv s -> log s = [] -> nothing_expirable cfg s ->
  lookup_conn c (conns s) = Some cs -> c_bound cs = Some (a, side) ->
  m_type msg = Some TRelease -> erroneous cs msg = false -> m_nameplate msg = Some n ->
  let s1 := fst (step cfg s (EB (ECmd c msg o))) in
  let sk := fst (step cfg s (ECrash k (ECmd c msg o))) in
  let s2 := fst (run cfg sk (dup_events c' a side msg o)) in
  let rec := release_rec (chan_w s) a n side (now s) in
  usage_w s1 = add_np (usage_w s) rec /\
  usage_w s2 = dup_usage cfg (boot_usage (add_np (usage_w s1)
                                            (if (k =? 2)%nat then rec else None)) (now s))
                         a side (now s) /\
  usage_c s2 = usage_w s2.
Proof.
  intros HS Hlog Hne Hl Hb Ht Herr Hn s1 sk s2 rec.
  assert (Hfl : c_did_release cs = false /\
                name_mismatch (m_nameplate msg) (c_nameplate_id cs) = false).
  { unfold erroneous in Herr. rewrite Ht, Hb in Herr. apply orb_false_iff in Herr. exact Herr. }
  destruct Hfl as [Hdr Hnm].
  set (t := now s) in *. set (D := chan_w s) in *. set (U := usage_w s) in *.
  pose proof (release_step_shape s c cs a side n msg o (si_db s HS) Hl Hb Hdr Hnm Ht Hn) as Sh.
  pose proof (release_step_usage s c cs a side msg o n HS Hlog Hl Hb Ht Herr Hn) as Hu1.
  cbv zeta in Sh. fold s1 D U t rec in Sh, Hu1.
  set (ob := snd (step cfg s (EB (ECmd c msg o)))) in *.
  set (T := commits (o_log ob)) in *.
  split; [exact Hu1|].
  assert (Hy0 : young (exp cfg) t D) by exact Hne.
  (* the log replays to the final state; every snapshot is young *)
  assert (Hrep : replay_commits T D U = (chan_w s1, usage_w s1) /\
                 forall d, In (LCommitChan d) T -> young (exp cfg) t d).
  { unfold rel_step_shape in Sh. destruct (release_mark_body D a n side) as [[npid dm]|] eqn:Em.
    - destruct (release_mark_body_inv _ _ _ _ _ _ Em) as (np & r & _ & _ & _ & Edm).
      assert (Hydm : young (exp cfg) t dm)
        by (rewrite Edm; apply (young_same _ _ D); [reflexivity|exact Hy0]).
      destruct Sh as [(-> & -> & ->)|(-> & E2 & E3)].
      + split; [reflexivity|]. intros d [Hd|[]]. inversion Hd. subst. exact Hydm.
      + split.
        * destruct (usage_on cfg); cbn [app replay_commits]; [reflexivity|].
          rewrite (E3 eq_refl). reflexivity.
        * intros d Hd.
          assert (Hd' : d = dm \/ d = chan_w s1).
          { destruct (usage_on cfg); cbn [app In] in Hd.
            - destruct Hd as [Hd|[Hd|[Hd|[]]]]; inversion Hd; auto.
            - destruct Hd as [Hd|[Hd|[]]]; inversion Hd; auto. }
          destruct Hd' as [-> | ->]; [exact Hydm|]. rewrite E2. apply young_rm_np. exact Hydm.
    - destruct Sh as (-> & -> & ->). split; [reflexivity|intros d []]. }
  destruct Hrep as [Hrep Hyl].
  assert (Hrep' : replay_commits (o_log ob) D U = (chan_w s1, usage_w s1))
    by (rewrite replay_all_commits; exact Hrep).
  assert (Hyl' : forall d, In (LCommitChan d) (o_log ob) -> young (exp cfg) t d).
  { intros d Hd. apply Hyl. apply in_commits. auto. }
  destruct (crash_state_u s c cs msg o k HS Hlog Hl Hrep' Hy0 Hyl')
    as (Sk & Lk & Ck & _ & Nk & Wk & Uk & Uck).
  fold sk in Sk, Lk, Ck, Nk, Wk, Uk, Uck. unfold cmd_files in Wk, Uk. fold ob D U in Wk, Uk.
  rewrite files_at_commits in Wk, Uk. fold T in Wk, Uk.
  destruct (dup_usage_run sk c' a side msg o Sk Lk Ck)
    as (s2' & S2 & L2 & W2 & _ & N2 & Hl2 & U2 & Uc2 & U4 & Uc4).
  fold s2 in U4, Uc4.
  assert (Herr2 : erroneous (set_bound new_conn (Some (a, side))) msg = false).
  { unfold erroneous. rewrite Ht, Hn. reflexivity. }
  pose proof (release_step_usage s2' c' _ a side msg o n S2 L2 Hl2 eq_refl Ht Herr2 Hn) as Hu3.
  destruct (step_SInv cfg Hexp s2' (EB (ECmd c' msg o)) S2) as [S3 _].
  destruct (si_clean _ S3) as [_ Hc3].
  split; [|rewrite Uc4, U4; symmetry; exact Hc3].
  rewrite U4, Hu3, U2, W2, N2, Wk, Uk, Nk. fold t.
  rewrite add_np_comm. f_equal. f_equal.
  (* the files at k, case by case *)
  unfold rel_step_shape in Sh. destruct (release_mark_body D a n side) as [[npid dm]|] eqn:Em.
  - destruct Sh as [(ET & E1 & E2)|(ET & E1 & E3)].
    + (* marked, others still claim: no record *)
      rewrite E2 in Hu1. symmetry in Hu1. apply add_np_same in Hu1.
      rewrite ET, E2, Hu1. unfold files_at. rewrite log_prefix_firstn by all_commits.
      destruct k as [|[|[|k]]]; cbn [firstn replay_commits fst snd add_np Nat.eqb];
        rewrite ?firstn_nil; cbn [replay_commits fst snd];
        rewrite ?(release_rec_marked D a n side t npid dm Em); fold rec; rewrite ?Hu1; reflexivity.
    + (* retired *)
      rewrite ET. unfold files_at.
      pose proof (release_rec_marked D a n side t npid dm Em) as F1. fold rec in F1.
      pose proof (release_rec_deleted D a n side t npid dm (si_db s HS) Em) as F2.
      rewrite <- E1 in F2.
      destruct (usage_on cfg) eqn:Hon.
      * rewrite log_prefix_firstn by all_commits.
        destruct k as [|[|[|[|k]]]];
          cbn [app firstn replay_commits fst snd add_np Nat.eqb];
          rewrite ?firstn_nil; cbn [replay_commits fst snd]; rewrite ?F1, ?F2;
          cbn [add_np]; try (rewrite Hu1; reflexivity); reflexivity.
      * assert (Hrn : forall d, release_rec d a n side t = None)
          by (intros d; unfold release_rec; rewrite Hon; reflexivity).
        rewrite (E3 eq_refl). unfold rec. rewrite !Hrn.
        rewrite log_prefix_firstn by all_commits.
        destruct k as [|[|[|k]]];
          cbn [app firstn replay_commits fst snd add_np Nat.eqb];
          rewrite ?firstn_nil; cbn [replay_commits fst snd]; rewrite ?Hrn; reflexivity.
  - destruct Sh as (ET & E1 & E2). rewrite E2 in Hu1. symmetry in Hu1. apply add_np_same in Hu1.
    rewrite ET, E2, Hu1. unfold files_at.
    assert (Hp : forall j, log_prefix j (@nil log_entry) = []) by (intros [|j]; reflexivity).
    rewrite Hp. cbn [replay_commits fst snd]. fold rec. rewrite Hu1.
    destruct (k =? 2)%nat; reflexivity.
Qed.

(** ** without a usage database no command touches the (absent) usage files *)

Lemma upres_stop_listeners a m : upres (stop_listeners a m).
Proof. intros s. unfold stop_listeners. split; reflexivity. Qed.

Lemma upres_on_message_off c msg o : usage_on cfg = false -> upres (on_message cfg c msg o).
Proof.
  intros Hoff.
  assert (Hrel : forall a n side w, upres (release_nameplate cfg a n side w)).
  { intros a n side w. unfold release_nameplate. rewrite Hoff.
    apply upres_bind; [apply upres_tx|]. intros [npid|]; [|apply upres_ret].
    apply upres_bind; [apply upres_commit_chan|]. intros _.
    apply upres_bind; [apply upres_tx|]. intros [unps|]; [|apply upres_ret].
    repeat upres_step. }
  assert (Hclo : forall a m side mood w, upres (mailbox_close cfg a m side mood w)).
  { intros a m side mood w. unfold mailbox_close. rewrite Hoff.
    apply upres_bind; [apply upres_tx|]. intros [f|]; [|apply upres_ret].
    apply upres_bind; [apply upres_commit_chan|]. intros _.
    apply upres_bind; [apply upres_tx|]. intros [[unps umbs]|]; [|apply upres_ret].
    apply upres_bind; [apply upres_ret|]. intros _.
    apply upres_bind; [apply upres_commit_chan|]. intros _. apply upres_stop_listeners. }
  unfold on_message. apply upres_try_catch.
  2:{ intros e. destruct e; try apply upres_raise. apply upres_send. }
  destruct (m_type msg) as [t|]; [|apply upres_err].
  apply upres_bind; [apply upres_send|]. intros _.
  unfold dispatch.
  destruct t; try apply upres_handle_ping;
    try (apply upres_bind; [apply upres_get_conn|]; intros cs;
         destruct (c_bound cs) as [[a side]|]; [|apply upres_err]).
  - (* bind *)
    unfold handle_bind, log_client_version. rewrite Hoff. repeat upres_step.
  - apply upres_handle_list.
  - apply upres_handle_allocate.
  - apply upres_handle_claim.
  - (* release *)
    unfold handle_release. apply upres_bind; [apply upres_get_conn|]. intros cs0.
    destruct (c_did_release cs0); [apply upres_err|].
    apply upres_bind; [repeat upres_step|]. intros n.
    apply upres_bind; [apply upres_set_conn|]. intros _.
    apply upres_bind; [apply upres_get|]. intros st.
    apply upres_bind; [apply Hrel|]. intros _. apply upres_send.
  - apply upres_handle_open.
  - apply upres_handle_add.
  - (* close *)
    unfold handle_close. apply upres_bind; [apply upres_get_conn|]. intros cs0.
    destruct (c_did_close cs0); [apply upres_err|].
    apply upres_bind; [repeat upres_step|]. intros m.
    apply upres_bind; [apply upres_get|]. intros st.
    apply upres_bind.
    { destruct (c_mailbox cs0); [apply upres_ret|].
      apply upres_bind; [apply upres_catch_crowded, upres_open_mailbox|]. intros _.
      repeat upres_step. }
    intros held. apply upres_bind; [apply upres_get_conn|]. intros cs2.
    apply upres_bind; [destruct (c_listening cs2); repeat upres_step|]. intros _.
    apply upres_bind; [apply upres_get_conn|]. intros cs3.
    apply upres_bind; [apply upres_set_conn|]. intros _.
    apply upres_bind; [apply Hclo|]. intros _. repeat upres_step.
  - apply upres_err.
Qed.

Lemma step_usame_off s c msg o :
  usage_on cfg = false -> usame s (fst (step cfg s (EB (ECmd c msg o)))).
Proof.
  intros Hoff. unfold step, step_b.
  change (has_conn c (set_log s [])) with (has_conn c s).
  destruct (has_conn c s); [|split; reflexivity].
  pose proof (upres_on_message_off c msg o Hoff (set_log s [])) as H.
  destruct (on_message cfg c msg o (set_log s [])) as [[] s'|e s']; cbn [fst].
  - exact H.
  - destruct (drop_conn_usage c s') as [Dw Dc]. destruct H as [Hw Hcc].
    split; cbn [usage_w usage_c set_log] in *; congruence.
Qed.

(** ** close: the exact commit sequence *)

Definition close_shape (a h side : string) (mood : option string) (s s' : state) : Prop :=
  match close_mark_body (chan_w s) a h side mood with
  | None => commits (log s') = commits (log s) /\ chan_w s' = chan_w s /\
            usage_w s' = usage_w s /\ usage_c s' = usage_c s
  | Some (f, dm) =>
      if close_deletes (chan_w s) a h side mood
      then commits (log s') =
             LCommitChan (chan_w s') ::
             (if usage_on cfg then [LCommitUsage (usage_w s')] else []) ++
             LCommitChan dm :: commits (log s) /\
           (if usage_on cfg then usage_c s' = usage_w s'
            else usage_w s' = usage_w s /\ usage_c s' = usage_c s)
      else commits (log s') = LCommitChan dm :: commits (log s) /\ chan_w s' = dm /\
           usage_w s' = usage_w s /\ usage_c s' = usage_c s
  end.

Lemma mailbox_close_shape a h side mood when s :
  DbInv (chan_w s) ->
  wp (mailbox_close cfg a h side mood when)
     (fun _ s' => close_shape a h side mood s s') (fun _ _ => False) s.
Proof.
  intros Hdb. unfold close_shape. rewrite close_deletes_unfold.
  unfold mailbox_close. wp_step. wp_step.
  destruct (close_mark_body (chan_w s) a h side mood) as [[f dm]|] eqn:Em; cbv beta iota.
  2:{ wp_step. rewrite set_chan_w_same. auto. }
  destruct (close_mark_body_ok _ _ _ _ _ _ _ Hdb Em) as (Hdbm & _ & _).
  wp_step. wp_step. wp_step. wp_step. st_simpl.
  destruct (close_delete_body_ok cfg dm a h f when Hdbm) as (r & d' & E & _ & _ & Hn & _).
  destruct (existsb mbs_opened (sel_mbs_all dm h)) eqn:Eo; cbn [negb].
  - unfold close_delete_body. cbv zeta. rewrite Eo. wp_step. st_simpl.
    cbn [commits filter is_commit]. auto.
  - assert (Hr : r <> None).
    { unfold close_delete_body in E. cbv zeta in E. rewrite Eo in E.
      destruct (del_nameplates_body cfg dm a (map np_id (sel_np_by_mbox dm h)) when false [])
        as [unps d1|e d1]; [|discriminate].
      destruct (del_mailbox_body cfg d1 a h f (sel_mbs_all dm h) when false) as [umbs d2|e d2];
        [|discriminate].
      inversion E. discriminate. }
    rewrite E. destruct r as [[unps umbs]|]; [|congruence]. cbv beta iota.
    wp_step. destruct (usage_on cfg).
    + unfold write_usage. wp_step. wp_step. wp_step. wp_step. wp_step.
      apply wp_stop_listeners. st_simpl. cbn [commits filter is_commit app]. auto.
    + wp_step. wp_step. wp_step. apply wp_stop_listeners. st_simpl.
      cbn [commits filter is_commit app]. auto.
Qed.

Lemma close_rest_shape c a side mood held when s :
  DbInv (chan_w s) ->
  wp (close_rest cfg c a side mood held when)
     (fun _ s' => close_shape a held side mood s s') (fun _ _ => False) s.
Proof.
  intros Hdb. unfold close_rest. wp_step. wp_step. wp_step. wp_step. wp_step.
  match goal with |- wp _ _ _ ?st => set (s2 := st) end.
  eapply wp_conseq; [exact (mailbox_close_shape a held side mood when s2 Hdb)| |].
  - intros [] s3 H. wp_step. wp_step. wp_step. wp_step. wp_step.
    unfold close_shape in *. st_simpl. cbn [commits filter is_commit].
    change (chan_w s2) with (chan_w s) in H. change (usage_w s2) with (usage_w s) in H.
    change (usage_c s2) with (usage_c s) in H. change (log s2) with (log s) in H.
    exact H.
  - intros e s3 [].
Qed.

(** the commits of a close on the connection that holds the mailbox *)
Definition close_step_shape (D : chan_db) (U : usage_db) (a h side : string) (mood : option string)
           (T : list log_entry) (D1 : chan_db) (U1 : usage_db) : Prop :=
  match close_mark_body D a h side mood with
  | None => T = [] /\ U1 = U
  | Some (f, dm) =>
      if close_deletes D a h side mood
      then T = LCommitChan dm :: (if usage_on cfg then [LCommitUsage U1] else []) ++ [LCommitChan D1] /\
           (usage_on cfg = false -> U1 = U)
      else T = [LCommitChan dm] /\ D1 = dm /\ U1 = U
  end.

Lemma close_held_step_shape s c cs a side msg o h :
  SInv s -> log s = [] ->
  lookup_conn c (conns s) = Some cs -> c_bound cs = Some (a, side) -> c_mailbox cs = Some h ->
  m_type msg = Some TClose -> erroneous cs msg = false ->
  let s3 := fst (step cfg s (EB (ECmd c msg o))) in
  let o3 := snd (step cfg s (EB (ECmd c msg o))) in
  close_step_shape (chan_w s) (usage_w s) a h side (m_mood msg)
                   (commits (o_log o3)) (chan_w s3) (usage_w s3).
Proof.
  intros Hinv Hlog Hl Hb Hmb Ht Herr.
  pose proof (si_conns s Hinv c cs Hl) as Hok. unfold conn_ok in Hok. rewrite Hmb in Hok.
  destruct Hok as (a0 & sd0 & Hb0 & Hlis & Hin). rewrite Hb in Hb0. inversion Hb0; subst a0 sd0.
  assert (Hdc : c_did_close cs = false /\ name_mismatch (m_mailbox msg) (c_mailbox_id cs) = false).
  { unfold erroneous in Herr. rewrite Ht, Hb in Herr. apply orb_false_iff in Herr. exact Herr. }
  destruct Hdc as [Hdc Hnm].
  rewrite (step_cmd cfg s c msg o TClose cs Hl Ht).
  set (s0 := set_log s [LFrame c (FAck (m_id msg)) (is_clean s) (now s)]).
  rewrite (dispatch_bound cfg c TClose msg o s0 a side)
    by (try discriminate; unfold conn_of, s0; cbn [conns set_log]; rewrite Hl; exact Hb).
  rewrite (handle_close_held cfg c a side msg s0 cs h Hl Hdc Hnm Hmb Hlis).
  set (s1 := set_conns (set_subs s0 (filter (fun p => negb (sub_is a h c p)) (subs s0)))
                       (update_conn c (set_listening cs false) (conns s0))).
  pose proof (close_rest_shape c a side (m_mood msg) h (now s0) s1 (si_db s Hinv)) as W.
  apply wp_elim in W. destruct W as [([] & s' & E & Hsh)|(e & s' & _ & [])].
  rewrite E. cbv zeta. cbn [fst snd o_log]. st_simpl.
  unfold commits. rewrite filter_rev. fold (commits (log s')).
  unfold close_shape in Hsh. unfold close_step_shape.
  change (chan_w s1) with (chan_w s) in Hsh. change (usage_w s1) with (usage_w s) in Hsh.
  change (commits (log s1)) with (@nil log_entry) in Hsh.
  destruct (close_mark_body (chan_w s) a h side (m_mood msg)) as [[f dm]|].
  - destruct (close_deletes (chan_w s) a h side (m_mood msg)).
    + destruct Hsh as (H1 & H3). rewrite H1. split.
      * destruct (usage_on cfg); cbn [app rev]; reflexivity.
      * intros Hoff. rewrite Hoff in H3. exact (proj1 H3).
    + destruct Hsh as (H1 & H2 & H3 & _). rewrite H1. cbn [rev app]. auto.
  - destruct Hsh as (H1 & _ & H3 & _). rewrite H1. cbn [rev]. auto.
Qed.

(** ** close: the records *)

Definition somes {A} (l : list (option A)) : list A :=
  flat_map (fun o => match o with Some x => [x] | None => [] end) l.

Lemma somes_map_Some {A} (l : list A) : somes (map Some l) = l.
Proof. induction l as [|x l IH]; [reflexivity|]. cbn. f_equal. exact IH. Qed.

(** the records a close of mailbox [h] by [side] at database [d], time [t]
    writes when it retires the mailbox: one per nameplate pointing at it, and
    the mailbox's, computed after the mood has been recorded
    (UsageCount.close_usage); nothing without a usage database *)
Definition close_recs (d : chan_db) (a h side : string) (mood : option string) (t : Z)
  : list u_np_row * list u_mb_row :=
  if usage_on cfg && close_deletes d a h side mood then
    match sel_mb d a h with
    | Some mbrow => (somes (map (np_record cfg d t false) (sel_np_by_mbox d h)),
                     [mb_record cfg (upd_mbs_close d h side mood) t false mbrow])
    | None => ([], [])
    end
  else ([], []).

Definition add_recs (u : usage_db) (r : list u_np_row * list u_mb_row) : usage_db :=
  fold_left uins_mb (snd r) (fold_left uins_np (fst r) u).

(** the record of a mailbox created and retired inside one (re-sent) close *)
Definition transient_rec (a h side : string) (mood : option string) (t : Z) : u_mb_row :=
  summarize_mailbox (blur cfg) a false [mkMbs h false side t mood] t false.

Lemma fold_uins_np_fields l : forall u,
  u_mailboxes (fold_left uins_np l u) = u_mailboxes u /\
  u_versions (fold_left uins_np l u) = u_versions u /\
  u_current (fold_left uins_np l u) = u_current u /\
  u_nameplates (fold_left uins_np l u) = u_nameplates u ++ l.
Proof.
  induction l as [|x l IH]; intros u; cbn [fold_left].
  - rewrite app_nil_r. auto.
  - destruct (IH (uins_np u x)) as (H1 & H2 & H3 & H4). rewrite H1, H2, H3, H4.
    cbn. rewrite <- app_assoc. auto.
Qed.

Lemma fold_uins_mb_fields l : forall u,
  u_nameplates (fold_left uins_mb l u) = u_nameplates u /\
  u_versions (fold_left uins_mb l u) = u_versions u /\
  u_current (fold_left uins_mb l u) = u_current u /\
  u_mailboxes (fold_left uins_mb l u) = u_mailboxes u ++ l.
Proof.
  induction l as [|x l IH]; intros u; cbn [fold_left].
  - rewrite app_nil_r. auto.
  - destruct (IH (uins_mb u x)) as (H1 & H2 & H3 & H4). rewrite H1, H2, H3, H4.
    cbn. rewrite <- app_assoc. auto.
Qed.

Lemma usage_ext u v :
  u_nameplates u = u_nameplates v -> u_mailboxes u = u_mailboxes v ->
  u_versions u = u_versions v -> u_current u = u_current v -> u = v.
Proof. destruct u, v; cbn; intros; subst; reflexivity. Qed.

Lemma add_recs_fields u r :
  u_nameplates (add_recs u r) = u_nameplates u ++ fst r /\
  u_mailboxes (add_recs u r) = u_mailboxes u ++ snd r /\
  u_versions (add_recs u r) = u_versions u /\ u_current (add_recs u r) = u_current u.
Proof.
  unfold add_recs.
  destruct (fold_uins_mb_fields (snd r) (fold_left uins_np (fst r) u)) as (A1 & A2 & A3 & A4).
  destruct (fold_uins_np_fields (fst r) u) as (B1 & B2 & B3 & B4).
  rewrite A1, A2, A3, A4, B1, B2, B3, B4. auto.
Qed.

Lemma add_recs_comm u r t a side :
  add_recs (dup_usage cfg (boot_usage u t) a side t) r =
  dup_usage cfg (boot_usage (add_recs u r) t) a side t.
Proof.
  apply usage_ext;
    destruct (add_recs_fields (dup_usage cfg (boot_usage u t) a side t) r) as (A1 & A2 & A3 & A4);
    destruct (add_recs_fields u r) as (B1 & B2 & B3 & B4);
    rewrite ?A1, ?A2, ?A3, ?A4; unfold dup_usage, boot_usage;
    destruct (usage_on cfg); cbn; rewrite ?B1, ?B2, ?B3, ?B4; reflexivity.
Qed.

Lemma add_recs_nil u : add_recs u ([], []) = u.
Proof. reflexivity. Qed.

Lemma close_held_step_usage x c cs a side msg o h :
  SInv x -> log x = [] ->
  lookup_conn c (conns x) = Some cs -> c_bound cs = Some (a, side) -> c_mailbox cs = Some h ->
  m_type msg = Some TClose -> erroneous cs msg = false ->
  usage_w (fst (step cfg x (EB (ECmd c msg o)))) =
  add_recs (usage_w x) (close_recs (chan_w x) a h side (m_mood msg) (now x)).
Proof.
  intros HS Hlog Hl Hb Hmb Ht Herr. unfold close_recs.
  destruct (usage_on cfg) eqn:Hon; cbn [andb].
  - pose proof (close_usage cfg Hexp Hon x c cs a side msg o h HS Hlog Hl Hb Hmb Ht Herr) as R.
    destruct (step cfg x (EB (ECmd c msg o))) as [s' ob]. cbn [fst]. cbv zeta in R.
    destruct R as [_ R].
    destruct (close_deletes (chan_w x) a h side (m_mood msg)); [|exact R].
    destruct R as (mbrow & unps & Emb & Emap & ->). rewrite Emb, <- Emap, somes_map_Some.
    reflexivity.
  - exact (proj1 (step_usame_off x c msg o Hon)).
Qed.

Lemma close_fresh_step_usage x c cs a side msg o m :
  SInv x -> log x = [] ->
  lookup_conn c (conns x) = Some cs -> c_bound cs = Some (a, side) -> c_mailbox cs = None ->
  m_type msg = Some TClose -> erroneous cs msg = false -> cmd_mbox cs msg = Some m ->
  o_exc (snd (step cfg x (EB (ECmd c msg o)))) = None ->
  (List.length (sel_mbs_all (open_db (chan_w x) a m side (now x)) m) <= 2)%nat ->
  usage_w (fst (step cfg x (EB (ECmd c msg o)))) =
  add_recs (usage_w x)
           (close_recs (open_db (chan_w x) a m side (now x)) a m side (m_mood msg) (now x)).
Proof.
  intros HS Hlog Hl Hb Hmb Ht Herr Hcm Hexc Hle. unfold close_recs.
  destruct (usage_on cfg) eqn:Hon; cbn [andb].
  - pose proof (close_fresh_usage cfg Hexp Hon x c cs a side msg o m HS Hlog Hl Hb Hmb Ht Herr Hcm)
      as R.
    destruct (step cfg x (EB (ECmd c msg o))) as [s' ob]. cbn [fst snd] in *. cbv zeta in R.
    destruct R as [_ R]. rewrite Hexc in R. apply Nat.leb_le in Hle. rewrite Hle in R.
    cbn [andb] in R.
    destruct (close_deletes (open_db (chan_w x) a m side (now x)) a m side (m_mood msg));
      [|exact R].
    destruct R as (mbrow & unps & Emb & Emap & ->). rewrite Emb, <- Emap, somes_map_Some.
    reflexivity.
  - exact (proj1 (step_usame_off x c msg o Hon)).
Qed.

(** touching the mailbox (what [open_mailbox] does to an existing one) does
    not change the records a close writes *)
Lemma close_recs_touch d a h side mood t w :
  close_recs (upd_touch d h w) a h side mood t = close_recs d a h side mood t.
Proof.
  unfold close_recs. destruct (usage_on cfg); cbn [andb]; [|reflexivity].
  assert (E : sel_mb (upd_touch d h w) a h =
              option_map (fun r => if seqb (mb_id r) h
                                   then mkMb (mb_app r) (mb_id r) w (mb_fornp r) else r)
                         (sel_mb d a h)).
  { unfold sel_mb, upd_touch. cbn [mailboxes set_mailboxes]. apply find_map_comm.
    intros x. cbv beta.
    destruct (seqb (mb_id x) h) eqn:E; cbn [mb_id mb_app]; rewrite ?E; reflexivity. }
  unfold close_deletes. rewrite E.
  change (sel_mbs (upd_touch d h w) h side) with (sel_mbs d h side).
  destruct (sel_mb d a h) as [x|]; cbn [option_map]; [|reflexivity].
  destruct (sel_mbs d h side); [|reflexivity].
  change (sel_mbs_all (upd_mbs_close (upd_touch d h w) h side mood) h)
    with (sel_mbs_all (upd_mbs_close d h side mood) h).
  destruct (negb _); [|reflexivity].
  f_equal. unfold mb_record. destruct (seqb (mb_id x) h); reflexivity.
Qed.

(** after the mark the rest of the close writes the same records *)
Lemma close_recs_marked d a h side mood t r :
  sel_mbs d h side = Some r ->
  close_recs (upd_mbs_close d h side mood) a h side mood t = close_recs d a h side mood t.
Proof.
  intros Er. set (dm := upd_mbs_close d h side mood).
  set (f := fun r : mbs_row => if seqb (mbs_mbox r) h && seqb (mbs_side r) side
                   then mkMbs (mbs_mbox r) false (mbs_side r) (mbs_added r) mood else r).
  assert (Hkey : forall y, (seqb (mbs_mbox (f y)) h && seqb (mbs_side (f y)) side) =
                           (seqb (mbs_mbox y) h && seqb (mbs_side y) side)).
  { intros y. unfold f. destruct (seqb (mbs_mbox y) h && seqb (mbs_side y) side) eqn:E;
      cbn [mbs_mbox mbs_side]; rewrite ?E; reflexivity. }
  assert (Hr' : sel_mbs dm h side = Some (f r)).
  { unfold sel_mbs, dm, upd_mbs_close. cbn [mb_sides set_mb_sides].
    rewrite (find_map_comm _ f); [|exact Hkey]. unfold sel_mbs in Er. rewrite Er. reflexivity. }
  assert (Hidem : upd_mbs_close dm h side mood = dm).
  { apply upd_mbs_close_same. intros y Hy E1 E2.
    unfold dm, upd_mbs_close in Hy. cbn [mb_sides set_mb_sides] in Hy.
    apply in_map_iff in Hy. destruct Hy as (y0 & <- & _).
    destruct (seqb (mbs_mbox y0) h && seqb (mbs_side y0) side) eqn:E; [split; reflexivity|].
    exfalso. apply andb_false_iff in E.
    destruct E as [E|E]; apply seqb_neq in E; contradiction. }
  unfold close_recs, close_deletes. rewrite Hr', Er, Hidem.
  change (sel_mb dm a h) with (sel_mb d a h). reflexivity.
Qed.

Lemma find_app_last {A} (p : A -> bool) l x :
  (forall y, In y l -> p y = false) -> p x = true -> find p (l ++ [x]) = Some x.
Proof.
  intros Hl Hx. induction l as [|y l IH]; cbn [app find]; [rewrite Hx; reflexivity|].
  rewrite (Hl y (or_introl eq_refl)). apply IH. intros z Hz. apply Hl. right. exact Hz.
Qed.

Lemma filter_app_last {A} (p : A -> bool) l x :
  (forall y, In y l -> p y = false) -> p x = true -> filter p (l ++ [x]) = [x].
Proof.
  intros Hl Hx. rewrite filter_app. cbn [filter]. rewrite Hx.
  rewrite (rs_filter_nil p l Hl). reflexivity.
Qed.

(** once the mailbox is gone, the re-sent close creates it anew (through
    [open_mailbox]) and retires it at once: one record of a transient mailbox *)
Lemma close_recs_gone d a h side mood t :
  usage_on cfg = true -> DbInv d -> ~ Obs.mb_alive d h ->
  (forall n, In n (nameplates d) -> np_mbox n <> h) ->
  close_recs (open_db d a h side t) a h side mood t = ([], [transient_rec a h side mood t]).
Proof.
  intros Hon Hdb Hgone Hnp.
  assert (Hmbs : forall x, In x (mailboxes d) -> seqb (mb_id x) h = false).
  { intros x Hx. apply seqb_neq. intros E. apply Hgone. exists x. auto. }
  assert (Hs : forall x, In x (mb_sides d) -> seqb (mbs_mbox x) h = false).
  { intros x Hx. apply seqb_neq. intros E.
    destruct (inv_fk_mbs d Hdb x Hx) as [y [Hy Ey]]. apply Hgone. exists y. split; congruence. }
  assert (E1 : sel_mb d a h = None).
  { apply sel_mb_none. intros x Hx [_ E]. apply Hgone. exists x. auto. }
  assert (E2 : sel_mbs d h side = None).
  { apply sel_mbs_none. intros x Hx [E _]. apply seqb_eq in E. rewrite (Hs x Hx) in E. discriminate. }
  unfold open_db. rewrite E1, E2.
  set (d1 := mkChan (nameplates d) (np_sides d)
                    (map (touch_row h t) (mailboxes d ++ [mkMb a h t false]))
                    (mb_sides d ++ [mkMbs h true side t None]) (messages d) (np_seq d)).
  set (f := fun r : mbs_row => if seqb (mbs_mbox r) h && seqb (mbs_side r) side
                   then mkMbs (mbs_mbox r) false (mbs_side r) (mbs_added r) mood else r).
  assert (F1 : sel_mb d1 a h = Some (mkMb a h t false)).
  { unfold sel_mb, d1. cbn [mailboxes]. rewrite map_app. cbn [map].
    assert (Et : touch_row h t (mkMb a h t false) = mkMb a h t false).
    { unfold touch_row. cbn [mb_id]. rewrite seqb_refl. reflexivity. }
    rewrite Et. apply find_app_last.
    - intros y Hy. apply in_map_iff in Hy. destruct Hy as (y0 & <- & Hy0).
      unfold touch_row. rewrite (Hmbs y0 Hy0). rewrite (Hmbs y0 Hy0). apply andb_false_r.
    - cbn [mb_app mb_id]. rewrite !seqb_refl. reflexivity. }
  assert (F2 : sel_mbs d1 h side = Some (mkMbs h true side t None)).
  { unfold sel_mbs, d1. cbn [mb_sides]. apply find_app_last.
    - intros y Hy. rewrite (Hs y Hy). reflexivity.
    - cbn [mbs_mbox mbs_side]. rewrite !seqb_refl. reflexivity. }
  assert (F3 : sel_mbs_all (upd_mbs_close d1 h side mood) h = [mkMbs h false side t mood]).
  { unfold sel_mbs_all, upd_mbs_close, d1. cbn [mb_sides set_mb_sides]. rewrite map_app. cbn [map].
    cbn [mbs_mbox mbs_side]. rewrite !seqb_refl. cbn [andb mbs_added].
    apply filter_app_last; [|cbn [mbs_mbox]; apply seqb_refl].
    intros y Hy. apply in_map_iff in Hy. destruct Hy as (y0 & <- & Hy0).
    rewrite (Hs y0 Hy0). cbn [andb]. exact (Hs y0 Hy0). }
  assert (F4 : sel_np_by_mbox d1 h = []).
  { unfold sel_np_by_mbox, d1. cbn [nameplates]. apply rs_filter_nil.
    intros n Hn. apply seqb_neq. exact (Hnp n Hn). }
  unfold close_recs, close_deletes. rewrite Hon, F1, F2, F3. cbn [existsb mbs_opened orb negb andb].
  rewrite F4. cbn [map somes flat_map]. unfold mb_record, transient_rec. cbn [mb_app mb_fornp mb_id].
  rewrite F3. reflexivity.
Qed.

Lemma close_recs_off d a h side mood t :
  usage_on cfg = false -> close_recs d a h side mood t = ([], []).
Proof. intros H. unfold close_recs. rewrite H. reflexivity. Qed.

Lemma close_recs_kept d a h side mood t :
  close_deletes d a h side mood = false -> close_recs d a h side mood t = ([], []).
Proof. intros H. unfold close_recs. rewrite H, andb_false_r. reflexivity. Qed.

Lemma sel_mbs_marked d h side mood r :
  sel_mbs d h side = Some r -> exists r', sel_mbs (upd_mbs_close d h side mood) h side = Some r'.
Proof.
  intros Er.
  set (f := fun r : mbs_row => if seqb (mbs_mbox r) h && seqb (mbs_side r) side
                   then mkMbs (mbs_mbox r) false (mbs_side r) (mbs_added r) mood else r).
  exists (f r). unfold sel_mbs, upd_mbs_close. cbn [mb_sides set_mb_sides].
  rewrite (find_map_comm _ f).
  - unfold sel_mbs in Er. rewrite Er. reflexivity.
  - intros y. unfold f. destruct (seqb (mbs_mbox y) h && seqb (mbs_side y) side) eqn:E;
      cbn [mbs_mbox mbs_side]; rewrite ?E; reflexivity.
Qed.

(** the re-sent close on the freshly started server *)
Lemma close_resume_tail sk c' a side msg o h F t :
  SInv sk -> log sk = [] -> conns sk = [] -> now sk = t ->
  m_type msg = Some TClose -> m_mailbox msg = Some h ->
  reclose_ok (chan_w sk) F a h side (m_mood msg) t ->
  let s2 := fst (run cfg sk (dup_events c' a side msg o)) in
  usage_w s2 = add_recs (dup_usage cfg (usage_w sk) a side t)
                        (close_recs (open_db (chan_w sk) a h side t) a h side (m_mood msg) t) /\
  usage_c s2 = usage_w s2.
Proof.
  intros Sk Lk Ck Nk Ht Hm (Hob & Hle & _) s2.
  destruct (dup_usage_run sk c' a side msg o Sk Lk Ck)
    as (s2' & S2 & L2 & W2 & Sub2 & N2 & Hl2 & U2 & Uc2 & U4 & Uc4).
  fold s2 in U4, Uc4.
  assert (Subk : subs sk = []) by exact (no_subs sk Sk Ck).
  assert (Et : now s2' = t) by congruence.
  assert (Hdb2 : DbInv (chan_w s2')) by (rewrite W2; exact (si_db sk Sk)).
  rewrite <- W2, <- Et in Hob, Hle.
  assert (Hq : close_deletes (open_db (chan_w s2') a h side (now s2')) a h side (m_mood msg) = true ->
               forall c0, ~ In (a, h, c0) (subs s2')).
  { intros _ c0. rewrite Sub2, Subk. intros []. }
  destruct (close_step_fresh cfg s2' c' _ a side h msg o Hdb2 Hl2 eq_refl eq_refl eq_refl eq_refl
              eq_refl Ht Hm Hob Hle Hq)
    as (s4 & o4 & cs4 & E4 & _ & _ & _ & _ & _ & _ & _ & Hexc).
  assert (Herr2 : erroneous (set_bound new_conn (Some (a, side))) msg = false).
  { unfold erroneous. rewrite Ht, Hm. reflexivity. }
  assert (Hcm : cmd_mbox (set_bound new_conn (Some (a, side))) msg = Some h).
  { unfold cmd_mbox. rewrite Hm. reflexivity. }
  assert (Hexc' : o_exc (snd (step cfg s2' (EB (ECmd c' msg o)))) = None)
    by (rewrite E4; exact Hexc).
  pose proof (close_fresh_step_usage s2' c' _ a side msg o h S2 L2 Hl2 eq_refl eq_refl Ht Herr2 Hcm
                Hexc' Hle) as Hu3.
  destruct (step_SInv cfg Hexp s2' (EB (ECmd c' msg o)) S2) as [S3 _].
  destruct (si_clean _ S3) as [_ Hc3].
  split; [|rewrite Uc4, U4; symmetry; exact Hc3].
  rewrite U4, Hu3, U2, W2, N2, Nk. reflexivity.
Qed.

(** close, crashed at its k-th commit and re-sent.  When the close retires the
    mailbox (and there is a usage database) its commits are: 1 the closing
    mark, 2 the usage records, 3 the deletion.  The usage database after the
    re-send is the uncrashed one plus the restart's status row and the
    duplicate's client-version row, and
    - k = 2 (records committed, deletion lost): all retirement records TWICE;
    - k >= 3 (the close had completed): one extra record of a transient mailbox,
      created and retired by the re-sent close (it goes through open_mailbox);
    - otherwise (k <= 1, or the mailbox survives, or no usage database): nothing. *)
Theorem close_resume_usage s c cs a side msg o h k c' :
  SInv s -> log s = [] -> nothing_expirable cfg s ->
  lookup_conn c (conns s) = Some cs -> c_bound cs = Some (a, side) -> c_mailbox cs = Some h ->
  m_type msg = Some TClose -> erroneous cs msg = false -> m_mailbox msg = Some h ->
  sel_mbs (chan_w s) h side <> None -> not_crowded (chan_w s) h ->
  let s1 := fst (step cfg s (EB (ECmd c msg o))) in
  let sk := fst (step cfg s (ECrash k (ECmd c msg o))) in
  let s2 := fst (run cfg sk (dup_events c' a side msg o)) in
  let recs := close_recs (chan_w s) a h side (m_mood msg) (now s) in
  let extra := if usage_on cfg && close_deletes (chan_w s) a h side (m_mood msg)
               then match k with
                    | 0%nat | 1%nat => ([], [])
                    | 2%nat => recs
                    | _ => ([], [transient_rec a h side (m_mood msg) (now s)])
                    end
               else ([], []) in
  usage_w s1 = add_recs (usage_w s) recs /\
  usage_w s2 = dup_usage cfg (boot_usage (add_recs (usage_w s1) extra) (now s)) a side (now s) /\
  usage_c s2 = usage_w s2.
Proof.
  intros HS Hlog Hne Hl Hb Hmb Ht Herr Hm Hsel Hnc s1 sk s2 recs extra.
  destruct (close_orig cfg s c cs a side msg o h HS Hlog Hl Hb Hmb Ht Herr)
    as (s3 & o3 & E3 & Hhas & Hw3 & Hc3 & Hsn).
  assert (Es1 : s1 = s3) by (unfold s1; rewrite E3; reflexivity).
  pose proof (close_held_step_shape s c cs a side msg o h HS Hlog Hl Hb Hmb Ht Herr) as Sh.
  pose proof (close_held_step_usage s c cs a side msg o h HS Hlog Hl Hb Hmb Ht Herr) as Hu1.
  cbv zeta in Sh. fold s1 in Sh, Hu1. fold recs in Hu1.
  set (t := now s) in *. set (mood := m_mood msg) in *.
  set (D := chan_w s) in *. set (U := usage_w s) in *.
  set (F := close_db D a h side mood) in *.
  set (dm := upd_mbs_close D h side mood) in *.
  set (ob := snd (step cfg s (EB (ECmd c msg o)))) in *.
  set (T := commits (o_log ob)) in *.
  assert (HF : chan_w s1 = F) by (rewrite Es1; exact Hw3).
  split; [exact Hu1|].
  destruct (proj1 (has_mb_sel D a h) Hhas) as [x Hx].
  destruct (sel_mbs D h side) as [r|] eqn:Er; [clear Hsel|congruence].
  assert (Hsel : sel_mbs D h side <> None) by (rewrite Er; discriminate).
  assert (Em : close_mark_body D a h side mood = Some (mb_fornp x, dm)).
  { unfold close_mark_body. rewrite Hx, Er. reflexivity. }
  unfold close_step_shape in Sh. rewrite Em in Sh.
  assert (Hy0 : young (exp cfg) t D) by exact Hne.
  assert (Hydm : young (exp cfg) t dm) by (apply (young_same _ _ D); [reflexivity|exact Hy0]).
  assert (HyF : young (exp cfg) t F).
  { apply (young_incl _ _ D); [|exact Hy0]. intros r0. apply close_db_mbs_incl. }
  assert (HdbF : DbInv F).
  { pose proof (step_spec cfg Hexp s (EB (ECmd c msg o)) HS) as Sp. rewrite E3 in Sp.
    destruct Sp as (S3 & _). rewrite <- Hw3. exact (si_db s3 S3). }
  (* the log replays to the final state; every snapshot is young *)
  assert (Hrep : replay_commits T D U = (chan_w s1, usage_w s1) /\
                 forall d, In (LCommitChan d) T -> young (exp cfg) t d).
  { destruct (close_deletes D a h side mood).
    - destruct Sh as (-> & E3'). split.
      + destruct (usage_on cfg); cbn [app replay_commits]; [reflexivity|].
        rewrite (E3' eq_refl). reflexivity.
      + intros d Hd.
        assert (Hd' : d = dm \/ d = chan_w s1).
        { destruct (usage_on cfg); cbn [app In] in Hd.
          - destruct Hd as [Hd|[Hd|[Hd|[]]]]; inversion Hd; auto.
          - destruct Hd as [Hd|[Hd|[]]]; inversion Hd; auto. }
        destruct Hd' as [-> | ->]; [exact Hydm|rewrite HF; exact HyF].
    - destruct Sh as (-> & -> & ->). split; [reflexivity|].
      intros d [Hd|[]]. inversion Hd. subst. exact Hydm. }
  destruct Hrep as [Hrep Hyl].
  assert (Hrep' : replay_commits (o_log ob) D U = (chan_w s1, usage_w s1))
    by (rewrite replay_all_commits; exact Hrep).
  assert (Hyl' : forall d, In (LCommitChan d) (o_log ob) -> young (exp cfg) t d).
  { intros d Hd. apply Hyl. apply in_commits. auto. }
  destruct (crash_state_u s c cs msg o k HS Hlog Hl Hrep' Hy0 Hyl')
    as (Sk & Lk & Ck & _ & Nk & Wk & Uk & Uck).
  fold sk in Sk, Lk, Ck, Nk, Wk, Uk, Uck. unfold cmd_files in Wk, Uk. fold ob D U in Wk, Uk.
  rewrite files_at_commits in Wk, Uk. fold T in Wk, Uk. fold t in Nk, Uk.
  (* what the re-sent close does, given the files the crash left *)
  assert (Tail : forall ck uk X,
            files_at T D U k = (ck, uk) -> reclose_ok ck F a h side mood t ->
            close_recs (open_db ck a h side t) a h side mood t = X ->
            add_recs uk X = add_recs (usage_w s1) extra ->
            usage_w s2 = dup_usage cfg (boot_usage (add_recs (usage_w s1) extra) t) a side t /\
            usage_c s2 = usage_w s2).
  { intros ck uk X Ef RO EX EU. rewrite Ef in Wk, Uk. cbn [fst snd] in Wk, Uk.
    rewrite <- Wk in RO.
    destruct (close_resume_tail sk c' a side msg o h F t Sk Lk Ck Nk Ht Hm RO) as [R1 R2].
    fold s2 mood in R1, R2. split; [|exact R2].
    rewrite R1, Wk, EX, Uk, add_recs_comm, EU. reflexivity. }
  (* the three databases a crash can leave, and the records a close from there writes *)
  assert (RD : reclose_ok D F a h side mood t /\
               close_recs (open_db D a h side t) a h side mood t = recs).
  { split; [exact (reclose_start _ _ _ _ _ _ Hhas Hsel Hnc)|].
    rewrite (open_db_touch D a h side t Hhas (ex_intro _ r Er)). apply close_recs_touch. }
  assert (Rdm : reclose_ok dm F a h side mood t /\
                close_recs (open_db dm a h side t) a h side mood t = recs).
  { split; [exact (reclose_marked _ _ _ _ _ _ (si_db s HS) Hhas Hsel Hnc)|].
    assert (Hhas' : has_mb dm a h) by exact Hhas.
    rewrite (open_db_touch dm a h side t Hhas' (sel_mbs_marked D h side mood r Er)).
    rewrite close_recs_touch. exact (close_recs_marked D a h side mood t r Er). }
  assert (RF : reclose_ok F F a h side mood t)
    by exact (reclose_final _ _ _ _ _ _ (si_db s HS) HdbF Hhas Hsel Hnc).
  destruct RD as [RD1 RD2]. destruct Rdm as [Rm1 Rm2].
  subst extra.
  destruct (close_deletes D a h side mood) eqn:Hdel.
  - destruct Sh as (ET & E3'). rewrite HF in ET.
    destruct (usage_on cfg) eqn:Hon; cbn [andb].
    + (* the mailbox is retired, with a usage database *)
      assert (RF2 : close_recs (open_db F a h side t) a h side mood t =
                    ([], [transient_rec a h side mood t])).
      { destruct (close_db_others D a h side mood (si_db s HS)) as (_ & _ & _ & _ & K).
        destruct (K Hdel) as (K1 & _ & K3). exact (close_recs_gone F a h side mood t Hon HdbF K1 K3). }
      destruct k as [|[|[|k]]].
      * apply (Tail D U recs); [|exact RD1|exact RD2|rewrite add_recs_nil; symmetry; exact Hu1].
        rewrite ET. unfold files_at. rewrite log_prefix_0. reflexivity.
      * apply (Tail dm U recs); [|exact Rm1|exact Rm2|rewrite add_recs_nil; symmetry; exact Hu1].
        rewrite ET. unfold files_at. rewrite log_prefix_firstn by all_commits. reflexivity.
      * apply (Tail dm (usage_w s1) recs); [|exact Rm1|exact Rm2|reflexivity].
        rewrite ET. unfold files_at. rewrite log_prefix_firstn by all_commits. reflexivity.
      * apply (Tail F (usage_w s1) ([], [transient_rec a h side mood t]));
          [|exact RF|exact RF2|reflexivity].
        rewrite ET. unfold files_at. rewrite log_prefix_firstn by all_commits.
        cbn [app firstn]. rewrite firstn_nil. reflexivity.
    + (* ... without: nothing is ever recorded *)
      assert (Hoff : forall d, close_recs d a h side mood t = ([], []))
        by (intros d; apply close_recs_off; exact Hon).
      rewrite (E3' eq_refl) in *.
      destruct k as [|[|k]].
      * apply (Tail D U ([], [])); [|exact RD1|apply Hoff|reflexivity].
        rewrite ET. unfold files_at. rewrite log_prefix_0. reflexivity.
      * apply (Tail dm U ([], [])); [|exact Rm1|apply Hoff|reflexivity].
        rewrite ET. unfold files_at. rewrite log_prefix_firstn by all_commits. reflexivity.
      * apply (Tail F U ([], [])); [|exact RF|apply Hoff|reflexivity].
        rewrite ET. unfold files_at. rewrite log_prefix_firstn by all_commits.
        cbn [app firstn]. rewrite firstn_nil. reflexivity.
  - (* the mailbox survives: nothing is recorded, by either run *)
    destruct Sh as (ET & E1 & E2). rewrite andb_false_r in *.
    assert (Hrn : recs = ([], [])) by (apply close_recs_kept; exact Hdel).
    rewrite Hrn in *.
    destruct k as [|k].
    + apply (Tail D U ([], [])); [|exact RD1|exact RD2|rewrite E2; reflexivity].
      rewrite ET. unfold files_at. rewrite log_prefix_0. reflexivity.
    + apply (Tail dm U ([], [])); [|exact Rm1|exact Rm2|rewrite E2; reflexivity].
      rewrite ET. unfold files_at. rewrite log_prefix_firstn by all_commits.
      cbn [firstn]. rewrite firstn_nil. reflexivity.
Qed.

(** ** corollaries: when nothing is written twice *)

(** release: away from the window between the usage commit and the deleting
    commit, the usage database is the uncrashed one plus the two rows every
    restart-and-reconnect adds *)
Corollary release_resume_usage_once s c cs a side msg o n k c' :
  SInv s -> log s = [] -> nothing_expirable cfg s ->
  lookup_conn c (conns s) = Some cs -> c_bound cs = Some (a, side) ->
  m_type msg = Some TRelease -> erroneous cs msg = false -> m_nameplate msg = Some n ->
  k <> 2%nat ->
  let s1 := fst (step cfg s (EB (ECmd c msg o))) in
  let sk := fst (step cfg s (ECrash k (ECmd c msg o))) in
  let s2 := fst (run cfg sk (dup_events c' a side msg o)) in
  usage_w s2 = dup_usage cfg (boot_usage (usage_w s1) (now s)) a side (now s).
Proof.
  intros HS Hlog Hne Hl Hb Ht Herr Hn Hk.
  destruct (release_resume_usage s c cs a side msg o n k c' HS Hlog Hne Hl Hb Ht Herr Hn)
    as (_ & H & _).
  cbv zeta in *. rewrite H. apply Nat.eqb_neq in Hk. rewrite Hk. reflexivity.
Qed.

(** without a usage database the (absent) usage files are never touched *)
Corollary release_resume_usage_off s c cs a side msg o n k c' :
  usage_on cfg = false ->
  SInv s -> log s = [] -> nothing_expirable cfg s ->
  lookup_conn c (conns s) = Some cs -> c_bound cs = Some (a, side) ->
  m_type msg = Some TRelease -> erroneous cs msg = false -> m_nameplate msg = Some n ->
  let s1 := fst (step cfg s (EB (ECmd c msg o))) in
  let sk := fst (step cfg s (ECrash k (ECmd c msg o))) in
  let s2 := fst (run cfg sk (dup_events c' a side msg o)) in
  usage_w s1 = usage_w s /\ usage_w s2 = usage_w s.
Proof.
  intros Hoff HS Hlog Hne Hl Hb Ht Herr Hn.
  destruct (release_resume_usage s c cs a side msg o n k c' HS Hlog Hne Hl Hb Ht Herr Hn)
    as (H1 & H2 & _).
  cbv zeta in *. unfold release_rec, dup_usage, boot_usage in *. rewrite Hoff in *.
  cbn [add_np] in *. split; [exact H1|]. rewrite H2.
  destruct (k =? 2)%nat; cbn [add_np]; exact H1.
Qed.

Corollary close_resume_usage_off s c cs a side msg o h k c' :
  usage_on cfg = false ->
  SInv s -> log s = [] -> nothing_expirable cfg s ->
  lookup_conn c (conns s) = Some cs -> c_bound cs = Some (a, side) -> c_mailbox cs = Some h ->
  m_type msg = Some TClose -> erroneous cs msg = false -> m_mailbox msg = Some h ->
  sel_mbs (chan_w s) h side <> None -> not_crowded (chan_w s) h ->
  let s1 := fst (step cfg s (EB (ECmd c msg o))) in
  let sk := fst (step cfg s (ECrash k (ECmd c msg o))) in
  let s2 := fst (run cfg sk (dup_events c' a side msg o)) in
  usage_w s1 = usage_w s /\ usage_w s2 = usage_w s.
Proof.
  intros Hoff HS Hlog Hne Hl Hb Hmb Ht Herr Hm Hsel Hnc.
  destruct (close_resume_usage s c cs a side msg o h k c' HS Hlog Hne Hl Hb Hmb Ht Herr Hm Hsel Hnc)
    as (H1 & H2 & _).
  cbv zeta in *. rewrite (close_recs_off _ _ _ _ _ _ Hoff) in *.
  unfold dup_usage, boot_usage in *. rewrite Hoff in *. cbn [andb] in *.
  rewrite add_recs_nil in *. split; [exact H1|]. rewrite H2. exact H1.
Qed.

(** close: before the usage commit (k <= 1), or when the mailbox survives the
    close, nothing is written twice *)
Corollary close_resume_usage_once s c cs a side msg o h k c' :
  SInv s -> log s = [] -> nothing_expirable cfg s ->
  lookup_conn c (conns s) = Some cs -> c_bound cs = Some (a, side) -> c_mailbox cs = Some h ->
  m_type msg = Some TClose -> erroneous cs msg = false -> m_mailbox msg = Some h ->
  sel_mbs (chan_w s) h side <> None -> not_crowded (chan_w s) h ->
  (k <= 1)%nat \/ close_deletes (chan_w s) a h side (m_mood msg) = false ->
  let s1 := fst (step cfg s (EB (ECmd c msg o))) in
  let sk := fst (step cfg s (ECrash k (ECmd c msg o))) in
  let s2 := fst (run cfg sk (dup_events c' a side msg o)) in
  usage_w s2 = dup_usage cfg (boot_usage (usage_w s1) (now s)) a side (now s).
Proof.
  intros HS Hlog Hne Hl Hb Hmb Ht Herr Hm Hsel Hnc Hk.
  destruct (close_resume_usage s c cs a side msg o h k c' HS Hlog Hne Hl Hb Hmb Ht Herr Hm Hsel Hnc)
    as (_ & H & _).
  cbv zeta in *. rewrite H. destruct Hk as [Hk| ->].
  - destruct k as [|[|k]]; [| |lia];
      destruct (usage_on cfg && close_deletes (chan_w s) a h side (m_mood msg));
      rewrite add_recs_nil; reflexivity.
  - rewrite andb_false_r, add_recs_nil. reflexivity.
Qed.

End UsageResume.

(** * D. Non-vacuity (computed): the four resume scenarios with k >= 1, and
    the usage database after them *)

Definition rm_cfg : config := mkCfg true true (Some 10) 100 50 (mkWelcome None None None).
Lemma rm_exp : 0 < exp rm_cfg. Proof. reflexivity. Qed.
Definition rm_o1 : oracle := mkOracle (Some "AAAAAAAA") (mkAO None []).
Definition rm_mb : string := genid "AAAAAAAA".
Definition rm_claim : command :=
  mkCmd (Some TClaim) None None None (Some "7") None None None None None None.
Definition rm_release : command :=
  mkCmd (Some TRelease) None None None (Some "7") None None None None None None.
Definition rm_open : command :=
  mkCmd (Some TOpen) None None None None (Some rm_mb) None None None None None.
Definition rm_close : command :=
  mkCmd (Some TClose) None None None None (Some rm_mb) None None (Some "happy") None None.
Definition rm_add : command :=
  mkCmd (Some TAdd) None None None None None (Some "p") (Some "b") None None None.

(** side "s" of app "a" is connected and bound at time 3 *)
Definition rm_h0 : list event :=
  [EB (EConnect 1); EB (ECmd 1 (bind_cmd "a" "s") no_oracle); EB (EAdvance 3 false)].
Definition rm_s0 : state := fst (run rm_cfg (init rm_cfg 0) rm_h0).
(** ... it has claimed nameplate "7" (time 3); now it is 5 *)
Definition rm_h1 : list event := rm_h0 ++ [EB (ECmd 1 rm_claim rm_o1); EB (EAdvance 2 false)].
Definition rm_s1 : state := fst (run rm_cfg (init rm_cfg 0) rm_h1).
(** ... it has released the nameplate and opened the mailbox (time 5), stored a message; now it is 9 *)
Definition rm_h2 : list event :=
  rm_h1 ++ [EB (ECmd 1 rm_release no_oracle); EB (ECmd 1 rm_open no_oracle);
            EB (ECmd 1 rm_add no_oracle); EB (EAdvance 4 false)].
Definition rm_s2 : state := fst (run rm_cfg (init rm_cfg 0) rm_h2).

Lemma rm_inv h : SInv (fst (run rm_cfg (init rm_cfg 0) h)).
Proof. apply (run_spec rm_cfg rm_exp), (init_spec rm_cfg rm_exp). Qed.

Lemma rm_young (s : state) :
  Forall (fun r => now s - exp rm_cfg < mb_updated r) (mailboxes (chan_w s)) ->
  nothing_expirable rm_cfg s.
Proof. intros H r Hr. exact (proj1 (Forall_forall _ _) H r Hr). Qed.

Definition resumed (s : state) (k : nat) (cmd : command) (o : oracle) : state :=
  fst (run rm_cfg (fst (step rm_cfg s (ECrash k (ECmd 1 cmd o)))) (dup_events 2 "a" "s" cmd o)).

Lemma all_k (P : nat -> chan_db) d l :
  forallb (fun k => if chan_db_dec (P k) d then true else false) l = true ->
  Forall (fun k => P k = d) l.
Proof.
  intros H. apply Forall_forall. intros k Hk.
  pose proof (proj1 (forallb_forall _ l) H k Hk) as E. cbv beta in E.
  destruct (chan_db_dec (P k) d); [assumption|discriminate].
Qed.

Lemma holds_of s c a m :
  match lookup_conn c (conns s) with
  | Some cs => match c_bound cs with
               | Some (a', _) => a' = a /\ c_mailbox cs = Some m
               | None => False
               end
  | None => False
  end -> holds s c a m.
Proof.
  unfold holds. destruct (lookup_conn c (conns s)) as [cs|]; [|intros []].
  destruct (c_bound cs) as [[a' sd]|] eqn:E; [|intros []].
  intros [-> H]. exists cs, sd. auto.
Qed.

(** what the conclusions of the resume theorems are about *)
Definition uncrashed (s : state) (cmd : command) (o : oracle) : state :=
  fst (step rm_cfg s (EB (ECmd 1 cmd o))).
Definition crashed (s : state) (k : nat) (cmd : command) (o : oracle) : state :=
  fst (step rm_cfg s (ECrash k (ECmd 1 cmd o))).
Definition commits_of (s : state) (cmd : command) (o : oracle) : nat :=
  count_commits (o_log (snd (step rm_cfg s (EB (ECmd 1 cmd o))))).

(** claim: 3 commits (claim_nameplate's, Mailbox.open's, open_mailbox's) *)
Example claim_resume_nonvacuous :
  let s := rm_s0 in
  let cs := set_bound new_conn (Some ("a", "s")) in
  (* the hypotheses of [claim_resume] *)
  (SInv s /\ log s = [] /\ nothing_expirable rm_cfg s /\
   lookup_conn 1 (conns s) = Some cs /\ c_bound cs = Some ("a", "s") /\
   m_type rm_claim = Some TClaim /\ erroneous cs rm_claim = false /\
   m_nameplate rm_claim = Some "7" /\
   In (1%nat, FClaimed rm_mb)
      (frames_of (o_log (snd (step rm_cfg s (EB (ECmd 1 rm_claim rm_o1))))))) /\
  commits_of s rm_claim rm_o1 = 3%nat /\
  (* dying after the 1st commit -- between claim_nameplate's commit and open_mailbox's --
     leaves a nameplate whose mailbox has no side row yet *)
  (let sk := crashed s 1 rm_claim rm_o1 in
   List.length (nameplates (chan_w sk)) = 1%nat /\ mb_sides (chan_w sk) = [] /\
   chan_w sk <> chan_w (uncrashed s rm_claim rm_o1) /\ chan_w sk <> chan_w s) /\
  (* the re-sent claim completes it: same database as the uncrashed run, k = 0..4 *)
  Forall (fun k => chan_w (resumed s k rm_claim rm_o1) = chan_w (uncrashed s rm_claim rm_o1))
         [0; 1; 2; 3; 4]%nat.
Proof.
  cbv zeta. split; [|split; [|split]].
  - split; [unfold rm_s0; apply rm_inv|]. split; [vm_compute; reflexivity|].
    split; [apply rm_young; vm_compute; repeat constructor|].
    vm_compute. repeat split; auto.
  - vm_compute. reflexivity.
  - vm_compute. repeat split; try reflexivity; discriminate.
  - apply all_k. vm_compute. reflexivity.
Qed.

(** release of the last claim: 3 commits (mark, usage record, deletion) *)
Example release_resume_nonvacuous :
  let s := rm_s1 in
  (SInv s /\ log s = [] /\ nothing_expirable rm_cfg s /\
   match lookup_conn 1 (conns s) with
   | Some cs => c_bound cs = Some ("a", "s") /\ erroneous cs rm_release = false
   | None => False
   end /\
   m_type rm_release = Some TRelease /\ m_nameplate rm_release = Some "7") /\
  commits_of s rm_release no_oracle = 3%nat /\
  (* dying after the 1st commit leaves the nameplate with its side row marked released *)
  (let sk := crashed s 1 rm_release no_oracle in
   map nps_claimed (np_sides (chan_w sk)) = [false] /\
   List.length (nameplates (chan_w sk)) = 1%nat /\
   nameplates (chan_w (uncrashed s rm_release no_oracle)) = []) /\
  Forall (fun k => chan_w (resumed s k rm_release no_oracle) =
                   chan_w (uncrashed s rm_release no_oracle))
         [0; 1; 2; 3; 4]%nat.
Proof.
  cbv zeta. split; [|split; [|split]].
  - split; [unfold rm_s1; apply rm_inv|]. split; [vm_compute; reflexivity|].
    split; [apply rm_young; vm_compute; repeat constructor|].
    vm_compute. repeat split; auto.
  - vm_compute. reflexivity.
  - vm_compute. repeat split; reflexivity.
  - apply all_k. vm_compute. reflexivity.
Qed.

(** open: 2 commits (Mailbox.open's and open_mailbox's) *)
Example open_resume_nonvacuous :
  let s := rm_s1 in
  (SInv s /\ log s = [] /\ nothing_expirable rm_cfg s /\
   match lookup_conn 1 (conns s) with
   | Some cs => c_bound cs = Some ("a", "s") /\ erroneous cs rm_open = false
   | None => False
   end /\
   m_type rm_open = Some TOpen /\ m_mailbox rm_open = Some rm_mb /\
   holds (uncrashed s rm_open no_oracle) 1 "a" rm_mb) /\
  commits_of s rm_open no_oracle = 2%nat /\
  chan_w (crashed s 1 rm_open no_oracle) = chan_w (uncrashed s rm_open no_oracle) /\
  chan_w (crashed s 0 rm_open no_oracle) <> chan_w (uncrashed s rm_open no_oracle) /\
  Forall (fun k => chan_w (resumed s k rm_open no_oracle) =
                   chan_w (uncrashed s rm_open no_oracle))
         [0; 1; 2; 3]%nat.
Proof.
  cbv zeta. split; [|split; [|split; [|split]]].
  - split; [unfold rm_s1; apply rm_inv|]. split; [vm_compute; reflexivity|].
    split; [apply rm_young; vm_compute; repeat constructor|].
    split; [vm_compute; auto|]. split; [reflexivity|]. split; [reflexivity|].
    apply holds_of. vm_compute. auto.
  - vm_compute. reflexivity.
  - vm_compute. reflexivity.
  - vm_compute. discriminate.
  - apply all_k. vm_compute. reflexivity.
Qed.

(** close by the only side: 3 commits (mark, usage records, deletion); a
    message is stored in the mailbox *)
Example close_resume_nonvacuous :
  let s := rm_s2 in
  (SInv s /\ log s = [] /\ nothing_expirable rm_cfg s /\
   match lookup_conn 1 (conns s) with
   | Some cs => c_bound cs = Some ("a", "s") /\ c_mailbox cs = Some rm_mb /\
                erroneous cs rm_close = false
   | None => False
   end /\
   m_type rm_close = Some TClose /\ m_mailbox rm_close = Some rm_mb /\
   sel_mbs (chan_w s) rm_mb "s" <> None /\ not_crowded (chan_w s) rm_mb) /\
  commits_of s rm_close no_oracle = 3%nat /\
  List.length (messages (chan_w s)) = 1%nat /\
  (* dying after the 1st commit leaves the mailbox with its side row marked closed *)
  (let sk := crashed s 1 rm_close no_oracle in
   map mbs_opened (mb_sides (chan_w sk)) = [false] /\
   List.length (messages (chan_w sk)) = 1%nat /\
   mailboxes (chan_w (uncrashed s rm_close no_oracle)) = []) /\
  Forall (fun k => chan_w (resumed s k rm_close no_oracle) =
                   chan_w (uncrashed s rm_close no_oracle))
         [0; 1; 2; 3; 4]%nat.
Proof.
  cbv zeta. split; [|split; [|split; [|split]]].
  - split; [unfold rm_s2; apply rm_inv|]. split; [vm_compute; reflexivity|].
    split; [apply rm_young; vm_compute; repeat constructor|].
    split; [vm_compute; auto|]. split; [reflexivity|]. split; [reflexivity|].
    split; [vm_compute; discriminate|]. vm_compute. repeat constructor.
  - vm_compute. reflexivity.
  - vm_compute. reflexivity.
  - vm_compute. repeat split; reflexivity.
  - apply all_k. vm_compute. reflexivity.
Qed.

(** ** the usage database: retirement records written twice *)

Lemma all_k_u (P : nat -> usage_db) d l :
  forallb (fun k => if usage_db_dec (P k) d then true else false) l = true ->
  Forall (fun k => P k = d) l.
Proof.
  intros H. apply Forall_forall. intros k Hk.
  pose proof (proj1 (forallb_forall _ l) H k Hk) as E. cbv beta in E.
  destruct (usage_db_dec (P k) d); [assumption|discriminate].
Qed.

(** "the usage database after crash + re-send is the uncrashed one plus the
    restart's status row and the duplicate's client-version row" is FALSE for
    a release that retires the nameplate, crashed between the usage commit and
    the deleting channel commit (k = 2; state and hypotheses as in
    [release_resume_nonvacuous]): the nameplate's record is there twice.
    For every other k it holds ([release_resume_usage], [release_resume_usage_once]). *)
Example release_usage_once_refuted :
  let s := rm_s1 in
  let s1 := uncrashed s rm_release no_oracle in
  let s2 := resumed s 2 rm_release no_oracle in
  let r := mkUNp "a" 0 None 2 "lonely" in
  let expected u := dup_usage rm_cfg (boot_usage rm_cfg u (now s)) "a" "s" (now s) in
  release_rec rm_cfg (chan_w s) "a" "7" "s" (now s) = Some r /\
  u_nameplates (usage_w s1) = [r] /\
  u_nameplates (usage_w s2) = [r; r] /\
  usage_w s2 <> expected (usage_w s1) /\
  usage_w s2 = expected (uins_np (usage_w s1) r) /\
  Forall (fun k => usage_w (resumed s k rm_release no_oracle) = expected (usage_w s1))
         [0; 1; 3; 4]%nat.
Proof.
  cbv zeta. split; [vm_compute; reflexivity|]. split; [vm_compute; reflexivity|].
  split; [vm_compute; reflexivity|]. split; [vm_compute; discriminate|].
  split; [vm_compute; reflexivity|]. apply all_k_u. vm_compute. reflexivity.
Qed.

(** side "s" has claimed nameplate "7", opened its mailbox and stored a
    message; now it is 9: its close retires the mailbox and the nameplate *)
Definition rm_h3 : list event :=
  rm_h1 ++ [EB (ECmd 1 rm_open no_oracle); EB (ECmd 1 rm_add no_oracle); EB (EAdvance 4 false)].
Definition rm_s3 : state := fst (run rm_cfg (init rm_cfg 0) rm_h3).

(** the same for close: at k = 2 the nameplate's and the mailbox's records are
    there twice; at k >= 3 (the close had completed; the re-sent close goes
    through open_mailbox, KF4) there is one extra record of a transient mailbox *)
Example close_usage_once_refuted :
  let s := rm_s3 in
  let s1 := uncrashed s rm_close no_oracle in
  let rn := mkUNp "a" 0 None 6 "lonely" in
  let rm := mkUMb "a" true 0 6 None "lonely" in
  let tr := mkUMb "a" false 0 0 None "lonely" in
  let expected u := dup_usage rm_cfg (boot_usage rm_cfg u (now s)) "a" "s" (now s) in
  (* the hypotheses of [close_resume] / [close_resume_usage] *)
  (SInv s /\ log s = [] /\ nothing_expirable rm_cfg s /\
   match lookup_conn 1 (conns s) with
   | Some cs => c_bound cs = Some ("a", "s") /\ c_mailbox cs = Some rm_mb /\
                erroneous cs rm_close = false
   | None => False
   end /\
   m_type rm_close = Some TClose /\ m_mailbox rm_close = Some rm_mb /\
   sel_mbs (chan_w s) rm_mb "s" <> None /\ not_crowded (chan_w s) rm_mb) /\
  commits_of s rm_close no_oracle = 3%nat /\
  close_deletes (chan_w s) "a" rm_mb "s" (m_mood rm_close) = true /\
  close_recs rm_cfg (chan_w s) "a" rm_mb "s" (m_mood rm_close) (now s) = ([rn], [rm]) /\
  transient_rec rm_cfg "a" rm_mb "s" (m_mood rm_close) (now s) = tr /\
  u_nameplates (usage_w s1) = [rn] /\ u_mailboxes (usage_w s1) = [rm] /\
  (let s2 := resumed s 2 rm_close no_oracle in
   u_nameplates (usage_w s2) = [rn; rn] /\ u_mailboxes (usage_w s2) = [rm; rm] /\
   usage_w s2 <> expected (usage_w s1) /\
   usage_w s2 = expected (uins_mb (uins_np (usage_w s1) rn) rm)) /\
  (let s2 := resumed s 3 rm_close no_oracle in
   u_nameplates (usage_w s2) = [rn] /\ u_mailboxes (usage_w s2) = [rm; tr] /\
   usage_w s2 <> expected (usage_w s1) /\
   usage_w s2 = expected (uins_mb (usage_w s1) tr)) /\
  Forall (fun k => usage_w (resumed s k rm_close no_oracle) = expected (usage_w s1)) [0; 1]%nat /\
  Forall (fun k => chan_w (resumed s k rm_close no_oracle) = chan_w s1) [0; 1; 2; 3; 4]%nat.
Proof.
  cbv zeta.
  split.
  { split; [unfold rm_s3; apply rm_inv|]. split; [vm_compute; reflexivity|].
    split; [apply rm_young; vm_compute; repeat constructor|].
    split; [vm_compute; auto|]. split; [reflexivity|]. split; [reflexivity|].
    split; [vm_compute; discriminate|]. vm_compute. repeat constructor. }
  split; [vm_compute; reflexivity|]. split; [vm_compute; reflexivity|].
  split; [vm_compute; reflexivity|]. split; [vm_compute; reflexivity|].
  split; [vm_compute; reflexivity|]. split; [vm_compute; reflexivity|].
  split. { split; [vm_compute; reflexivity|]. split; [vm_compute; reflexivity|].
           split; [vm_compute; discriminate|vm_compute; reflexivity]. }
  split. { split; [vm_compute; reflexivity|]. split; [vm_compute; reflexivity|].
           split; [vm_compute; discriminate|vm_compute; reflexivity]. }
  split; [apply all_k_u; vm_compute; reflexivity|apply all_k; vm_compute; reflexivity].
Qed.

(** claim and open never write a usage record: after crash + re-send, at every k *)
Example claim_open_usage_nonvacuous :
  let expected s u := dup_usage rm_cfg (boot_usage rm_cfg u (now s)) "a" "s" (now s) in
  Forall (fun k => usage_w (resumed rm_s0 k rm_claim rm_o1) =
                   expected rm_s0 (usage_w (uncrashed rm_s0 rm_claim rm_o1))) [0; 1; 2; 3; 4]%nat /\
  Forall (fun k => usage_w (resumed rm_s1 k rm_open no_oracle) =
                   expected rm_s1 (usage_w (uncrashed rm_s1 rm_open no_oracle))) [0; 1; 2; 3]%nat.
Proof. cbv zeta. split; apply all_k_u; vm_compute; reflexivity. Qed.

(** ** A and B, computed: a nameplate and its mailbox expire while the server is
    down (200 ticks); the restarted server dies twice inside its start-up
    sweep, the third start completes on an empty channel database.
    Observation (C15, not C10): the sweep commits the channel database BEFORE the
    usage database (AppNamespace.prune: db.commit, then usage_db.commit), so a
    death between the two (k = 2 here) loses the `pruney` records of what that
    sweep deleted -- the mirror image of release / close, which commit the
    usage database first and can therefore write their records twice. *)
Example boot_chain_nonvacuous :
  let '(c, u, t) := crash_files rm_cfg rm_s3 1 (ECmd 1 rm_close no_oracle) in
  let t' := t + 200 in
  (* the start-up sweep at t' commits 4 times (touch, channel, usage, status) *)
  count_commits (snd (fst (boot_on rm_cfg c u t'))) = 4%nat /\
  List.length (mailboxes c) = 1%nat /\ List.length (nameplates c) = 1%nat /\
  (* dying after its 1st commit leaves everything; after the 2nd the channel
     database is empty but the usage records are not committed *)
  fst (boot_crash rm_cfg c u t' 1) = c /\
  mailboxes (fst (boot_crash rm_cfg c u t' 2)) = [] /\
  snd (boot_crash rm_cfg c u t' 2) = u /\
  (let '(c', u') := boot_chain rm_cfg c u [(t', 1%nat); (t' + 1, 2%nat)] in
   mailboxes c' = [] /\ nameplates c' = [] /\ messages c' = [] /\ u' = u /\
   let s' := fst (fst (boot_on rm_cfg c' u' (t' + 2))) in
   chan_w s' = c' /\ now s' = t' + 2).
Proof. vm_compute. repeat split; reflexivity. Qed.

Print Assumptions boot_on_sub.
Print Assumptions boot_crash_chain.
Print Assumptions boot_chain_restarts.
Print Assumptions crash_is_boot.
Print Assumptions crash_files_spec.
Print Assumptions boot_after_downtime.
Print Assumptions crash_then_downtime.
Print Assumptions claim_resume_usage.
Print Assumptions open_resume_usage.
Print Assumptions release_resume_usage.
Print Assumptions release_resume_usage_once.
Print Assumptions release_resume_usage_off.
Print Assumptions close_resume_usage.
Print Assumptions close_resume_usage_once.
Print Assumptions close_resume_usage_off.
Print Assumptions claim_resume_nonvacuous.
Print Assumptions release_resume_nonvacuous.
Print Assumptions open_resume_nonvacuous.
Print Assumptions close_resume_nonvacuous.
Print Assumptions release_usage_once_refuted.
Print Assumptions close_usage_once_refuted.
Print Assumptions claim_open_usage_nonvacuous.
Print Assumptions boot_chain_nonvacuous.
