(** Base.v -- strings, decimal/hex rendering, small list helpers.
    Stdlib only.  No proofs of properties here (see BaseFacts.v). *)
From Coq Require Export ZArith NArith List String Ascii Bool Lia.
From Coq Require Import DecimalString DecimalN DecimalZ.
Export ListNotations.

Open Scope string_scope.
Open Scope Z_scope.

(** * Strings *)

Definition seqb (a b : string) : bool := String.eqb a b.

Definition oseqb (a b : option string) : bool :=
  match a, b with
  | None, None => true
  | Some x, Some y => seqb x y
  | _, _ => false
  end.

(** membership of a string in a list *)
Fixpoint smem (x : string) (l : list string) : bool :=
  match l with
  | [] => false
  | y :: l' => seqb x y || smem x l'
  end.

(** duplicate-free prefix-order list (first occurrences kept) *)
Fixpoint sdedup (l : list string) : list string :=
  match l with
  | [] => []
  | x :: l' => if smem x l' then sdedup l' else x :: sdedup l'
  end.

(** insertion sort of strings by bytewise order ([String.leb]); Python's
    [sorted()] on str compares code points, which is UTF-8 byte order. *)
Fixpoint sinsert (x : string) (l : list string) : list string :=
  match l with
  | [] => [x]
  | y :: l' => if String.leb x y then x :: l else y :: sinsert x l'
  end.
Definition ssort (l : list string) : list string := fold_right sinsert [] l.

(** * Decimal rendering *)

Definition show_N (n : N) : string := NilZero.string_of_uint (N.to_uint n).
Definition show_Z (z : Z) : string := NilZero.string_of_int (Z.to_int z).

Definition parse_Z (s : string) : option Z :=
  match NilZero.int_of_string s with
  | Some i => Some (Z.of_int i)
  | None => None
  end.

Definition parse_nat (s : string) : option nat :=
  match parse_Z s with
  | Some z => if z <? 0 then None else Some (Z.to_nat z)
  | None => None
  end.

(** * Hex encoding of byte strings (wire format of the harness) *)

Definition hexdigit (n : N) : ascii :=
  match n with
  | 0%N => "0" | 1%N => "1" | 2%N => "2" | 3%N => "3" | 4%N => "4"
  | 5%N => "5" | 6%N => "6" | 7%N => "7" | 8%N => "8" | 9%N => "9"
  | 10%N => "a" | 11%N => "b" | 12%N => "c" | 13%N => "d" | 14%N => "e"
  | _ => "f"
  end%char.

Definition unhexdigit (c : ascii) : option N :=
  let n := N_of_ascii c in
  if ((48 <=? n) && (n <=? 57))%N then Some (n - 48)%N
  else if ((97 <=? n) && (n <=? 102))%N then Some (n - 87)%N
  else None.

Fixpoint hex_of_string (s : string) : string :=
  match s with
  | EmptyString => EmptyString
  | String c s' =>
      let n := N_of_ascii c in
      String (hexdigit (n / 16)) (String (hexdigit (n mod 16)) (hex_of_string s'))
  end.

Fixpoint string_of_hex (s : string) : option string :=
  match s with
  | EmptyString => Some EmptyString
  | String a (String b s') =>
      match unhexdigit a, unhexdigit b, string_of_hex s' with
      | Some x, Some y, Some r => Some (String (ascii_of_N (16 * x + y)) r)
      | _, _, _ => None
      end
  | _ => None
  end.

(** * Splitting on a separator character *)

Fixpoint split_on (sep : ascii) (s : string) (cur : string) : list string :=
  match s with
  | EmptyString => [cur]
  | String c s' =>
      if Ascii.eqb c sep then cur :: split_on sep s' EmptyString
      else split_on sep s' (cur ++ String c EmptyString)
  end.

Definition words (s : string) : list string :=
  filter (fun w => negb (seqb w "")) (split_on " "%char s "").

(** * Misc list helpers *)

Fixpoint sconcat (sep : string) (l : list string) : string :=
  match l with
  | [] => ""
  | [x] => x
  | x :: l' => x ++ sep ++ sconcat sep l'
  end.

Definition zlen {A} (l : list A) : Z := Z.of_nat (List.length l).

(** insertion sort of Z, ascending (Python's [sorted(times)]) *)
Fixpoint zinsert (x : Z) (l : list Z) : list Z :=
  match l with
  | [] => [x]
  | y :: l' => if x <=? y then x :: l else y :: zinsert x l'
  end.
Definition zsort (l : list Z) : list Z := fold_right zinsert [] l.
