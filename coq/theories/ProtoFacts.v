(** ProtoFacts.v -- C17, the protocol-discipline part that needs no invariant:
    welcome, ack, ping/pong, and "an erroneous command is answered by exactly
    one error frame (after its ack) and changes nothing". *)
From Coq Require Import List Bool ZArith String.
From MW Require Import Base Store Monad Usage Server Websocket Service Findings.
Import ListNotations.

(** release/close naming something other than what was claimed/opened, or
    naming nothing when nothing was claimed/opened *)
Definition name_mismatch (given held : option string) : bool :=
  match given, held with
  | Some n, Some n' => negb (seqb n n')
  | None, None => true
  | _, _ => false
  end.

(** the commands the property lists as malformed or out of order, as a
    function of the connection's own record only *)
Definition erroneous (cs : conn_state) (msg : command) : bool :=
  match m_type msg with
  | None => true                                            (* no type *)
  | Some TPing => match m_ping msg with None => true | Some _ => false end
  | Some TBind =>
      match c_bound cs with
      | Some _ => true                                      (* second bind *)
      | None => match m_appid msg, m_side msg with Some _, Some _ => false | _, _ => true end
      end
  | Some t =>
      match c_bound cs with
      | None => true                                        (* anything but bind/ping before bind *)
      | Some _ =>
          match t with
          | TList => false
          | TAllocate => c_did_allocate cs
          | TClaim => match m_nameplate msg with None => true | Some _ => c_did_claim cs end
          | TRelease => c_did_release cs || name_mismatch (m_nameplate msg) (c_nameplate_id cs)
          | TOpen => match c_mailbox cs with
                     | Some _ => true                       (* open while a mailbox is held *)
                     | None => match m_mailbox msg with None => true | Some _ => false end
                     end
          | TAdd => match c_mailbox cs with
                    | None => true                          (* add without an open mailbox *)
                    | Some _ => match m_phase msg, m_body msg with Some _, Some _ => false | _, _ => true end
                    end
          | TClose => c_did_close cs || name_mismatch (m_mailbox msg) (c_mailbox_id cs)
          | _ => true                                       (* unknown type *)
          end
      end
  end.

(** * Helpers: monad steps and projections through [set_log]/[set_conns] *)

Lemma get_conn_eq c s : get_conn c s = Ok (conn_of s c) s.
Proof. reflexivity. Qed.

Lemma conn_of_set_log s l c : conn_of (set_log s l) c = conn_of s c.
Proof. reflexivity. Qed.

Lemma is_clean_set_log s l : is_clean (set_log s l) = is_clean s.
Proof. reflexivity. Qed.

Lemma is_clean_set_conns s l : is_clean (set_conns s l) = is_clean s.
Proof. reflexivity. Qed.

Lemma bind_ok {A B} (m : M A) (k : A -> M B) s a s' :
  m s = Ok a s' -> bind m k s = k a s'.
Proof. intros H. unfold bind. rewrite H. reflexivity. Qed.

Lemma bind_exn {A B} (m : M A) (k : A -> M B) s e s' :
  m s = Exn e s' -> bind m k s = Exn e s'.
Proof. intros H. unfold bind. rewrite H. reflexivity. Qed.

Lemma bind_get_conn {B} c (k : conn_state -> M B) s :
  bind (get_conn c) k s = k (conn_of s c) s.
Proof. reflexivity. Qed.

Lemma err_eq {A} s : @err A s = Exn (XErr ErrOther) s.
Proof. reflexivity. Qed.

Section WithConfig.
Variable cfg : config.

(** on_message, once the ack is out and dispatch fails with a protocol error *)
Lemma on_message_dispatch_err c msg o s t :
  m_type msg = Some t ->
  (forall s1, conn_of s1 c = conn_of s c ->
     dispatch cfg c t msg o s1 = Exn (XErr ErrOther) s1) ->
  on_message cfg c msg o s =
    Ok tt (set_log s (LFrame c (FError ErrOther msg) (is_clean s) (now s) ::
                      LFrame c (FAck (m_id msg)) (is_clean s) (now s) :: log s)).
Proof.
  intros Et Hd. unfold on_message. rewrite Et.
  unfold try_catch.
  rewrite (bind_ok _ _ s tt (set_log s (LFrame c (FAck (m_id msg)) (is_clean s) (now s) :: log s)))
    by reflexivity.
  rewrite Hd by reflexivity.
  reflexivity.
Qed.

(** on_message, once the ack is out and dispatch succeeds *)
Lemma on_message_dispatch_ok c msg o s t s' :
  m_type msg = Some t ->
  dispatch cfg c t msg o
    (set_log s (LFrame c (FAck (m_id msg)) (is_clean s) (now s) :: log s)) = Ok tt s' ->
  on_message cfg c msg o s = Ok tt s'.
Proof.
  intros Et Hd. unfold on_message. rewrite Et.
  unfold try_catch.
  rewrite (bind_ok _ _ s tt (set_log s (LFrame c (FAck (m_id msg)) (is_clean s) (now s) :: log s)))
    by reflexivity.
  rewrite Hd. reflexivity.
Qed.

(** ** dispatch fails on an erroneous command: one lemma per type *)

Lemma dispatch_unbound c t msg o s :
  t <> TPing -> t <> TBind -> c_bound (conn_of s c) = None ->
  dispatch cfg c t msg o s = Exn (XErr ErrOther) s.
Proof.
  intros Hp Hb Hn.
  destruct t; try congruence;
    unfold dispatch; rewrite bind_get_conn, Hn; reflexivity.
Qed.

Lemma dispatch_bound c t msg o s a side :
  t <> TPing -> t <> TBind -> c_bound (conn_of s c) = Some (a, side) ->
  dispatch cfg c t msg o s =
    match t with
    | TList => handle_list cfg c a
    | TAllocate => handle_allocate c a side o
    | TClaim => handle_claim c a side msg o
    | TRelease => handle_release cfg c a side msg
    | TOpen => handle_open c a side msg
    | TAdd => handle_add c a side msg
    | TClose => handle_close cfg c a side msg
    | _ => err
    end s.
Proof.
  intros Hp Hb Hn.
  destruct t; try congruence;
    unfold dispatch; rewrite bind_get_conn, Hn; reflexivity.
Qed.

Lemma err_ping c msg o s :
  m_type msg = Some TPing -> erroneous (conn_of s c) msg = true ->
  dispatch cfg c TPing msg o s = Exn (XErr ErrOther) s.
Proof.
  intros Et H. unfold erroneous in H. rewrite Et in H.
  unfold dispatch, handle_ping.
  destruct (m_ping msg) as [v|]; [discriminate|reflexivity].
Qed.

Lemma err_bind c msg o s :
  m_type msg = Some TBind -> erroneous (conn_of s c) msg = true ->
  dispatch cfg c TBind msg o s = Exn (XErr ErrOther) s.
Proof.
  intros Et H. unfold erroneous in H. rewrite Et in H.
  unfold dispatch, handle_bind. rewrite bind_get_conn.
  destruct (c_bound (conn_of s c)) as [b|]; [reflexivity|].
  destruct (m_appid msg) as [a|]; [|reflexivity].
  destruct (m_side msg) as [sd|]; [discriminate|reflexivity].
Qed.

Lemma err_allocate c o s a side :
  c_did_allocate (conn_of s c) = true ->
  handle_allocate c a side o s = Exn (XErr ErrOther) s.
Proof.
  intros H. unfold handle_allocate. rewrite bind_get_conn, H. reflexivity.
Qed.

Lemma err_claim c msg o s a side :
  match m_nameplate msg with None => true | Some _ => c_did_claim (conn_of s c) end = true ->
  handle_claim c a side msg o s = Exn (XErr ErrOther) s.
Proof.
  intros H. unfold handle_claim.
  destruct (m_nameplate msg) as [n|]; [|reflexivity].
  rewrite bind_get_conn, H. reflexivity.
Qed.

Lemma err_release c msg s a side :
  c_did_release (conn_of s c) || name_mismatch (m_nameplate msg) (c_nameplate_id (conn_of s c)) = true ->
  handle_release cfg c a side msg s = Exn (XErr ErrOther) s.
Proof.
  intros H. unfold handle_release. rewrite bind_get_conn.
  destruct (c_did_release (conn_of s c)); [reflexivity|].
  cbn [orb] in H. unfold name_mismatch in H.
  destruct (m_nameplate msg) as [n|], (c_nameplate_id (conn_of s c)) as [n'|];
    try discriminate; [|reflexivity].
  apply bind_exn. destruct (seqb n n'); [discriminate|reflexivity].
Qed.

Lemma err_open c msg s a side :
  match c_mailbox (conn_of s c) with
  | Some _ => true
  | None => match m_mailbox msg with None => true | Some _ => false end
  end = true ->
  handle_open c a side msg s = Exn (XErr ErrOther) s.
Proof.
  intros H. unfold handle_open. rewrite bind_get_conn.
  destruct (c_mailbox (conn_of s c)) as [h|]; [reflexivity|].
  destruct (m_mailbox msg) as [m|]; [discriminate|reflexivity].
Qed.

Lemma err_add c msg s a side :
  match c_mailbox (conn_of s c) with
  | None => true
  | Some _ => match m_phase msg, m_body msg with Some _, Some _ => false | _, _ => true end
  end = true ->
  handle_add c a side msg s = Exn (XErr ErrOther) s.
Proof.
  intros H. unfold handle_add. rewrite bind_get_conn.
  destruct (c_mailbox (conn_of s c)) as [h|]; [|reflexivity].
  destruct (m_phase msg) as [p|]; [|reflexivity].
  destruct (m_body msg) as [b|]; [discriminate|reflexivity].
Qed.

Lemma err_close c msg s a side :
  c_did_close (conn_of s c) || name_mismatch (m_mailbox msg) (c_mailbox_id (conn_of s c)) = true ->
  handle_close cfg c a side msg s = Exn (XErr ErrOther) s.
Proof.
  intros H. unfold handle_close. rewrite bind_get_conn.
  destruct (c_did_close (conn_of s c)); [reflexivity|].
  cbn [orb] in H. unfold name_mismatch in H.
  destruct (m_mailbox msg) as [n|], (c_mailbox_id (conn_of s c)) as [n'|];
    try discriminate; [|reflexivity].
  apply bind_exn. destruct (seqb n n'); [discriminate|reflexivity].
Qed.

Lemma dispatch_err c t msg o s :
  m_type msg = Some t -> erroneous (conn_of s c) msg = true ->
  dispatch cfg c t msg o s = Exn (XErr ErrOther) s.
Proof.
  intros Et H.
  destruct t eqn:Ety;
    try (subst t; first [ now apply err_ping | now apply err_bind ]);
    (destruct (c_bound (conn_of s c)) as [[a side]|] eqn:Eb;
     [ rewrite (dispatch_bound c _ msg o s a side) by (congruence || assumption);
       unfold erroneous in H; rewrite Et, Eb in H
     | apply dispatch_unbound; congruence ]).
  - discriminate.
  - now apply err_allocate.
  - now apply err_claim.
  - now apply err_release.
  - now apply err_open.
  - now apply err_add.
  - now apply err_close.
  - reflexivity.
Qed.

(** exactly one error frame, after the ack if the command had a type; the
    whole state (both databases, work and committed; subscriptions; every
    connection record; clock) is unchanged apart from the log *)
Theorem erroneous_harmless c msg o s :
  erroneous (conn_of s c) msg = true ->
  on_message cfg c msg o s =
    Ok tt (set_log s (LFrame c (FError ErrOther msg) (is_clean s) (now s) ::
                      (match m_type msg with
                       | Some _ => [LFrame c (FAck (m_id msg)) (is_clean s) (now s)]
                       | None => []
                       end) ++ log s)).
Proof.
  intros H.
  destruct (m_type msg) as [t|] eqn:Et.
  - cbn [app].
    apply (on_message_dispatch_err c msg o s t Et).
    intros s1 Hs1. apply dispatch_err; [exact Et|]. rewrite Hs1. exact H.
  - unfold on_message. rewrite Et. reflexivity.
Qed.

(** ping is answered by pong with the same value, bound or not, after the ack *)
Theorem ping_pong c msg o s v :
  m_type msg = Some TPing -> m_ping msg = Some v ->
  on_message cfg c msg o s =
    Ok tt (set_log s (LFrame c (FPong v) (is_clean s) (now s) ::
                      LFrame c (FAck (m_id msg)) (is_clean s) (now s) :: log s)).
Proof.
  intros Et Ev.
  apply (on_message_dispatch_ok c msg o s TPing _ Et).
  unfold dispatch, handle_ping. rewrite Ev. reflexivity.
Qed.

(** list: one `nameplates` frame after the ack, nothing else changes *)
Theorem list_answer c msg o s a side :
  m_type msg = Some TList -> c_bound (conn_of s c) = Some (a, side) ->
  on_message cfg c msg o s =
    Ok tt (set_log s (LFrame c (FNameplates
                                  (ssort (if allow_list cfg then sel_names (chan_w s) a else [])))
                             (is_clean s) (now s) ::
                      LFrame c (FAck (m_id msg)) (is_clean s) (now s) :: log s)).
Proof.
  intros Et Eb.
  apply (on_message_dispatch_ok c msg o s TList _ Et).
  rewrite (dispatch_bound c TList msg o _ a side) by (congruence || exact Eb).
  reflexivity.
Qed.

(** the first frame of every connection is welcome *)
Theorem welcome_first c s :
  has_conn c s = false ->
  step_b cfg s (EConnect c) =
    (set_log (set_conns s (conns s ++ [(c, new_conn)]))
             (LFrame c (FWelcome (welcome cfg)) (is_clean s) (now s) :: log s), true, None).
Proof.
  intros H. unfold step_b. rewrite H. reflexivity.
Qed.

(** a successful bind records (app, side) on the connection and, with a usage
    database, one client-version row stamped with the blurred arrival time *)
Theorem bind_effect c msg o s a side :
  m_type msg = Some TBind -> c_bound (conn_of s c) = None ->
  m_appid msg = Some a -> m_side msg = Some side ->
  exists s', on_message cfg c msg o s = Ok tt s' /\
    chan_w s' = chan_w s /\ chan_c s' = chan_c s /\ subs s' = subs s /\
    conns s' = update_conn c (set_bound (conn_of s c) (Some (a, side))) (conns s) /\
    usage_w s' = (if usage_on cfg
                  then uins_cv (usage_w s)
                         (mkUCv a side (blur_round (blur cfg) (now s))
                                (fst (match m_client_version msg with Some cv => cv | None => (None, None) end))
                                (snd (match m_client_version msg with Some cv => cv | None => (None, None) end)))
                  else usage_w s) /\
    usage_c s' = (if usage_on cfg then usage_w s' else usage_c s).
Proof.
  intros Et Eb Ea Es.
  assert (Hd : exists s',
    dispatch cfg c TBind msg o
      (set_log s (LFrame c (FAck (m_id msg)) (is_clean s) (now s) :: log s)) = Ok tt s' /\
    chan_w s' = chan_w s /\ chan_c s' = chan_c s /\ subs s' = subs s /\
    conns s' = update_conn c (set_bound (conn_of s c) (Some (a, side))) (conns s) /\
    usage_w s' = (if usage_on cfg
                  then uins_cv (usage_w s)
                         (mkUCv a side (blur_round (blur cfg) (now s))
                                (fst (match m_client_version msg with Some cv => cv | None => (None, None) end))
                                (snd (match m_client_version msg with Some cv => cv | None => (None, None) end)))
                  else usage_w s) /\
    usage_c s' = (if usage_on cfg then usage_w s' else usage_c s)).
  { unfold dispatch, handle_bind. rewrite bind_get_conn, conn_of_set_log, Eb, Ea, Es.
    unfold log_client_version.
    destruct (usage_on cfg); eexists; (split; [reflexivity|]); cbn; repeat split; reflexivity. }
  destruct Hd as [s' [Hd Hrest]].
  exists s'. split; [|exact Hrest].
  exact (on_message_dispatch_ok c msg o s TBind s' Et Hd).
Qed.

End WithConfig.
