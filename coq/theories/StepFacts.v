(** StepFacts.v -- the master invariant theorem: every event (client
    command, disconnect, sweep, clock advance, restart, crash at any commit)
    takes a well-formed state to a well-formed state; every frame is emitted
    with nothing pending; every committed snapshot is a well-formed database;
    the only exceptions that can escape a handler are the listed ones. *)
From MW Require Import Base Store Monad Usage Server Websocket Service Findings
     Inv StoreFacts Hoare DbFactsA DbFactsB OpFacts.
From MW Require AllocFacts.
Local Open Scope list_scope.

Definition HInv (s : state) : Prop := SInv s /\ log_ok (log s).
Definition ids_same (s s' : state) : Prop := map fst (conns s') = map fst (conns s).
Definition log_ext (s s' : state) : Prop := exists l, log s' = l ++ log s.

(** the mailbox a close/open command resolves to *)
Definition cmd_mailbox (cs : conn_state) (msg : command) : option string :=
  match m_mailbox msg with Some m => Some m | None => c_mailbox_id cs end.

(** when an exception other than a protocol error can escape onMessage
    (the connection is then dropped): exactly the open known findings
    KF1 (mailbox id exists under another app, or a generated id collides),
    KF3 (allocator exhausted), a recorded oracle that is impossible, or -- again
    only when a generated id collides with an existing one, now of the same app
    and already used by two other sides -- CrowdedError out of allocate *)
Definition esc (s : state) (c : nat) (msg : command) (o : oracle) (e : exn) : Prop :=
  exists a side, c_bound (conn_of s c) = Some (a, side) /\
  ((e = XIntegrity /\ (m_type msg = Some TOpen \/ m_type msg = Some TClose) /\
    exists m, cmd_mailbox (conn_of s c) msg = Some m /\ pk_clash (chan_w s) a m) \/
   (e = XIntegrity /\ (m_type msg = Some TClaim \/ m_type msg = Some TAllocate) /\
    exists bytes, o_draw o = Some bytes /\ pk_clash (chan_w s) a (genid bytes)) \/
   (e = XValue /\ kf3_cmd s c msg o = true) \/
   e = XOracle \/
   (e = XCrowded /\ m_type msg = Some TAllocate /\
    exists bytes, o_draw o = Some bytes /\ has_mb (chan_w s) a (genid bytes))).

(** * Connection registry: lookup, update, removal *)

Local Notation upd c cs s := (set_conns s (update_conn c cs (conns s))).

Lemma lookup_In c l cs : lookup_conn c l = Some cs -> In (c, cs) l.
Proof.
  induction l as [|[c' cs'] l IH]; cbn [lookup_conn]; [discriminate|].
  destruct (Nat.eqb c c') eqn:E.
  - apply Nat.eqb_eq in E. subst c'. intros H; inversion H. left. reflexivity.
  - intros H. right. apply IH. exact H.
Qed.

Lemma lookup_none c l : lookup_conn c l = None <-> ~ In c (map fst l).
Proof.
  induction l as [|[c' cs'] l IH]; cbn [lookup_conn map fst In]; [tauto|].
  destruct (Nat.eqb c c') eqn:E.
  - apply Nat.eqb_eq in E. subst c'. split; [discriminate|]. intros H. exfalso. apply H. left. reflexivity.
  - apply Nat.eqb_neq in E. rewrite IH. split.
    + intros H [K|K]; [apply E; symmetry; exact K|exact (H K)].
    + intros H K. apply H. right. exact K.
Qed.

Lemma lookup_some c l : (exists cs, lookup_conn c l = Some cs) <-> In c (map fst l).
Proof.
  split.
  - intros [cs H]. apply lookup_In in H. apply in_map_iff. exists (c, cs). auto.
  - intros H. destruct (lookup_conn c l) as [cs|] eqn:E; [eauto|].
    apply lookup_none in E. contradiction.
Qed.

Lemma update_conn_fst c cs l : map fst (update_conn c cs l) = map fst l.
Proof.
  induction l as [|[c' cs'] l IH]; cbn [update_conn map fst]; [reflexivity|].
  destruct (Nat.eqb c c'); cbn [map fst]; [reflexivity|]. rewrite IH. reflexivity.
Qed.

Lemma lookup_update_same c cs l cs0 :
  lookup_conn c l = Some cs0 -> lookup_conn c (update_conn c cs l) = Some cs.
Proof.
  induction l as [|[c' cs'] l IH]; cbn [lookup_conn update_conn]; [discriminate|].
  destruct (Nat.eqb c c') eqn:E; cbn [lookup_conn]; rewrite E; [reflexivity|exact IH].
Qed.

Lemma lookup_update_other c c' cs l :
  c' <> c -> lookup_conn c' (update_conn c cs l) = lookup_conn c' l.
Proof.
  intros Hne. induction l as [|[c1 cs1] l IH]; cbn [lookup_conn update_conn]; [reflexivity|].
  destruct (Nat.eqb c c1) eqn:E; cbn [lookup_conn].
  - apply Nat.eqb_eq in E. subst c1.
    destruct (Nat.eqb c' c) eqn:E'; [apply Nat.eqb_eq in E'; contradiction|reflexivity].
  - destruct (Nat.eqb c' c1); [reflexivity|exact IH].
Qed.

Lemma update_absent c cs l : lookup_conn c l = None -> update_conn c cs l = l.
Proof.
  induction l as [|[c' cs'] l IH]; cbn [lookup_conn update_conn]; [reflexivity|].
  destruct (Nat.eqb c c'); [discriminate|]. intros H. rewrite (IH H). reflexivity.
Qed.

Lemma lookup_remove_other c c' l :
  c' <> c -> lookup_conn c' (remove_conn c l) = lookup_conn c' l.
Proof.
  intros Hne. unfold remove_conn.
  induction l as [|[c1 cs1] l IH]; cbn [lookup_conn filter fst]; [reflexivity|].
  destruct (Nat.eqb c1 c) eqn:E; cbn [negb lookup_conn].
  - apply Nat.eqb_eq in E. subst c1.
    destruct (Nat.eqb c' c) eqn:E'; [apply Nat.eqb_eq in E'; contradiction|exact IH].
  - destruct (Nat.eqb c' c1); [reflexivity|exact IH].
Qed.

Lemma lookup_remove_same c l : lookup_conn c (remove_conn c l) = None.
Proof.
  apply lookup_none. unfold remove_conn. intros H. apply in_map_iff in H.
  destruct H as [[c1 cs1] [H1 H2]]. apply filter_In in H2. destruct H2 as [_ H2].
  cbn in H1, H2. subst c1. rewrite Nat.eqb_refl in H2. discriminate.
Qed.

Lemma remove_conn_fst c l :
  map fst (remove_conn c l) = filter (fun c' => negb (Nat.eqb c' c)) (map fst l).
Proof.
  unfold remove_conn. induction l as [|[c1 cs1] l IH]; cbn [filter map fst]; [reflexivity|].
  destruct (negb (Nat.eqb c1 c)); cbn [map fst]; rewrite IH; reflexivity.
Qed.

Lemma NoDup_filter {A} (p : A -> bool) l : NoDup l -> NoDup (filter p l).
Proof.
  induction 1 as [|x l Hx Hn IH]; cbn [filter]; [constructor|].
  destruct (p x); [|exact IH]. constructor; [|exact IH].
  intros H. apply filter_In in H. apply Hx. apply H.
Qed.

Lemma lookup_app_l c l l' cs :
  lookup_conn c l = Some cs -> lookup_conn c (l ++ l') = Some cs.
Proof.
  induction l as [|[c1 cs1] l IH]; cbn [lookup_conn app]; [discriminate|].
  destruct (Nat.eqb c c1); [auto|exact IH].
Qed.

Lemma lookup_app_r c l l' :
  lookup_conn c l = None -> lookup_conn c (l ++ l') = lookup_conn c l'.
Proof.
  induction l as [|[c1 cs1] l IH]; cbn [lookup_conn app]; [reflexivity|].
  destruct (Nat.eqb c c1); [discriminate|exact IH].
Qed.

(** lookup in a registry whose records were rewritten for some ids *)
Lemma lookup_map_if (g : nat -> bool) (h : conn_state -> conn_state) c l :
  lookup_conn c (map (fun p => if g (fst p) then (fst p, h (snd p)) else p) l) =
  match lookup_conn c l with
  | Some cs => Some (if g c then h cs else cs)
  | None => None
  end.
Proof.
  induction l as [|[c1 cs1] l IH]; cbn [lookup_conn map fst snd]; [reflexivity|].
  destruct (g c1) eqn:G; cbn [lookup_conn]; destruct (Nat.eqb c c1) eqn:E; try exact IH;
    apply Nat.eqb_eq in E; subst c1; rewrite G; reflexivity.
Qed.

Lemma map_if_fst (g : nat -> bool) (h : conn_state -> conn_state) l :
  map fst (map (fun p : nat * conn_state => if g (fst p) then (fst p, h (snd p)) else p) l) = map fst l.
Proof.
  rewrite map_map. apply map_ext. intros [c cs]. cbn. destruct (g c); reflexivity.
Qed.

(** * The pre-order "same connection ids, longer log" *)
Definition ext (s s' : state) : Prop := ids_same s s' /\ log_ext s s'.

Lemma ext_refl s : ext s s.
Proof. split; [reflexivity|exists []; reflexivity]. Qed.

Lemma ext_trans s1 s2 s3 : ext s1 s2 -> ext s2 s3 -> ext s1 s3.
Proof.
  unfold ext, ids_same, log_ext. intros [A [l1 B]] [C [l2 D]]. split; [congruence|].
  exists (l2 ++ l1). rewrite D, B, app_assoc. reflexivity.
Qed.

Lemma ext_log s e : ext s (set_log s (e :: log s)).
Proof. split; [reflexivity|exists [e]; reflexivity]. Qed.

Lemma ext_upd s c cs : ext s (upd c cs s).
Proof.
  split; [|exists []; reflexivity]. unfold ids_same. cbn [conns set_conns].
  apply update_conn_fst.
Qed.

Lemma ext_subs s x : ext s (set_subs s x).
Proof. split; [reflexivity|exists []; reflexivity]. Qed.

Lemma ext_good s s' : good s s' -> ext s s'.
Proof.
  intros (_ & _ & (_ & Hc & _ & _ & _ & _ & Hl)). split; [|exact Hl].
  unfold ids_same. rewrite Hc. reflexivity.
Qed.

(** * Moving the invariant *)

Lemma HInv_RInv s : HInv s -> RInv s.
Proof. intros [H L]. split; [apply (si_db s H)|exact L]. Qed.

Lemma HInv_clean s : HInv s -> clean s.
Proof. intros [H _]. apply (si_clean s H). Qed.

(** the registries are untouched, the database moved keeping subscribed mailboxes *)
Lemma SInv_db s s' :
  SInv s -> DbInv (chan_w s') -> clean s' -> subs s' = subs s -> conns s' = conns s ->
  (forall a m c, In (a, m, c) (subs s) -> has_mb (chan_w s) a m -> has_mb (chan_w s') a m) ->
  SInv s'.
Proof.
  intros [Hdb Hcl Hco Hsu Hnd Hid] Hdb' Hcl' Es Ec Hk. constructor.
  - exact Hdb'.
  - exact Hcl'.
  - intros c cs. rewrite Ec. intros H. generalize (Hco c cs H). unfold conn_ok. rewrite Es. auto.
  - intros [[a m] c]. rewrite Es. intros Hin. generalize (Hsu _ Hin). unfold sub_ok.
    rewrite Ec. intros [Hmb Hrest]. split; [|exact Hrest]. apply (Hk a m c); assumption.
  - rewrite Es. exact Hnd.
  - rewrite Ec. exact Hid.
Qed.

Lemma SInv_same s s' :
  SInv s -> chan_w s' = chan_w s -> chan_c s' = chan_c s -> usage_w s' = usage_w s ->
  usage_c s' = usage_c s -> subs s' = subs s -> conns s' = conns s -> SInv s'.
Proof.
  intros H E1 E2 E3 E4 E5 E6. apply (SInv_db s s' H); auto.
  - rewrite E1. apply (si_db s H).
  - destruct (si_clean s H) as [A B]. split; congruence.
  - intros a m c _. rewrite E1. auto.
Qed.

Lemma HInv_good s s' :
  HInv s -> good s s' ->
  (forall a m c, In (a, m, c) (subs s) -> has_mb (chan_w s) a m -> has_mb (chan_w s') a m) ->
  HInv s'.
Proof.
  intros [H _] ([Hdb' Hl'] & Hcl' & (Es & Ec & _)) Hk. split; [|exact Hl'].
  apply (SInv_db s s' H); auto.
Qed.

Lemma HInv_good_mono s s' :
  HInv s -> good s s' -> mb_mono (chan_w s) (chan_w s') -> HInv s'.
Proof. intros H G Hm. apply (HInv_good s s' H G). intros a m c _. apply Hm. Qed.

Lemma HInv_good_same s s' :
  HInv s -> good s s' -> chan_w s' = chan_w s -> HInv s'.
Proof. intros H G E. apply (HInv_good s s' H G). intros a m c _. rewrite E. auto. Qed.

Lemma HInv_send s c f : HInv s -> HInv (set_log s (LFrame c f (is_clean s) (now s) :: log s)).
Proof.
  intros [H L]. split.
  - apply (SInv_same s); auto.
  - cbn [log set_log]. apply log_ok_cons; [|exact L]. cbn. apply is_clean_true. apply (si_clean s H).
Qed.

(** connection [c]'s record changes, keeping what it holds *)
Lemma HInv_upd c cs cs' s :
  HInv s -> lookup_conn c (conns s) = Some cs ->
  c_mailbox cs' = c_mailbox cs -> c_listening cs' = c_listening cs ->
  (c_bound cs' = c_bound cs \/ c_mailbox cs = None) ->
  HInv (upd c cs' s).
Proof.
  intros [[Hdb Hcl Hco Hsu Hnd Hid] L] Hc Em El Eb. split; [|exact L]. constructor.
  - exact Hdb.
  - exact Hcl.
  - intros c1 cs1. cbn [conns set_conns]. destruct (Nat.eq_dec c1 c) as [->|Hne].
    + rewrite (lookup_update_same c cs' _ cs Hc). intros H; inversion H; subst cs1.
      generalize (Hco c cs Hc). unfold conn_ok. cbn [subs set_conns]. rewrite Em, El.
      destruct (c_mailbox cs) as [m|]; [|auto].
      intros (a & side & Hb & Hl & Hin). exists a, side. split; [|auto].
      destruct Eb as [Eb|Eb]; [congruence|discriminate].
    + rewrite (lookup_update_other c c1 cs' _ Hne). intros H. exact (Hco c1 cs1 H).
  - intros [[a m] c1] Hin. generalize (Hsu _ Hin). unfold sub_ok. cbn [chan_w conns set_conns].
    intros [Hmb (cs1 & side & Hl & Hb & Hm)]. split; [exact Hmb|].
    destruct (Nat.eq_dec c1 c) as [->|Hne].
    + assert (cs1 = cs) by congruence. subst cs1.
      exists cs', side. split; [apply (lookup_update_same c cs' _ cs Hc)|].
      split; [|congruence]. destruct Eb as [Eb|Eb]; congruence.
    + exists cs1, side. rewrite (lookup_update_other c c1 cs' _ Hne). auto.
  - exact Hnd.
  - cbn [conns set_conns]. rewrite update_conn_fst. exact Hid.
Qed.

Lemma lookup_upd c cs cs' s :
  lookup_conn c (conns s) = Some cs -> lookup_conn c (conns (upd c cs' s)) = Some cs'.
Proof. intros H. cbn [conns set_conns]. apply (lookup_update_same c cs' _ cs H). Qed.

(** a connection that holds no mailbox has no subscription *)
Lemma no_sub_of_idle s c cs a m :
  SInv s -> lookup_conn c (conns s) = Some cs -> c_mailbox cs = None -> ~ In (a, m, c) (subs s).
Proof.
  intros H Hc Hn Hin. generalize (si_subs s H _ Hin). unfold sub_ok.
  intros [_ (cs1 & side & Hl & _ & Hm)]. congruence.
Qed.

(** the subscriptions of a connection are determined by its record *)
Lemma sub_of_conn s c cs a m :
  SInv s -> lookup_conn c (conns s) = Some cs -> In (a, m, c) (subs s) ->
  c_mailbox cs = Some m /\ exists side, c_bound cs = Some (a, side).
Proof.
  intros H Hc Hin. generalize (si_subs s H _ Hin). unfold sub_ok.
  intros [_ (cs1 & side & Hl & Hb & Hm)]. assert (cs1 = cs) by congruence. subst cs1. eauto.
Qed.

(** * Handlers *)

Definition Post (s : state) : unit -> state -> Prop := fun _ s' => HInv s' /\ ext s s'.
Definition PostE (s : state) (C : exn -> Prop) : exn -> state -> Prop :=
  fun e s' => HInv s' /\ ext s s' /\ ((exists k, e = XErr k) \/ C e).
Definition NoEsc : exn -> Prop := fun _ => False.

Lemma PostE_err s C k : HInv s -> PostE s C (XErr k) s.
Proof. intros H. split; [exact H|]. split; [apply ext_refl|]. left. eauto. Qed.

Section WithConfig.
Variable cfg : config.
Hypothesis Hexp : 0 < exp cfg.

Lemma handle_ping_spec c msg s :
  HInv s -> wp (handle_ping c msg) (Post s) (PostE s NoEsc) s.
Proof.
  intros H. unfold handle_ping. destruct (m_ping msg) as [v|].
  - wp_step. split; [apply HInv_send; exact H|apply ext_log].
  - unfold err. wp_step. apply PostE_err. exact H.
Qed.

Lemma handle_list_spec c a s :
  HInv s -> wp (handle_list cfg c a) (Post s) (PostE s NoEsc) s.
Proof.
  intros H. unfold handle_list. wp_step. wp_step. wp_step.
  split; [apply HInv_send; exact H|apply ext_log].
Qed.

Lemma handle_bind_spec c msg cs s :
  HInv s -> lookup_conn c (conns s) = Some cs ->
  wp (handle_bind cfg c msg) (Post s) (PostE s NoEsc) s.
Proof.
  intros H Hc. unfold handle_bind. wp_step. wp_step. rewrite Hc.
  destruct (c_bound cs) as [b|] eqn:Eb; [unfold err; wp_step; apply PostE_err; exact H|].
  destruct (m_appid msg) as [a|]; [|unfold err; wp_step; apply PostE_err; exact H].
  destruct (m_side msg) as [side|]; [|unfold err; wp_step; apply PostE_err; exact H].
  wp_step. wp_step.
  match goal with |- wp _ _ _ ?st => set (s1 := st) end.
  assert (H1 : HInv s1).
  { subst s1. apply (HInv_upd c cs); auto. right.
    generalize (si_conns s (proj1 H) c cs Hc). unfold conn_ok.
    destruct (c_mailbox cs) as [m|]; [|reflexivity].
    intros (a' & side' & Hb & _). congruence. }
  assert (X1 : ext s s1) by (subst s1; apply ext_upd).
  wp_step. wp_step.
  eapply wp_conseq;
    [exact (log_client_version_spec cfg a side _ _ s1 (HInv_RInv _ H1) (HInv_clean _ H1))| |].
  - intros [] s2 [G E]. split; [apply (HInv_good_same s1 s2 H1 G E)|].
    eapply ext_trans; [exact X1|apply ext_good; exact G].
  - intros e s2 [].
Qed.

Lemma handle_release_spec c a side msg cs s :
  HInv s -> lookup_conn c (conns s) = Some cs ->
  wp (handle_release cfg c a side msg) (Post s) (PostE s NoEsc) s.
Proof.
  intros H Hc. unfold handle_release. wp_step. wp_step. rewrite Hc.
  destruct (c_did_release cs); [unfold err; wp_step; apply PostE_err; exact H|].
  wp_step.
  match goal with |- wp _ ?Q' _ _ => assert (K : forall n, Q' n s) end.
  { intros n. cbv beta. wp_step. wp_step.
    match goal with |- wp _ _ _ ?st => set (s1 := st) end.
    assert (H1 : HInv s1) by (subst s1; apply (HInv_upd c cs); auto).
    assert (X1 : ext s s1) by (subst s1; apply ext_upd).
    wp_step. wp_step. wp_step.
    eapply wp_conseq;
      [exact (release_nameplate_spec cfg a n side _ s1 (HInv_RInv _ H1) (HInv_clean _ H1))| |].
    - intros [] s2 [G Hm]. wp_step.
      assert (H2 : HInv s2) by (apply (HInv_good_mono s1 s2 H1 G Hm)).
      split; [apply HInv_send; exact H2|].
      eapply ext_trans; [exact X1|]. eapply ext_trans; [apply ext_good; exact G|apply ext_log].
    - intros e s2 []. }
  destruct (m_nameplate msg) as [n|], (c_nameplate_id cs) as [n'|].
  - destruct (seqb n n'); [wp_step; apply K|unfold err; wp_step; apply PostE_err; exact H].
  - wp_step; apply K.
  - wp_step; apply K.
  - unfold err; wp_step; apply PostE_err; exact H.
Qed.

Lemma handle_add_spec c a side msg cs s :
  HInv s -> lookup_conn c (conns s) = Some cs -> c_bound cs = Some (a, side) ->
  wp (handle_add c a side msg) (Post s) (PostE s NoEsc) s.
Proof.
  intros H Hc Hb. unfold handle_add. wp_step. wp_step. rewrite Hc.
  destruct (c_mailbox cs) as [m|] eqn:Em; [|unfold err; wp_step; apply PostE_err; exact H].
  destruct (m_phase msg) as [phase|]; [|unfold err; wp_step; apply PostE_err; exact H].
  destruct (m_body msg) as [body|]; [|unfold err; wp_step; apply PostE_err; exact H].
  wp_step. wp_step.
  assert (Hmb : has_mb (chan_w s) a m).
  { generalize (si_conns s (proj1 H) c cs Hc). unfold conn_ok. rewrite Em.
    intros (a' & side' & Hb' & _ & Hin). assert (a' = a) by congruence. subst a'.
    generalize (si_subs s (proj1 H) _ Hin). unfold sub_ok. intros [K _]. exact K. }
  eapply wp_conseq;
    [apply (add_message_spec a m _ s (HInv_RInv _ H) (HInv_clean _ H)); [reflexivity|reflexivity|exact Hmb]| |].
  - intros [] s2 [G Hm]. split; [apply (HInv_good_mono s s2 H G Hm)|apply ext_good; exact G].
  - intros e s2 [].
Qed.


(** ** claim *)
Definition C_gen (s : state) (a : string) (o : oracle) (e : exn) : Prop :=
  (e = XIntegrity /\ exists bytes, o_draw o = Some bytes /\ pk_clash (chan_w s) a (genid bytes)) \/
  e = XOracle.

Lemma handle_claim_spec c a side msg o cs s :
  HInv s -> lookup_conn c (conns s) = Some cs ->
  wp (handle_claim c a side msg o) (Post s) (PostE s (C_gen s a o)) s.
Proof.
  intros H Hc. unfold handle_claim.
  destruct (m_nameplate msg) as [n|]; [|unfold err; wp_step; apply PostE_err; exact H].
  wp_step. wp_step. rewrite Hc.
  destruct (c_did_claim cs); [unfold err; wp_step; apply PostE_err; exact H|].
  wp_step. wp_step.
  match goal with |- wp _ _ _ ?st => set (s1 := st) end.
  assert (H1 : HInv s1) by (subst s1; apply (HInv_upd c cs); auto).
  assert (X1 : ext s s1) by (subst s1; apply ext_upd).
  assert (Ew : chan_w s1 = chan_w s) by reflexivity.
  wp_step. wp_step. wp_step. unfold catch_crowded_reclaimed. wp_step.
  eapply wp_conseq;
    [exact (claim_nameplate_spec a n side _ (o_draw o) s1 (HInv_RInv _ H1) (HInv_clean _ H1))| |].
  - intros m s2 (G & Hm & _). wp_step.
    assert (H2 : HInv s2) by (apply (HInv_good_mono s1 s2 H1 G Hm)).
    split; [apply HInv_send; exact H2|].
    eapply ext_trans; [exact X1|]. eapply ext_trans; [apply ext_good; exact G|apply ext_log].
  - intros e s2 [(-> & G & Hm)|(-> & Hcases)].
    + wp_step. split; [apply (HInv_good_mono s1 s2 H1 G Hm)|].
      split; [eapply ext_trans; [exact X1|apply ext_good; exact G]|]. left. eauto.
    + destruct Hcases as [->|[(-> & Hd)|(-> & _ & bytes & Hd & Hpk)]]; wp_step;
        (split; [exact H1|]); (split; [exact X1|]).
      * left. eauto.
      * right. right. reflexivity.
      * right. left. split; [reflexivity|]. exists bytes. rewrite <- Ew. auto.
Qed.

(** ** open *)
Lemma sub_is_true a m c p : sub_is a m c p = true -> p = (a, m, c).
Proof.
  destruct p as [[a' m'] c']. unfold sub_is. cbn [fst snd]. intros H.
  apply andb_true_iff in H. destruct H as [H H3]. apply andb_true_iff in H. destruct H as [H1 H2].
  apply seqb_eq in H1. apply seqb_eq in H2. apply Nat.eqb_eq in H3. congruence.
Qed.

Lemma sub_is_refl a m c : sub_is a m c (a, m, c) = true.
Proof. unfold sub_is. cbn [fst snd]. rewrite !seqb_refl, Nat.eqb_refl. reflexivity. Qed.

Lemma HInv_subscribe c cs a side m s :
  HInv s -> lookup_conn c (conns s) = Some cs -> c_mailbox cs = None ->
  c_bound cs = Some (a, side) -> has_mb (chan_w s) a m ->
  existsb (sub_is a m c) (subs s) = false /\
  HInv (set_subs (upd c (set_listening (set_mailbox cs (Some m)) true) s) (subs s ++ [(a, m, c)])).
Proof.
  intros [Hs L] Hc Hn Hb Hmb.
  assert (Hno : forall a' m', ~ In (a', m', c) (subs s)).
  { intros a' m'. apply (no_sub_of_idle s c cs a' m' Hs Hc Hn). }
  split.
  { destruct (existsb (sub_is a m c) (subs s)) eqn:E; [|reflexivity].
    apply existsb_exists in E. destruct E as [p [Hin Hp]]. apply sub_is_true in Hp. subst p.
    destruct (Hno _ _ Hin). }
  destruct Hs as [Hdb Hcl Hco Hsu Hnd Hid]. split; [|exact L].
  set (cs' := set_listening (set_mailbox cs (Some m)) true).
  constructor.
  - exact Hdb.
  - exact Hcl.
  - intros c1 cs1. cbn [conns set_conns set_subs]. destruct (Nat.eq_dec c1 c) as [->|Hne].
    + rewrite (lookup_update_same c cs' _ cs Hc). intros K; inversion K; subst cs1.
      unfold conn_ok. cbn [c_mailbox cs' set_listening set_mailbox c_bound c_listening subs set_subs].
      exists a, side. split; [exact Hb|]. split; [reflexivity|]. apply in_or_app. right. left. reflexivity.
    + rewrite (lookup_update_other c c1 cs' _ Hne). intros K. generalize (Hco c1 cs1 K).
      unfold conn_ok. cbn [subs set_subs]. destruct (c_mailbox cs1) as [m1|]; [|auto].
      intros (a1 & side1 & K1 & K2 & K3). exists a1, side1. split; [exact K1|]. split; [exact K2|].
      apply in_or_app. left. exact K3.
  - intros [[a1 m1] c1]. cbn [subs set_subs]. intros Hin. apply in_app_or in Hin.
    unfold sub_ok. cbn [chan_w conns set_conns set_subs]. destruct Hin as [Hin|[Hin|[]]].
    + generalize (Hsu _ Hin). unfold sub_ok. intros [K (cs1 & side1 & K1 & K2 & K3)].
      split; [exact K|]. exists cs1, side1.
      assert (Hne : c1 <> c) by (intros ->; exact (Hno _ _ Hin)).
      rewrite (lookup_update_other c c1 cs' _ Hne). auto.
    + inversion Hin; subst a1 m1 c1. split; [exact Hmb|]. exists cs', side.
      split; [apply (lookup_update_same c cs' _ cs Hc)|]. split; [exact Hb|reflexivity].
  - cbn [subs set_subs]. apply NoDup_snoc; [exact Hnd|apply Hno].
  - cbn [conns set_conns set_subs]. rewrite update_conn_fst. exact Hid.
Qed.

Lemma send_each_spec c l : forall s,
  HInv s -> wp (send_each c l) (Post s) (fun _ _ => False) s.
Proof.
  induction l as [|r rest IH]; intros s H; cbn [send_each].
  - wp_step. split; [exact H|apply ext_refl].
  - wp_step. wp_step.
    match goal with |- wp _ _ _ ?st => set (s1 := st) end.
    assert (H1 : HInv s1) by (subst s1; apply HInv_send; exact H).
    eapply wp_conseq; [exact (IH s1 H1)| |].
    + intros [] s2 [H2 X2]. split; [exact H2|]. eapply ext_trans; [|exact X2]. subst s1. apply ext_log.
    + intros e s2 [].
Qed.

Definition C_open (s : state) (a : string) (msg : command) (e : exn) : Prop :=
  e = XIntegrity /\ exists m, m_mailbox msg = Some m /\ pk_clash (chan_w s) a m.

Lemma handle_open_spec c a side msg cs s :
  HInv s -> lookup_conn c (conns s) = Some cs -> c_bound cs = Some (a, side) ->
  wp (handle_open c a side msg) (Post s) (PostE s (C_open s a msg)) s.
Proof.
  intros H Hc Hb. unfold handle_open. wp_step. wp_step. rewrite Hc.
  destruct (c_mailbox cs) as [h|] eqn:Em; [unfold err; wp_step; apply PostE_err; exact H|].
  destruct (m_mailbox msg) as [m|] eqn:Emsg; [|unfold err; wp_step; apply PostE_err; exact H].
  wp_step. wp_step.
  match goal with |- wp _ _ _ ?st => set (s1 := st) end.
  set (cs1 := set_mailbox_id cs (Some m)) in *.
  assert (H1 : HInv s1) by (subst s1; apply (HInv_upd c cs); auto).
  assert (X1 : ext s s1) by (subst s1; apply ext_upd).
  assert (Hc1 : lookup_conn c (conns s1) = Some cs1) by (subst s1; apply (lookup_upd c cs); exact Hc).
  assert (Ew : chan_w s1 = chan_w s) by reflexivity.
  wp_step. wp_step. wp_step. unfold catch_crowded. wp_step.
  eapply wp_conseq;
    [exact (open_mailbox_spec a m side _ s1 (HInv_RInv _ H1) (HInv_clean _ H1))| |].
  - intros [] s2 (G & Hmb & Hm).
    assert (H2 : HInv s2) by (apply (HInv_good_mono s1 s2 H1 G Hm)).
    assert (Ec2 : conns s2 = conns s1) by (destruct G as (_ & _ & (_ & K & _)); exact K).
    assert (Hc2 : lookup_conn c (conns s2) = Some cs1) by (rewrite Ec2; exact Hc1).
    wp_step. wp_step. rewrite Hc2. wp_step. wp_step. wp_step. wp_step.
    destruct (HInv_subscribe c cs1 a side m s2 H2 Hc2 Em Hb Hmb) as [Hex H3].
    cbn [subs set_conns]. rewrite Hex.
    match goal with |- wp _ _ _ ?st => set (s3 := st) in * end.
    assert (X3 : ext s s3).
    { eapply ext_trans; [exact X1|]. eapply ext_trans; [apply ext_good; exact G|].
      subst s3. eapply ext_trans; [apply ext_upd|apply ext_subs]. }
    wp_step. unfold get_messages. wp_step.
    eapply wp_conseq; [exact (send_each_spec c _ s3 H3)| |].
    + intros [] s4 [H4 X4]. split; [exact H4|]. eapply ext_trans; [exact X3|exact X4].
    + intros e s4 [].
  - intros e s2 [(-> & G & Hmb & Hm)|(-> & -> & Hex & Hno)]; wp_step.
    + split; [apply (HInv_good_mono s1 s2 H1 G Hm)|].
      split; [eapply ext_trans; [exact X1|apply ext_good; exact G]|]. left. eauto.
    + split; [exact H1|]. split; [exact X1|]. right. split; [reflexivity|].
      exists m. split; [exact Emsg|]. rewrite <- Ew. split; assumption.
Qed.

(** ** allocate: what [allocate_nameplate_spec] does not say.
    The name is free, so the nameplate is fresh: it cannot be "reclaimed", and
    it is crowded only if the generated mailbox id already had a row under
    this app. *)
Lemma filter_nil {A} (p : A -> bool) l : (forall x, In x l -> p x = false) -> filter p l = [].
Proof.
  induction l as [|x l IH]; intros H; cbn [filter]; [reflexivity|].
  rewrite (H x (or_introl eq_refl)). apply IH. intros y Hy. apply H. right. exact Hy.
Qed.

Lemma add_mailbox_tables d a m f w d1 :
  add_mailbox d a m f w = Some d1 ->
  np_sides d1 = np_sides d /\ mb_sides d1 = mb_sides d /\ np_seq d1 = np_seq d /\
  nameplates d1 = nameplates d.
Proof.
  unfold add_mailbox. destruct (sel_mb d a m); [intros K; inversion K; auto|].
  intros K. apply ins_mb_spec in K. destruct K as [_ ->]. auto.
Qed.

Lemma mailbox_open_body_tables d m side w d2 :
  mailbox_open_body d m side w = Some d2 ->
  np_sides d2 = np_sides d /\
  (mb_sides d2 = mb_sides d \/ exists r, mb_sides d2 = mb_sides d ++ [r]).
Proof.
  unfold mailbox_open_body. destruct (sel_mbs d m side).
  - intros K; inversion K. cbn. auto.
  - destruct (ins_mbs d _) as [d1|] eqn:E; [|discriminate]. apply ins_mbs_spec in E.
    destruct E as [_ ->]. intros K; inversion K. cbn. split; [reflexivity|]. right. eauto.
Qed.

Lemma open_body_tables d a m side w :
  match open_body d a m side w with
  | TxOk _ d' => np_sides d' = np_sides d /\
                 (List.length (sel_mbs_all d' m) <= S (List.length (sel_mbs_all d m)))%nat
  | TxFail e _ => e = XIntegrity
  end.
Proof.
  unfold open_body. destruct (add_mailbox d a m false w) as [d1|] eqn:E1; [|reflexivity].
  apply add_mailbox_tables in E1. destruct E1 as (A1 & A2 & _).
  destruct (mailbox_open_body d1 m side w) as [d2|] eqn:E2; [|reflexivity].
  apply mailbox_open_body_tables in E2. destruct E2 as [B1 B2].
  split; [congruence|]. unfold sel_mbs_all. destruct B2 as [B2|[r B2]]; rewrite B2, A2.
  - auto.
  - rewrite filter_app, app_length. cbn [filter]. destruct (seqb (mbs_mbox r) m); cbn [List.length]; lia.
Qed.

Lemma open_mailbox_tables a m side w s :
  wp (open_mailbox a m side w)
     (fun _ s' => np_sides (chan_w s') = np_sides (chan_w s))
     (fun e _ => e = XIntegrity \/ (e = XCrowded /\ sel_mbs_all (chan_w s) m <> [])) s.
Proof.
  unfold open_mailbox. wp_step. wp_step.
  pose proof (open_body_tables (chan_w s) a m side w) as H.
  destruct (open_body (chan_w s) a m side w) as [[] d'|e d'].
  - destruct H as [H1 H2]. wp_step. wp_step. wp_step. wp_step. wp_step. wp_step. cbn [chan_w set_chan_w].
    destruct (2 <? List.length (sel_mbs_all d' m))%nat eqn:E; wp_step.
    + right. split; [reflexivity|]. apply Nat.ltb_lt in E.
      intros K. rewrite K in H2. cbn [List.length] in H2. lia.
    + exact H1.
  - left. exact H.
Qed.

Lemma claim_body_fresh d a n side w bytes :
  DbInv d -> sel_np d a n = None ->
  claim_body d a n side w (Some bytes) =
  match add_mailbox d a (genid bytes) true w with
  | None => TxFail XIntegrity d
  | Some d1 =>
      TxOk (np_seq d1 + 1, genid bytes)
           (mkChan (nameplates d1 ++ [mkNp (np_seq d1 + 1) a n (genid bytes)])
                   (np_sides d1 ++ [mkNps (np_seq d1 + 1) true side w])
                   (mailboxes d1) (mb_sides d1) (messages d1) (np_seq d1 + 1))
  end.
Proof.
  intros Hinv Hsel. unfold claim_body. rewrite Hsel. cbv zeta.
  pose proof (add_mailbox_ok d a (genid bytes) true w Hinv) as Hadd.
  destruct (add_mailbox d a (genid bytes) true w) as [d1|]; [|reflexivity].
  destruct Hadd as [H1 [H2 _]]. apply claim_fresh_eval; assumption.
Qed.

Definition C_fresh (d : chan_db) (a : string) (draw : option string) (e : exn) : Prop :=
  e <> XReclaimed /\
  (e = XCrowded -> exists bytes, draw = Some bytes /\ has_mb d a (genid bytes)).

Lemma claim_extra a n side w draw s :
  DbInv (chan_w s) -> sel_np (chan_w s) a n = None ->
  wp (claim_nameplate a n side w draw) (fun _ _ => True)
     (fun e _ => C_fresh (chan_w s) a draw e) s.
Proof.
  intros Hinv Hsel. unfold claim_nameplate. wp_step. wp_step.
  destruct draw as [bytes|].
  2:{ unfold claim_body. rewrite Hsel. split; [discriminate|discriminate]. }
  rewrite (claim_body_fresh _ a n side w bytes Hinv Hsel).
  set (d := chan_w s) in *. set (M := genid bytes).
  destruct (add_mailbox d a M true w) as [d1|] eqn:Eadd;
    [|split; [discriminate|discriminate]].
  pose proof (add_mailbox_tables _ _ _ _ _ _ Eadd) as (T1 & T2 & T3 & T4).
  cbv beta iota. wp_step. wp_step. wp_step.
  match goal with |- wp _ _ _ ?st => set (s2 := st) end.
  destruct (sel_mb d a M) as [row|] eqn:Esel.
  - (* the generated id already has a row under this app *)
    assert (Hhas : has_mb d a M) by (apply has_mb_sel; eauto).
    eapply wp_conseq; [exact (open_mailbox_tables a M side w s2)| |].
    + intros [] s3 _. wp_step. wp_step.
      match goal with |- context [if ?b then _ else _] => destruct b end; wp_step; [|exact I].
      split; [discriminate|]. intros _. exists bytes. auto.
    + intros e s3 [->|[-> _]]; (split; [discriminate|]); [discriminate|].
      intros _. exists bytes. auto.
  - (* a new mailbox: one side row, one nameplate side row *)
    assert (Hins : ins_mb d (mkMb a M w true) = Some d1).
    { unfold add_mailbox in Eadd. rewrite Esel in Eadd. exact Eadd. }
    apply ins_mb_spec in Hins. cbn [mb_id] in Hins. destruct Hins as [Hex _].
    assert (Hrows : sel_mbs_all (chan_w s2) M = []).
    { unfold sel_mbs_all. subst s2. cbn [chan_w set_chan_w mb_sides]. rewrite T2. apply filter_nil.
      intros r Hr. apply seqb_neq. intros K.
      destruct (inv_fk_mbs d Hinv r Hr) as [x [Hx1 Hx2]].
      rewrite mb_exists_false in Hex. apply (Hex x Hx1). congruence. }
    eapply wp_conseq; [exact (open_mailbox_tables a M side w s2)| |].
    + intros [] s3 Hnps. wp_step. wp_step.
      assert (Hone : sel_nps_all (chan_w s3) (np_seq d1 + 1) = [mkNps (np_seq d1 + 1) true side w]).
      { unfold sel_nps_all. rewrite Hnps. subst s2. cbn [chan_w set_chan_w np_sides]. rewrite T1, filter_app.
        rewrite filter_nil.
        - cbn [filter nps_npid app]. rewrite Z.eqb_refl. reflexivity.
        - intros r Hr. apply Z.eqb_neq. destruct (inv_fk_nps d Hinv r Hr) as [x [Hx1 Hx2]].
          pose proof (inv_np_seq d Hinv x Hx1). lia. }
      rewrite Hone. cbn [List.length Nat.ltb Nat.leb]. wp_step. exact I.
    + intros e s3 [->|[-> K]]; [split; discriminate|]. contradiction.
Qed.

Lemma sel_np_fresh d a o n :
  find_available (sel_names d a) o = AllocOk n -> sel_np d a n = None.
Proof.
  intros Hf. destruct (AllocFacts.find_available_ok _ _ _ Hf) as (_ & Hfree & _).
  destruct (sel_np d a n) as [r|] eqn:E; [|reflexivity].
  apply sel_np_some in E. destruct E as [Hin [Ha Hn]].
  assert (K : smem n (sel_names d a) = true).
  { apply smem_In. unfold sel_names. apply sdedup_In. apply in_map_iff. exists r.
    split; [exact Hn|]. apply sel_nps_of_app_In. auto. }
  congruence.
Qed.

Lemma allocate_extra a side w o draw s :
  DbInv (chan_w s) ->
  wp (allocate_nameplate a side w o draw) (fun _ _ => True)
     (fun e _ => C_fresh (chan_w s) a draw e) s.
Proof.
  intros Hinv. unfold allocate_nameplate. wp_step. wp_step.
  destruct (find_available (sel_names (chan_w s) a) o) as [n| |] eqn:Ef.
  - wp_step. eapply wp_conseq; [exact (claim_extra a n side w draw s Hinv (sel_np_fresh _ _ _ _ Ef))| |].
    + intros m s' _. wp_step. exact I.
    + intros e s' K. exact K.
  - wp_step. split; [discriminate|discriminate].
  - wp_step. split; [discriminate|discriminate].
Qed.

Definition C_alloc (s : state) (a : string) (o : oracle) (e : exn) : Prop :=
  C_gen s a o e \/
  (e = XValue /\ find_available (sel_names (chan_w s) a) (o_alloc o) = AllocValueError) \/
  (e = XCrowded /\ exists bytes, o_draw o = Some bytes /\ has_mb (chan_w s) a (genid bytes)).

Lemma handle_allocate_spec c a side o cs s :
  HInv s -> lookup_conn c (conns s) = Some cs ->
  wp (handle_allocate c a side o) (Post s) (PostE s (C_alloc s a o)) s.
Proof.
  intros H Hc. unfold handle_allocate. wp_step. wp_step. rewrite Hc.
  destruct (c_did_allocate cs); [unfold err; wp_step; apply PostE_err; exact H|].
  wp_step. wp_step. wp_step.
  pose proof (wp_and _ _ _ _ _ _
                (allocate_nameplate_spec a side (now s) (o_alloc o) (o_draw o) s
                   (HInv_RInv _ H) (HInv_clean _ H))
                (allocate_extra a side (now s) (o_alloc o) (o_draw o) s (si_db s (proj1 H)))) as Ha.
  eapply wp_conseq; [exact Ha| |].
  - intros n s1 [(G & Hm & _) _].
    assert (H1 : HInv s1) by (apply (HInv_good_mono s s1 H G Hm)).
    assert (Hc1 : lookup_conn c (conns s1) = Some cs).
    { destruct G as (_ & _ & (_ & K & _)). rewrite K. exact Hc. }
    wp_step. wp_step. rewrite Hc1. wp_step. wp_step.
    match goal with |- wp _ _ _ ?st => set (s2 := st) end.
    assert (H2 : HInv s2) by (subst s2; apply (HInv_upd c cs); auto).
    wp_step. split; [apply HInv_send; exact H2|].
    eapply ext_trans; [apply ext_good; exact G|]. eapply ext_trans; [|apply ext_log].
    subst s2. apply ext_upd.
  - intros e s1 [[(-> & G & Hm)|(-> & Hcases)] [Hnr Hcr]].
    + split; [apply (HInv_good_mono s s1 H G Hm)|]. split; [apply ext_good; exact G|].
      right. right. right. split; [reflexivity|]. apply Hcr. reflexivity.
    + split; [exact H|]. split; [apply ext_refl|]. right.
      destruct Hcases as [->|[->|[(-> & Hf)|(-> & bytes & Hd & Hpk)]]].
      * contradiction.
      * left. right. reflexivity.
      * right. left. auto.
      * left. left. split; [reflexivity|]. exists bytes. auto.
Qed.

(** ** close.  While [handle_close] runs, connection [c] keeps its handle
    although it is no longer (or was never) subscribed: the invariant holds
    "except for [c]". *)
Definition HInvX (c : nat) (s : state) : Prop :=
  DbInv (chan_w s) /\ clean s /\
  (forall c' cs, c' <> c -> lookup_conn c' (conns s) = Some cs -> conn_ok s c' cs) /\
  (forall cs, lookup_conn c (conns s) = Some cs -> c_listening cs = false) /\
  (forall p, In p (subs s) -> sub_ok s p /\ snd p <> c) /\
  NoDup (subs s) /\ NoDup (map fst (conns s)) /\ log_ok (log s).

Lemma HInvX_RInv c s : HInvX c s -> RInv s.
Proof. intros (D & _ & _ & _ & _ & _ & _ & L). split; assumption. Qed.

Lemma HInvX_clean c s : HInvX c s -> clean s.
Proof. intros (_ & Cl & _). exact Cl. Qed.

Lemma HInvX_listening c s :
  HInvX c s ->
  c_listening (match lookup_conn c (conns s) with Some cs => cs | None => new_conn end) = false.
Proof.
  intros (_ & _ & _ & Li & _). destruct (lookup_conn c (conns s)) as [cs|]; [|reflexivity].
  apply Li. reflexivity.
Qed.

Lemma HInvX_upd c cs' s :
  HInvX c s -> c_listening cs' = false -> HInvX c (upd c cs' s).
Proof.
  intros (D & Cl & Co & Li & Su & Nd & Id & L) Hl.
  split; [exact D|]. split; [exact Cl|]. split; [|split; [|split; [|split; [exact Nd|split; [|exact L]]]]].
  - intros c1 cs1 Hne. cbn [conns set_conns]. rewrite (lookup_update_other c c1 cs' _ Hne).
    intros K. exact (Co c1 cs1 Hne K).
  - intros cs1. cbn [conns set_conns]. destruct (lookup_conn c (conns s)) as [cs0|] eqn:E.
    + rewrite (lookup_update_same c cs' _ cs0 E). intros K; inversion K; subst cs1. exact Hl.
    + rewrite (update_absent c cs' _ E), E. discriminate.
  - intros [[a1 m1] c1] Hin. destruct (Su _ Hin) as [K Hne]. split; [|exact Hne].
    cbn [snd] in Hne. generalize K. unfold sub_ok. cbn [chan_w conns set_conns].
    rewrite (lookup_update_other c c1 cs' _ Hne). auto.
  - cbn [conns set_conns]. rewrite update_conn_fst. exact Id.
Qed.

(** a connection that holds nothing is no exception *)
Lemma HInv_to_X c cs s :
  HInv s -> lookup_conn c (conns s) = Some cs -> c_mailbox cs = None -> HInvX c s.
Proof.
  intros [Hs L] Hc Hn. pose proof Hs as [D Cl Co Su Nd Id].
  split; [exact D|]. split; [exact Cl|]. split; [|split; [|split; [|split; [exact Nd|split; [exact Id|exact L]]]]].
  - intros c1 cs1 _ K. exact (Co c1 cs1 K).
  - intros cs1 K. assert (cs1 = cs) by congruence. subst cs1.
    generalize (Co c cs Hc). unfold conn_ok. rewrite Hn. auto.
  - intros [[a1 m1] c1] Hin. split; [exact (Su _ Hin)|]. cbn [snd]. intros ->.
    exact (no_sub_of_idle s c cs a1 m1 Hs Hc Hn Hin).
Qed.

(** a connection that held [h]: after it unsubscribed *)
Lemma HInvX_unsub c cs a side h s :
  HInv s -> lookup_conn c (conns s) = Some cs -> c_mailbox cs = Some h ->
  c_bound cs = Some (a, side) ->
  HInvX c (upd c (set_listening cs false)
               (set_subs s (filter (fun p => negb (sub_is a h c p)) (subs s)))).
Proof.
  intros [Hs L] Hc Hm Hb. pose proof Hs as [D Cl Co Su Nd Id].
  set (cs' := set_listening cs false).
  assert (Hkeep : forall a1 m1 c1, c1 <> c -> In (a1, m1, c1) (subs s) ->
                  In (a1, m1, c1) (filter (fun p => negb (sub_is a h c p)) (subs s))).
  { intros a1 m1 c1 Hne Hin. apply filter_In. split; [exact Hin|].
    destruct (sub_is a h c (a1, m1, c1)) eqn:E; [|reflexivity].
    apply sub_is_true in E. inversion E. contradiction. }
  split; [exact D|]. split; [exact Cl|].
  split; [|split; [|split; [|split; [|split; [|exact L]]]]].
  - intros c1 cs1 Hne. cbn [conns set_conns set_subs].
    rewrite (lookup_update_other c c1 cs' _ Hne). intros K. generalize (Co c1 cs1 K).
    unfold conn_ok. cbn [subs set_conns set_subs]. destruct (c_mailbox cs1) as [m1|]; [|auto].
    intros (a1 & side1 & K1 & K2 & K3). exists a1, side1. auto.
  - intros cs1. cbn [conns set_conns set_subs]. rewrite (lookup_update_same c cs' _ cs Hc).
    intros K; inversion K. reflexivity.
  - intros [[a1 m1] c1]. cbn [subs set_conns set_subs]. intros Hin. apply filter_In in Hin.
    destruct Hin as [Hin Hf].
    assert (Hne : c1 <> c).
    { intros ->. destruct (sub_of_conn s c cs a1 m1 Hs Hc Hin) as [K1 [side1 K2]].
      assert (m1 = h) by congruence. assert (a1 = a) by congruence. subst m1 a1.
      rewrite sub_is_refl in Hf. discriminate. }
    split; [|exact Hne]. generalize (Su _ Hin). unfold sub_ok. cbn [chan_w conns set_conns set_subs].
    rewrite (lookup_update_other c c1 cs' _ Hne). auto.
  - cbn [subs set_conns set_subs]. apply NoDup_filter. exact Nd.
  - cbn [conns set_conns set_subs]. rewrite update_conn_fst. exact Id.
Qed.

Lemma HInvX_good c s s' :
  HInvX c s -> good s s' -> mb_mono (chan_w s) (chan_w s') -> HInvX c s'.
Proof.
  intros (D & Cl & Co & Li & Su & Nd & Id & L) ([D' L'] & Cl' & (Es & Ec & _)) Hm.
  split; [exact D'|]. split; [exact Cl'|]. rewrite Es, Ec.
  split; [|split; [exact Li|split; [|split; [exact Nd|split; [exact Id|exact L']]]]].
  - intros c1 cs1 Hne K. generalize (Co c1 cs1 Hne K). unfold conn_ok. rewrite Es. auto.
  - intros [[a1 m1] c1] Hin. destruct (Su _ Hin) as [K Hne]. split; [|exact Hne].
    generalize K. unfold sub_ok. rewrite Ec. intros [K1 K2]. split; [apply Hm; exact K1|exact K2].
Qed.

Lemma victims_iff a m c l : existsb (Nat.eqb c) (subs_of a m l) = true <-> In (a, m, c) l.
Proof.
  unfold subs_of. rewrite existsb_exists. split.
  - intros [x [Hin Hx]]. apply Nat.eqb_eq in Hx. subst x. apply in_map_iff in Hin.
    destruct Hin as [[[a1 m1] c1] [K1 K2]]. apply filter_In in K2. destruct K2 as [K2 K3].
    cbn [fst snd] in K1, K3. apply andb_true_iff in K3. destruct K3 as [K3 K4].
    apply seqb_eq in K3. apply seqb_eq in K4. subst. exact K2.
  - intros Hin. exists c. split; [|apply Nat.eqb_refl]. apply in_map_iff. exists (a, m, c).
    split; [reflexivity|]. apply filter_In. split; [exact Hin|]. cbn [fst snd].
    rewrite !seqb_refl. reflexivity.
Qed.

Lemma has_mb_app_unique d a a' m : DbInv d -> has_mb d a m -> has_mb d a' m -> a' = a.
Proof.
  intros Hinv (r & Hr & Ha & Hm) (r' & Hr' & Ha' & Hm').
  assert (r = r') by (apply (NoDup_map_inj mb_id (mailboxes d)); [apply (inv_mb_id d Hinv)|auto|auto|congruence]).
  congruence.
Qed.

Lemma HInvX_deleted c a m s s' :
  HInvX c s -> has_mb (chan_w s) a m -> close_deleted a m s s' -> HInvX c s'.
Proof.
  intros (D & Cl & Co & Li & Su & Nd & Id & L) Hmb
         ([D' L'] & Cl' & Hgone & Hkeep & Es & Ec & _).
  set (V := fun c0 : nat => existsb (Nat.eqb c0) (subs_of a m (subs s))).
  assert (Hl : forall c1, lookup_conn c1 (conns s') =
                          match lookup_conn c1 (conns s) with
                          | Some cs => Some (if V c1 then stop_listener cs else cs)
                          | None => None
                          end).
  { intros c1. rewrite Ec. exact (lookup_map_if V stop_listener c1 (conns s)). }
  split; [exact D'|]. split; [exact Cl'|].
  split; [|split; [|split; [|split; [|split; [|exact L']]]]].
  - intros c1 cs1 Hne. rewrite Hl. destruct (lookup_conn c1 (conns s)) as [cs0|] eqn:E0; [|discriminate].
    intros K; inversion K; subst cs1; clear K. destruct (V c1) eqn:EV.
    + unfold conn_ok. cbn. reflexivity.
    + generalize (Co c1 cs0 Hne E0). unfold conn_ok. destruct (c_mailbox cs0) as [m1|]; [|auto].
      intros (a1 & side1 & K1 & K2 & K3). exists a1, side1. split; [exact K1|]. split; [exact K2|].
      rewrite Es. apply filter_In. split; [exact K3|]. cbn [fst snd].
      destruct (seqb a1 a && seqb m1 m) eqn:E; [|reflexivity]. apply andb_true_iff in E.
      destruct E as [E1 E2]. apply seqb_eq in E1. apply seqb_eq in E2. subst a1 m1.
      apply (victims_iff a m c1 (subs s)) in K3. unfold V in EV. congruence.
  - intros cs1. rewrite Hl. destruct (lookup_conn c (conns s)) as [cs0|] eqn:E0; [|discriminate].
    intros K; inversion K. destruct (V c); [reflexivity|]. apply Li. reflexivity.
  - intros [[a1 m1] c1]. rewrite Es. intros Hin. apply filter_In in Hin. destruct Hin as [Hin Hf].
    cbn [fst snd] in Hf. destruct (Su _ Hin) as [K Hne]. split; [|exact Hne].
    generalize K. unfold sub_ok. intros [K1 (cs1 & side1 & K2 & K3 & K4)].
    assert (Hnv : V c1 = false).
    { destruct (V c1) eqn:EV; [|reflexivity]. exfalso. unfold V in EV. apply victims_iff in EV.
      destruct (Su _ EV) as [KV _]. generalize KV. unfold sub_ok.
      intros [_ (cs2 & side2 & J2 & J3 & J4)]. assert (cs2 = cs1) by congruence. subst cs2.
      assert (a1 = a) by congruence. assert (m1 = m) by congruence. subst a1 m1.
      rewrite !seqb_refl in Hf. discriminate. }
    split.
    + destruct (string_dec m1 m) as [->|Hnm].
      * exfalso. assert (a1 = a) by (apply (has_mb_app_unique (chan_w s) a a1 m D Hmb K1)). subst a1.
        rewrite !seqb_refl in Hf. discriminate.
      * apply Hkeep; assumption.
    + exists cs1, side1. rewrite Hl, K2, Hnv. auto.
  - rewrite Es. apply NoDup_filter. exact Nd.
  - rewrite Ec. rewrite (map_if_fst V stop_listener). exact Id.
Qed.

Lemma ext_deleted a m s s' : close_deleted a m s s' -> ext s s'.
Proof.
  intros (_ & _ & _ & _ & _ & Ec & _ & _ & _ & _ & Hl). split; [|exact Hl].
  unfold ids_same. rewrite Ec.
  exact (map_if_fst (fun c0 => existsb (Nat.eqb c0) (subs_of a m (subs s))) stop_listener (conns s)).
Qed.

(** [c] drops its handle: the full invariant is back *)
Lemma HInvX_finish c s :
  HInvX c s ->
  HInv (upd c (set_mailbox (match lookup_conn c (conns s) with Some cs => cs | None => new_conn end) None) s).
Proof.
  intros (D & Cl & Co & Li & Su & Nd & Id & L). split; [|exact L].
  match goal with |- SInv (upd c ?x s) => set (cs' := x) end.
  constructor.
  - exact D.
  - exact Cl.
  - intros c1 cs1. cbn [conns set_conns]. destruct (Nat.eq_dec c1 c) as [->|Hne].
    + destruct (lookup_conn c (conns s)) as [cs0|] eqn:E.
      * rewrite (lookup_update_same c cs' _ cs0 E). intros K; inversion K.
        unfold conn_ok. subst cs'. cbn [c_mailbox set_mailbox c_listening]. apply Li. reflexivity.
      * rewrite (update_absent c cs' _ E), E. discriminate.
    + rewrite (lookup_update_other c c1 cs' _ Hne). intros K. exact (Co c1 cs1 Hne K).
  - intros [[a1 m1] c1] Hin. destruct (Su _ Hin) as [K Hne]. cbn [snd] in Hne.
    generalize K. unfold sub_ok. cbn [chan_w conns set_conns].
    rewrite (lookup_update_other c c1 cs' _ Hne). auto.
  - exact Nd.
  - cbn [conns set_conns]. rewrite update_conn_fst. exact Id.
Qed.

Definition close_tail (c : nat) (a held side : string) (mood : option string) (w : Z) : M unit :=
  cs3 <- get_conn c ;;
  set_conn c (set_did_close cs3 true) ;;;
  mailbox_close cfg a held side mood w ;;;
  cs4 <- get_conn c ;;
  set_conn c (set_mailbox cs4 None) ;;;
  send c FClosed.

Lemma close_tail_spec c a held side mood w s :
  HInvX c s -> has_mb (chan_w s) a held ->
  wp (close_tail c a held side mood w) (Post s) (fun _ _ => False) s.
Proof.
  intros HX Hmb. unfold close_tail. wp_step. wp_step. wp_step. wp_step.
  match goal with |- wp _ _ _ ?st => set (s1 := st) end.
  assert (H1 : HInvX c s1).
  { subst s1. apply HInvX_upd; [exact HX|]. exact (HInvX_listening c s HX). }
  assert (X1 : ext s s1) by (subst s1; apply ext_upd).
  assert (Hmb1 : has_mb (chan_w s1) a held) by exact Hmb.
  wp_step.
  eapply wp_conseq;
    [exact (mailbox_close_spec cfg a held side mood w s1 (HInvX_RInv c s1 H1) (HInvX_clean c s1 H1))| |].
  - intros [] s2 Hcases.
    assert (H2 : HInvX c s2 /\ ext s1 s2).
    { destruct Hcases as [[G Hm]|Hd].
      - split; [exact (HInvX_good c s1 s2 H1 G Hm)|apply ext_good; exact G].
      - split; [exact (HInvX_deleted c a held s1 s2 H1 Hmb1 Hd)|exact (ext_deleted a held s1 s2 Hd)]. }
    destruct H2 as [H2 X2].
    wp_step. wp_step. wp_step. wp_step.
    match goal with |- wp _ _ _ ?st => set (s3 := st) end.
    assert (H3 : HInv s3) by (subst s3; apply HInvX_finish; exact H2).
    wp_step. split; [apply HInv_send; exact H3|].
    eapply ext_trans; [exact X1|]. eapply ext_trans; [exact X2|].
    eapply ext_trans; [|apply ext_log]. subst s3. apply ext_upd.
  - intros e s2 [].
Qed.

Definition C_close (s : state) (a : string) (cs : conn_state) (msg : command) (e : exn) : Prop :=
  e = XIntegrity /\ exists m, cmd_mailbox cs msg = Some m /\ pk_clash (chan_w s) a m.

Lemma handle_close_spec c a side msg cs s :
  HInv s -> lookup_conn c (conns s) = Some cs -> c_bound cs = Some (a, side) ->
  wp (handle_close cfg c a side msg) (Post s) (PostE s (C_close s a cs msg)) s.
Proof.
  intros H Hc Hb. unfold handle_close. wp_step. wp_step. rewrite Hc.
  destruct (c_did_close cs); [unfold err; wp_step; apply PostE_err; exact H|].
  wp_step.
  match goal with |- wp _ ?Q' _ _ => assert (K : forall m, cmd_mailbox cs msg = Some m -> Q' m s) end.
  { intros m Hcmd. cbv beta. wp_step. wp_step. wp_step.
    destruct (c_mailbox cs) as [h|] eqn:Em.
    - (* the connection holds [h] and is subscribed *)
      generalize (si_conns s (proj1 H) c cs Hc). unfold conn_ok. rewrite Em.
      intros (a' & side' & Hb' & Hl & Hin). assert (a' = a) by congruence. subst a'.
      assert (Hmb : has_mb (chan_w s) a h).
      { generalize (si_subs s (proj1 H) _ Hin). unfold sub_ok. intros [J _]. exact J. }
      wp_step. wp_step. wp_step. rewrite Hc, Hl. wp_step. wp_step. wp_step. wp_step.
      match goal with |- wp _ _ _ ?st => set (s1 := st) end.
      assert (H1 : HInvX c s1) by (subst s1; exact (HInvX_unsub c cs a side h s H Hc Em Hb)).
      assert (X1 : ext s s1).
      { subst s1. eapply ext_trans; [apply ext_subs|]. apply ext_upd. }
      eapply wp_conseq; [exact (close_tail_spec c a h side (m_mood msg) (now s) s1 H1 Hmb)| |].
      + intros [] s2 [H2 X2]. split; [exact H2|]. eapply ext_trans; [exact X1|exact X2].
      + intros e s2 [].
    - (* no handle: open the mailbox first *)
      assert (Hl : c_listening cs = false).
      { generalize (si_conns s (proj1 H) c cs Hc). unfold conn_ok. rewrite Em. auto. }
      wp_step. unfold catch_crowded. wp_step.
      eapply wp_conseq;
        [exact (open_mailbox_spec a m side (now s) s (HInv_RInv _ H) (HInv_clean _ H))| |].
      + intros [] s1 (G & Hmb & Hm).
        assert (H1 : HInv s1) by (apply (HInv_good_mono s s1 H G Hm)).
        assert (Hc1 : lookup_conn c (conns s1) = Some cs).
        { destruct G as (_ & _ & (_ & J & _)). rewrite J. exact Hc. }
        wp_step. wp_step. rewrite Hc1. wp_step. wp_step.
        match goal with |- wp _ _ _ ?st => set (s2 := st) end.
        assert (H2 : HInvX c s2).
        { subst s2. apply HInvX_upd; [exact (HInv_to_X c cs s1 H1 Hc1 Em)|exact Hl]. }
        assert (Hc2 : lookup_conn c (conns s2) = Some (set_mailbox cs (Some m))).
        { subst s2. apply (lookup_upd c cs). exact Hc1. }
        assert (X2 : ext s s2).
        { eapply ext_trans; [apply ext_good; exact G|]. subst s2. apply ext_upd. }
        wp_step. wp_step. wp_step. rewrite Hc2. cbn [c_listening set_mailbox]. rewrite Hl.
        wp_step. wp_step.
        eapply wp_conseq; [exact (close_tail_spec c a m side (m_mood msg) (now s) s2 H2 Hmb)| |].
        * intros [] s3 [H3 X3]. split; [exact H3|]. eapply ext_trans; [exact X2|exact X3].
        * intros e s3 [].
      + intros e s1 [(-> & G & Hmb & Hm)|(-> & -> & Hex & Hno)]; wp_step.
        * split; [apply (HInv_good_mono s s1 H G Hm)|].
          split; [apply ext_good; exact G|]. left. eauto.
        * split; [exact H|]. split; [apply ext_refl|]. right. split; [reflexivity|].
          exists m. split; [exact Hcmd|]. split; assumption. }
  unfold cmd_mailbox in K.
  destruct (m_mailbox msg) as [n|], (c_mailbox_id cs) as [n'|].
  - destruct (seqb n n'); [wp_step; apply K; reflexivity|unfold err; wp_step; apply PostE_err; exact H].
  - wp_step; apply K; reflexivity.
  - wp_step; apply K; reflexivity.
  - unfold err; wp_step; apply PostE_err; exact H.
Qed.

(** ** dispatch and onMessage *)
Lemma PostE_mono s (C C' : exn -> Prop) e s' :
  (C e -> C' e) -> PostE s C e s' -> PostE s C' e s'.
Proof. intros HC (H & X & [K|K]); (split; [exact H|]); (split; [exact X|]); auto. Qed.

Lemma dispatch_spec c t msg o s :
  HInv s -> has_conn c s = true -> m_type msg = Some t ->
  wp (dispatch cfg c t msg o) (Post s) (PostE s (esc s c msg o)) s.
Proof.
  intros H Hhc Et. unfold has_conn in Hhc.
  destruct (lookup_conn c (conns s)) as [cs|] eqn:Hc; [clear Hhc|discriminate].
  assert (Ecs : conn_of s c = cs) by (unfold conn_of; rewrite Hc; reflexivity).
  assert (Hunb : c_bound cs = None -> wp (@err unit) (Post s) (PostE s (esc s c msg o)) s).
  { intros _. unfold err. wp_step. apply PostE_err. exact H. }
  destruct t; unfold dispatch;
    try (wp_step; wp_step; rewrite Hc;
         destruct (c_bound cs) as [[a side]|] eqn:Eb; [|apply Hunb; reflexivity]).
  - eapply wp_conseq; [exact (handle_ping_spec c msg s H)|auto|].
    intros e s'. apply PostE_mono. intros [].
  - eapply wp_conseq; [exact (handle_bind_spec c msg cs s H Hc)|auto|].
    intros e s'. apply PostE_mono. intros [].
  - eapply wp_conseq; [exact (handle_list_spec c a s H)|auto|].
    intros e s'. apply PostE_mono. intros [].
  - eapply wp_conseq; [exact (handle_allocate_spec c a side o cs s H Hc)|auto|].
    intros e s'. apply PostE_mono. unfold esc. rewrite Ecs. intros K. exists a, side.
    split; [exact Eb|]. destruct K as [[(-> & K)| ->]|[(-> & Hf)|(-> & K)]].
    + right. left. auto.
    + right. right. right. left. reflexivity.
    + right. right. left. split; [reflexivity|]. unfold kf3_cmd. rewrite Ecs, Eb, Et, Hf. reflexivity.
    + right. right. right. right. auto.
  - eapply wp_conseq; [exact (handle_claim_spec c a side msg o cs s H Hc)|auto|].
    intros e s'. apply PostE_mono. unfold esc. rewrite Ecs. intros K. exists a, side.
    split; [exact Eb|]. destruct K as [(-> & K)| ->].
    + right. left. auto.
    + right. right. right. left. reflexivity.
  - eapply wp_conseq; [exact (handle_release_spec c a side msg cs s H Hc)|auto|].
    intros e s'. apply PostE_mono. intros [].
  - eapply wp_conseq; [exact (handle_open_spec c a side msg cs s H Hc Eb)|auto|].
    intros e s'. apply PostE_mono. unfold esc. rewrite Ecs. intros (-> & m & Hm & Hpk).
    exists a, side. split; [exact Eb|]. left. split; [reflexivity|]. split; [auto|].
    exists m. split; [|exact Hpk]. unfold cmd_mailbox. rewrite Hm. reflexivity.
  - eapply wp_conseq; [exact (handle_add_spec c a side msg cs s H Hc Eb)|auto|].
    intros e s'. apply PostE_mono. intros [].
  - eapply wp_conseq; [exact (handle_close_spec c a side msg cs s H Hc Eb)|auto|].
    intros e s'. apply PostE_mono. unfold esc. rewrite Ecs. intros (-> & m & Hm & Hpk).
    exists a, side. split; [exact Eb|]. left. split; [reflexivity|]. split; [auto|].
    exists m. auto.
  - unfold err. wp_step. apply PostE_err. exact H.
Qed.

Theorem on_message_spec c msg o s :
  HInv s -> has_conn c s = true ->
  wp (on_message cfg c msg o)
     (fun _ s' => HInv s' /\ ids_same s s' /\ log_ext s s')
     (fun e s' => HInv s' /\ ids_same s s' /\ log_ext s s' /\ esc s c msg o e)
     s.
Proof using cfg Hexp.
  intros H Hhc. unfold on_message. wp_step.
  assert (Herr : forall k s1, HInv s1 -> ext s s1 ->
            wp (send c (FError k msg)) (fun _ s' => HInv s' /\ ids_same s s' /\ log_ext s s')
               (fun e s' => HInv s' /\ ids_same s s' /\ log_ext s s' /\ esc s c msg o e) s1).
  { intros k s1 H1 X1. wp_step. split; [apply HInv_send; exact H1|].
    exact (ext_trans _ _ _ X1 (ext_log s1 _)). }
  destruct (m_type msg) as [t|] eqn:Et.
  - wp_step. wp_step.
    match goal with |- wp _ _ _ ?st => set (s1 := st) end.
    assert (H1 : HInv s1) by (subst s1; apply HInv_send; exact H).
    assert (X1 : ext s s1) by (subst s1; apply ext_log).
    assert (Hhc1 : has_conn c s1 = true) by exact Hhc.
    eapply wp_conseq; [exact (dispatch_spec c t msg o s1 H1 Hhc1 Et)| |].
    + intros [] s2 [H2 X2]. split; [exact H2|]. exact (ext_trans _ _ _ X1 X2).
    + intros e s2 (H2 & X2 & Hcase).
      assert (X : ext s s2) by exact (ext_trans _ _ _ X1 X2).
      assert (Hesc : (exists k, e = XErr k) \/ esc s c msg o e).
      { destruct Hcase as [K|K]; [left; exact K|right; exact K]. }
      destruct e; cbv beta iota;
        try (wp_step; split; [exact H2|]; destruct X as [Xa Xb]; split; [exact Xa|];
             split; [exact Xb|]; destruct Hesc as [[k Hk]|K]; [discriminate|exact K]).
      apply Herr; assumption.
  - unfold err. wp_step. cbv beta iota. apply Herr; [exact H|apply ext_refl].
Qed.

(** * Disconnect *)
Lemma on_close_eq c s cs :
  lookup_conn c (conns s) = Some cs ->
  on_close c s =
  Ok tt (match c_mailbox cs, c_bound cs with
         | Some m, Some (a, _) =>
             if c_listening cs
             then set_subs s (filter (fun p => negb (sub_is a m c p)) (subs s)) else s
         | _, _ => s
         end).
Proof.
  intros Hc. unfold on_close, bind, get_conn. rewrite Hc.
  destruct (c_mailbox cs) as [m|]; [|reflexivity].
  destruct (c_bound cs) as [[a sd]|]; [|reflexivity].
  destruct (c_listening cs); reflexivity.
Qed.

Lemma remove_update c cs l : remove_conn c (update_conn c cs l) = remove_conn c l.
Proof.
  unfold remove_conn. induction l as [|[c1 cs1] l IH]; cbn [update_conn filter fst]; [reflexivity|].
  destruct (Nat.eqb c c1) eqn:E; cbn [filter fst].
  - apply Nat.eqb_eq in E. subst c1. rewrite Nat.eqb_refl. reflexivity.
  - rewrite IH. reflexivity.
Qed.

Lemma HInvX_remove c s : HInvX c s -> HInv (set_conns s (remove_conn c (conns s))).
Proof.
  intros (D & Cl & Co & Li & Su & Nd & Id & L). split; [|exact L]. constructor.
  - exact D.
  - exact Cl.
  - intros c1 cs1. cbn [conns set_conns]. destruct (Nat.eq_dec c1 c) as [->|Hne].
    + rewrite lookup_remove_same. discriminate.
    + rewrite (lookup_remove_other c c1 _ Hne). intros K. exact (Co c1 cs1 Hne K).
  - intros [[a1 m1] c1] Hin. destruct (Su _ Hin) as [K Hne]. cbn [snd] in Hne.
    generalize K. unfold sub_ok. cbn [chan_w conns set_conns].
    rewrite (lookup_remove_other c c1 _ Hne). auto.
  - exact Nd.
  - cbn [conns set_conns]. rewrite remove_conn_fst. apply NoDup_filter. exact Id.
Qed.

Theorem drop_conn_spec c s :
  HInv s -> has_conn c s = true ->
  HInv (drop_conn c s) /\ log (drop_conn c s) = log s /\
  map fst (conns (drop_conn c s)) = filter (fun c' => negb (Nat.eqb c' c)) (map fst (conns s)).
Proof using cfg Hexp.
  intros H Hhc. unfold has_conn in Hhc.
  destruct (lookup_conn c (conns s)) as [cs|] eqn:Hc; [clear Hhc|discriminate].
  unfold drop_conn. rewrite (on_close_eq c s cs Hc).
  pose proof (si_conns s (proj1 H) c cs Hc) as Hok. unfold conn_ok in Hok.
  destruct (c_mailbox cs) as [m|] eqn:Em.
  - destruct Hok as (a & side & Hb & Hl & Hin). rewrite Hb, Hl.
    pose proof (HInvX_remove c _ (HInvX_unsub c cs a side m s H Hc Em Hb)) as K.
    cbn [conns set_conns set_subs] in K. rewrite remove_update in K.
    split; [exact K|]. split; [reflexivity|]. apply remove_conn_fst.
  - split; [exact (HInvX_remove c s (HInv_to_X c cs s H Hc Em))|].
    split; [reflexivity|]. apply remove_conn_fst.
Qed.

(** * The sweep *)
Lemma good_subs s s' : good s s' -> subs s' = subs s.
Proof. intros (_ & _ & (K & _)). exact K. Qed.

Theorem expire_spec fault s :
  HInv s ->
  wp (expire cfg fault)
     (fun _ s' => HInv s' /\ ids_same s s' /\ log_ext s s' /\ subs s' = subs s)
     (fun _ _ => False) s.
Proof.
  intros H. unfold expire. wp_step. wp_step. wp_step.
  assert (Hdump : forall s1, HInv s1 -> ext s s1 -> subs s1 = subs s ->
            wp (dump_stats cfg (now s) (boot s))
               (fun _ s' => HInv s' /\ ids_same s s' /\ log_ext s s' /\ subs s' = subs s)
               (fun _ _ => False) s1).
  { intros s1 H1 X1 E1.
    eapply wp_conseq;
      [exact (dump_stats_spec cfg (now s) (boot s) s1 (HInv_RInv _ H1) (HInv_clean _ H1))| |].
    - intros [] s2 [G E]. split; [apply (HInv_good_same s1 s2 H1 G E)|].
      destruct (ext_trans _ _ _ X1 (ext_good _ _ G)) as [Xa Xb].
      split; [exact Xa|]. split; [exact Xb|]. rewrite (good_subs _ _ G). exact E1.
    - intros e s2 []. }
  destruct fault.
  - wp_step. apply Hdump; [exact H|apply ext_refl|reflexivity].
  - wp_step.
    eapply wp_conseq;
      [apply (prune_all_apps_spec cfg (now s) (now s - exp cfg) s (HInv_RInv _ H) (HInv_clean _ H)); lia| |].
    + intros [] s1 [G Hk]. apply Hdump.
      * apply (HInv_good s s1 H G). exact Hk.
      * apply ext_good. exact G.
      * apply (good_subs _ _ G).
    + intros e s1 [].
Qed.

(** * Base events *)
Lemma HInv_connect c s :
  HInv s -> has_conn c s = false -> HInv (set_conns s (conns s ++ [(c, new_conn)])).
Proof.
  intros [[D Cl Co Su Nd Id] L] Hhc. unfold has_conn in Hhc.
  destruct (lookup_conn c (conns s)) eqn:Hc; [discriminate|]. clear Hhc.
  split; [|exact L]. constructor.
  - exact D.
  - exact Cl.
  - intros c1 cs1. cbn [conns set_conns]. destruct (lookup_conn c1 (conns s)) as [cs0|] eqn:E.
    + rewrite (lookup_app_l c1 _ _ cs0 E). intros K; inversion K; subst cs1. exact (Co c1 cs0 E).
    + rewrite (lookup_app_r c1 _ _ E). cbn [lookup_conn]. destruct (Nat.eqb c1 c); [|discriminate].
      intros K; inversion K. unfold conn_ok. reflexivity.
  - intros [[a1 m1] c1] Hin. generalize (Su _ Hin). unfold sub_ok. cbn [chan_w conns set_conns].
    intros [K (cs1 & side1 & K1 & K2)]. split; [exact K|]. exists cs1, side1.
    rewrite (lookup_app_l c1 _ _ cs1 K1). auto.
  - exact Nd.
  - cbn [conns set_conns]. rewrite map_app. cbn [map fst]. apply NoDup_snoc; [exact Id|].
    apply lookup_none. exact Hc.
Qed.

Lemma has_conn_ids c s s' : ids_same s s' -> has_conn c s' = has_conn c s.
Proof.
  unfold ids_same, has_conn. intros E.
  destruct (lookup_conn c (conns s')) as [cs'|] eqn:E1, (lookup_conn c (conns s)) as [cs|] eqn:E2;
    try reflexivity; exfalso.
  - apply lookup_none in E2. apply E2. rewrite <- E. apply lookup_some. eauto.
  - apply lookup_none in E1. apply E1. rewrite E. apply lookup_some. eauto.
Qed.

Lemma HInv_same s s' :
  HInv s -> chan_w s' = chan_w s -> chan_c s' = chan_c s -> usage_w s' = usage_w s ->
  usage_c s' = usage_c s -> subs s' = subs s -> conns s' = conns s -> log s' = log s -> HInv s'.
Proof.
  intros [H L] E1 E2 E3 E4 E5 E6 E7. split; [apply (SInv_same s); assumption|]. rewrite E7. exact L.
Qed.

Theorem step_b_spec s e :
  HInv s ->
  let '(s', valid, x) := step_b cfg s e in
  HInv s' /\ log_ext s s' /\
  (forall ex, x = Some ex ->
     match e with ECmd c msg o => esc s c msg o ex | _ => False end).
Proof.
  intros H.
  assert (Hid : HInv s /\ log_ext s s /\ forall ex : exn, @None exn = Some ex -> False).
  { split; [exact H|]. split; [exists []; reflexivity|discriminate]. }
  destruct e as [c|c m o|c|fault|dt fault]; unfold step_b.
  - destruct (has_conn c s) eqn:Ehc; [exact Hid|].
    unfold run_m, on_open, send. cbv beta iota zeta.
    split; [apply HInv_send; apply HInv_connect; assumption|].
    split; [eexists [_]; reflexivity|discriminate].
  - destruct (has_conn c s) eqn:Ehc; [|split; [exact H|]; split; [exists []; reflexivity|discriminate]].
    pose proof (on_message_spec c m o s H Ehc) as W. unfold wp in W.
    destruct (on_message cfg c m o s) as [[] s'|ex s'].
    + destruct W as (H' & _ & L'). split; [exact H'|]. split; [exact L'|discriminate].
    + destruct W as (H' & I' & L' & Hesc).
      assert (Ehc' : has_conn c s' = true) by (rewrite (has_conn_ids c s s' I'); exact Ehc).
      destruct (drop_conn_spec c s' H' Ehc') as (Hd & Ld & _).
      split; [exact Hd|]. split; [unfold log_ext; rewrite Ld; exact L'|].
      intros ex0 K. inversion K. subst ex0. exact Hesc.
  - destruct (has_conn c s) eqn:Ehc; [|exact Hid].
    destruct (drop_conn_spec c s H Ehc) as (Hd & Ld & _).
    split; [exact Hd|]. split; [exists []; rewrite Ld; reflexivity|discriminate].
  - unfold run_m. pose proof (expire_spec fault s H) as W. unfold wp in W.
    destruct (expire cfg fault s) as [[] s1|ex s1]; [|destruct W].
    destruct W as (H1 & _ & L1 & _). split; [exact H1|]. split; [exact L1|discriminate].
  - destruct (dt <? 0); [exact Hid|]. cbv zeta.
    set (s1 := set_now s (now s + dt)).
    assert (H1 : HInv s1) by (apply (HInv_same s); auto).
    destruct (next_due s1 <=? now s1).
    + unfold run_m. pose proof (expire_spec fault s1 H1) as W. unfold wp in W.
      destruct (expire cfg fault s1) as [[] s2|ex s2]; [|destruct W].
      destruct W as (H2 & _ & L2 & _).
      split; [apply (HInv_same s2); auto|]. split; [exact L2|discriminate].
    + split; [exact H1|]. split; [exists []; reflexivity|discriminate].
Qed.

(** * Process start, restart, crash *)
Lemma DbInv_empty : DbInv empty_chan.
Proof.
  constructor; cbn; try constructor; intros r [].
Qed.

Lemma Forall_rev_ok (l : list log_entry) : log_ok l -> Forall entry_ok (rev l).
Proof.
  unfold log_ok. rewrite !Forall_forall. intros H x Hx. apply H. apply in_rev. exact Hx.
Qed.

Lemma boot_on_eq c u t :
  boot_on cfg c u t =
  match expire cfg false (mkState c c u u [] [] t t t (t + period cfg) []) with
  | Ok _ s' => (set_log s' [], rev (log s'), None)
  | Exn e s' => (set_log s' [], rev (log s'), Some e)
  end.
Proof.
  unfold boot_on, run_m.
  destruct (expire cfg false (mkState c c u u [] [] t t t (t + period cfg) [])); reflexivity.
Qed.

Theorem boot_on_spec c u t :
  DbInv c ->
  let '(s1, bl, x) := boot_on cfg c u t in
  SInv s1 /\ log s1 = [] /\ conns s1 = [] /\ subs s1 = [] /\ Forall entry_ok bl /\ x = None.
Proof.
  intros Hdb. rewrite boot_on_eq.
  set (s0 := mkState c c u u [] [] t t t (t + period cfg) []).
  assert (H0 : HInv s0).
  { split; [|constructor]. constructor; cbn.
    - exact Hdb.
    - split; reflexivity.
    - intros c1 cs1 K. discriminate.
    - intros p [].
    - constructor.
    - constructor. }
  pose proof (expire_spec false s0 H0) as W. unfold wp in W.
  destruct (expire cfg false s0) as [[] s1|ex s1]; [|destruct W].
  destruct W as ([Hs L] & I & _ & Es).
  split; [apply (SInv_same s1); auto|]. split; [reflexivity|].
  split; [|split; [exact Es|split; [apply Forall_rev_ok; exact L|reflexivity]]].
  unfold ids_same in I. cbn [conns set_log]. cbn in I. apply map_eq_nil in I. exact I.
Qed.

Lemma log_prefix_ok l : Forall entry_ok l -> forall k, Forall entry_ok (log_prefix k l).
Proof.
  induction 1 as [|x l Hx Hl IH]; intros k; destruct k; cbn [log_prefix]; try constructor.
  destruct (is_commit x); constructor; auto.
Qed.

Lemma replay_commits_DbInv l : forall c u,
  Forall entry_ok l -> DbInv c -> DbInv (fst (replay_commits l c u)).
Proof.
  induction l as [|x l IH]; intros c u Hl Hc; cbn [replay_commits]; [exact Hc|].
  inversion Hl as [|? ? Hx Hl']; subst. destruct x as [d|u'|c0 f b]; apply IH; auto.
Qed.

Theorem step_spec s e :
  SInv s ->
  let '(s', o) := step cfg s e in
  SInv s' /\ log s' = [] /\ Forall entry_ok (o_log o) /\ Forall entry_ok (o_boot_log o) /\
  (forall ex, o_exc o = Some ex ->
     match e with
     | EB (ECmd c msg ora) | ECrash _ (ECmd c msg ora) => esc (set_log s []) c msg ora ex
     | _ => False
     end).
Proof.
  intros Hs. unfold step. cbv zeta. set (s0 := set_log s []).
  assert (H0 : HInv s0) by (split; [apply (SInv_same s); auto|constructor]).
  assert (Hc0 : DbInv (chan_c s0)).
  { destruct (si_clean s Hs) as [K _]. cbn [chan_c s0 set_log]. rewrite <- K. apply (si_db s Hs). }
  destruct e as [b|k b|].
  - pose proof (step_b_spec s0 b H0) as W. destruct (step_b cfg s0 b) as [[s1 valid] x].
    destruct W as ([Hs1 L1] & _ & Hx). cbn [o_log o_boot_log o_exc].
    split; [apply (SInv_same s1); auto|]. split; [reflexivity|].
    split; [apply Forall_rev_ok; exact L1|]. split; [constructor|].
    intros ex Hex. specialize (Hx ex Hex). destruct b; exact Hx.
  - pose proof (step_b_spec s0 b H0) as W. destruct (step_b cfg s0 b) as [[s1 valid] x].
    destruct W as ([Hs1 L1] & _ & Hx).
    assert (Hfull : Forall entry_ok (rev (log s1))) by (apply Forall_rev_ok; exact L1).
    destruct ((count_commits (rev (log s1)) <? k)%nat || negb valid).
    + assert (Hc1 : DbInv (chan_c s1)).
      { destruct (si_clean s1 Hs1) as [K _]. rewrite <- K. apply (si_db s1 Hs1). }
      pose proof (boot_on_spec (chan_c s1) (usage_c s1) (now s1) Hc1) as B.
      destruct (boot_on cfg (chan_c s1) (usage_c s1) (now s1)) as [[s2 bl] x2].
      destruct B as (Hs2 & L2 & _ & _ & Hbl & _). cbn [o_log o_boot_log o_exc].
      split; [exact Hs2|]. split; [exact L2|]. split; [exact Hfull|]. split; [exact Hbl|].
      intros ex Hex. specialize (Hx ex Hex). destruct b; exact Hx.
    + pose proof (log_prefix_ok _ Hfull k) as Hpre.
      pose proof (replay_commits_DbInv _ (chan_c s0) (usage_c s0) Hpre Hc0) as Hc.
      destruct (replay_commits (log_prefix k (rev (log s1))) (chan_c s0) (usage_c s0)) as [c u].
      cbn [fst] in Hc.
      pose proof (boot_on_spec c u (now s1) Hc) as B.
      destruct (boot_on cfg c u (now s1)) as [[s2 bl] x2].
      destruct B as (Hs2 & L2 & _ & _ & Hbl & _). cbn [o_log o_boot_log o_exc].
      split; [exact Hs2|]. split; [exact L2|]. split; [exact Hpre|]. split; [exact Hbl|].
      discriminate.
  - pose proof (boot_on_spec (chan_c s0) (usage_c s0) (now s0) Hc0) as B.
    destruct (boot_on cfg (chan_c s0) (usage_c s0) (now s0)) as [[s2 bl] x2].
    destruct B as (Hs2 & L2 & _ & _ & Hbl & ->). cbn [o_log o_boot_log o_exc].
    split; [exact Hs2|]. split; [exact L2|]. split; [constructor|]. split; [exact Hbl|].
    discriminate.
Qed.

Theorem init_spec t0 : SInv (init cfg t0) /\ log (init cfg t0) = [].
Proof.
  unfold init. pose proof (boot_on_spec empty_chan empty_usage t0 DbInv_empty) as B.
  destruct (boot_on cfg empty_chan empty_usage t0) as [[s1 bl] x].
  destruct B as (Hs & L & _). cbn [fst]. split; assumption.
Qed.

(** every reachable state, every observation of every history *)
Theorem run_spec s h :
  SInv s ->
  SInv (fst (run cfg s h)) /\
  forall o, In o (snd (run cfg s h)) ->
    Forall entry_ok (o_log o) /\ Forall entry_ok (o_boot_log o).
Proof.
  revert s. induction h as [|e h IH]; intros s Hs; cbn [run].
  - split; [exact Hs|]. intros o [].
  - pose proof (step_spec s e Hs) as W. destruct (step cfg s e) as [s1 o1].
    destruct W as (H1 & _ & Lo & Lb & _). specialize (IH s1 H1).
    destruct (run cfg s1 h) as [s2 os]. cbn [fst snd] in *. destruct IH as [IH1 IH2].
    split; [exact IH1|]. intros o [<-|Hin]; [split; assumption|apply IH2; exact Hin].
Qed.
End WithConfig.
