(** RunLifts.v -- C07 over whole histories.

    CrashLife.v [holder_stable_all] says what one event -- a crash at any
    commit boundary included -- does to a side's claim on a nameplate.  Here:
    (1) the same per-event statement keeping the nameplate ROW (so "bound to
    its mailbox" is literal: the row, hence its mailbox id, is the same one);
    (2) the lift to every history, in the shape of MbStable.mailbox_stable_run:
    a claim held at the start is held at the end, or some event of the history
    found it held and ended it ([claim_ender]: that side's own release of that
    nameplate -- completed or cut short by a crash --, or the deletion of the
    nameplate's mailbox); (3) while held, the name is listed. *)
From MW Require Import Base Store Monad Usage Server Websocket Service Findings
     Inv StoreFacts Hoare DbFactsA DbFactsB OpFacts ProtoFacts Obs StepFacts SweepFacts
     NpFactsA MbFactsA MbFactsB CrowdFacts LifeFacts NpFactsB ResumeFacts HistFacts CrashLife.
Local Open Scope list_scope.

(** * Vocabulary *)

(** side [side] holds a claim on the nameplate row [np] *)
Definition holder_of (d : chan_db) (np : np_row) (side : string) : Prop :=
  sel_np d (np_app np) (np_name np) = Some np /\
  exists r, In r (np_sides d) /\ nps_npid r = np_id np /\ nps_side r = side /\ nps_claimed r = true.

Lemma holder_of_holder d np side : holder_of d np side -> holder d (np_app np) (np_name np) side.
Proof. intros (Hs & r & Hr). exists np, r. split; [exact Hs|exact Hr]. Qed.

Lemma holder_holder_of d a n side :
  holder d a n side -> exists np, sel_np d a n = Some np /\ holder_of d np side.
Proof.
  intros (np & r & Hs & Hr). exists np. split; [exact Hs|].
  destruct (sel_np_some _ _ _ _ Hs) as (_ & Ha & Hn). split; [rewrite Ha, Hn; exact Hs|].
  exists r. exact Hr.
Qed.

(** while some side holds it, the name is listed (the answer of `list`), and
    bound to one row *)
Lemma listed_while_held d a n side :
  holder d a n side -> In n (sel_names d a) /\ exists np, sel_np d a n = Some np.
Proof.
  intros (np & r & Hs & _). split; [|exists np; exact Hs].
  destruct (sel_np_some _ _ _ _ Hs) as (Hin & Ha & Hn).
  apply sel_names_spec. exists np. auto.
Qed.

Section WithConfig.
Variable cfg : config.
Hypothesis Hexp : 0 < exp cfg.

(** what can end the claim of [side] on nameplate (a, n) at event [e]: that
    side's own release of that nameplate -- processed completely, or cut short
    by a crash after any of its commits --, or the deletion of the nameplate's
    mailbox by [e] *)
Definition claim_ender (s : state) (e : event) (a n side : string) : Prop :=
  (exists c cs msg o, (e = EB (ECmd c msg o) \/ exists k, e = ECrash k (ECmd c msg o)) /\
                      lookup_conn c (conns s) = Some cs /\
                      c_bound cs = Some (a, side) /\ m_type msg = Some TRelease /\
                      cmd_nameplate cs msg = Some n) \/
  (exists np, sel_np (chan_w s) a n = Some np /\
              ~ mb_alive (chan_w (fst (step cfg s e))) (np_mbox np)).

(** * One event, keeping the row *)
Theorem holder_row_stable_all s e np side :
  SInv s -> log s = [] -> holder_of (chan_w s) np side ->
  holder_of (chan_w (fst (step cfg s e))) np side \/
  claim_ender s e (np_app np) (np_name np) side.
Proof.
  intros HS Hlog (Hsel & r & Hr & H1 & H2 & H3).
  destruct (sel_np_some _ _ _ _ Hsel) as (Hin & _ & _).
  assert (Hcl : claimp np side (chan_w s)) by (split; [exact Hin|exists r; auto]).
  destruct (step_inv cfg Hexp s e HS) as [HS' _].
  pose proof (si_db _ HS') as Hdb'.
  assert (Hdec : (exists b, (e = EB b \/ exists k, e = ECrash k b) /\
                            own_release s b (np_app np) (np_name np) side) \/
                 rel_ok_e (OK3 np side) s e).
  { destruct e as [b|k b|].
    - destruct (own_release_dec s b np side) as [O|O].
      + left. exists b. split; [left; reflexivity|exact O].
      + right. intros b' [K|[k K]]; inversion K; subst b'. exact O.
    - destruct (own_release_dec s b np side) as [O|O].
      + left. exists b. split; [right; exists k; reflexivity|exact O].
      + right. intros b' [K|[k' K]]; inversion K; subst b'. exact O.
    - right. intros b' [K|[k K]]; discriminate. }
  destruct Hdec as [(b & He & c & cs & msg & o & -> & Hl & Hb & Ht & Hc)|Hrel].
  - right. left. exists c, cs, msg, o. auto.
  - destruct (claim_GS cfg s e np side HS Hrel) as (d1 & Gd & _ & Sd).
    destruct (Sd (Gd Hcl)) as [(Hin' & r' & Hr' & K1 & K2 & K3)|K].
    + left. split.
      * apply sel_np_of_In; auto. apply inv_np_key. exact Hdb'.
      * exists r'. auto.
    + right. right. exists np. split; [exact Hsel|exact K].
Qed.

(** * Every history *)

(** C07 over any history (all events, crashes at any commit boundary included):
    a claim held at the start is held at the end, or some event of the history
    found it held and ended it *)
Theorem holder_stable_run a n side h : forall s,
  SInv s -> log s = [] -> holder (chan_w s) a n side ->
  holder (chan_w (fst (run cfg s h))) a n side \/
  exists h1 e h2, h = h1 ++ e :: h2 /\
    holder (chan_w (fst (run cfg s h1))) a n side /\
    claim_ender (fst (run cfg s h1)) e a n side.
Proof.
  induction h as [|e h IH]; intros s HS Hlog Hh; [left; exact Hh|].
  destruct (holder_stable_all cfg Hexp s e a n side HS Hlog Hh) as [K|K].
  - destruct (step_inv cfg Hexp s e HS) as [HS1 Hlog1].
    rewrite (run_cons_fst cfg).
    destruct (IH _ HS1 Hlog1 K) as [K1|(h1 & e1 & h2 & -> & K1 & K2)]; [left; exact K1|].
    right. exists (e :: h1), e1, h2. split; [reflexivity|].
    rewrite (run_cons_fst cfg). auto.
  - right. exists [], e, h. split; [reflexivity|]. split; [exact Hh|exact K].
Qed.

(** ... and for as long as it is held it is the same row: same nameplates.id,
    same mailbox id *)
Theorem holder_row_stable_run np side h : forall s,
  SInv s -> log s = [] -> holder_of (chan_w s) np side ->
  holder_of (chan_w (fst (run cfg s h))) np side \/
  exists h1 e h2, h = h1 ++ e :: h2 /\
    holder_of (chan_w (fst (run cfg s h1))) np side /\
    claim_ender (fst (run cfg s h1)) e (np_app np) (np_name np) side.
Proof.
  induction h as [|e h IH]; intros s HS Hlog Hh; [left; exact Hh|].
  destruct (holder_row_stable_all s e np side HS Hlog Hh) as [K|K].
  - destruct (step_inv cfg Hexp s e HS) as [HS1 Hlog1].
    rewrite (run_cons_fst cfg).
    destruct (IH _ HS1 Hlog1 K) as [K1|(h1 & e1 & h2 & -> & K1 & K2)]; [left; exact K1|].
    right. exists (e :: h1), e1, h2. split; [reflexivity|].
    rewrite (run_cons_fst cfg). auto.
  - right. exists [], e, h. split; [reflexivity|]. split; [exact Hh|exact K].
Qed.

(** C07, the property text: from a state in which [side] holds nameplate
    (a, n), bound to row [np]: over any history in which no event is a
    [claim_ender] at the state it is applied to, the name stays listed and
    bound to the same row (the same mailbox) in EVERY state passed *)
Theorem listed_and_bound_while_held np side h s :
  SInv s -> log s = [] -> holder_of (chan_w s) np side ->
  (forall h1 e h2, h = h1 ++ e :: h2 ->
     ~ claim_ender (fst (run cfg s h1)) e (np_app np) (np_name np) side) ->
  forall h1 h2, h = h1 ++ h2 ->
    let d := chan_w (fst (run cfg s h1)) in
    In (np_name np) (sel_names d (np_app np)) /\
    sel_np d (np_app np) (np_name np) = Some np /\ holder_of d np side.
Proof.
  intros HS Hlog Hh Hno h1 h2 E. cbv zeta.
  destruct (holder_row_stable_run np side h1 s HS Hlog Hh) as [K|(p & e & q & E1 & _ & K)].
  - split; [|split; [exact (proj1 K)|exact K]].
    exact (proj1 (listed_while_held _ _ _ _ (holder_of_holder _ _ _ K))).
  - exfalso. apply (Hno p e (q ++ h2)); [|exact K].
    rewrite E, E1, <- app_assoc. reflexivity.
Qed.

End WithConfig.

(** * Non-vacuity (on CrashLife's concrete history)

    Side "s" claims nameplate "7"; the server dies between the two commits of
    the claim ([cl_s1]).  Over [cl_hist2] -- the other side's claim, its release
    cut short by a crash, sweeps, a crash inside a second claim, a restart --
    no event is a [claim_ender] for "s", so by [holder_stable_run] the claim is
    held at the end; appending "s"'s own release cut short after its first
    commit gives the second disjunct. *)
Definition rl_row : np_row := mkNp 1 "a" "7" (genid "AAAAAAAA").

Lemma rl_holder_of : holder_of (chan_w cl_s1) rl_row "s".
Proof.
  split; [vm_compute; reflexivity|].
  exists (mkNps 1 true "s" 0). vm_compute. auto.
Qed.

Example holder_stable_run_first :
  holder (chan_w (fst (run cl_cfg cl_s1 cl_hist2))) "a" "7" "s" /\
  In "7" (sel_names (chan_w (fst (run cl_cfg cl_s1 cl_hist2))) "a").
Proof.
  assert (H : holder (chan_w (fst (run cl_cfg cl_s1 cl_hist2))) "a" "7" "s")
    by (apply holder_b_iff; vm_compute; reflexivity).
  split; [exact H|exact (proj1 (listed_while_held _ _ _ _ H))].
Qed.

(** the theorem applied: its hypotheses hold at [cl_s1], and the second
    disjunct is refuted event by event, so the first one is what it yields *)
Definition rl_ender_b (s : state) (e : event) : bool :=
  match e with
  | EB (ECmd c msg o) | ECrash _ (ECmd c msg o) =>
      match lookup_conn c (conns s) with
      | Some cs =>
          match c_bound cs, m_type msg with
          | Some (a, sd), Some TRelease => seqb a "a" && seqb sd "s"
          | _, _ => false
          end
      | None => false
      end
  | _ => false
  end.

Example holder_stable_run_applied :
  holder (chan_w (fst (run cl_cfg cl_s1 cl_hist2))) "a" "7" "s".
Proof.
  destruct (holder_stable_run cl_cfg cl_exp "a" "7" "s" cl_hist2 cl_s1
              (proj1 cl_s1_inv) (proj2 cl_s1_inv) (holder_of_holder _ _ _ rl_holder_of))
    as [K|(h1 & e & h2 & E & _ & K)]; [exact K|exfalso].
  assert (Hn : forall i, (i < List.length cl_hist2)%nat ->
             let s := fst (run cl_cfg cl_s1 (firstn i cl_hist2)) in
             let e := nth i cl_hist2 ERestart in
             rl_ender_b s e = false /\
             (forall np, sel_np (chan_w s) "a" "7" = Some np -> np = rl_row) /\
             mb_exists (chan_w (fst (step cl_cfg s e))) (np_mbox rl_row) = true).
  { intros i Hi. do 10 (destruct i as [|i]; [vm_compute; repeat split; try reflexivity;
      intros np Hnp; inversion Hnp; reflexivity|]). cbn in Hi. lia. }
  assert (Ei : firstn (List.length h1) cl_hist2 = h1 /\ nth (List.length h1) cl_hist2 ERestart = e /\
               (List.length h1 < List.length cl_hist2)%nat).
  { rewrite E. split; [|split].
    - rewrite firstn_app, firstn_all, Nat.sub_diag. cbn [firstn]. apply app_nil_r.
    - rewrite app_nth2 by lia. rewrite Nat.sub_diag. reflexivity.
    - rewrite app_length. cbn [List.length]. lia. }
  destruct Ei as (E1 & E2 & E3). specialize (Hn _ E3). cbv zeta in Hn. rewrite E1, E2 in Hn.
  destruct Hn as (N1 & N2 & N3).
  destruct K as [(c & cs & msg & o & He & Hl & Hb & Ht & _)|(np & Hs & Hd)].
  - assert (rl_ender_b (fst (run cl_cfg cl_s1 h1)) e = true); [|congruence].
    destruct He as [->|[k ->]]; cbn [rl_ender_b]; rewrite Hl, Hb, Ht; reflexivity.
  - apply Hd. rewrite (N2 np Hs). apply mb_exists_iff. exact N3.
Qed.

(** the second disjunct: after [cl_hist2], "s" (on a new connection) releases
    "7" and the server dies right after the first commit of that release *)
Definition rl_hist3 : list event :=
  cl_hist2 ++ [EB (EConnect 4); EB (ECmd 4 (cl_bind "s") cl_o0); ECrash 1 (ECmd 4 cl_release cl_o0)].

Example holder_stable_run_second :
  ~ holder (chan_w (fst (run cl_cfg cl_s1 rl_hist3))) "a" "7" "s" /\
  exists h1 e h2, rl_hist3 = h1 ++ e :: h2 /\
    holder (chan_w (fst (run cl_cfg cl_s1 h1))) "a" "7" "s" /\
    claim_ender cl_cfg (fst (run cl_cfg cl_s1 h1)) e "a" "7" "s".
Proof.
  split.
  - intros H. apply holder_b_iff in H. vm_compute in H. discriminate H.
  - exists (cl_hist2 ++ [EB (EConnect 4); EB (ECmd 4 (cl_bind "s") cl_o0)]),
           (ECrash 1 (ECmd 4 cl_release cl_o0)), [].
    split; [reflexivity|]. split; [apply holder_b_iff; vm_compute; reflexivity|].
    left. exists 4%nat, (mkConn (Some ("a", "s")) false false false None false None None false),
                 cl_release, cl_o0.
    split; [right; exists 1%nat; reflexivity|]. vm_compute. auto.
Qed.

Print Assumptions holder_row_stable_all.
Print Assumptions holder_stable_run.
Print Assumptions holder_row_stable_run.
Print Assumptions listed_and_bound_while_held.
Print Assumptions listed_while_held.
Print Assumptions holder_stable_run_applied.
Print Assumptions holder_stable_run_second.
