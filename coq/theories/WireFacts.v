(** WireFacts.v -- C17, the payloads on the wire: the welcome frame carries
    the configured notices, every frame carries the time at which its event is
    processed ([server_tx]), and an error frame echoes the very command that
    caused it ([orig]) to the connection that sent it.

    One log calculus does all three: through every handler, the sweep and the
    start-up code the clock stands still, every frame appended is stamped with
    it, goes to a connection allowed by [P], and is an `error` frame only if
    it echoes the command being handled. *)
From MW Require Import Base Store Monad Usage Server Websocket Service Findings
     Inv Hoare Obs ProtoFacts StepFacts HistFacts Inst_Params.
Local Open Scope list_scope.

(** the base event inside an event *)
Definition base_of (e : event) : option bevent :=
  match e with EB b | ECrash _ b => Some b | ERestart => None end.

(** the clock at which a base event is processed: [EAdvance] first moves the
    clock (an ill-formed, negative advance is ignored), everything else runs
    at the clock of the incoming state *)
Definition bclock (s : state) (b : bevent) : Z :=
  match b with
  | EAdvance dt _ => if dt <? 0 then now s else now s + dt
  | _ => now s
  end.

Definition event_clock (s : state) (e : event) : Z :=
  match base_of e with Some b => bclock s b | None => now s end.

(** the command a base event carries *)
Definition cmd_of (b : bevent) : option (nat * command) :=
  match b with ECmd c m _ => Some (c, m) | _ => None end.

(** every subscription belongs to a connection for which [P] holds *)
Definition subs_in (P : nat -> Prop) (s : state) : Prop :=
  forall p, In p (subs s) -> P (snd p).

(** * The calculus *)
Section Calc.
Variables (n : Z) (P : nat -> Prop) (oc : option (nat * command)).

(** a frame that may be sent to [c] *)
Definition fok (c : nat) (f : frame) : Prop :=
  P c /\ match f with FError _ orig => oc = Some (c, orig) | _ => True end.

Definition eok (e : log_entry) : Prop :=
  match e with LFrame c f _ tx => tx = n /\ fok c f | _ => True end.

Definition WI (s : state) : Prop :=
  now s = n /\ Forall eok (log s) /\ subs_in P s.

Definition wpres {A} (m : M A) : Prop :=
  forall s, WI s -> wp m (fun _ s' => WI s') (fun _ s' => WI s') s.

Definition nonerr (f : frame) : Prop :=
  match f with FError _ _ => False | _ => True end.

Lemma fok_nonerr c f : P c -> nonerr f -> fok c f.
Proof. intros Hc Hf. split; [exact Hc|]. destruct f; try exact I. destruct Hf. Qed.

Lemma wpres_elim {A} (m : M A) s :
  wpres m -> WI s -> match m s with Ok _ s' => WI s' | Exn _ s' => WI s' end.
Proof. intros Hm Hs. exact (Hm s Hs). Qed.

Lemma wpres_bind {A C} (m : M A) (k : A -> M C) :
  wpres m -> (forall a, wpres (k a)) -> wpres (bind m k).
Proof.
  intros Hm Hk s Hs. apply wp_bind. eapply wp_conseq; [apply (Hm s Hs)| |].
  - intros a s' Hs'. apply (Hk a s' Hs').
  - auto.
Qed.

(** reading the state: the continuation may use the invariant of what it read *)
Lemma wpres_bind_get {C} (k : state -> M C) :
  (forall s, WI s -> wp (k s) (fun _ s' => WI s') (fun _ s' => WI s') s) ->
  wpres (bind get k).
Proof. intros Hk s Hs. apply wp_bind. apply wp_get. exact (Hk s Hs). Qed.

Lemma wpres_try_catch {A} (m : M A) (h : exn -> M A) :
  wpres m -> (forall e, wpres (h e)) -> wpres (try_catch m h).
Proof.
  intros Hm Hh s Hs. apply wp_try_catch. eapply wp_conseq; [apply (Hm s Hs)| |].
  - auto.
  - intros e s' Hs'. apply (Hh e s' Hs').
Qed.

Lemma wpres_ret {A} (a : A) : wpres (ret a).
Proof. intros s Hs. exact Hs. Qed.

Lemma wpres_raise {A} e : wpres (@raise A e).
Proof. intros s Hs. exact Hs. Qed.

Lemma wpres_get : wpres get.
Proof. intros s Hs. exact Hs. Qed.

Lemma wpres_q {A} (f : chan_db -> A) : wpres (q f).
Proof. intros s Hs. exact Hs. Qed.

Lemma wpres_tx {A} (f : chan_db -> txres A) : wpres (tx f).
Proof. intros s Hs. unfold wp, tx. destruct (f (chan_w s)); exact Hs. Qed.

Lemma wpres_utx f : wpres (utx f).
Proof. intros s Hs. exact Hs. Qed.

Lemma wpres_commit_chan : wpres commit_chan.
Proof.
  intros s (H1 & H2 & H3). unfold wp, commit_chan.
  split; [exact H1|]. split; [constructor; [exact I|exact H2]|exact H3].
Qed.

Lemma wpres_commit_usage : wpres commit_usage.
Proof.
  intros s (H1 & H2 & H3). unfold wp, commit_usage.
  split; [exact H1|]. split; [constructor; [exact I|exact H2]|exact H3].
Qed.

(** the one place where a frame is made: stamped with the clock *)
Lemma wpres_send c f : fok c f -> wpres (send c f).
Proof.
  intros Hf s (H1 & H2 & H3). unfold wp, send.
  split; [exact H1|]. split; [|exact H3].
  constructor; [|exact H2]. split; [exact H1|exact Hf].
Qed.

Lemma wpres_get_conn c : wpres (get_conn c).
Proof. intros s Hs. exact Hs. Qed.

Lemma wpres_set_conn c cs : wpres (set_conn c cs).
Proof. intros s Hs. exact Hs. Qed.

Lemma wpres_add_sub a m c : P c -> wpres (add_sub a m c).
Proof.
  intros Hc s Hs. unfold wp, add_sub.
  destruct (existsb (sub_is a m c) (subs s)); [exact Hs|].
  destruct Hs as (H1 & H2 & H3). split; [exact H1|]. split; [exact H2|].
  intros p Hin. cbn [subs set_subs] in Hin. apply in_app_or in Hin.
  destruct Hin as [Hin|[<-|[]]]; [exact (H3 p Hin)|exact Hc].
Qed.

Lemma wpres_remove_sub a m c : wpres (remove_sub a m c).
Proof.
  intros s (H1 & H2 & H3). unfold wp, remove_sub.
  split; [exact H1|]. split; [exact H2|].
  intros p Hin. cbn [subs set_subs] in Hin. apply filter_In in Hin. exact (H3 p (proj1 Hin)).
Qed.

Lemma wpres_stop_listeners a m : wpres (stop_listeners a m).
Proof.
  intros s (H1 & H2 & H3). unfold wp, stop_listeners.
  split; [exact H1|]. split; [exact H2|].
  intros p Hin. cbn [subs set_subs set_conns] in Hin. apply filter_In in Hin. exact (H3 p (proj1 Hin)).
Qed.

Lemma wpres_write_usage unps umbs : wpres (write_usage unps umbs).
Proof. unfold write_usage. apply wpres_utx. Qed.

Lemma wpres_send_all l f : Forall P l -> nonerr f -> wpres (send_all l f).
Proof.
  intros Hl Hf. induction Hl as [|c l Hc Hl IH]; cbn [send_all]; [apply wpres_ret|].
  apply wpres_bind; [apply wpres_send; apply fok_nonerr; assumption|intros _; exact IH].
Qed.

Lemma subs_of_in a m s : subs_in P s -> Forall P (subs_of a m (subs s)).
Proof.
  intros H. unfold subs_of. apply Forall_forall. intros c Hin.
  apply in_map_iff in Hin. destruct Hin as (p & <- & Hp).
  apply filter_In in Hp. exact (H p (proj1 Hp)).
Qed.

(** the broadcast of a stored message goes to the subscribers only *)
Lemma wpres_add_message a m r : wpres (add_message a m r).
Proof.
  unfold add_message.
  apply wpres_bind; [apply wpres_tx|intros _].
  apply wpres_bind; [apply wpres_commit_chan|intros _].
  apply wpres_bind_get. intros s Hs.
  apply (wpres_send_all (subs_of a m (subs s)) (msg_frame r)); [|exact I|exact Hs].
  apply subs_of_in. exact (proj2 (proj2 Hs)).
Qed.

Create HintDb wiredb.

Ltac ws_step :=
  cbv beta;
  lazymatch goal with
  | |- wpres (bind _ _) => apply wpres_bind; [|intros ?]
  | |- wpres (ret _) => apply wpres_ret
  | |- wpres (raise _) => apply wpres_raise
  | |- wpres err => apply wpres_raise
  | |- wpres (try_catch _ _) => apply wpres_try_catch; [|intros ?]
  | |- wpres (catch_crowded _) => apply wpres_try_catch; [|intros ?]
  | |- wpres (catch_crowded_reclaimed _) => apply wpres_try_catch; [|intros ?]
  | |- wpres get => apply wpres_get
  | |- wpres (q _) => apply wpres_q
  | |- wpres (tx _) => apply wpres_tx
  | |- wpres (utx _) => apply wpres_utx
  | |- wpres commit_chan => apply wpres_commit_chan
  | |- wpres commit_usage => apply wpres_commit_usage
  | |- wpres (send _ _) => apply wpres_send; apply fok_nonerr; [assumption|exact I]
  | |- wpres (get_conn _) => apply wpres_get_conn
  | |- wpres (set_conn _ _) => apply wpres_set_conn
  | |- wpres (add_sub _ _ _) => apply wpres_add_sub; assumption
  | |- wpres (remove_sub _ _ _) => apply wpres_remove_sub
  | |- wpres (stop_listeners _ _) => apply wpres_stop_listeners
  | |- wpres (write_usage _ _) => apply wpres_write_usage
  | |- wpres (add_message _ _ _) => apply wpres_add_message
  | |- wpres (match ?x with _ => _ end) => destruct x
  | |- wpres _ => solve [eauto with wiredb]
  end.

Variable cfg : config.

(** ** server operations: none of them sends anything but [add_message] *)
Lemma wpres_open_mailbox a m side w : wpres (open_mailbox a m side w).
Proof. unfold open_mailbox. repeat ws_step. Qed.
Local Hint Resolve wpres_open_mailbox : wiredb.

Lemma wpres_claim_nameplate a name side w draw : wpres (claim_nameplate a name side w draw).
Proof. unfold claim_nameplate. repeat ws_step. Qed.
Local Hint Resolve wpres_claim_nameplate : wiredb.

Lemma wpres_allocate_nameplate a side w o draw : wpres (allocate_nameplate a side w o draw).
Proof. unfold allocate_nameplate. repeat ws_step. Qed.
Local Hint Resolve wpres_allocate_nameplate : wiredb.

Lemma wpres_release_nameplate a name side w : wpres (release_nameplate cfg a name side w).
Proof. unfold release_nameplate. repeat ws_step. Qed.
Local Hint Resolve wpres_release_nameplate : wiredb.

Lemma wpres_get_messages a m : wpres (get_messages a m).
Proof. unfold get_messages. repeat ws_step. Qed.
Local Hint Resolve wpres_get_messages : wiredb.

Lemma wpres_mailbox_close a m side mood w : wpres (mailbox_close cfg a m side mood w).
Proof. unfold mailbox_close. repeat ws_step. Qed.
Local Hint Resolve wpres_mailbox_close : wiredb.

Lemma wpres_prune_app a w old : wpres (prune_app cfg a w old).
Proof. unfold prune_app. repeat ws_step. Qed.
Local Hint Resolve wpres_prune_app : wiredb.

Lemma wpres_prune_apps apps w old : wpres (prune_apps cfg apps w old).
Proof. induction apps as [|a rest IH]; cbn [prune_apps]; repeat ws_step. Qed.
Local Hint Resolve wpres_prune_apps : wiredb.

Lemma wpres_prune_all_apps w old : wpres (prune_all_apps cfg w old).
Proof. unfold prune_all_apps. repeat ws_step. Qed.
Local Hint Resolve wpres_prune_all_apps : wiredb.

Lemma wpres_dump_stats w rebooted : wpres (dump_stats cfg w rebooted).
Proof. unfold dump_stats. repeat ws_step. Qed.
Local Hint Resolve wpres_dump_stats : wiredb.

Lemma wpres_log_client_version a side w cv : wpres (log_client_version cfg a side w cv).
Proof. unfold log_client_version. repeat ws_step. Qed.
Local Hint Resolve wpres_log_client_version : wiredb.

Lemma wpres_expire fault : wpres (expire cfg fault).
Proof. unfold expire. repeat ws_step. Qed.

Lemma wpres_on_close c : wpres (on_close c).
Proof. unfold on_close. repeat ws_step. Qed.

(** ** the handlers of a connection [c] for which [P] holds: every frame
    other than the broadcast goes to [c] and is not an `error` *)
Section Handlers.
Variable c : nat.
Hypothesis Pc : P c.

Lemma wpres_handle_ping msg : wpres (handle_ping c msg).
Proof. unfold handle_ping. repeat ws_step. Qed.

Lemma wpres_handle_bind msg : wpres (handle_bind cfg c msg).
Proof. unfold handle_bind. repeat ws_step. Qed.

Lemma wpres_handle_list a : wpres (handle_list cfg c a).
Proof. unfold handle_list. repeat ws_step. Qed.

Lemma wpres_handle_allocate a side o : wpres (handle_allocate c a side o).
Proof. unfold handle_allocate. repeat ws_step. Qed.

Lemma wpres_handle_claim a side msg o : wpres (handle_claim c a side msg o).
Proof. unfold handle_claim. repeat ws_step. Qed.

Lemma wpres_handle_release a side msg : wpres (handle_release cfg c a side msg).
Proof. unfold handle_release. repeat ws_step. Qed.

Lemma wpres_send_each l : wpres (send_each c l).
Proof.
  induction l as [|r rest IH]; cbn [send_each]; [apply wpres_ret|].
  apply wpres_bind; [|intros _; exact IH].
  apply wpres_send. apply fok_nonerr; [exact Pc|exact I].
Qed.
Local Hint Resolve wpres_send_each : wiredb.

Lemma wpres_handle_open a side msg : wpres (handle_open c a side msg).
Proof. unfold handle_open. repeat ws_step. Qed.

Lemma wpres_handle_add a side msg : wpres (handle_add c a side msg).
Proof. unfold handle_add. repeat ws_step. Qed.

Lemma wpres_handle_close a side msg : wpres (handle_close cfg c a side msg).
Proof. unfold handle_close. repeat ws_step. Qed.

Local Hint Resolve wpres_handle_ping wpres_handle_bind wpres_handle_list wpres_handle_allocate
  wpres_handle_claim wpres_handle_release wpres_handle_open wpres_handle_add
  wpres_handle_close : wiredb.

Lemma wpres_dispatch t msg o : wpres (dispatch cfg c t msg o).
Proof. unfold dispatch. repeat ws_step. Qed.

Lemma wpres_on_open : wpres (on_open cfg c).
Proof. unfold on_open. repeat ws_step. Qed.

(** onMessage: the only `error` frame is the one of the except clause, and it
    carries the message being handled *)
Lemma wpres_on_message msg o : oc = Some (c, msg) -> wpres (on_message cfg c msg o).
Proof.
  intros Hoc. unfold on_message. apply wpres_try_catch.
  - destruct (m_type msg) as [t|]; [|apply wpres_raise].
    apply wpres_bind; [|intros _; apply wpres_dispatch].
    apply wpres_send. apply fok_nonerr; [exact Pc|exact I].
  - intros e. destruct e; try apply wpres_raise.
    apply wpres_send. split; [exact Pc|exact Hoc].
Qed.

End Handlers.

Lemma run_m_WI m s : wpres m -> WI s -> WI (fst (run_m m s)).
Proof.
  intros Hm Hs. pose proof (wpres_elim m s Hm Hs) as H. unfold run_m.
  destruct (m s); exact H.
Qed.

Lemma drop_conn_WI c s : WI s -> WI (drop_conn c s).
Proof.
  intros Hs. pose proof (wpres_elim _ s (wpres_on_close c) Hs) as H. unfold drop_conn.
  destruct (on_close c s) as [u s'|e s']; exact H.
Qed.

End Calc.

Lemma eok_weaken n (P P' : nat -> Prop) oc e :
  (forall c, P c -> P' c) -> eok n P oc e -> eok n P' oc e.
Proof. intros H. destruct e; cbn; auto. intros (H1 & H2 & H3). repeat split; auto. Qed.

Lemma log_prefix_In x : forall l k, In x (log_prefix k l) -> In x l.
Proof.
  induction l as [|y l IHl]; intros k; destruct k as [|k]; cbn [log_prefix]; try (intros []).
  destruct (is_commit y); intros [H|H];
    [left; exact H|right; exact (IHl k H)|left; exact H|right; exact (IHl (S k) H)].
Qed.

Lemma set_log_nil s : log s = [] -> set_log s [] = s.
Proof. destruct s; cbn; intros ->; reflexivity. Qed.

Lemma lookup_snoc_some c cs l : lookup_conn c (l ++ [(c, cs)]) <> None.
Proof.
  induction l as [|[c' cs'] l IH]; cbn [app lookup_conn].
  - rewrite Nat.eqb_refl. discriminate.
  - destruct (Nat.eqb c c'); [discriminate|exact IH].
Qed.

Section WithConfig.
Variable cfg : config.

(** * Base events *)

(** [P] must hold for every subscriber, for every connection that exists, and
    for the one that is being opened *)
Lemma step_b_wire (P : nat -> Prop) s b :
  log s = [] -> subs_in P s ->
  (forall c, has_conn c s = true -> P c) ->
  (forall c, b = EConnect c -> P c) ->
  WI (bclock s b) P (cmd_of b) (fst (fst (step_b cfg s b))).
Proof.
  intros Hl Hsub Hconn Hopen.
  assert (H0 : WI (now s) P (cmd_of b) s).
  { split; [reflexivity|]. split; [rewrite Hl; constructor|exact Hsub]. }
  destruct b as [c|c m o|c|fault|dt fault]; cbn [bclock cmd_of step_b] in *.
  - destruct (has_conn c s); [exact H0|]. cbv zeta.
    assert (H1 : WI (now s) P None (set_conns s (conns s ++ [(c, new_conn)]))) by exact H0.
    pose proof (run_m_WI _ _ _ _ _ (wpres_on_open _ _ _ cfg c (Hopen c eq_refl)) H1) as H.
    destruct (run_m (on_open cfg c) (set_conns s (conns s ++ [(c, new_conn)]))) as [s2 x].
    exact H.
  - destruct (has_conn c s) eqn:Ehc; [|exact H0].
    pose proof (wpres_elim _ _ _ _ s
                  (wpres_on_message _ _ _ cfg c (Hconn c Ehc) m o eq_refl) H0) as H.
    destruct (on_message cfg c m o s) as [u s'|e s']; cbn [fst]; [exact H|].
    apply drop_conn_WI. exact H.
  - destruct (has_conn c s); [|exact H0]. cbn [fst]. apply drop_conn_WI. exact H0.
  - pose proof (run_m_WI _ _ _ _ _ (wpres_expire _ _ _ cfg fault) H0) as H.
    destruct (run_m (expire cfg fault) s) as [s1 x]. exact H.
  - destruct (dt <? 0); [exact H0|]. cbv zeta.
    assert (H1 : WI (now s + dt) P None (set_now s (now s + dt))).
    { split; [reflexivity|]. split; [cbn [log set_now]; rewrite Hl; constructor|exact Hsub]. }
    destruct (next_due (set_now s (now s + dt)) <=? now (set_now s (now s + dt))); [|exact H1].
    pose proof (run_m_WI _ _ _ _ _ (wpres_expire _ _ _ cfg fault) H1) as H.
    destruct (run_m (expire cfg fault) (set_now s (now s + dt))) as [s2 x].
    cbn [fst] in *. exact H.
Qed.

(** process start: the clock is the given one; nobody is connected, so the
    start-up sweep has nobody to send to *)
Lemma boot_on_wire c u t :
  let '(s1, bl, x) := boot_on cfg c u t in
  now s1 = t /\ Forall (eok t (fun _ => False) None) bl.
Proof.
  unfold boot_on. cbv zeta.
  set (s0 := mkState c c u u [] [] t t t (t + period cfg) []).
  assert (H0 : WI t (fun _ => False) None s0).
  { split; [reflexivity|]. split; [constructor|]. intros p []. }
  pose proof (run_m_WI _ _ _ _ _ (wpres_expire _ _ _ cfg false) H0) as H.
  destruct (run_m (expire cfg false) s0) as [s1 x]. cbn [fst] in H.
  destruct H as (H1 & H2 & _). split; [exact H1|].
  apply Forall_rev. exact H2.
Qed.

(** * Events *)

(** the master statement: every log entry of every event -- of the event's own
    log and of the start-up log of a restart or crash -- is stamped with the
    clock at which the event is processed, goes to a connection for which [P]
    holds, and is an `error` frame only if the event is a command on that
    connection and the frame echoes the command *)
Lemma step_wire (P : nat -> Prop) s e :
  subs_in P s ->
  (forall c, has_conn c s = true -> P c) ->
  (forall c, base_of e = Some (EConnect c) -> P c) ->
  let o := snd (step cfg s e) in
  now (fst (step cfg s e)) = event_clock s e /\
  Forall (eok (event_clock s e) P (match base_of e with Some b => cmd_of b | None => None end))
         (o_log o ++ o_boot_log o).
Proof.
  intros Hsub Hconn Hopen. unfold step. cbv zeta. set (s0 := set_log s []).
  assert (Hb : forall b, base_of e = Some b ->
                         WI (bclock s b) P (cmd_of b) (fst (fst (step_b cfg s0 b)))).
  { intros b Eb. apply (step_b_wire P s0 b); [reflexivity|exact Hsub|exact Hconn|].
    intros c ->. exact (Hopen c Eb). }
  assert (Hboot : forall c u t (Q : nat -> Prop) oc,
             let '(s1, bl, x) := boot_on cfg c u t in
             now s1 = t /\ Forall (eok t Q oc) bl).
  { intros c u t Q oc. pose proof (boot_on_wire c u t) as K.
    destruct (boot_on cfg c u t) as [[s1 bl] x]. destruct K as [K1 K2]. split; [exact K1|].
    eapply Forall_impl; [|exact K2]. intros a Ha. destruct a; cbn in *; auto.
    destruct Ha as (_ & [] & _). }
  destruct e as [b|k b|]; unfold event_clock; cbn [base_of] in *.
  - specialize (Hb b eq_refl).
    destruct (step_b cfg s0 b) as [[s1 valid] x]. cbn [fst snd o_log o_boot_log now set_log] in *.
    destruct Hb as (H1 & H2 & _). split; [exact H1|].
    rewrite app_nil_r. apply Forall_rev. exact H2.
  - specialize (Hb b eq_refl).
    destruct (step_b cfg s0 b) as [[s1 valid] x]. cbn [fst] in Hb.
    destruct Hb as (H1 & H2 & _).
    assert (Hfull : Forall (eok (bclock s b) P (cmd_of b)) (rev (log s1)))
      by (apply Forall_rev; exact H2).
    destruct ((count_commits (rev (log s1)) <? k)%nat || negb valid).
    + pose proof (Hboot (chan_c s1) (usage_c s1) (now s1) P (cmd_of b)) as K.
      destruct (boot_on cfg (chan_c s1) (usage_c s1) (now s1)) as [[s2 bl] x2].
      cbn [fst snd o_log o_boot_log]. rewrite H1 in K. destruct K as [K1 K2].
      split; [exact K1|]. apply Forall_app. split; assumption.
    + destruct (replay_commits (log_prefix k (rev (log s1))) (chan_c s0) (usage_c s0)) as [c u].
      pose proof (Hboot c u (now s1) P (cmd_of b)) as K.
      destruct (boot_on cfg c u (now s1)) as [[s2 bl] x2].
      cbn [fst snd o_log o_boot_log]. rewrite H1 in K. destruct K as [K1 K2].
      split; [exact K1|]. apply Forall_app. split; [|exact K2].
      apply Forall_forall. intros a Ha. apply log_prefix_In in Ha.
      rewrite Forall_forall in Hfull. exact (Hfull a Ha).
  - pose proof (Hboot (chan_c s0) (usage_c s0) (now s0) P None) as K.
    destruct (boot_on cfg (chan_c s0) (usage_c s0) (now s0)) as [[s1 bl] x].
    cbn [fst snd o_log o_boot_log app]. exact K.
Qed.

(** * C17: every frame carries a send time stamp, and it is the time of its event *)

(** the clock does not move while an event is processed: it is the clock of
    the state the event leaves behind ... *)
Theorem event_clock_now s e : now (fst (step cfg s e)) = event_clock s e.
Proof.
  exact (proj1 (step_wire (fun _ => True) s e (fun _ _ => I) (fun _ _ => I) (fun _ _ => I))).
Qed.

(** ... and every frame of the event -- in its own log or in the start-up log
    of a restart or crash -- is stamped with exactly that clock: [now s] for
    connect, command, disconnect, sweep and restart, [now s + dt] for
    [EAdvance dt] (for any state whatsoever, reachable or not) *)
Theorem every_frame_stamped s e c f b tx :
  In (LFrame c f b tx) (o_log (snd (step cfg s e)) ++ o_boot_log (snd (step cfg s e))) ->
  tx = event_clock s e.
Proof.
  intros Hin.
  pose proof (proj2 (step_wire (fun _ => True) s e (fun _ _ => I) (fun _ _ => I) (fun _ _ => I))) as H.
  cbv zeta in H. rewrite Forall_forall in H. exact (proj1 (H _ Hin)).
Qed.

Corollary every_frame_stamped_now s e c f b tx :
  In (LFrame c f b tx) (o_log (snd (step cfg s e)) ++ o_boot_log (snd (step cfg s e))) ->
  tx = now (fst (step cfg s e)).
Proof. intros H. rewrite event_clock_now. exact (every_frame_stamped s e c f b tx H). Qed.

Lemma stamps_of_all n l :
  (forall c f b tx, In (LFrame c f b tx) l -> tx = n) -> stamps_of l = map (fun _ => n) (frames_of l).
Proof.
  induction l as [|e l IH]; intros H; [reflexivity|].
  assert (IH' : stamps_of l = map (fun _ => n) (frames_of l)).
  { apply IH. intros c f b tx Hin. apply (H c f b tx). right. exact Hin. }
  destruct e as [d|u|c f b tx]; cbn [stamps_of frames_of map]; try exact IH'.
  rewrite IH', (H c f b tx (or_introl eq_refl)). reflexivity.
Qed.

(** the same, on the projections of Obs.v *)
Corollary stamps_of_event s e :
  stamps_of (o_log (snd (step cfg s e))) =
  map (fun _ => event_clock s e) (frames_of (o_log (snd (step cfg s e)))).
Proof.
  apply stamps_of_all. intros c f b tx Hin.
  apply (every_frame_stamped s e c f b tx). apply in_or_app. left. exact Hin.
Qed.

(** * C17: an `error` frame echoes the command that caused it, to its sender *)

(** in any event whatsoever, an `error` frame occurs only if the event is a
    command; it goes to the connection the command came on and its [orig] is
    that command *)
Theorem error_frames_echo s e c k orig b tx :
  In (LFrame c (FError k orig) b tx)
     (o_log (snd (step cfg s e)) ++ o_boot_log (snd (step cfg s e))) ->
  exists o, base_of e = Some (ECmd c orig o).
Proof.
  intros Hin.
  pose proof (proj2 (step_wire (fun _ => True) s e (fun _ _ => I) (fun _ _ => I) (fun _ _ => I))) as H.
  cbv zeta in H. rewrite Forall_forall in H. destruct (H _ Hin) as (_ & _ & He).
  destruct (base_of e) as [[c1|c1 m1 o1|c1|fl|dt fl]|]; cbn [cmd_of] in He; try discriminate.
  inversion He. exists o1. reflexivity.
Qed.

Theorem error_echoes_cmd s c msg o c' k orig :
  In (c', FError k orig) (frames_of (o_log (snd (step cfg s (EB (ECmd c msg o)))))) ->
  c' = c /\ orig = msg.
Proof.
  intros Hin. apply frames_of_In in Hin. destruct Hin as (b & tx & Hin).
  destruct (error_frames_echo s (EB (ECmd c msg o)) c' k orig b tx) as [o' Ho].
  - apply in_or_app. left. exact Hin.
  - cbn [base_of] in Ho. inversion Ho. split; reflexivity.
Qed.

(** the same under a crash at any commit of the command *)
Theorem error_echoes_cmd_crash s j c msg o c' k orig :
  In (c', FError k orig) (frames_of (o_log (snd (step cfg s (ECrash j (ECmd c msg o)))))) ->
  c' = c /\ orig = msg.
Proof.
  intros Hin. apply frames_of_In in Hin. destruct Hin as (b & tx & Hin).
  destruct (error_frames_echo s (ECrash j (ECmd c msg o)) c' k orig b tx) as [o' Ho].
  - apply in_or_app. left. exact Hin.
  - cbn [base_of] in Ho. inversion Ho. split; reflexivity.
Qed.

(** C17: a malformed or out-of-order command ([erroneous]: ProtoFacts.v) is
    answered by its ack (if it had a type) and exactly one `error` frame that
    contains the original message, both stamped with the clock; nothing is
    committed, nothing escapes, and the state is left exactly as it was *)
Theorem erroneous_answer_exact s c msg o :
  log s = [] -> has_conn c s = true -> erroneous (conn_of s c) msg = true ->
  let '(s', ob) := step cfg s (EB (ECmd c msg o)) in
  s' = s /\ o_valid ob = true /\ o_exc ob = None /\ o_boot_log ob = [] /\
  o_log ob = (match m_type msg with
              | Some _ => [LFrame c (FAck (m_id msg)) (is_clean s) (now s)]
              | None => []
              end) ++ [LFrame c (FError ErrOther msg) (is_clean s) (now s)] /\
  frames_of (o_log ob) = (match m_type msg with
                          | Some _ => [(c, FAck (m_id msg))]
                          | None => []
                          end) ++ [(c, FError ErrOther msg)] /\
  stamps_of (o_log ob) = map (fun _ => now s) (frames_of (o_log ob)) /\
  count_commits (o_log ob) = 0%nat.
Proof.
  intros Hl Hc Herr. unfold step. cbv zeta. unfold step_b.
  change (has_conn c (set_log s [])) with (has_conn c s). rewrite Hc.
  rewrite (erroneous_harmless cfg c msg o (set_log s []) Herr).
  cbn [o_valid o_exc o_boot_log o_log log set_log].
  change (is_clean (set_log s [])) with (is_clean s).
  change (now (set_log s [])) with (now s).
  split; [transitivity (set_log s []); [reflexivity|apply set_log_nil; exact Hl]|].
  destruct (m_type msg); cbn; repeat split; reflexivity.
Qed.

(** * C17: the welcome frame carries the configured notices *)

(** a new connection is sent exactly one frame: `welcome` with the server's
    configured notices (motd, advertised version, error), stamped with the clock *)
Theorem welcome_payload s c :
  has_conn c s = false ->
  let '(s', ob) := step cfg s (EB (EConnect c)) in
  o_valid ob = true /\ o_exc ob = None /\ o_boot_log ob = [] /\
  o_log ob = [LFrame c (FWelcome (welcome cfg)) (is_clean s) (now s)] /\
  frames_of (o_log ob) = [(c, FWelcome (welcome cfg))] /\
  stamps_of (o_log ob) = [now s] /\
  has_conn c s' = true.
Proof.
  intros Hc. unfold step. cbv zeta.
  assert (Hc' : has_conn c (set_log s []) = false) by exact Hc.
  rewrite (welcome_first cfg c (set_log s []) Hc').
  cbn [o_valid o_exc o_boot_log o_log log set_log rev app frames_of stamps_of].
  repeat (split; [reflexivity|]).
  unfold has_conn. cbn [conns set_log set_conns].
  destruct (lookup_conn c (conns s ++ [(c, new_conn)])) eqn:E; [reflexivity|].
  exfalso. exact (lookup_snoc_some c new_conn (conns s) E).
Qed.

(** ... and on a reachable state the frame is sent with nothing pending *)
Corollary welcome_payload_clean s c :
  SInv s -> has_conn c s = false ->
  o_log (snd (step cfg s (EB (EConnect c)))) = [LFrame c (FWelcome (welcome cfg)) true (now s)].
Proof.
  intros Hs Hc. pose proof (welcome_payload s c Hc) as H.
  destruct (step cfg s (EB (EConnect c))) as [s' ob]. cbn [snd].
  destruct H as (_ & _ & _ & H & _). rewrite H.
  rewrite (proj2 (is_clean_true s) (si_clean s Hs)). reflexivity.
Qed.

(** frames go to connected clients only: in a well-formed state every frame of
    every event is addressed to a connection that exists when the event
    arrives, or to the one the event opens *)
Theorem frames_only_to_connected s e c f b tx :
  SInv s ->
  In (LFrame c f b tx) (o_log (snd (step cfg s e)) ++ o_boot_log (snd (step cfg s e))) ->
  has_conn c s = true \/ base_of e = Some (EConnect c).
Proof.
  intros Hs Hin.
  assert (H : Forall (eok (event_clock s e)
                          (fun c' => has_conn c' s = true \/ base_of e = Some (EConnect c'))
                          (match base_of e with Some b => cmd_of b | None => None end))
                     (o_log (snd (step cfg s e)) ++ o_boot_log (snd (step cfg s e)))).
  { apply (step_wire (fun c' => has_conn c' s = true \/ base_of e = Some (EConnect c')) s e).
    - intros [[a m] c'] Hp. left. cbn [snd].
      destruct (si_subs s Hs _ Hp) as (_ & cs & side & Hlk & _).
      unfold has_conn. rewrite Hlk. reflexivity.
    - intros c' Hc'. left. exact Hc'.
    - intros c' Hc'. right. exact Hc'. }
  rewrite Forall_forall in H. exact (proj1 (proj2 (H _ Hin))).
Qed.

(** hence `welcome` is the first frame a connection ever gets: as long as it is
    not connected no event sends it anything (the only event that addresses a
    frame to it is its own connect, whose one frame is the welcome above) *)
Theorem welcome_is_first s e c :
  SInv s -> has_conn c s = false -> base_of e <> Some (EConnect c) ->
  frames_to c (o_log (snd (step cfg s e)) ++ o_boot_log (snd (step cfg s e))) = [].
Proof.
  intros Hs Hc He. unfold frames_to.
  destruct (filter (fun p => Nat.eqb (fst p) c)
              (frames_of (o_log (snd (step cfg s e)) ++ o_boot_log (snd (step cfg s e)))))
    as [|[c' f] rest] eqn:E; [reflexivity|exfalso].
  assert (Hin : In (c', f) (filter (fun p => Nat.eqb (fst p) c)
              (frames_of (o_log (snd (step cfg s e)) ++ o_boot_log (snd (step cfg s e))))))
    by (rewrite E; left; reflexivity).
  apply filter_In in Hin. destruct Hin as [Hin Heq]. cbn [fst] in Heq.
  apply Nat.eqb_eq in Heq. subst c'.
  apply frames_of_In in Hin. destruct Hin as (b & tx & Hin).
  destruct (frames_only_to_connected s e c f b tx Hs Hin) as [K|K]; [congruence|contradiction].
Qed.

End WithConfig.

(** * Non-vacuity: a server configured with all three notices *)

Definition wire_cfg : config :=
  gen_cfg_w true true None (mkWelcome (Some "hello") (Some "0.12.0") (Some "going away")).

Definition wire_history : list event :=
  let o := mkOracle None (mkAO None []) in
  let lst := mkCmd (Some TList) (Some "i1") None None None None None None None None None in
  let untyped := mkCmd None None None None None None None None None None None in
  let ping := mkCmd (Some TPing) None None None None None None None None (Some 7) None in
  [EB (EConnect 1);
   EB (ECmd 1 lst o);          (* list before bind: erroneous *)
   EB (EAdvance 5 false);
   EB (ECmd 1 untyped o);      (* no type: erroneous, no ack *)
   EB (ECmd 1 ping o)].

Example wire_nonvacuous :
  let o := mkOracle None (mkAO None []) in
  let lst := mkCmd (Some TList) (Some "i1") None None None None None None None None None in
  let untyped := mkCmd None None None None None None None None None None None in
  let w := mkWelcome (Some "hello") (Some "0.12.0") (Some "going away") in
  let r := run wire_cfg (init wire_cfg 100) wire_history in
  let frames := map (fun ob => frames_of (o_log ob)) (snd r) in
  let stamps := map (fun ob => stamps_of (o_log ob)) (snd r) in
  welcome wire_cfg = w /\
  (* the hypotheses of [erroneous_answer_exact] at the two erroneous commands *)
  erroneous new_conn lst = true /\ erroneous new_conn untyped = true /\
  frames = [ [(1%nat, FWelcome w)];
             [(1%nat, FAck (Some "i1")); (1%nat, FError ErrOther lst)];
             [];
             [(1%nat, FError ErrOther untyped)];
             [(1%nat, FAck None); (1%nat, FPong 7)] ] /\
  stamps = [ [100]; [100; 100]; []; [105]; [105; 105] ] /\
  now (fst r) = 105.
Proof. vm_compute. repeat split; reflexivity. Qed.

Print Assumptions event_clock_now.
Print Assumptions every_frame_stamped.
Print Assumptions every_frame_stamped_now.
Print Assumptions stamps_of_event.
Print Assumptions error_frames_echo.
Print Assumptions error_echoes_cmd.
Print Assumptions error_echoes_cmd_crash.
Print Assumptions erroneous_answer_exact.
Print Assumptions welcome_payload.
Print Assumptions welcome_payload_clean.
Print Assumptions frames_only_to_connected.
Print Assumptions welcome_is_first.
Print Assumptions wire_nonvacuous.
