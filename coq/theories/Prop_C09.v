(** Prop_C09.v -- C09: a response is sent only after its effects are committed. *)
From MW Require Import Base Store Monad Usage Server Websocket Service Inv Obs StepFacts Corollaries Inst_Params.
Local Open Scope list_scope.

(** for every configuration (listing, usage database, blur: any), every
    history -- any interleaving of commands of any connections, sweeps, clock
    advances, restarts and crashes after any commit -- and every frame emitted
    in it (start-up sweeps included): at the instant of emission the work copy
    of both databases equals the committed copy, i.e. an independent reader of
    the files sees exactly what the server is acting on *)
Theorem C09_frames_after_commit :
  forall cfg, 0 < exp cfg ->
  forall t0 h o c f clean_flag tx,
    In o (snd (run cfg (init cfg t0) h)) ->
    In (LFrame c f clean_flag tx) (o_log o ++ o_boot_log o) -> clean_flag = true.
Proof. exact frames_after_commit. Qed.
Print Assumptions C09_frames_after_commit.

(** the flag means what it says: [send] records whether both databases are clean *)
Theorem C09_flag_meaning :
  forall s, is_clean s = true <-> chan_w s = chan_c s /\ usage_w s = usage_c s.
Proof. exact Hoare.is_clean_true. Qed.
Print Assumptions C09_flag_meaning.

(** and at every event boundary nothing is pending at all, so a crash right
    after the last frame of an event loses nothing that was acknowledged *)
Theorem C09_nothing_pending_between_events :
  forall cfg, 0 < exp cfg -> forall s, reachable cfg s ->
    DbInv (chan_c s) /\ chan_c s = chan_w s /\ usage_c s = usage_w s.
Proof. exact crash_state_wf. Qed.
Print Assumptions C09_nothing_pending_between_events.

(** the repository's constants satisfy the hypothesis *)
Example C09_nonvacuous : 0 < exp (gen_cfg true true None).
Proof. exact (gen_cfg_exp true true None). Qed.
