(** Prop_C09.v -- C09: a response is sent only after its effects are committed. *)
From MW Require Import Base Store Monad Usage Server Websocket Service Inv Obs StepFacts Corollaries Inst_Params CrashAck.
Local Open Scope list_scope.

(** for every configuration (listing, usage database, blur: any), every
    history -- any interleaving of commands of any connections, sweeps, clock
    advances, restarts and crashes after any commit -- and every frame emitted
    in it (start-up sweeps included): at the instant of emission the work copy
    of both databases equals the committed copy, i.e. an independent reader of
    the files sees exactly what the server is acting on *)
Theorem C09_frames_after_commit :
  forall cfg, 0 < exp cfg ->
  forall t0 h o c f clean_flag tx,
    In o (snd (run cfg (init cfg t0) h)) ->
    In (LFrame c f clean_flag tx) (o_log o ++ o_boot_log o) -> clean_flag = true.
Proof. exact frames_after_commit. Qed.
Print Assumptions C09_frames_after_commit.

(** the flag means what it says: [send] records whether both databases are clean *)
Theorem C09_flag_meaning :
  forall s, is_clean s = true <-> chan_w s = chan_c s /\ usage_w s = usage_c s.
Proof. exact Hoare.is_clean_true. Qed.
Print Assumptions C09_flag_meaning.

(** and at every event boundary nothing is pending at all, so a crash right
    after the last frame of an event loses nothing that was acknowledged *)
Theorem C09_nothing_pending_between_events :
  forall cfg, 0 < exp cfg -> forall s, reachable cfg s ->
    DbInv (chan_c s) /\ chan_c s = chan_w s /\ usage_c s = usage_w s.
Proof. exact crash_state_wf. Qed.
Print Assumptions C09_nothing_pending_between_events.

(** the repository's constants satisfy the hypothesis *)
Example C09_nonvacuous : 0 < exp (gen_cfg true true None).
Proof. exact (gen_cfg_exp true true None). Qed.

(** * a crash right after an acknowledging frame loses nothing (quoted by type from CrashAck.v).  [crash_chan s k b]: the channel file the server boots on after dying at the k-th commit of b *)

(** the committed database after an event is the last snapshot the event committed *)
Theorem C09_committed_is_last_snapshot : ltac:(let t := type of committed_is_last_snapshot in exact t).
Proof. exact committed_is_last_snapshot. Qed.
Check C09_committed_is_last_snapshot.
Print Assumptions C09_committed_is_last_snapshot.

(** for any frame of any event: dying at or after the commits that precede the frame leaves the database committed at the frame, or a later snapshot of the same event *)
Theorem C09_ack_survives_crash : ltac:(let t := type of ack_survives_crash in exact t).
Proof. exact ack_survives_crash. Qed.
Check C09_ack_survives_crash.
Print Assumptions C09_ack_survives_crash.

(** after allocated / claimed / released / closed / message nothing is committed any more: every crash from there on leaves the event's final database *)
Theorem C09_ack_crash_is_final : ltac:(let t := type of ack_crash_is_final in exact t).
Proof. exact ack_crash_is_final. Qed.
Check C09_ack_crash_is_final.
Print Assumptions C09_ack_crash_is_final.

(** `allocated n`: the files hold the allocator's claim on n *)
Theorem C09_allocated_survives : ltac:(let t := type of allocated_survives in exact t).
Proof. exact allocated_survives. Qed.
Check C09_allocated_survives.
Print Assumptions C09_allocated_survives.

(** `claimed m`: nameplate row with mailbox m and the claimer's side row *)
Theorem C09_claimed_survives : ltac:(let t := type of claimed_survives in exact t).
Proof. exact claimed_survives. Qed.
Check C09_claimed_survives.
Print Assumptions C09_claimed_survives.

(** `released`: the release is on file *)
Theorem C09_released_survives : ltac:(let t := type of released_survives in exact t).
Proof. exact released_survives. Qed.
Check C09_released_survives.
Print Assumptions C09_released_survives.

(** `closed`: the close is on file *)
Theorem C09_closed_survives : ltac:(let t := type of closed_survives in exact t).
Proof. exact closed_survives. Qed.
Check C09_closed_survives.
Print Assumptions C09_closed_survives.

(** `message`: the message row is on file *)
Theorem C09_message_survives : ltac:(let t := type of message_survives in exact t).
Proof. exact message_survives. Qed.
Check C09_message_survives.
Print Assumptions C09_message_survives.

(** non-vacuity *)
Theorem C09_claimed_survives_applies : ltac:(let t := type of claimed_survives_applies in exact t).
Proof. exact claimed_survives_applies. Qed.
Check C09_claimed_survives_applies.
Print Assumptions C09_claimed_survives_applies.

