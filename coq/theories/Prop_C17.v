(** Prop_C17.v -- C17: protocol discipline. *)
From MW Require Import Base Store Monad Usage Server Websocket Service Findings Inv Obs
     ProtoFacts StepFacts Corollaries Inst_Params OpFacts HistFacts HoldInv KfFacts WireFacts FlagBridge.
Local Open Scope list_scope.

(** every connection is first sent `welcome` with the configured notices
    ([welcome cfg]: motd, advertised version, error), stamped with the clock *)
Theorem C17_welcome_first :
  forall cfg c s, has_conn c s = false ->
  step_b cfg s (EConnect c) =
    (set_log (set_conns s (conns s ++ [(c, new_conn)]))
             (LFrame c (FWelcome (welcome cfg)) (is_clean s) (now s) :: log s), true, None).
Proof. exact welcome_first. Qed.
Print Assumptions C17_welcome_first.

(** ... at the level of events: the one frame of a connect is that welcome ... *)
Theorem C17_welcome_payload : ltac:(let t := type of welcome_payload in exact t).
Proof. exact welcome_payload. Qed.
Check C17_welcome_payload.
Print Assumptions C17_welcome_payload.

(** ... and until it connects a connection is sent nothing, by any event (crashes and
    restarts included): the welcome is the first frame it ever gets *)
Theorem C17_welcome_is_first : ltac:(let t := type of welcome_is_first in exact t).
Proof. exact welcome_is_first. Qed.
Check C17_welcome_is_first.
Print Assumptions C17_welcome_is_first.

Theorem C17_frames_only_to_connected : ltac:(let t := type of frames_only_to_connected in exact t).
Proof. exact frames_only_to_connected. Qed.
Check C17_frames_only_to_connected.
Print Assumptions C17_frames_only_to_connected.

(** every frame carries a send time stamp: the clock at which its event is processed
    ([event_clock]: [now s], or [now s + dt] for a clock advance), which is the clock of
    the state the event leaves; for every state and every event, start-up logs included *)
Theorem C17_every_frame_stamped : ltac:(let t := type of every_frame_stamped in exact t).
Proof. exact every_frame_stamped. Qed.
Check C17_every_frame_stamped.
Print Assumptions C17_every_frame_stamped.

Theorem C17_event_clock_now : ltac:(let t := type of event_clock_now in exact t).
Proof. exact event_clock_now. Qed.
Check C17_event_clock_now.
Print Assumptions C17_event_clock_now.

(** an `error` frame occurs only in answer to a command, goes to the connection the
    command came on and contains the original message *)
Theorem C17_error_frames_echo : ltac:(let t := type of error_frames_echo in exact t).
Proof. exact error_frames_echo. Qed.
Check C17_error_frames_echo.
Print Assumptions C17_error_frames_echo.

Theorem C17_error_echoes_cmd : ltac:(let t := type of error_echoes_cmd in exact t).
Proof. exact error_echoes_cmd. Qed.
Check C17_error_echoes_cmd.
Print Assumptions C17_error_echoes_cmd.

(** a malformed or out-of-order command is answered by its ack (if it had a type) and
    exactly one `error` frame containing the original message; the state is unchanged *)
Theorem C17_erroneous_answer_exact : ltac:(let t := type of erroneous_answer_exact in exact t).
Proof. exact erroneous_answer_exact. Qed.
Check C17_erroneous_answer_exact.
Print Assumptions C17_erroneous_answer_exact.

Example C17_wire_nonvacuous : ltac:(let t := type of wire_nonvacuous in exact t).
Proof. exact wire_nonvacuous. Qed.

(** ping is answered, after the ack, by pong with the same value, bound or not *)
Theorem C17_ping_pong :
  forall cfg c msg o s v, m_type msg = Some TPing -> m_ping msg = Some v ->
  on_message cfg c msg o s =
    Ok tt (set_log s (LFrame c (FPong v) (is_clean s) (now s) ::
                      LFrame c (FAck (m_id msg)) (is_clean s) (now s) :: log s)).
Proof. exact ping_pong. Qed.
Print Assumptions C17_ping_pong.

(** a malformed or out-of-order command ([erroneous] enumerates the
    property's list) is answered, after its ack if it had a type, by exactly one
    error frame containing the original message; both databases (work and committed), the subscriptions, every
    connection record and the clock are unchanged *)
Theorem C17_erroneous_harmless :
  forall cfg c msg o s, erroneous (conn_of s c) msg = true ->
  on_message cfg c msg o s =
    Ok tt (set_log s (LFrame c (FError ErrOther msg) (is_clean s) (now s) ::
                      (match m_type msg with
                       | Some _ => [LFrame c (FAck (m_id msg)) (is_clean s) (now s)]
                       | None => []
                       end) ++ log s)).
Proof. exact erroneous_harmless. Qed.
Print Assumptions C17_erroneous_harmless.

(** no sequence of commands makes a handler fail internally, except through
    the open known findings: KF1 (a mailbox id that exists under another app is
    named, or a freshly generated id collides with an existing one), KF3 (the
    allocator is exhausted) -- XOracle is the model rejecting an impossible
    recorded random choice, it does not exist in the implementation.  For every
    reachable state and every event, restarts and crashes included. *)
Theorem C17_no_internal_error :
  forall cfg, 0 < exp cfg ->
  forall s e o ex, SInv s -> snd (step cfg s e) = o -> o_exc o = Some ex ->
  exists k c msg ora, (e = EB (ECmd c msg ora) \/ e = ECrash k (ECmd c msg ora)) /\
    (kf1_trigger s c msg \/ id_collision s ora \/ kf3_cmd s c msg ora = true \/ ex = XOracle).
Proof. exact internal_error_causes. Qed.
Print Assumptions C17_no_internal_error.

Theorem C17_reachable_states_wellformed :
  forall cfg, 0 < exp cfg -> forall s, reachable cfg s -> SInv s /\ log s = [].
Proof. exact reachable_SInv. Qed.
Print Assumptions C17_reachable_states_wellformed.

(** every frame of a command follows its ack, and a connection stays usable
    after an error: the master theorem's per-command form *)
Theorem C17_on_message_keeps_invariant :
  forall cfg, 0 < exp cfg -> forall c msg o s,
  HInv s -> has_conn c s = true ->
  Hoare.wp (on_message cfg c msg o)
     (fun _ s' => HInv s' /\ ids_same s s' /\ log_ext s s')
     (fun e s' => HInv s' /\ ids_same s s' /\ log_ext s s' /\ esc s c msg o e) s.
Proof. exact on_message_spec. Qed.
Print Assumptions C17_on_message_keeps_invariant.

(** every command carrying a type, on any connection, in any state, is answered
    FIRST by an ack echoing its id, whatever follows *)
Theorem C17_ack_first : ltac:(let t := type of ack_first in exact t).
Proof. exact ack_first. Qed.
Check C17_ack_first.
Print Assumptions C17_ack_first.

(** every frame a command produces goes to its sender (except the `message` frames of an add) *)
Theorem C17_frames_only_to_sender : ltac:(let t := type of frames_only_to_sender in exact t).
Proof. exact frames_only_to_sender. Qed.
Check C17_frames_only_to_sender.
Print Assumptions C17_frames_only_to_sender.

(** in every reachable state a connection that holds a mailbox remembers exactly that
    id: a well-formed close names (if anything) the held mailbox and acts on it ... *)
Theorem C17_close_names_held : ltac:(let t := type of close_names_held in exact t).
Proof. exact close_names_held. Qed.
Check C17_close_names_held.
Print Assumptions C17_close_names_held.

(** ... and a close naming something other than what was opened is erroneous (one
    error frame, nothing changes: C17_erroneous_harmless) *)
Theorem C17_close_other_refused : ltac:(let t := type of close_other_refused in exact t).
Proof. exact close_other_refused. Qed.
Check C17_close_other_refused.
Print Assumptions C17_close_other_refused.

(** the known-finding triggers are sound: when KF1 fires exactly the IntegrityError happens, nothing is stored ... *)
Theorem C17_kf1_sound : ltac:(let t := type of kf1_sound in exact t).
Proof. exact kf1_sound. Qed.
Check C17_kf1_sound.
Print Assumptions C17_kf1_sound.

(** ... when KF2 fires the answer is `crowded` (or `reclaimed` for a released side's claim), nothing else ... *)
Theorem C17_kf2_sound : ltac:(let t := type of kf2_sound in exact t).
Proof. exact kf2_sound. Qed.
Check C17_kf2_sound.
Print Assumptions C17_kf2_sound.

(** ... when KF3 fires exactly the ValueError happens, nothing is stored *)
Theorem C17_kf3_sound : ltac:(let t := type of kf3_sound in exact t).
Proof. exact kf3_sound. Qed.
Check C17_kf3_sound.
Print Assumptions C17_kf3_sound.

(** KF3 is real in the model: with 1..999 and the drawn value taken, allocate raises *)
Example C17_kf3_refuted :
  find_available (map show_Z (range_from 1 999) ++ ["1000"]%string)
                 (mkAO None (repeat 1000 1000)) = AllocValueError.
Proof. vm_compute. reflexivity. Qed.

Example C17_nonvacuous :
  erroneous new_conn (mkCmd (Some TList) None None None None None None None None None None) = true.
Proof. reflexivity. Qed.

(** * the per-connection flags are what the connection sent (quoted by type from FlagBridge.v).  [after h] = the state after history h from the initial state; [alive c tr]: no disconnect of c, restart, crash or internal failure of c's commands in tr *)

(** a connection is bound to (app, side) only by its own bind command carrying exactly those, answered without error, and nothing since *)
Theorem C17_bound_is_bind_cmd : ltac:(let t := type of bound_is_bind_cmd in exact t).
Proof. exact bound_is_bind_cmd. Qed.
Check C17_bound_is_bind_cmd.
Print Assumptions C17_bound_is_bind_cmd.

(** ... and conversely *)
Theorem C17_bind_establishes_bound : ltac:(let t := type of bind_establishes_bound in exact t).
Proof. exact bind_establishes_bound. Qed.
Check C17_bind_establishes_bound.
Print Assumptions C17_bind_establishes_bound.

(** all flags at once: a fold over the history *)
Theorem C17_flags_track_history : ltac:(let t := type of flags_track_history in exact t).
Proof. exact flags_track_history. Qed.
Check C17_flags_track_history.
Print Assumptions C17_flags_track_history.

(** `a second claim`: the flag is set iff the connection sent a claim with a nameplate that was not a protocol error (also when refused as crowded) *)
Theorem C17_did_claim_iff : ltac:(let t := type of did_claim_iff in exact t).
Proof. exact did_claim_iff. Qed.
Check C17_did_claim_iff.
Print Assumptions C17_did_claim_iff.

(** allocate *)
Theorem C17_did_allocate_iff : ltac:(let t := type of did_allocate_iff in exact t).
Proof. exact did_allocate_iff. Qed.
Check C17_did_allocate_iff.
Print Assumptions C17_did_allocate_iff.

(** release *)
Theorem C17_did_release_iff : ltac:(let t := type of did_release_iff in exact t).
Proof. exact did_release_iff. Qed.
Check C17_did_release_iff.
Print Assumptions C17_did_release_iff.

(** close *)
Theorem C17_did_close_iff : ltac:(let t := type of did_close_iff in exact t).
Proof. exact did_close_iff. Qed.
Check C17_did_close_iff.
Print Assumptions C17_did_close_iff.

(** `what was claimed` is the nameplate of that claim command *)
Theorem C17_nameplate_id_is_claim_cmd : ltac:(let t := type of nameplate_id_is_claim_cmd in exact t).
Proof. exact nameplate_id_is_claim_cmd. Qed.
Check C17_nameplate_id_is_claim_cmd.
Print Assumptions C17_nameplate_id_is_claim_cmd.

(** `what was opened` is the mailbox of the last such open command *)
Theorem C17_mailbox_id_iff : ltac:(let t := type of mailbox_id_iff in exact t).
Proof. exact mailbox_id_iff. Qed.
Check C17_mailbox_id_iff.
Print Assumptions C17_mailbox_id_iff.

(** holding a mailbox comes from the connection's own open *)
Theorem C17_held_is_open_cmd : ltac:(let t := type of held_is_open_cmd in exact t).
Proof. exact held_is_open_cmd. Qed.
Check C17_held_is_open_cmd.
Print Assumptions C17_held_is_open_cmd.

(** a command that does not fail internally drops nobody *)
Theorem C17_cmd_keeps_conns : ltac:(let t := type of cmd_keeps_conns in exact t).
Proof. exact cmd_keeps_conns. Qed.
Check C17_cmd_keeps_conns.
Print Assumptions C17_cmd_keeps_conns.

(** a connection leaves only by its own disconnect, a restart, a crash, or an internal failure of its own command *)
Theorem C17_conn_leaves_only_by : ltac:(let t := type of conn_leaves_only_by in exact t).
Proof. exact conn_leaves_only_by. Qed.
Check C17_conn_leaves_only_by.
Print Assumptions C17_conn_leaves_only_by.

(** run level *)
Theorem C17_conn_stays_run : ltac:(let t := type of conn_stays_run in exact t).
Proof. exact conn_stays_run. Qed.
Check C17_conn_stays_run.
Print Assumptions C17_conn_stays_run.

(** the model's `oracle mismatch` exception is raised only when the recorded oracle does not fit the command *)
Theorem C17_xoracle_only_misfit : ltac:(let t := type of xoracle_only_misfit in exact t).
Proof. exact xoracle_only_misfit. Qed.
Check C17_xoracle_only_misfit.
Print Assumptions C17_xoracle_only_misfit.

(** with a fitting oracle an internal failure implies one of the known-finding triggers or an id collision: no `XOracle` escape hatch *)
Theorem C17_no_internal_error_fits : ltac:(let t := type of no_internal_error_fits in exact t).
Proof. exact no_internal_error_fits. Qed.
Check C17_no_internal_error_fits.
Print Assumptions C17_no_internal_error_fits.

(** a claim / open refused as crowded DOES set the flags (the refuted simpler statement) *)
Theorem C17_flags_error_answer_refuted : ltac:(let t := type of FlagBridgeExamples.flags_error_answer_refuted in exact t).
Proof. exact FlagBridgeExamples.flags_error_answer_refuted. Qed.
Check C17_flags_error_answer_refuted.
Print Assumptions C17_flags_error_answer_refuted.

(** non-vacuity *)
Theorem C17_flags_nonvacuous : ltac:(let t := type of FlagBridgeExamples.flags_nonvacuous in exact t).
Proof. exact FlagBridgeExamples.flags_nonvacuous. Qed.
Check C17_flags_nonvacuous.
Print Assumptions C17_flags_nonvacuous.

