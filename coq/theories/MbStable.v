(** MbStable.v -- C08 / C01: the stability of a mailbox over ALL events.

    The per-command theorems of MbFactsA/MbFactsB and the sweep theorem of
    SweepFacts say exactly what one close and one sweep do.  This file states
    what NOTHING ELSE does: over any event of any kind by anyone, in any
    well-formed state, a mailbox row is removed only by
      (i)  a close command that names it, sent by a connection of its own app,
           when no OTHER side has it open ([last_close]), or
      (ii) an expiry sweep that fires (the periodic one, or the start-up sweep
           of a restart) at which it was old and had no subscriber ([expired]);
    and as long as it survives, its side rows and its messages do
    ([side_row_stable], [mailbox_content_stable]).  [close_keeps_other_side] is
    the property text "one side's close never removes the other side's access,
    subscription or messages".  The last part extends (i)/(ii) to events that
    die at any commit boundary ([mailbox_stable_crash]). *)
From MW Require Import Base Store Monad Usage Server Websocket Service Findings
     Inv StoreFacts Hoare DbFactsA DbFactsB OpFacts ProtoFacts Obs StepFacts SweepFacts
     NpFactsA MbFactsA MbFactsB NpFactsB LifeFacts Corollaries HistFacts CrowdFacts
     CrashHist Inst_Params.
Local Open Scope list_scope.

(** * Vocabulary *)

(** the mailbox a close command on connection state [cs] acts on: the one the
    connection holds, else the one the command (or an earlier open) names *)
Definition closed_mbox (cs : conn_state) (msg : command) : option string :=
  match c_mailbox cs with Some h => Some h | None => cmd_mbox cs msg end.

(** [e] is a well-formed close of mailbox (a, m) by a connection bound to
    (a, side) *)
Definition close_by (s : state) (e : event) (a m side : string) : Prop :=
  exists c cs msg o,
    e = EB (ECmd c msg o) /\ lookup_conn c (conns s) = Some cs /\
    c_bound cs = Some (a, side) /\ m_type msg = Some TClose /\ erroneous cs msg = false /\
    closed_mbox cs msg = Some m.

(** ... and no other side has the mailbox open *)
Definition last_close (s : state) (e : event) (a m : string) : Prop :=
  exists side, close_by s e a m side /\
               forall side', keeper (chan_w s) m side' -> side' = side.

(** * Pure facts about [open_db] and [close_db] *)

Lemma has_mb_alive d a m : has_mb d a m -> Obs.mb_alive d m.
Proof. intros (r & Hr & _ & Hm). exists r. auto. Qed.

(** mailbox ids are unique across apps *)
Lemma has_mb_app d a a' m : DbInv d -> has_mb d a m -> has_mb d a' m -> a = a'.
Proof.
  intros Hinv (r & Hr & Ha & Hm) (r' & Hr' & Ha' & Hm').
  assert (r = r').
  { apply (NoDup_map_inj mb_id (mailboxes d)); [apply inv_mb_id; exact Hinv| | |];
      [assumption|assumption|congruence]. }
  subst r'. congruence.
Qed.

Lemma open_db_has_mb d a' m' side w a m : has_mb d a m -> has_mb (open_db d a' m' side w) a m.
Proof.
  intros (r & Hr & Ha & Hm). exists (MbFactsA.touch_row m' w r). split.
  - unfold open_db. cbn [mailboxes]. apply in_map.
    destruct (sel_mb d a' m'); [exact Hr|apply in_or_app; left; exact Hr].
  - unfold MbFactsA.touch_row. destruct (seqb (mb_id r) m'); cbn [mb_app mb_id]; auto.
Qed.

Lemma open_db_has_own d a m side w : has_mb (open_db d a m side w) a m.
Proof.
  assert (K : forall r, mb_app r = a -> mb_id r = m ->
                        mb_app (MbFactsA.touch_row m w r) = a /\ mb_id (MbFactsA.touch_row m w r) = m).
  { intros r Ha Hm. unfold MbFactsA.touch_row. destruct (seqb (mb_id r) m); cbn [mb_app mb_id]; auto. }
  unfold open_db. destruct (sel_mb d a m) as [r0|] eqn:S0.
  - apply sel_mb_some in S0. destruct S0 as (H0 & Ha0 & Hi0).
    exists (MbFactsA.touch_row m w r0). split; [cbn [mailboxes]; apply in_map; exact H0|auto].
  - exists (MbFactsA.touch_row m w (mkMb a m w false)). split.
    + cbn [mailboxes]. apply in_map. apply in_or_app. right. left. reflexivity.
    + apply K; reflexivity.
Qed.

Lemma open_db_sides d a' m' side w x : In x (mb_sides d) -> In x (mb_sides (open_db d a' m' side w)).
Proof.
  intros Hx. unfold open_db. cbn [mb_sides].
  destruct (sel_mbs d m' side); [exact Hx|apply in_or_app; left; exact Hx].
Qed.

Lemma open_db_keeper d a' m' side w m sd : keeper d m sd -> keeper (open_db d a' m' side w) m sd.
Proof. intros (r & Hr & H). exists r. split; [apply open_db_sides; exact Hr|exact H]. Qed.

(** a keeper of [open_db d a m side] other than [side] was a keeper before *)
Lemma open_db_keeper_inv d a m side w sd :
  keeper (open_db d a m side w) m sd -> sd <> side -> keeper d m sd.
Proof.
  intros (r & Hr & Hm & Hs & Ho) Hne. unfold open_db in Hr. cbn [mb_sides] in Hr.
  destruct (sel_mbs d m side).
  - exists r. auto.
  - apply in_app_or in Hr. destruct Hr as [Hr|[<-|[]]].
    + exists r. auto.
    + cbn [mbs_side] in Hs. congruence.
Qed.

(** a close deletes only when its side has a row of this app's mailbox and no
    OTHER side's row says opened *)
Lemma close_deletes_last d a h side mood :
  close_deletes d a h side mood = true ->
  has_mb d a h /\ forall sd, keeper d h sd -> sd = side.
Proof.
  intros Hdel. split.
  - unfold close_deletes in Hdel. apply has_mb_sel.
    destruct (sel_mb d a h) as [r|]; [eauto|discriminate].
  - intros sd (r & Hr & Hm & Hs & Ho).
    destruct (string_dec sd side) as [E|Hne]; [exact E|exfalso].
    assert (Hne' : mbs_side r <> side) by congruence.
    destruct (close_db_nonlast d a h side mood r Hr Hm Hne' Ho) as [K _]. congruence.
Qed.

Lemma close_db_has_mb d a h side mood a0 m :
  has_mb d a0 m -> m <> h \/ close_deletes d a h side mood = false ->
  has_mb (close_db d a h side mood) a0 m.
Proof.
  intros (r & Hr & Ha & Hm) Hc. exists r. split; [|auto].
  unfold close_db, close_deletes in *.
  destruct (sel_mb d a h); [|exact Hr]. destruct (sel_mbs d h side); [|exact Hr].
  destruct (existsb mbs_opened (sel_mbs_all (upd_mbs_close d h side mood) h)); [exact Hr|].
  cbn [mailboxes]. apply filter_In. split; [exact Hr|].
  apply negb_true_iff, seqb_neq. destruct Hc as [Hc|Hc]; [congruence|discriminate].
Qed.

Lemma upd_mbs_close_other d h side mood x :
  In x (mb_sides d) -> mbs_mbox x <> h \/ mbs_side x <> side ->
  In x (mb_sides (upd_mbs_close d h side mood)).
Proof.
  intros Hx Hc. unfold upd_mbs_close. cbn [mb_sides set_mb_sides]. apply in_map_iff.
  exists x. split; [|exact Hx].
  destruct (seqb (mbs_mbox x) h) eqn:E1; [|reflexivity].
  destruct (seqb (mbs_side x) side) eqn:E2; [|reflexivity].
  apply seqb_eq in E1. apply seqb_eq in E2. destruct Hc; contradiction.
Qed.

(** every side row of another mailbox, and -- unless the mailbox is deleted --
    every row of another side, is untouched by a close *)
Lemma close_db_sides d a h side mood x :
  In x (mb_sides d) ->
  mbs_mbox x <> h \/ (mbs_side x <> side /\ close_deletes d a h side mood = false) ->
  In x (mb_sides (close_db d a h side mood)).
Proof.
  intros Hx Hc. unfold close_db, close_deletes in *.
  destruct (sel_mb d a h); [|exact Hx]. destruct (sel_mbs d h side); [|exact Hx].
  assert (Hu : In x (mb_sides (upd_mbs_close d h side mood))).
  { apply upd_mbs_close_other; [exact Hx|]. destruct Hc as [Hc|[Hc _]]; auto. }
  destruct (existsb mbs_opened (sel_mbs_all (upd_mbs_close d h side mood) h)); [exact Hu|].
  cbn [mb_sides]. apply filter_In. split; [exact Hu|].
  apply negb_true_iff, seqb_neq. destruct Hc as [Hc|[_ Hc]]; [exact Hc|discriminate].
Qed.

Lemma close_db_msgs_keep d a h side mood :
  close_deletes d a h side mood = false -> messages (close_db d a h side mood) = messages d.
Proof. intros H. rewrite close_db_msgs, H. reflexivity. Qed.

(** * What one event keeps of a mailbox *)

(** [d'] still has mailbox (a, m), and every side row of it that [d] had --
    except possibly the row of side [X] -- unchanged *)
Definition mb_kept (d d' : chan_db) (a m : string) (X : option string) : Prop :=
  has_mb d' a m /\
  forall x, In x (mb_sides d) -> mbs_mbox x = m -> Some (mbs_side x) <> X -> In x (mb_sides d').

Lemma mb_kept_refl d a m X : has_mb d a m -> mb_kept d d a m X.
Proof. intros H. split; [exact H|auto]. Qed.

Lemma mb_kept_eq d d' a m X : d' = d -> has_mb d a m -> mb_kept d d' a m X.
Proof. intros ->. apply mb_kept_refl. Qed.

Lemma mb_kept_grows d d' a m X : grows d d' -> has_mb d a m -> mb_kept d d' a m X.
Proof.
  intros (_ & _ & Hs & _ & Hm) (r & Hr & Ha & Hi). split.
  - destruct (Hm r Hr) as (r' & Hr' & Ea & Ei & _). exists r'. split; [exact Hr'|]. split; congruence.
  - intros x Hx _ _. apply Hs. exact Hx.
Qed.

Lemma mb_kept_open d a' m' side w a m X :
  has_mb d a m -> mb_kept d (open_db d a' m' side w) a m X.
Proof.
  intros H. split; [apply open_db_has_mb; exact H|]. intros x Hx _ _. apply open_db_sides. exact Hx.
Qed.

Lemma mb_kept_weaken d d' a m X : mb_kept d d' a m None -> mb_kept d d' a m X.
Proof. intros [H1 H2]. split; [exact H1|]. intros x Hx Hm _. apply H2; [exact Hx|exact Hm|discriminate]. Qed.

(** a close of mailbox [h] by (a', side'), on a database where (a, m) exists:
    (a, m) is kept entirely if it is another mailbox; it is kept but for the
    closer's own row if some other side has it open; otherwise the closer was
    of app [a] and no other side had it open *)
Lemma close_db_kept d a' h side' mood a m :
  DbInv d -> has_mb d a m -> (h = m -> has_mb d a' h) ->
  let d' := close_db d a' h side' mood in
  (h <> m /\ mb_kept d d' a m None) \/
  (h = m /\ a' = a /\
   ((close_deletes d a' h side' mood = false /\ mb_kept d d' a m (Some side')) \/
    (close_deletes d a' h side' mood = true /\ (forall sd, keeper d m sd -> sd = side') /\
     ~ has_mb d' a m))).
Proof.
  intros Hinv Hmb Happ. cbv zeta.
  destruct (string_dec h m) as [E|Hne].
  - right. split; [exact E|]. subst h.
    assert (Ea : a' = a) by (apply (has_mb_app d a' a m Hinv); auto). split; [exact Ea|]. subst a'.
    destruct (close_deletes d a m side' mood) eqn:Edel.
    + right. split; [reflexivity|]. split; [apply (close_deletes_last d a m side' mood Edel)|].
      intros K. apply (close_db_gone d a m side' mood Edel). apply has_mb_alive in K. exact K.
    + left. split; [reflexivity|]. split.
      * apply close_db_has_mb; auto.
      * intros x Hx Hm Hs. apply close_db_sides; [exact Hx|]. right. split; [congruence|exact Edel].
  - left. split; [exact Hne|]. split.
    + apply close_db_has_mb; auto.
    + intros x Hx Hm _. apply close_db_sides; [exact Hx|]. left. congruence.
Qed.

Section WithConfig.
Variable cfg : config.
Hypothesis Hexp : 0 < exp cfg.

(** the mailbox expired at event [e]: [e] fires the sweep at time [t] -- a
    non-faulty [ESweep], a non-faulty [EAdvance] that reaches the due time, or a
    restart (whose start-up sweep runs at once) -- the row was last updated at
    or before [t - exp], and nobody was subscribed (a restart drops every
    subscription first) *)
Definition sweep_time (s : state) (e : event) : option Z :=
  match e with
  | EB (ESweep false) => Some (now s)
  | EB (EAdvance dt false) =>
      if (0 <=? dt) && (next_due s <=? now s + dt) then Some (now s + dt) else None
  | ERestart => Some (now s)
  | _ => None
  end.

Definition expired (s : state) (e : event) (a m : string) : Prop :=
  exists t r, sweep_time s e = Some t /\
    In r (mailboxes (chan_w s)) /\ mb_app r = a /\ mb_id r = m /\
    mb_updated r <= t - exp cfg /\
    (e = ERestart \/ ~ listened s a m).

(** ** commands *)

Lemma step_cmd_unknown s c msg o :
  log s = [] -> lookup_conn c (conns s) = None ->
  chan_w (fst (step cfg s (EB (ECmd c msg o)))) = chan_w s.
Proof.
  intros Hlog Hlk. unfold step. rewrite (set_log_nil s Hlog). unfold step_b, has_conn.
  rewrite Hlk. reflexivity.
Qed.

(** a fresh close whose implicit open hits the primary key of another app's
    mailbox changes nothing *)
Lemma close_fresh_clash s c cs a side msg o m :
  SInv s -> log s = [] -> lookup_conn c (conns s) = Some cs -> c_bound cs = Some (a, side) ->
  c_mailbox cs = None -> m_type msg = Some TClose -> erroneous cs msg = false ->
  cmd_mbox cs msg = Some m -> pk_clash (chan_w s) a m ->
  chan_w (fst (step cfg s (EB (ECmd c msg o)))) = chan_w s.
Proof.
  intros Hinv Hlog Hl Hb Hmb Ht Herr Hcm Hclash.
  assert (Hdc : c_did_close cs = false /\ name_mismatch (m_mailbox msg) (c_mailbox_id cs) = false).
  { unfold erroneous in Herr. rewrite Ht, Hb in Herr. apply orb_false_iff in Herr. exact Herr. }
  destruct Hdc as [Hdc Hnm].
  rewrite (step_cmd cfg s c msg o TClose cs Hl Ht).
  set (s0 := set_log s [LFrame c (FAck (m_id msg)) (is_clean s) (now s)]).
  assert (Hc0 : conn_of s0 c = cs) by (unfold conn_of, s0; cbn [conns set_log]; rewrite Hl; reflexivity).
  rewrite (dispatch_bound cfg c TClose msg o s0 a side)
    by (try discriminate; rewrite Hc0; exact Hb).
  rewrite (handle_close_fresh_fail cfg c a side msg s0 cs m (chan_w s) Hl Hdc Hnm Hcm Hmb
             (pk_clash_fail _ _ _ side (now s) Hclash)).
  cbn [fst].
  destruct (MbFactsA.drop_conn_frame c (set_chan_w s0 (chan_w s))) as [Dw _].
  cbn [chan_w set_log]. rewrite Dw. reflexivity.
Qed.

(** over a command, mailbox (a, m) and its side rows are kept -- except that a
    close of it by a connection of app [a] rewrites the closer's own row, and
    deletes the mailbox when no other side has it open *)
Lemma kept_cmd s c msg o a m :
  SInv s -> log s = [] -> has_mb (chan_w s) a m ->
  let d := chan_w s in
  let d' := chan_w (fst (step cfg s (EB (ECmd c msg o)))) in
  mb_kept d d' a m None \/
  exists side, close_by s (EB (ECmd c msg o)) a m side /\
               (mb_kept d d' a m (Some side) \/
                ((forall sd, keeper d m sd -> sd = side) /\ ~ has_mb d' a m)).
Proof.
  intros HS Hlog Hmb. cbv zeta.
  destruct (lookup_conn c (conns s)) as [cs|] eqn:Hlk.
  2:{ left. rewrite (step_cmd_unknown s c msg o Hlog Hlk). apply mb_kept_refl. exact Hmb. }
  assert (Hhas : has_conn c s = true) by (unfold has_conn; rewrite Hlk; reflexivity).
  assert (Hco : conn_of s c = cs) by (unfold conn_of; rewrite Hlk; reflexivity).
  destruct (erroneous cs msg) eqn:Herr.
  { left. pose proof (erroneous_harmless cfg c msg o s) as Hom. rewrite Hco in Hom.
    specialize (Hom Herr). rewrite (step_cmd_w cfg s c msg o _ Hlog Hhas Hom).
    apply mb_kept_refl. exact Hmb. }
  pose proof Herr as He. unfold erroneous in He.
  destruct (m_type msg) as [t|] eqn:Et; [|discriminate].
  destruct t; cbv beta iota in He.
  - (* ping *)
    destruct (m_ping msg) as [v|] eqn:Ev; [|discriminate]. left.
    rewrite (step_cmd_w cfg _ _ _ _ _ Hlog Hhas (ping_pong cfg c msg o s v Et Ev)).
    apply mb_kept_refl. exact Hmb.
  - (* bind *)
    destruct (c_bound cs) eqn:Eb; [discriminate|].
    destruct (m_appid msg) as [a'|] eqn:Ea; [|discriminate].
    destruct (m_side msg) as [sd|] eqn:Esd; [|discriminate].
    assert (Eb' : c_bound (conn_of s c) = None) by (rewrite Hco; exact Eb).
    destruct (bind_effect cfg c msg o s a' sd Et Eb' Ea Esd) as (s1 & Hom & Hw & _).
    left. rewrite (step_cmd_w cfg _ _ _ _ _ Hlog Hhas Hom), Hw. apply mb_kept_refl. exact Hmb.
  - (* list *)
    destruct (c_bound cs) as [[a' side']|] eqn:Eb; [|discriminate].
    assert (Eb' : c_bound (conn_of s c) = Some (a', side')) by (rewrite Hco; exact Eb).
    left. rewrite (step_cmd_w cfg _ _ _ _ _ Hlog Hhas (list_answer cfg c msg o s a' side' Et Eb')).
    apply mb_kept_refl. exact Hmb.
  - (* allocate *)
    destruct (c_bound cs) as [[a' side']|] eqn:Eb; [|discriminate]. left.
    pose proof (allocate_full cfg s c cs a' side' msg o HS Hlog Hlk Eb Et Herr) as T.
    destruct (step cfg s (EB (ECmd c msg o))) as [s' ob]. cbn [fst] in *. cbv zeta in T.
    destruct T as (_ & G & _). apply mb_kept_grows; assumption.
  - (* claim *)
    destruct (c_bound cs) as [[a' side']|] eqn:Eb; [|discriminate].
    destruct (m_nameplate msg) as [n'|] eqn:En; [|discriminate]. left.
    pose proof (claim_outcome cfg s c cs a' side' msg o n' HS Hlog Hlk Eb Et Herr En) as T.
    destruct (step cfg s (EB (ECmd c msg o))) as [s' ob]. cbn [fst] in *. cbv zeta in T.
    destruct T as (_ & [(_ & _ & E & _)|[(_ & _ & E & _)|(_ & G & _)]]).
    + apply mb_kept_eq; assumption.
    + apply mb_kept_eq; assumption.
    + apply mb_kept_grows; assumption.
  - (* release *)
    destruct (c_bound cs) as [[a' side']|] eqn:Eb; [|discriminate].
    apply orb_false_elim in He. destruct He as [Hdr Hmm].
    assert (Hn' : exists n', cmd_nameplate cs msg = Some n').
    { unfold cmd_nameplate, name_mismatch in *. destruct (m_nameplate msg); [eauto|].
      destruct (c_nameplate_id cs); [eauto|discriminate]. }
    destruct Hn' as [n' Hn']. left.
    pose proof (release_effect cfg s c cs a' side' msg o n' HS Hlog Hlk Eb Et Herr Hn') as T.
    destruct (step cfg s (EB (ECmd c msg o))) as [s' ob]. cbn [fst] in *. cbv zeta in T.
    destruct T as (_ & _ & _ & _ & R1 & R2 & _).
    split.
    + destruct Hmb as (r & Hr & H). exists r. rewrite R1. auto.
    + intros x Hx _ _. rewrite R2. exact Hx.
  - (* open *)
    destruct (c_bound cs) as [[a' side']|] eqn:Eb; [|discriminate].
    destruct (c_mailbox cs) eqn:Em; [discriminate|].
    destruct (m_mailbox msg) as [m'|] eqn:Emm; [|discriminate]. left.
    pose proof (open_outcome cfg s c cs a' side' msg o m' HS Hlog Hlk Eb Et Herr Emm) as T.
    destruct (step cfg s (EB (ECmd c msg o))) as [s' ob]. cbn [fst] in *. cbv zeta in T.
    destruct T as (_ & [(_ & _ & E & _)|(_ & E & _)]); rewrite E.
    + apply mb_kept_refl. exact Hmb.
    + apply mb_kept_open. exact Hmb.
  - (* add *)
    destruct (c_bound cs) as [[a' side']|] eqn:Eb; [|discriminate].
    destruct (c_mailbox cs) as [m'|] eqn:Em; [|discriminate].
    destruct (m_phase msg) as [ph|] eqn:Eph; [|discriminate].
    destruct (m_body msg) as [bd|] eqn:Ebd; [|discriminate]. left.
    pose proof (add_effect cfg s c cs a' side' msg o m' ph bd HS Hlog Hlk Eb Em Et Eph Ebd) as T.
    cbv zeta in T.
    destruct (step cfg s (EB (ECmd c msg o))) as [s' ob]. cbn [fst] in *.
    destruct T as (_ & _ & E & _). rewrite E. split.
    + destruct Hmb as (r & Hr & Ha & Hi).
      exists (if seqb (mb_id r) m' then mkMb (mb_app r) (mb_id r) (now s) (mb_fornp r) else r).
      split.
      * unfold upd_touch. cbn [mailboxes set_mailboxes ins_msg set_messages].
        apply (in_map (fun r0 => if seqb (mb_id r0) m'
                                 then mkMb (mb_app r0) (mb_id r0) (now s) (mb_fornp r0) else r0)).
        exact Hr.
      * destruct (seqb (mb_id r) m'); cbn [mb_app mb_id]; auto.
    + intros x Hx _ _. exact Hx.
  - (* close *)
    destruct (c_bound cs) as [[a' side']|] eqn:Eb; [|discriminate].
    destruct (c_mailbox cs) as [h|] eqn:Em.
    + (* the connection holds h *)
      assert (Hh : has_mb (chan_w s) a' h).
      { pose proof (si_conns s HS c cs Hlk) as Hok. unfold conn_ok in Hok. rewrite Em in Hok.
        destruct Hok as (a0 & sd0 & Hb0 & _ & Hin). rewrite Eb in Hb0. inversion Hb0; subst a0 sd0.
        apply (si_subs s HS) in Hin. apply Hin. }
      pose proof (close_held_effect cfg s c cs a' side' msg o h HS Hlog Hlk Eb Em Et Herr) as T.
      destruct (step cfg s (EB (ECmd c msg o))) as [s' ob]. cbn [fst] in *. cbv zeta in T.
      destruct T as (_ & _ & E & _). rewrite E.
      destruct (close_db_kept (chan_w s) a' h side' (m_mood msg) a m (si_db s HS) Hmb (fun _ => Hh))
        as [(_ & K)|(-> & -> & K)].
      * left. exact K.
      * right. exists side'. split.
        { exists c, cs, msg, o. unfold closed_mbox. rewrite Em. auto 10. }
        destruct K as [(_ & K)|(_ & K)]; [left|right]; exact K.
    + (* it holds none: open, then close *)
      apply orb_false_elim in He. destruct He as [Hdc Hmm].
      assert (Hm' : exists m', cmd_mbox cs msg = Some m').
      { unfold cmd_mbox, name_mismatch in *. destruct (m_mailbox msg); [eauto|].
        destruct (c_mailbox_id cs); [eauto|discriminate]. }
      destruct Hm' as [m' Hm'].
      destruct (mb_exists (chan_w s) m' && negb (has_mb_b (chan_w s) a' m')) eqn:Eclash.
      { (* the id exists under another app: nothing changes *)
        left. apply andb_true_iff in Eclash. destruct Eclash as [E1 E2].
        apply negb_true_iff, has_mb_b_false in E2.
        rewrite (close_fresh_clash s c cs a' side' msg o m' HS Hlog Hlk Eb Em Et Herr Hm'
                   (conj E1 E2)).
        apply mb_kept_refl. exact Hmb. }
      pose proof (close_fresh_outcome cfg s c cs a' side' msg o m' HS Hlog Hlk Eb Em Et Herr Hm') as T.
      destruct (step cfg s (EB (ECmd c msg o))) as [s' ob]. cbn [fst] in *. cbv zeta in T.
      set (d1 := open_db (chan_w s) a' m' side' (now s)) in *.
      destruct T as (_ & [(_ & _ & E & _)|[(_ & _ & _ & E & _)|(_ & _ & _ & E & _)]]); rewrite E.
      * left. apply mb_kept_refl. exact Hmb.
      * left. apply mb_kept_open. exact Hmb.
      * assert (Hinv1 : DbInv d1).
        { pose proof (open_body_ok (chan_w s) a' m' side' (now s) (si_db s HS)) as Hob.
          destruct (cl_open_body_eval (chan_w s) a' m' side' (now s)) as [[_ [C1 C2]]|Hok].
          - exfalso. rewrite C1 in Eclash. cbn [andb] in Eclash.
            apply negb_false_iff, has_mb_b_true in Eclash. contradiction.
          - rewrite Hok in Hob. apply Hob. }
        assert (Hmb1 : has_mb d1 a m) by (apply open_db_has_mb; exact Hmb).
        assert (Hh1 : m' = m -> has_mb d1 a' m') by (intros _; apply open_db_has_own).
        destruct (close_db_kept d1 a' m' side' (m_mood msg) a m Hinv1 Hmb1 Hh1)
          as [(_ & K)|(-> & -> & K)].
        -- left. destruct K as [K1 K2]. split; [exact K1|].
           intros x Hx Hxm Hs. apply K2; [apply open_db_sides; exact Hx|exact Hxm|exact Hs].
        -- right. exists side'. split.
           { exists c, cs, msg, o. unfold closed_mbox. rewrite Em. auto 10. }
           destruct K as [(_ & K1 & K2)|(_ & K)]; [left|right].
           ++ split; [exact K1|]. intros x Hx Hxm Hs.
              apply K2; [apply open_db_sides; exact Hx|exact Hxm|exact Hs].
           ++ destruct K as [K K']. split; [|exact K'].
              intros sd Hk. apply K. apply open_db_keeper. exact Hk.
  - (* unknown type *)
    destruct (c_bound cs); discriminate.
Qed.

(** ** sweeps *)

(** a non-faulty sweep removes every old mailbox nobody is subscribed to *)
Lemma expire_removes s s' a m r :
  SInv s -> log s = [] -> expire cfg false s = Ok tt s' ->
  In r (mailboxes (chan_w s)) -> mb_app r = a -> mb_id r = m ->
  mb_updated r <= now s - exp cfg -> ~ listened s a m ->
  ~ has_mb (chan_w s') a m.
Proof.
  intros HS Hlog E Hr Ha Hi Ho HnL.
  destruct (sweep_char cfg Hexp s HS Hlog) as (s2 & E2 & Hm & _). cbv zeta in Hm.
  rewrite E in E2. inversion E2; subst s2.
  intros (r' & Hr' & Ha' & Hi'). apply Hm in Hr'.
  destruct Hr' as [(Hr' & _ & Hy)|(r0 & Hr0 & HL & Er)].
  - assert (r' = r).
    { apply (NoDup_map_inj mb_id (mailboxes (chan_w s)));
        [apply inv_mb_id; exact (si_db s HS)|assumption|assumption|congruence]. }
    subst r'. lia.
  - subst r'. cbn [mb_app mb_id] in *. apply HnL. rewrite <- Ha', <- Hi'. exact HL.
Qed.

Lemma kept_expire s fault a m :
  SInv s -> log s = [] -> has_mb (chan_w s) a m ->
  exists s', expire cfg fault s = Ok tt s' /\
    (mb_kept (chan_w s) (chan_w s') a m None \/
     (fault = false /\
      exists r, In r (mailboxes (chan_w s)) /\ mb_app r = a /\ mb_id r = m /\
                mb_updated r <= now s - exp cfg /\ ~ listened s a m /\
                ~ has_mb (chan_w s') a m)).
Proof.
  intros HS Hlog Hmb. destruct fault.
  - destruct (sweep_fault cfg Hexp s HS Hlog) as (s' & E & Hw & _).
    exists s'. split; [exact E|]. left. rewrite Hw. apply mb_kept_refl. exact Hmb.
  - destruct (sweep_char cfg Hexp s HS Hlog) as (s' & E & H). cbv zeta in H.
    destruct H as (Hm & _ & _ & Hsd & _).
    exists s'. split; [exact E|].
    destruct Hmb as (r & Hr & Ha & Hi).
    assert (Hk : has_mb (chan_w s') a m -> mb_kept (chan_w s) (chan_w s') a m None).
    { intros K. split; [exact K|]. intros x Hx Hxm _. apply Hsd. split; [exact Hx|].
      rewrite Hxm. destruct K as (r' & Hr' & _ & Hi'). exists r'. auto. }
    destruct (lis_dec (subs s) a m) as [HL|HnL].
    + left. apply Hk. exists (mkMb (mb_app r) (mb_id r) (now s) (mb_fornp r)). split.
      * apply Hm. right. exists r. split; [exact Hr|]. split; [|reflexivity].
        rewrite Ha, Hi. exact HL.
      * cbn [mb_app mb_id]. auto.
    + destruct (Z_lt_le_dec (now s - exp cfg) (mb_updated r)) as [Hy|Ho].
      * left. apply Hk. exists r. split; [|auto]. apply Hm. left. split; [exact Hr|].
        rewrite Ha, Hi. split; [exact HnL|exact Hy].
      * right. split; [reflexivity|]. exists r.
        split; [exact Hr|]. split; [exact Ha|]. split; [exact Hi|]. split; [exact Ho|].
        split; [exact HnL|]. exact (expire_removes s s' a m r HS Hlog E Hr Ha Hi Ho HnL).
Qed.

(** * Every event: what it keeps of a mailbox, and the only two ways it goes *)
Theorem event_kept s e a m :
  SInv s -> log s = [] -> has_mb (chan_w s) a m -> LifeFacts.not_crash e ->
  let d := chan_w s in
  let d' := chan_w (fst (step cfg s e)) in
  mb_kept d d' a m None \/
  (exists side, close_by s e a m side /\
                (mb_kept d d' a m (Some side) \/
                 ((forall sd, keeper d m sd -> sd = side) /\ ~ has_mb d' a m))) \/
  (expired s e a m /\ ~ has_mb d' a m).
Proof.
  intros HS Hlog Hmb Hnc. cbv zeta.
  destruct e as [b|k b|]; [|destruct Hnc|].
  - destruct b as [c|c msg o|c|fault|dt fault].
    + (* connect *)
      left. assert (E : chan_w (fst (step cfg s (EB (EConnect c)))) = chan_w s).
      { unfold step, step_b. destruct (has_conn c (set_log s [])); reflexivity. }
      rewrite E. apply mb_kept_refl. exact Hmb.
    + (* command *)
      destruct (kept_cmd s c msg o a m HS Hlog Hmb) as [K|K]; [left; exact K|right; left; exact K].
    + (* disconnect *)
      left. assert (E : chan_w (fst (step cfg s (EB (EDisconnect c)))) = chan_w s).
      { unfold step, step_b. destruct (has_conn c (set_log s [])); [|reflexivity].
        cbn [fst chan_w set_log]. apply (MbFactsA.drop_conn_frame c (set_log s [])). }
      rewrite E. apply mb_kept_refl. exact Hmb.
    + (* sweep *)
      destruct (kept_expire s fault a m HS Hlog Hmb) as (s' & E & K).
      assert (Ew : chan_w (fst (step cfg s (EB (ESweep fault)))) = chan_w s').
      { unfold step. rewrite (set_log_nil s Hlog). unfold step_b, run_m. rewrite E. reflexivity. }
      rewrite Ew. destruct K as [K|(-> & r & Hr & Ha & Hi & Ho & HnL & Hg)]; [left; exact K|].
      right; right. split; [|exact Hg]. exists (now s), r. cbn [sweep_time]. auto 10.
    + (* the clock advances *)
      unfold step. rewrite (set_log_nil s Hlog). unfold step_b.
      destruct (dt <? 0) eqn:Edt; [left; apply mb_kept_refl; exact Hmb|]. cbv zeta.
      set (s1 := set_now s (now s + dt)).
      destruct (next_due s1 <=? now s1) eqn:Edue; [|left; apply mb_kept_refl; exact Hmb].
      destruct (kept_expire s1 fault a m (SInv_set_now s _ HS) Hlog Hmb) as (s' & E & K).
      unfold run_m. rewrite E. cbn [fst chan_w set_log set_next_due].
      destruct K as [K|(-> & r & Hr & Ha & Hi & Ho & HnL & Hg)]; [left; exact K|].
      right; right. split; [|exact Hg]. exists (now s + dt), r. cbn [sweep_time].
      change (next_due s1) with (next_due s) in Edue. change (now s1) with (now s + dt) in Edue.
      rewrite Edue. apply Z.ltb_ge in Edt. apply Z.leb_le in Edt. rewrite Edt. cbn [andb].
      auto 10.
  - (* restart *)
    destruct (si_clean s HS) as [Hcw _].
    unfold step. rewrite (set_log_nil s Hlog), boot_on_eq.
    set (s0 := mkState (chan_c s) (chan_c s) (usage_c s) (usage_c s) [] [] (now s) (now s) (now s)
                       (now s + period cfg) []).
    assert (HS0 : SInv s0) by (apply SInv_boot; rewrite <- Hcw; exact (si_db s HS)).
    assert (Hmb0 : has_mb (chan_w s0) a m) by (cbn [chan_w s0]; rewrite <- Hcw; exact Hmb).
    destruct (kept_expire s0 false a m HS0 eq_refl Hmb0) as (s' & E & K).
    rewrite E. cbn [fst chan_w set_log]. change (chan_w s0) with (chan_c s) in K.
    rewrite <- Hcw in K.
    destruct K as [K|(_ & r & Hr & Ha & Hi & Ho & _ & Hg)]; [left; exact K|].
    right; right. split; [|exact Hg].
    exists (now s), r. cbn [sweep_time]. change (now s0) with (now s) in Ho. auto 10.
Qed.

(** C08: a mailbox is removed by NOTHING but the close of it by a connection
    of its app when no other side has it open, or an expiry sweep that finds
    it old and unsubscribed -- for every event of every kind by anyone
    (commands of other sides, of other apps, on other mailboxes and nameplates,
    connects, disconnects, faulty sweeps, clock advances, restarts) in every
    well-formed state *)
Theorem mailbox_stable s e a m :
  SInv s -> log s = [] -> has_mb (chan_w s) a m -> LifeFacts.not_crash e ->
  let s' := fst (step cfg s e) in
  has_mb (chan_w s') a m \/ last_close s e a m \/ expired s e a m.
Proof.
  intros HS Hlog Hmb Hnc. cbv zeta.
  destruct (event_kept s e a m HS Hlog Hmb Hnc) as [[K _]|[(side & Hc & [[K _]|[K _]])|[K _]]].
  - left. exact K.
  - left. exact K.
  - right; left. exists side. auto.
  - right; right. exact K.
Qed.

(** the two causes do remove it (so the disjunction above is exact): after an
    event at which the mailbox [expired] it is gone ... *)
Theorem expired_removes s e a m :
  SInv s -> log s = [] -> expired s e a m ->
  ~ has_mb (chan_w (fst (step cfg s e))) a m.
Proof.
  intros HS Hlog (t & r & Ht & Hr & Ha & Hi & Ho & Hl).
  destruct e as [b|k b|]; [|discriminate|].
  - destruct b as [c|c msg o|c|fault|dt fault]; try discriminate.
    + (* sweep *)
      destruct fault; [discriminate|]. cbn in Ht. inversion Ht; subst t.
      destruct Hl as [Hl|Hl]; [discriminate|].
      destruct (sweep_char cfg Hexp s HS Hlog) as (s' & E & _).
      unfold step. rewrite (set_log_nil s Hlog). unfold step_b, run_m. rewrite E.
      cbn [fst chan_w set_log]. exact (expire_removes s s' a m r HS Hlog E Hr Ha Hi Ho Hl).
    + (* the clock reaches the due time *)
      destruct fault; [discriminate|]. cbn in Ht.
      destruct ((0 <=? dt) && (next_due s <=? now s + dt)) eqn:Ed; [|discriminate].
      inversion Ht; subst t. apply andb_true_iff in Ed. destruct Ed as [Ed1 Ed2].
      destruct Hl as [Hl|Hl]; [discriminate|].
      unfold step. rewrite (set_log_nil s Hlog). unfold step_b.
      assert (Edt : (dt <? 0) = false) by (apply Z.ltb_ge; apply Z.leb_le in Ed1; exact Ed1).
      rewrite Edt. cbv zeta. set (s1 := set_now s (now s + dt)).
      change (next_due s1) with (next_due s). change (now s1) with (now s + dt). rewrite Ed2.
      destruct (sweep_char cfg Hexp s1 (SInv_set_now s _ HS) Hlog) as (s' & E & _).
      unfold run_m. rewrite E. cbn [fst chan_w set_log set_next_due].
      exact (expire_removes s1 s' a m r (SInv_set_now s _ HS) Hlog E Hr Ha Hi Ho Hl).
  - (* restart: the start-up sweep, nobody subscribed *)
    cbn in Ht. inversion Ht; subst t.
    destruct (si_clean s HS) as [Hcw _].
    unfold step. rewrite (set_log_nil s Hlog), boot_on_eq.
    set (s0 := mkState (chan_c s) (chan_c s) (usage_c s) (usage_c s) [] [] (now s) (now s) (now s)
                       (now s + period cfg) []).
    assert (HS0 : SInv s0) by (apply SInv_boot; rewrite <- Hcw; exact (si_db s HS)).
    destruct (sweep_char cfg Hexp s0 HS0 eq_refl) as (s' & E & _).
    rewrite E. cbn [fst chan_w set_log].
    apply (expire_removes s0 s' a m r HS0 eq_refl E); auto.
    + cbn [chan_w s0]. rewrite <- Hcw. exact Hr.
    + intros (c0 & []).
Qed.

(** * While the mailbox lives: its side rows *)

(** a side row of a mailbox is changed or removed by nothing but that side's
    own close of it, or the deletion of the whole mailbox *)
Theorem side_row_stable s e a m x :
  SInv s -> log s = [] -> has_mb (chan_w s) a m -> LifeFacts.not_crash e ->
  In x (mb_sides (chan_w s)) -> mbs_mbox x = m ->
  let s' := fst (step cfg s e) in
  In x (mb_sides (chan_w s')) \/ close_by s e a m (mbs_side x) \/ ~ has_mb (chan_w s') a m.
Proof.
  intros HS Hlog Hmb Hnc Hx Hxm. cbv zeta.
  destruct (event_kept s e a m HS Hlog Hmb Hnc) as [[_ K]|[(side & Hc & [[_ K]|[_ K]])|[_ K]]].
  - left. apply K; [exact Hx|exact Hxm|discriminate].
  - destruct (string_dec (mbs_side x) side) as [E|Hne].
    + right; left. rewrite E. exact Hc.
    + left. apply K; [exact Hx|exact Hxm|congruence].
  - right; right. exact K.
  - right; right. exact K.
Qed.

(** C08: a side that has the mailbox open keeps it open through every event
    that is not its own close of it, as long as the mailbox exists *)
Theorem keeper_stable s e a m side :
  SInv s -> log s = [] -> has_mb (chan_w s) a m -> LifeFacts.not_crash e ->
  keeper (chan_w s) m side ->
  let s' := fst (step cfg s e) in
  keeper (chan_w s') m side \/ close_by s e a m side \/ ~ has_mb (chan_w s') a m.
Proof.
  intros HS Hlog Hmb Hnc (x & Hx & Hxm & Hxs & Hxo). cbv zeta.
  destruct (side_row_stable s e a m x HS Hlog Hmb Hnc Hx Hxm) as [K|[K|K]].
  - left. exists x. auto.
  - right; left. rewrite <- Hxs. exact K.
  - right; right. exact K.
Qed.

(** C08: "a mailbox and its stored messages stay available while any side
    that opened it has not closed it": while some side has it open, every
    event that is not that side's own close of it leaves the mailbox in place
    and that side's row open -- unless the mailbox expires *)
Theorem open_side_keeps_mailbox s e a m side :
  SInv s -> log s = [] -> has_mb (chan_w s) a m -> LifeFacts.not_crash e ->
  keeper (chan_w s) m side -> ~ close_by s e a m side ->
  let s' := fst (step cfg s e) in
  (has_mb (chan_w s') a m /\ keeper (chan_w s') m side) \/ expired s e a m.
Proof.
  intros HS Hlog Hmb Hnc Hk Hno. cbv zeta.
  destruct Hk as (x & Hx & Hxm & Hxs & Hxo).
  destruct (event_kept s e a m HS Hlog Hmb Hnc)
    as [[K1 K2]|[(sd & Hc & [[K1 K2]|[K _]])|[K _]]].
  - left. split; [exact K1|]. exists x. split; [|auto]. apply K2; [exact Hx|exact Hxm|discriminate].
  - left. split; [exact K1|]. exists x. split; [|auto]. apply K2; [exact Hx|exact Hxm|].
    intros E. inversion E. apply Hno. congruence.
  - exfalso. apply Hno. rewrite (K side); [exact Hc|]. exists x. auto.
  - right. exact K.
Qed.

(** * While the mailbox lives: its messages *)

(** C01 / C08: if the mailbox survives the event, every message of it stored
    before is still stored after, in the same order, followed by the message
    the event added to it (if any); and sides are only appended to its list *)
Theorem mailbox_content_stable s e a m :
  SInv s -> log s = [] -> LifeFacts.not_crash e ->
  let s' := fst (step cfg s e) in
  has_mb (chan_w s') a m ->
  sel_msgs (chan_w s') a m = sel_msgs (chan_w s) a m ++ filter (mine a m) (added_msg s e) /\
  exists l, mb_side_list (chan_w s') m = mb_side_list (chan_w s) m ++ l.
Proof.
  intros HS Hlog Hnc. cbv zeta. intros Hmb'. split.
  - pose proof (sel_msgs_event cfg Hexp s e a m HS Hlog Hnc) as H. cbv zeta in H.
    rewrite (proj2 (has_mb_b_true _ _ _) Hmb') in H. exact H.
  - apply (mb_sides_only_grow cfg Hexp s e m HS Hlog Hnc). exact (has_mb_alive _ a m Hmb').
Qed.

(** ... at any commit boundary at which the event may die, too *)
Theorem mailbox_messages_stable_all s e a m :
  SInv s -> log s = [] ->
  let s' := fst (step cfg s e) in
  has_mb (chan_w s') a m ->
  sel_msgs (chan_w s') a m = sel_msgs (chan_w s) a m ++ filter (mine a m) (added_msg_c s e).
Proof.
  intros HS Hlog. cbv zeta. intros Hmb'.
  pose proof (sel_msgs_event_all cfg Hexp s e a m HS Hlog) as H. cbv zeta in H.
  rewrite (proj2 (has_mb_b_true _ _ _) Hmb') in H. exact H.
Qed.

(** * One side's close never removes the other side's access, subscription or messages *)

(** side X closes mailbox (a, m) -- on the connection that holds it, or by a
    re-sent close on a fresh connection -- while another side Y has it open:
    the mailbox stays, Y's row stays open, every side row but X's own is
    untouched, no message is removed, and nobody else's subscription changes *)
Theorem close_keeps_other_side s c cs a X msg o m Y :
  SInv s -> log s = [] ->
  lookup_conn c (conns s) = Some cs -> c_bound cs = Some (a, X) ->
  m_type msg = Some TClose -> erroneous cs msg = false -> closed_mbox cs msg = Some m ->
  has_mb (chan_w s) a m -> keeper (chan_w s) m Y -> Y <> X ->
  let s' := fst (step cfg s (EB (ECmd c msg o))) in
  has_mb (chan_w s') a m /\ keeper (chan_w s') m Y /\
  (forall x, In x (mb_sides (chan_w s)) -> mbs_mbox x = m -> mbs_side x <> X ->
             In x (mb_sides (chan_w s'))) /\
  messages (chan_w s') = messages (chan_w s) /\
  (forall c' a' m', c' <> c -> (holds s' c' a' m' <-> holds s c' a' m')).
Proof.
  intros HS Hlog Hlk Hb Ht Herr Hcm Hmb Hk Hne. cbv zeta.
  destruct (step_inv cfg Hexp s (EB (ECmd c msg o)) HS) as [HS' _].
  assert (Hgoal : forall d', 
    has_mb d' a m ->
    (forall x, In x (mb_sides (chan_w s)) -> mbs_mbox x = m -> mbs_side x <> X -> In x (mb_sides d')) ->
    has_mb d' a m /\ keeper d' m Y /\
    (forall x, In x (mb_sides (chan_w s)) -> mbs_mbox x = m -> mbs_side x <> X -> In x (mb_sides d'))).
  { intros d' H1 H2. split; [exact H1|]. split; [|exact H2].
    destruct Hk as (x & Hx & Hxm & Hxs & Hxo). exists x. split; [|auto].
    apply H2; [exact Hx|exact Hxm|congruence]. }
  unfold closed_mbox in Hcm. destruct (c_mailbox cs) as [h|] eqn:Em.
  - (* on the connection that holds it *)
    inversion Hcm; subst h.
    pose proof (close_held_effect cfg s c cs a X msg o m HS Hlog Hlk Hb Em Ht Herr) as T.
    destruct (step cfg s (EB (ECmd c msg o))) as [s' ob]. cbn [fst] in *. cbv zeta in T.
    destruct T as (_ & _ & E & _ & _ & _ & Hh).
    destruct Hk as (y & Hy & Hym & Hys & Hyo).
    assert (Hne' : mbs_side y <> X) by congruence.
    destruct (close_db_nonlast (chan_w s) a m X (m_mood msg) y Hy Hym Hne' Hyo) as [Edel _].
    rewrite Edel in Hh. rewrite E.
    assert (Hk : keeper (chan_w s) m Y) by (exists y; auto).
    destruct (Hgoal (close_db (chan_w s) a m X (m_mood msg))) as (G1 & G2 & G3).
    { apply close_db_has_mb; auto. }
    { intros x Hx Hxm Hxs. apply close_db_sides; auto. }
    split; [exact G1|]. split; [exact G2|]. split; [exact G3|].
    split; [apply close_db_msgs_keep; exact Edel|].
    intros c' a' m' Hc'. rewrite (Hh c' a' m' Hc'). split; [tauto|].
    intros H. split; [exact H|]. intros (K & _). discriminate.
  - (* a re-sent close on a connection that holds nothing *)
    pose proof (close_fresh_outcome cfg s c cs a X msg o m HS Hlog Hlk Hb Em Ht Herr Hcm) as T.
    destruct (step cfg s (EB (ECmd c msg o))) as [s' ob]. cbn [fst] in *. cbv zeta in T.
    set (d1 := open_db (chan_w s) a m X (now s)) in *.
    destruct T as (_ & [(_ & _ & _ & (_ & Hno))|[(_ & _ & _ & E & Es)|(_ & _ & _ & E & _ & _ & Hh)]]).
    + contradiction.
    + rewrite E.
      destruct (Hgoal d1) as (G1 & G2 & G3).
      { apply open_db_has_mb. exact Hmb. }
      { intros x Hx _ _. apply open_db_sides. exact Hx. }
      split; [exact G1|]. split; [exact G2|]. split; [exact G3|]. split; [reflexivity|].
      intros c' a' m' _. rewrite (holds_iff_sub s' c' a' m' HS'), (holds_iff_sub s c' a' m' HS), Es.
      tauto.
    + destruct Hk as (y & Hy & Hym & Hys & Hyo).
      assert (Hne' : mbs_side y <> X) by congruence.
      assert (Hy1 : In y (mb_sides d1)) by (apply open_db_sides; exact Hy).
      destruct (close_db_nonlast d1 a m X (m_mood msg) y Hy1 Hym Hne' Hyo) as [Edel _].
      rewrite Edel in Hh. rewrite E.
      assert (Hk : keeper (chan_w s) m Y) by (exists y; auto).
      destruct (Hgoal (close_db d1 a m X (m_mood msg))) as (G1 & G2 & G3).
      { apply close_db_has_mb; [apply open_db_has_mb; exact Hmb|auto]. }
      { intros x Hx Hxm Hxs. apply close_db_sides; [apply open_db_sides; exact Hx|auto]. }
      split; [exact G1|]. split; [exact G2|]. split; [exact G3|].
      split; [rewrite (close_db_msgs_keep d1 a m X (m_mood msg) Edel); reflexivity|].
      intros c' a' m' Hc'. rewrite (Hh c' a' m' Hc'). split; [tauto|].
      intros H. split; [exact H|]. intros (K & _). discriminate.
Qed.

(** * ... and the last close does remove it *)

(** the close of a side that has a row, with no other side open, deletes *)
Lemma close_deletes_true d a m side mood :
  has_mb d a m -> (exists r, sel_mbs d m side = Some r) ->
  (forall sd, keeper d m sd -> sd = side) ->
  close_deletes d a m side mood = true.
Proof.
  intros Hmb [r0 Hr0] Hlast. unfold close_deletes.
  apply has_mb_sel in Hmb. destruct Hmb as [row Hrow]. rewrite Hrow, Hr0.
  apply negb_true_iff. apply existsb_false_iff. intros r Hr.
  apply sel_mbs_all_In in Hr. destruct Hr as [Hr Hrm].
  unfold upd_mbs_close in Hr. cbn [mb_sides set_mb_sides] in Hr.
  apply in_map_iff in Hr. destruct Hr as (x & Ex & Hx).
  destruct (seqb (mbs_mbox x) m && seqb (mbs_side x) side) eqn:E.
  - subst r. reflexivity.
  - subst r. destruct (mbs_opened x) eqn:Eo; [exfalso|reflexivity].
    assert (Hs : mbs_side x = side) by (apply Hlast; exists x; auto).
    rewrite Hrm, Hs, !seqb_refl in E. discriminate.
Qed.

Lemma open_db_has_side d a m side w : exists r, sel_mbs (open_db d a m side w) m side = Some r.
Proof.
  destruct (sel_mbs d m side) as [r|] eqn:E.
  - exists r. unfold open_db. rewrite E. exact E.
  - eexists. unfold open_db. rewrite E. unfold sel_mbs. cbn [mb_sides].
    apply find_snoc; [exact E|]. cbn [mbs_mbox mbs_side]. rewrite !seqb_refl. reflexivity.
Qed.

(** the converse of the first cause in [mailbox_stable]: a well-formed close
    of (a, m) by side [side], no other side having it open, removes the
    mailbox -- provided the close is carried out: on the holding connection the
    closer's side has its row (true in every reachable state: HoldInv.v), and a
    re-sent close on a fresh connection is not refused as a third side (KF2) *)
Theorem last_close_removes s c cs a side msg o m :
  SInv s -> log s = [] ->
  lookup_conn c (conns s) = Some cs -> c_bound cs = Some (a, side) ->
  m_type msg = Some TClose -> erroneous cs msg = false -> closed_mbox cs msg = Some m ->
  has_mb (chan_w s) a m -> (forall sd, keeper (chan_w s) m sd -> sd = side) ->
  (c_mailbox cs = Some m -> exists r, sel_mbs (chan_w s) m side = Some r) ->
  (c_mailbox cs = None ->
   (List.length (sel_mbs_all (open_db (chan_w s) a m side (now s)) m) <= 2)%nat) ->
  ~ has_mb (chan_w (fst (step cfg s (EB (ECmd c msg o))))) a m.
Proof.
  intros HS Hlog Hlk Hb Ht Herr Hcm Hmb Hlast Hrow Hnc.
  unfold closed_mbox in Hcm. destruct (c_mailbox cs) as [h|] eqn:Em.
  - inversion Hcm; subst h.
    pose proof (close_held_effect cfg s c cs a side msg o m HS Hlog Hlk Hb Em Ht Herr) as T.
    destruct (step cfg s (EB (ECmd c msg o))) as [s' ob]. cbn [fst] in *. cbv zeta in T.
    destruct T as (_ & _ & E & _). rewrite E. intros K.
    apply (close_db_gone (chan_w s) a m side (m_mood msg)).
    + apply close_deletes_true; auto.
    + exact (has_mb_alive _ _ _ K).
  - pose proof (close_fresh_outcome cfg s c cs a side msg o m HS Hlog Hlk Hb Em Ht Herr Hcm) as T.
    destruct (step cfg s (EB (ECmd c msg o))) as [s' ob]. cbn [fst] in *. cbv zeta in T.
    set (d1 := open_db (chan_w s) a m side (now s)) in *.
    destruct T as (_ & [(_ & _ & _ & (_ & Hno))|[(_ & Hgt & _)|(_ & _ & _ & E & _)]]).
    + contradiction.
    + specialize (Hnc eq_refl). lia.
    + rewrite E. intros K. apply (close_db_gone d1 a m side (m_mood msg)).
      * apply close_deletes_true.
        -- apply open_db_has_mb. exact Hmb.
        -- apply open_db_has_side.
        -- intros sd Hk. destruct (string_dec sd side) as [Es|Hne]; [exact Es|].
           apply Hlast. exact (open_db_keeper_inv _ _ _ _ _ _ Hk Hne).
      * exact (has_mb_alive _ _ _ K).
Qed.

End WithConfig.

(** * Events that die at a commit boundary

    Route: (1) every transaction body but the deleting ones keeps every
    mailbox ([mbkeep]), and the deleting ones ([close_delete_body],
    [prune_body]) and the touch of a sweep create none ([mbnonew]); (2) so,
    starting with the mailbox present, an event runs through a phase in which
    the working database and every committed snapshot have it ([Jst]), possibly
    followed by a phase in which "if the working database still has it, so has
    every snapshot" ([Ist]); (3) hence the database a crash leaves lacks the
    mailbox only if the completed event would have removed it, to which
    [mailbox_stable] applies; (4) then the start-up sweep. *)

Definition mbkeep (d d' : chan_db) : Prop := forall a m, has_mb d a m -> has_mb d' a m.
Definition mbnonew (d d' : chan_db) : Prop := forall a m, has_mb d' a m -> has_mb d a m.

Lemma PreO_mbkeep : PreO mbkeep.
Proof. split; [intros d a m H; exact H|intros d1 d2 d3 H1 H2 a m H; auto]. Qed.

Lemma mbkeep_incl d d' : incl (mailboxes d) (mailboxes d') -> mbkeep d d'.
Proof. intros H a m (r & Hr & K). exists r. split; [apply H; exact Hr|exact K]. Qed.

Lemma mbkeep_same d d' : mailboxes d' = mailboxes d -> mbkeep d d'.
Proof. intros H. apply mbkeep_incl. rewrite H. apply incl_refl. Qed.

Lemma mbnonew_incl d d' : incl (mailboxes d') (mailboxes d) -> mbnonew d d'.
Proof. intros H a m (r & Hr & K). exists r. split; [apply H; exact Hr|exact K]. Qed.

Lemma mbnonew_refl d : mbnonew d d.
Proof. intros a m H. exact H. Qed.

Lemma mbnonew_trans d1 d2 d3 : mbnonew d1 d2 -> mbnonew d2 d3 -> mbnonew d1 d3.
Proof. intros H1 H2 a m H. auto. Qed.

(** ** the bodies that keep every mailbox *)

Lemma open_body_keep d a m side w : mbkeep d (txdb (open_body d a m side w)).
Proof.
  destruct (open_body_eval d a m side w) as [[E _]|E]; rewrite E; cbn [txdb].
  - apply PreO_mbkeep.
  - intros a0 m0. apply open_db_has_mb.
Qed.

Lemma add_mailbox_incl d a m f w d1 :
  add_mailbox d a m f w = Some d1 -> incl (mailboxes d) (mailboxes d1).
Proof.
  unfold add_mailbox. destruct (sel_mb d a m).
  - intros H; inversion H; subst. apply incl_refl.
  - unfold ins_mb. destruct (mb_exists d _); [discriminate|].
    intros H; inversion H; subst. cbn [mailboxes set_mailboxes]. apply incl_appl, incl_refl.
Qed.

Lemma claim_side_body_mbs d npid mbox side w :
  mailboxes (txdb (claim_side_body d npid mbox side w)) = mailboxes d.
Proof.
  unfold claim_side_body. destruct (sel_nps d npid side) as [r|].
  - destruct (nps_claimed r); reflexivity.
  - unfold ins_nps. destruct (np_exists d _); reflexivity.
Qed.

Lemma claim_body_keep d a n side w draw : mbkeep d (txdb (claim_body d a n side w draw)).
Proof.
  apply mbkeep_incl. unfold claim_body. destruct (sel_np d a n) as [row|].
  - rewrite claim_side_body_mbs. apply incl_refl.
  - destruct draw as [bytes|]; [|apply incl_refl].
    destruct (add_mailbox d a (genid bytes) true w) as [d1|] eqn:E1; [|apply incl_refl].
    pose proof (add_mailbox_incl _ _ _ _ _ _ E1) as I1.
    unfold ins_np. destruct (mb_exists d1 (genid bytes)); [|exact I1].
    rewrite claim_side_body_mbs. exact I1.
Qed.

Lemma release_mark_keep d a n side :
  mbkeep d (txdb (match release_mark_body d a n side with
                  | None => TxOk None d
                  | Some (npid, d1) => TxOk (Some npid) d1
                  end)).
Proof.
  unfold release_mark_body. destruct (sel_np d a n) as [np|]; [|apply PreO_mbkeep].
  destruct (sel_nps d (np_id np) side); [|apply PreO_mbkeep]. apply mbkeep_same. reflexivity.
Qed.

Lemma release_delete_body_keep cfg d a npid w : mbkeep d (txdb (release_delete_body cfg d a npid w)).
Proof.
  apply mbkeep_same. unfold release_delete_body. cbv zeta.
  destruct (existsb nps_claimed (sel_nps_all d npid)); [reflexivity|].
  rewrite del_np_rm. destruct (usage_on cfg); [|reflexivity].
  destruct (summarize_nameplate (blur cfg) a (sel_nps_all d npid) w false); reflexivity.
Qed.

Lemma upd_touch_keep d m w : mbkeep d (upd_touch d m w).
Proof.
  intros a0 m0 (r & Hr & Ha & Hi).
  exists (if seqb (mb_id r) m then mkMb (mb_app r) (mb_id r) w (mb_fornp r) else r). split.
  - unfold upd_touch. cbn [mailboxes set_mailboxes].
    apply (in_map (fun r0 => if seqb (mb_id r0) m
                             then mkMb (mb_app r0) (mb_id r0) w (mb_fornp r0) else r0)). exact Hr.
  - destruct (seqb (mb_id r) m); cbn [mb_app mb_id]; auto.
Qed.

Lemma close_mark_keep d a m side mood :
  mbkeep d (txdb (match close_mark_body d a m side mood with
                  | None => TxOk None d
                  | Some (fornp, d1) => TxOk (Some fornp) d1
                  end)).
Proof.
  unfold close_mark_body. destruct (sel_mb d a m); [|apply PreO_mbkeep].
  destruct (sel_mbs d m side); [|apply PreO_mbkeep]. apply mbkeep_same. reflexivity.
Qed.

(** ** the bodies that create no mailbox *)

Lemma del_mailbox_body_sub cfg d a m f rows w p :
  incl (mailboxes (txdb (del_mailbox_body cfg d a m f rows w p))) (mailboxes d).
Proof.
  unfold del_mailbox_body. cbv zeta. unfold del_mb.
  match goal with |- context [if ?b then None else _] => destruct b end; cbn [txdb].
  - apply incl_refl.
  - cbn [mailboxes set_mailboxes del_mbs_of del_msgs_of set_mb_sides set_messages].
    intros r Hr. apply filter_In in Hr. apply Hr.
Qed.

Lemma del_mailboxes_body_sub cfg a w : forall rows d acc,
  incl (mailboxes (txdb (del_mailboxes_body cfg d a rows w acc))) (mailboxes d).
Proof.
  induction rows as [|r rows IH]; intros d acc; cbn [del_mailboxes_body]; [apply incl_refl|].
  pose proof (del_mailbox_body_sub cfg d a (mb_id r) (mb_fornp r) (sel_mbs_all d (mb_id r)) w true) as H1.
  destruct (del_mailbox_body cfg d a (mb_id r) (mb_fornp r) (sel_mbs_all d (mb_id r)) w true)
    as [us d1|e d1]; cbn [txdb] in *; [|exact H1].
  eapply incl_tran; [apply IH|exact H1].
Qed.

Lemma prune_body_sub cfg d a w old :
  incl (mailboxes (txdb (prune_body cfg d a w old))) (mailboxes d).
Proof.
  unfold prune_body. cbv zeta.
  pose proof (del_nameplates_body_mbs cfg a w true (map np_id (old_nameplates d a old)) d []) as B1.
  destruct (del_nameplates_body cfg d a (map np_id (old_nameplates d a old)) w true [])
    as [unps d1|e d1]; cbn [txdb] in *; [|rewrite B1; apply incl_refl].
  pose proof (del_mailboxes_body_sub cfg a w (old_mailboxes d a old) d1 []) as B2.
  destruct (del_mailboxes_body cfg d1 a (old_mailboxes d a old) w []) as [umbs d2|e d2];
    cbn [txdb] in *; rewrite <- B1; exact B2.
Qed.

Lemma close_delete_body_sub cfg d a m f w :
  incl (mailboxes (txdb (close_delete_body cfg d a m f w))) (mailboxes d).
Proof.
  unfold close_delete_body. cbv zeta.
  destruct (existsb mbs_opened (sel_mbs_all d m)); [apply incl_refl|].
  pose proof (del_nameplates_body_mbs cfg a w false (map np_id (sel_np_by_mbox d m)) d []) as B1.
  destruct (del_nameplates_body cfg d a (map np_id (sel_np_by_mbox d m)) w false [])
    as [unps d1|e d1]; cbn [txdb] in *; [|rewrite B1; apply incl_refl].
  pose proof (del_mailbox_body_sub cfg d1 a m f (sel_mbs_all d m) w false) as B2.
  destruct (del_mailbox_body cfg d1 a m f (sel_mbs_all d m) w false) as [umbs d2|e d2];
    cbn [txdb] in *; rewrite <- B1; exact B2.
Qed.

Lemma touch_all_nonew d ms w : mbnonew d (touch_all d ms w).
Proof.
  intros a m (r & Hr & Ha & Hi). rewrite touch_all_exact in Hr. cbn [mailboxes set_mailboxes] in Hr.
  apply in_map_iff in Hr. destruct Hr as (r0 & E & Hr0). exists r0. split; [exact Hr0|].
  subst r. destruct (smem (mb_id r0) ms); cbn in Ha, Hi; auto.
Qed.

(** ** handlers that keep every mailbox, in the snapshot calculus of CrashHist.v *)

#[local] Hint Resolve PreO_mbkeep : cxdb.

Lemma KxM_open_mailbox a m side w : CxM mbkeep (open_mailbox a m side w).
Proof. unfold open_mailbox. cx. apply open_body_keep. Qed.
#[local] Hint Resolve KxM_open_mailbox : cxdb.

Lemma KxM_claim_nameplate a n side w draw : CxM mbkeep (claim_nameplate a n side w draw).
Proof. unfold claim_nameplate. cx. apply claim_body_keep. Qed.
#[local] Hint Resolve KxM_claim_nameplate : cxdb.

Lemma KxM_allocate_nameplate a side w o draw : CxM mbkeep (allocate_nameplate a side w o draw).
Proof. unfold allocate_nameplate. cx. Qed.
#[local] Hint Resolve KxM_allocate_nameplate : cxdb.

Lemma KxM_add_message a m r : CxM mbkeep (add_message a m r).
Proof.
  unfold add_message. cx. cbn [txdb]. intros a0 m0 H. apply upd_touch_keep.
  destruct H as (r0 & Hr0 & K). exists r0. auto.
Qed.
#[local] Hint Resolve KxM_add_message : cxdb.

Section KeepCfg.
Variable cfg : config.

Lemma KxM_release_nameplate a n side w : CxM mbkeep (release_nameplate cfg a n side w).
Proof.
  unfold release_nameplate, write_usage. cx.
  - apply release_mark_keep.
  - apply release_delete_body_keep.
Qed.
Hint Resolve KxM_release_nameplate : cxdb.

Lemma KxM_handle_ping c msg : CxM mbkeep (handle_ping c msg).
Proof. unfold handle_ping, err. cx. Qed.

Lemma KxM_handle_bind c msg : CxM mbkeep (handle_bind cfg c msg).
Proof. unfold handle_bind, err. cx. Qed.

Lemma KxM_handle_list c a : CxM mbkeep (handle_list cfg c a).
Proof. unfold handle_list. cx. Qed.

Lemma KxM_handle_allocate c a side o : CxM mbkeep (handle_allocate c a side o).
Proof. unfold handle_allocate, err. cx. Qed.

Lemma KxM_handle_claim c a side msg o : CxM mbkeep (handle_claim c a side msg o).
Proof. unfold handle_claim, err, catch_crowded_reclaimed. cx. Qed.

Lemma KxM_handle_release c a side msg : CxM mbkeep (handle_release cfg c a side msg).
Proof. unfold handle_release, err. cx. Qed.

Lemma KxM_handle_open c a side msg : CxM mbkeep (handle_open c a side msg).
Proof. unfold handle_open, err, catch_crowded, get_messages. cx. Qed.

Lemma KxM_handle_add c a side msg : CxM mbkeep (handle_add c a side msg).
Proof. unfold handle_add, err. cx. Qed.

End KeepCfg.

(** ** the two phases of an event, for one mailbox *)
Section TwoPhase.
Variables (ka km : string).

Definition snapK (l : list log_entry) : Prop := forall d, In (LCommitChan d) l -> has_mb d ka km.

(** phase 1: the working database and every snapshot committed so far have the mailbox *)
Definition Jst (s : state) : Prop := has_mb (chan_w s) ka km /\ snapK (log s).
(** phase 2: if the working database (still) has it, so has every snapshot *)
Definition Ist (s : state) : Prop := has_mb (chan_w s) ka km -> snapK (log s).

Definition Jp {A} (c : M A) : Prop := forall s, Jst s -> wp c (fun _ => Jst) (fun _ => Jst) s.
Definition JI {A} (c : M A) : Prop := forall s, Jst s -> wp c (fun _ => Ist) (fun _ => Ist) s.
Definition Ip {A} (c : M A) : Prop := forall s, Ist s -> wp c (fun _ => Ist) (fun _ => Ist) s.

Lemma Jst_Ist s : Jst s -> Ist s.
Proof. intros [_ H] _. exact H. Qed.

Lemma Cx_keep_Jst s s' : Cx mbkeep s s' -> Jst s -> Jst s'.
Proof.
  intros [A (l & El & Hl)] [Hw Hs]. split; [apply A; exact Hw|].
  intros d Hd. rewrite El in Hd. apply in_app_or in Hd. destruct Hd as [Hd|Hd]; [|auto].
  apply (Hl d Hd). exact Hw.
Qed.

Lemma Cx_eq_Ist s s' : Cx eq s s' -> Ist s -> Ist s'.
Proof.
  intros [A (l & El & Hl)] H Hw'. rewrite <- A in Hw'.
  intros d Hd. rewrite El in Hd. apply in_app_or in Hd. destruct Hd as [Hd|Hd]; [|apply H; auto].
  rewrite <- (Hl d Hd). exact Hw'.
Qed.

Lemma CxM_Jp {A} (c : M A) : CxM mbkeep c -> Jp c.
Proof.
  intros H s Hs. specialize (H s). unfold wp in *.
  destruct (c s); eapply Cx_keep_Jst; eauto.
Qed.

Lemma CxM_Ip {A} (c : M A) : CxM eq c -> Ip c.
Proof.
  intros H s Hs. specialize (H s). unfold wp in *.
  destruct (c s); eapply Cx_eq_Ist; eauto.
Qed.

Lemma Jp_JI {A} (c : M A) : Jp c -> JI c.
Proof.
  intros H s Hs. specialize (H s Hs). unfold wp in *. destruct (c s); apply Jst_Ist; exact H.
Qed.

Lemma Ip_JI {A} (c : M A) : Ip c -> JI c.
Proof. intros H s Hs. exact (H s (Jst_Ist s Hs)). Qed.

Lemma JI_bind_J {A B} (c : M A) (k : A -> M B) : Jp c -> (forall x, JI (k x)) -> JI (bind c k).
Proof.
  intros Hc Hk s Hs. specialize (Hc s Hs). unfold wp, bind in *.
  destruct (c s) as [x s1|e s1]; [exact (Hk x s1 Hc)|apply Jst_Ist; exact Hc].
Qed.

Lemma JI_bind_I {A B} (c : M A) (k : A -> M B) : JI c -> (forall x, Ip (k x)) -> JI (bind c k).
Proof.
  intros Hc Hk s Hs. specialize (Hc s Hs). unfold wp, bind in *.
  destruct (c s) as [x s1|e s1]; [exact (Hk x s1 Hc)|exact Hc].
Qed.

Lemma Ip_bind {A B} (c : M A) (k : A -> M B) : Ip c -> (forall x, Ip (k x)) -> Ip (bind c k).
Proof.
  intros Hc Hk s Hs. specialize (Hc s Hs). unfold wp, bind in *.
  destruct (c s) as [x s1|e s1]; [exact (Hk x s1 Hc)|exact Hc].
Qed.

Lemma Ip_try_catch {A} (c : M A) (h : exn -> M A) : Ip c -> (forall e, Ip (h e)) -> Ip (try_catch c h).
Proof.
  intros Hc Hh s Hs. specialize (Hc s Hs). unfold wp, try_catch in *.
  destruct (c s) as [x s1|e s1]; [exact Hc|exact (Hh e s1 Hc)].
Qed.

Lemma JI_catch_I {A} (c : M A) (h : exn -> M A) : JI c -> (forall e, Ip (h e)) -> JI (try_catch c h).
Proof.
  intros Hc Hh s Hs. specialize (Hc s Hs). unfold wp, try_catch in *.
  destruct (c s) as [x s1|e s1]; [exact Hc|exact (Hh e s1 Hc)].
Qed.

(** any transaction ends phase 1 at worst *)
Lemma JI_tx {A} (f : chan_db -> txres A) : JI (tx f).
Proof.
  intros s [_ Hs]. unfold wp, tx. destruct (f (chan_w s)); intros _; exact Hs.
Qed.

(** a transaction that creates no mailbox stays in phase 2 *)
Lemma Ip_tx {A} (f : chan_db -> txres A) : (forall d, mbnonew d (txdb (f d))) -> Ip (tx f).
Proof.
  intros Hf s Hs. unfold wp, tx. specialize (Hf (chan_w s)).
  destruct (f (chan_w s)) as [x d|e d]; cbn [txdb] in Hf; intros Hw; apply Hs; apply Hf; exact Hw.
Qed.

Section Ops.
Variable cfg : config.

Lemma JI_mailbox_close a h side mood w : JI (mailbox_close cfg a h side mood w).
Proof.
  unfold mailbox_close. apply JI_bind_J.
  - apply CxM_Jp. cx. apply close_mark_keep.
  - intros [fornp|]; [|apply Jp_JI, CxM_Jp; cx].
    apply JI_bind_J; [apply CxM_Jp; cx|intros _].
    apply JI_bind_I; [apply JI_tx|intros r2].
    apply CxM_Ip. unfold write_usage. cx.
Qed.

Lemma JI_handle_close c a side msg : JI (handle_close cfg c a side msg).
Proof.
  unfold handle_close.
  apply JI_bind_J; [apply CxM_Jp; cx|intros cs].
  destruct (c_did_close cs); [apply Jp_JI, CxM_Jp; unfold err; cx|].
  apply JI_bind_J; [apply CxM_Jp; unfold err; cx|intros m0].
  apply JI_bind_J; [apply CxM_Jp; cx|intros s0].
  apply JI_bind_J; [apply CxM_Jp; unfold catch_crowded; cx|intros held].
  apply JI_bind_J; [apply CxM_Jp; cx|intros cs2].
  apply JI_bind_J; [apply CxM_Jp; cx|intros _].
  apply JI_bind_J; [apply CxM_Jp; cx|intros cs3].
  apply JI_bind_J; [apply CxM_Jp; cx|intros _].
  apply JI_bind_I; [apply JI_mailbox_close|intros _].
  apply CxM_Ip. cx.
Qed.

Lemma JI_dispatch c t msg o : JI (dispatch cfg c t msg o).
Proof.
  destruct t; unfold dispatch;
    try (apply Jp_JI, CxM_Jp; first [apply KxM_handle_ping|apply KxM_handle_bind]);
    (apply JI_bind_J; [apply CxM_Jp; cx|intros cs]);
    (destruct (c_bound cs) as [[a side]|]; [|apply Jp_JI, CxM_Jp; unfold err; cx]);
    try apply JI_handle_close;
    apply Jp_JI, CxM_Jp;
    first [ apply KxM_handle_list | apply KxM_handle_allocate | apply KxM_handle_claim
          | apply KxM_handle_release | apply KxM_handle_open | apply KxM_handle_add
          | unfold err; cx ].
Qed.

Lemma JI_on_message c msg o : JI (on_message cfg c msg o).
Proof.
  unfold on_message. apply JI_catch_I.
  - destruct (m_type msg) as [t|]; [|apply Jp_JI, CxM_Jp; unfold err; cx].
    apply JI_bind_J; [apply CxM_Jp; cx|intros _]. apply JI_dispatch.
  - intros e. apply CxM_Ip. destruct e; cx.
Qed.

Lemma Ip_prune_app a w old : Ip (prune_app cfg a w old).
Proof.
  unfold prune_app.
  apply Ip_bind; [apply CxM_Ip; cx|intros s0].
  apply Ip_bind; [apply Ip_tx; intros d; cbn [txdb]; apply touch_all_nonew|intros _].
  apply Ip_bind; [apply CxM_Ip; cx|intros _].
  apply Ip_bind; [apply Ip_tx; intros d; apply mbnonew_incl, prune_body_sub|intros [[modified unps] umbs]].
  apply CxM_Ip. unfold write_usage. cx.
Qed.

Lemma Ip_prune_apps w old : forall apps, Ip (prune_apps cfg apps w old).
Proof.
  induction apps as [|a apps IH]; cbn [prune_apps]; [apply CxM_Ip; cx|].
  apply Ip_bind; [apply Ip_prune_app|intros _; exact IH].
Qed.

Lemma Ip_expire fault : Ip (expire cfg fault).
Proof.
  unfold expire.
  apply Ip_bind; [apply CxM_Ip; cx|intros s0].
  apply Ip_bind; [|intros _; apply CxM_Ip; apply CxM_dump_stats; exact PreO_eq].
  destruct fault; [apply CxM_Ip; cx|].
  apply Ip_try_catch; [|intros _; apply CxM_Ip; cx].
  unfold prune_all_apps. apply Ip_bind; [apply CxM_Ip; cx|intros apps]. apply Ip_prune_apps.
Qed.

(** a base event, started with the mailbox present and nothing logged *)
Lemma step_b_Ist s b : Jst s -> Ist (fst (fst (step_b cfg s b))).
Proof.
  intros Hs. destruct b as [c|c msg o|c|fault|dt fault]; unfold step_b.
  - destruct (has_conn c s); [apply Jst_Ist; exact Hs|].
    unfold run_m, on_open, send. cbn [fst]. apply Jst_Ist.
    destruct Hs as [Hw Hl]. split; [exact Hw|]. intros d [Hd|Hd]; [discriminate|auto].
  - destruct (has_conn c s); [|apply Jst_Ist; exact Hs].
    pose proof (JI_on_message c msg o s Hs) as W. unfold wp in W.
    destruct (on_message cfg c msg o s) as [u s'|e s']; cbn [fst]; [exact W|].
    destruct (MbFactsA.drop_conn_frame c s') as [Dw [_ Dl]].
    unfold Ist. rewrite Dw, Dl. exact W.
  - destruct (has_conn c s); cbn [fst]; [|apply Jst_Ist; exact Hs].
    destruct (MbFactsA.drop_conn_frame c s) as [Dw [_ Dl]].
    unfold Ist. rewrite Dw, Dl. apply Jst_Ist. exact Hs.
  - pose proof (Ip_expire fault s (Jst_Ist s Hs)) as W. unfold wp in W. unfold run_m.
    destruct (expire cfg fault s) as [u s'|e s']; cbn [fst]; exact W.
  - destruct (dt <? 0); [apply Jst_Ist; exact Hs|]. cbv zeta.
    set (s1 := set_now s (now s + dt)).
    destruct (next_due s1 <=? now s1); [|apply Jst_Ist; exact Hs].
    pose proof (Ip_expire fault s1 (Jst_Ist s Hs)) as W. unfold wp in W. unfold run_m.
    destruct (expire cfg fault s1) as [u s'|e s']; cbn [fst]; exact W.
Qed.

End Ops.
End TwoPhase.

Section CrashConfig.
Variable cfg : config.
Hypothesis Hexp : 0 < exp cfg.

(** the database a crash leaves lacks the mailbox only if the completed event
    would have removed it *)
Lemma crash_chan_keeps s k b a m :
  SInv s -> log s = [] -> has_mb (chan_w s) a m ->
  has_mb (chan_w (fst (step cfg s (EB b)))) a m -> has_mb (crash_chan cfg s k b) a m.
Proof.
  intros HS Hlog Hmb Hfin.
  assert (HJ : Jst a m s).
  { split; [exact Hmb|]. rewrite Hlog. intros d []. }
  pose proof (step_b_Ist a m cfg s b HJ) as HI.
  destruct (step_b_inv cfg Hexp s b HS Hlog) as [H1 _].
  assert (Ew : chan_w (fst (step cfg s (EB b))) = chan_w (fst (fst (step_b cfg s b)))).
  { unfold step. rewrite (set_log_nil s Hlog).
    destruct (step_b cfg s b) as [[s1 valid] x]. reflexivity. }
  rewrite Ew in Hfin.
  destruct (crash_chan_in cfg s k b) as [E|[E|E]]; cbv zeta in E.
  - rewrite E. destruct (si_clean _ H1) as [Kc _]. rewrite <- Kc. exact Hfin.
  - rewrite E. destruct (si_clean _ HS) as [Kc _]. rewrite <- Kc. exact Hmb.
  - exact (HI Hfin _ E).
Qed.

(** C08 with crashes: over an event that dies right after its k-th commit
    (then the process starts again and sweeps), the mailbox is removed only if
    the event itself -- as far as it got -- was a close of it with no other
    side open, or a firing sweep at which it was old and unsubscribed; or the
    start-up sweep after the crash finds it old in the database the crash left
    (after a crash nobody is subscribed) *)
Theorem mailbox_stable_crash s k b a m :
  SInv s -> log s = [] -> has_mb (chan_w s) a m ->
  let s' := fst (step cfg s (ECrash k b)) in
  has_mb (chan_w s') a m \/
  last_close s (EB b) a m \/ expired cfg s (EB b) a m \/
  (exists r, In r (mailboxes (crash_chan cfg s k b)) /\ mb_app r = a /\ mb_id r = m /\
             mb_updated r <= now s' - exp cfg).
Proof.
  intros HS Hlog Hmb. cbv zeta.
  destruct (has_mb_b (crash_chan cfg s k b) a m) eqn:Ek.
  - (* the crash leaves the mailbox: the start-up sweep *)
    apply has_mb_b_true in Ek.
    destruct (crash_fst cfg s k b Hlog) as [u Ef]. rewrite Ef, boot_on_eq.
    set (t := now (fst (fst (step_b cfg s b)))).
    set (S0 := mkState (crash_chan cfg s k b) (crash_chan cfg s k b) u u [] [] t t t
                       (t + period cfg) []).
    assert (HS0 : SInv S0) by (apply SInv_boot; apply (crash_chan_wf cfg Hexp s k b HS Hlog)).
    destruct (sweep_char cfg Hexp S0 HS0 eq_refl) as (s2 & E2 & H2). cbv zeta in H2.
    destruct H2 as (_ & _ & _ & _ & _ & _ & _ & _ & _ & Hnow).
    destruct (kept_expire cfg Hexp S0 false a m HS0 eq_refl Ek) as (s3 & E3 & K).
    rewrite E2 in E3. inversion E3; subst s3. rewrite E2. cbn [fst chan_w now set_log].
    destruct K as [[K _]|(_ & r & Hr & Ha & Hi & Ho & _)]; [left; exact K|].
    right; right; right. exists r. rewrite Hnow. auto.
  - (* it does not: then the completed event would have removed it *)
    apply has_mb_b_false in Ek.
    destruct (mailbox_stable cfg Hexp s (EB b) a m HS Hlog Hmb I) as [K|[K|K]].
    + exfalso. apply Ek. apply crash_chan_keeps; assumption.
    + right; left. exact K.
    + right; right; left. exact K.
Qed.

(** * Every event, every history *)

(** what can take a mailbox away at event [e] *)
Definition removal_cause (s : state) (e : event) (a m : string) : Prop :=
  match e with
  | ECrash k b =>
      last_close s (EB b) a m \/ expired cfg s (EB b) a m \/
      exists r, In r (mailboxes (crash_chan cfg s k b)) /\ mb_app r = a /\ mb_id r = m /\
                mb_updated r <= now (fst (step cfg s e)) - exp cfg
  | _ => last_close s e a m \/ expired cfg s e a m
  end.

Theorem mailbox_stable_all s e a m :
  SInv s -> log s = [] -> has_mb (chan_w s) a m ->
  has_mb (chan_w (fst (step cfg s e))) a m \/ removal_cause s e a m.
Proof.
  intros HS Hlog Hmb. destruct e as [b|k b|].
  - exact (mailbox_stable cfg Hexp s (EB b) a m HS Hlog Hmb I).
  - exact (mailbox_stable_crash s k b a m HS Hlog Hmb).
  - exact (mailbox_stable cfg Hexp s ERestart a m HS Hlog Hmb I).
Qed.

(** over any history (crashes at any commit boundary included): a mailbox
    present at the start is present at the end, or some event of the history
    found it present and was a cause of its removal *)
Theorem mailbox_stable_run a m h : forall s,
  SInv s -> log s = [] -> has_mb (chan_w s) a m ->
  has_mb (chan_w (fst (run cfg s h))) a m \/
  exists h1 e h2, h = h1 ++ e :: h2 /\
    has_mb (chan_w (fst (run cfg s h1))) a m /\ removal_cause (fst (run cfg s h1)) e a m.
Proof.
  induction h as [|e h IH]; intros s HS Hlog Hmb; [left; exact Hmb|].
  destruct (mailbox_stable_all s e a m HS Hlog Hmb) as [K|K].
  - destruct (step_inv cfg Hexp s e HS) as [HS1 Hlog1].
    rewrite (run_cons_fst cfg).
    destruct (IH _ HS1 Hlog1 K) as [K1|(h1 & e1 & h2 & -> & K1 & K2)]; [left; exact K1|].
    right. exists (e :: h1), e1, h2. split; [reflexivity|].
    rewrite (run_cons_fst cfg). auto.
  - right. exists [], e, h. auto.
Qed.

End CrashConfig.

(** * Non-vacuity: concrete histories on the repository's constants

    Sides A and B of app "a" open mailbox "m", A stores a message.
    (1) A closes: the mailbox, B's open row, B's subscription and the message
    stay ([close_keeps_other_side]); then B closes: [last_close], the mailbox
    goes.  (2) With both subscribed, a due sweep keeps it; after both have
    disconnected the same sweep removes it ([expired]); a restart removes it
    even though both were subscribed.  (3) B's last close dying after its first
    commit (the mark) leaves the mailbox, dying after its second removes it; a
    crash before a faulty sweep lets the start-up sweep remove it. *)
Module MbStableExamples.

Definition cfg := gen_cfg true false None.
Definition o := mkOracle None (mkAO None []).
Definition bind s := mkCmd (Some TBind) None (Some "a") (Some s) None None None None None None None.
Definition opn m := mkCmd (Some TOpen) None None None None (Some m) None None None None None.
Definition add b := mkCmd (Some TAdd) None None None None None (Some "p") (Some b) None None None.
Definition cls := mkCmd (Some TClose) None None None None (Some "m") None None (Some "happy") None None.
Definition h0 :=
  [EB (EConnect 1); EB (ECmd 1 (bind "A") o); EB (ECmd 1 (opn "m") o); EB (ECmd 1 (add "one") o);
   EB (EConnect 2); EB (ECmd 2 (bind "B") o); EB (ECmd 2 (opn "m") o)].
Definition s0 := fst (run cfg (init cfg 0) h0).
Definition s1 := fst (step cfg s0 (EB (ECmd 1 cls o))).
Definition s2 := fst (step cfg s1 (EB (ECmd 2 cls o))).
Definition s4 := fst (run cfg s0 [EB (EDisconnect 1); EB (EDisconnect 2)]).
Definition row0 := mkMb "a" "m" 0 false.

Lemma cfg_exp : 0 < exp cfg.
Proof. exact (gen_cfg_exp true false None). Qed.

Lemma s0_inv : SInv s0 /\ log s0 = [].
Proof.
  split; [apply (run_spec cfg cfg_exp), (init_spec cfg cfg_exp)|vm_compute; reflexivity].
Qed.

Lemma s1_inv : SInv s1 /\ log s1 = [].
Proof. unfold s1. apply (step_inv cfg cfg_exp). exact (proj1 s0_inv). Qed.

Lemma s4_inv : SInv s4 /\ log s4 = [].
Proof. split; [unfold s4; apply (run_spec cfg cfg_exp), (proj1 s0_inv)|vm_compute; reflexivity]. Qed.

Lemma s0_has : has_mb (chan_w s0) "a" "m".
Proof. exists row0. vm_compute. auto. Qed.

Lemma s1_has : has_mb (chan_w s1) "a" "m".
Proof. exists row0. vm_compute. auto. Qed.

Lemma s4_has : has_mb (chan_w s4) "a" "m".
Proof. exists row0. vm_compute. auto. Qed.

Lemma s1_last : forall sd, keeper (chan_w s1) "m" sd -> sd = "B".
Proof.
  assert (E : mb_sides (chan_w s1) =
              [mkMbs "m" false "A" 0 (Some "happy"); mkMbs "m" true "B" 0 None])
    by (vm_compute; reflexivity).
  intros sd (r & Hr & Hm & Hs & Ho). rewrite E in Hr.
  destruct Hr as [<-|[<-|[]]]; cbn in Hs, Ho; [discriminate|symmetry; exact Hs].
Qed.

(** (1) one side's close; then the last close *)
Example other_side_close_nonvacuous :
  (* the hypotheses of [close_keeps_other_side] for A's close, B open *)
  lookup_conn 1 (conns s0) <> None /\ keeper (chan_w s0) "m" "B" /\
  close_by s0 (EB (ECmd 1 cls o)) "a" "m" "A" /\
  (* afterwards *)
  has_mb (chan_w s1) "a" "m" /\ keeper (chan_w s1) "m" "B" /\
  messages (chan_w s1) = messages (chan_w s0) /\ holds s1 2 "a" "m" /\
  (* B's close is the last one *)
  last_close s1 (EB (ECmd 2 cls o)) "a" "m" /\
  has_mb_b (chan_w s2) "a" "m" = false.
Proof.
  split; [vm_compute; discriminate|].
  split; [exists (mkMbs "m" true "B" 0 None); vm_compute; auto|].
  split.
  { exists 1%nat, (mkConn (Some ("a", "A")) false true false None false (Some "m") (Some "m") false),
           cls, o. vm_compute. auto 10. }
  split; [exact s1_has|].
  split; [exists (mkMbs "m" true "B" 0 None); vm_compute; auto|].
  split; [vm_compute; reflexivity|].
  split.
  { exists (mkConn (Some ("a", "B")) false true false None false (Some "m") (Some "m") false), "B".
    vm_compute. auto. }
  split; [|vm_compute; reflexivity].
  exists "B". split.
  - exists 2%nat, (mkConn (Some ("a", "B")) false true false None false (Some "m") (Some "m") false),
           cls, o. vm_compute. auto 10.
  - exact s1_last.
Qed.

(** [mailbox_stable] and [last_close_removes] applied to these states: the
    theorems' hypotheses hold, and their conclusions say what was computed *)
Example mailbox_stable_applied :
  has_mb (chan_w s1) "a" "m" /\ ~ has_mb (chan_w s2) "a" "m".
Proof.
  split; [exact s1_has|].
  apply (last_close_removes cfg s1 2
           (mkConn (Some ("a", "B")) false true false None false (Some "m") (Some "m") false)
           "a" "B" cls o "m" (proj1 s1_inv) (proj2 s1_inv)); try (vm_compute; reflexivity).
  - exact s1_has.
  - exact s1_last.
  - intros _. eexists. vm_compute. reflexivity.
Qed.

(** [close_keeps_other_side] applied to A's close while B has it open *)
Example close_keeps_other_side_applied :
  has_mb (chan_w s1) "a" "m" /\ keeper (chan_w s1) "m" "B" /\
  messages (chan_w s1) = messages (chan_w s0) /\
  (forall a' m', holds s1 2 a' m' <-> holds s0 2 a' m').
Proof.
  destruct (close_keeps_other_side cfg cfg_exp s0 1
              (mkConn (Some ("a", "A")) false true false None false (Some "m") (Some "m") false)
              "a" "A" cls o "m" "B" (proj1 s0_inv) (proj2 s0_inv))
    as (H1 & H2 & _ & H4 & H5); try (vm_compute; reflexivity).
  - exact s0_has.
  - exists (mkMbs "m" true "B" 0 None). vm_compute. auto.
  - discriminate.
  - split; [exact H1|]. split; [exact H2|]. split; [exact H4|].
    intros a' m'. apply H5. discriminate.
Qed.

(** (2) sweeps and restarts *)
Example expiry_nonvacuous :
  (* subscribed: the due sweep keeps it (and stamps it) *)
  listened s0 "a" "m" /\
  has_mb_b (chan_w (fst (step cfg s0 (EB (EAdvance 6000 false))))) "a" "m" = true /\
  (* nobody subscribed: it expires *)
  expired cfg s4 (EB (EAdvance 6000 false)) "a" "m" /\
  has_mb_b (chan_w (fst (step cfg s4 (EB (EAdvance 6000 false))))) "a" "m" = false /\
  (* a faulty sweep removes nothing *)
  has_mb_b (chan_w (fst (step cfg s4 (EB (EAdvance 6000 true))))) "a" "m" = true /\
  (* a restart drops the subscriptions, so its start-up sweep removes it *)
  let s5 := fst (step cfg s0 (EB (EAdvance 6000 true))) in
  listened s5 "a" "m" /\ expired cfg s5 ERestart "a" "m" /\
  has_mb_b (chan_w (fst (step cfg s5 ERestart))) "a" "m" = false.
Proof.
  split; [exists 1%nat; vm_compute; auto|].
  split; [vm_compute; reflexivity|].
  split.
  { exists 6000, row0. split; [vm_compute; reflexivity|]. split; [vm_compute; auto|].
    split; [reflexivity|]. split; [reflexivity|]. split; [vm_compute; discriminate|].
    right. assert (E : subs s4 = []) by (vm_compute; reflexivity).
    intros (c & Hc). rewrite E in Hc. exact Hc. }
  split; [vm_compute; reflexivity|].
  split; [vm_compute; reflexivity|].
  cbv zeta.
  split; [exists 1%nat; vm_compute; auto|].
  split; [|vm_compute; reflexivity].
  exists 6000, row0. split; [vm_compute; reflexivity|]. split; [vm_compute; auto|].
  split; [reflexivity|]. split; [reflexivity|]. split; [vm_compute; discriminate|].
  left. reflexivity.
Qed.

Example expired_removes_applied :
  ~ has_mb (chan_w (fst (step cfg s4 (EB (EAdvance 6000 false))))) "a" "m".
Proof.
  apply (expired_removes cfg cfg_exp s4 _ "a" "m" (proj1 s4_inv) (proj2 s4_inv)).
  exact (proj1 (proj2 (proj2 expiry_nonvacuous))).
Qed.

(** (3) crashes *)
Example crash_nonvacuous :
  (* B's last close dies right after its first commit (the mark): kept *)
  has_mb_b (chan_w (fst (step cfg s1 (ECrash 1 (ECmd 2 cls o))))) "a" "m" = true /\
  (* ... right after its second (the deletion): gone, cause [last_close] *)
  has_mb_b (chan_w (fst (step cfg s1 (ECrash 2 (ECmd 2 cls o))))) "a" "m" = false /\
  (* the process dies before a faulty sweep; the start-up sweep finds the
     mailbox old in the database the crash left: gone, fourth cause *)
  has_mb_b (chan_w (fst (step cfg s0 (ECrash 0 (EAdvance 6000 true))))) "a" "m" = false /\
  ~ last_close s0 (EB (EAdvance 6000 true)) "a" "m" /\
  ~ expired cfg s0 (EB (EAdvance 6000 true)) "a" "m" /\
  (exists r, In r (mailboxes (crash_chan cfg s0 0 (EAdvance 6000 true))) /\ mb_app r = "a" /\
             mb_id r = "m" /\
             mb_updated r <= now (fst (step cfg s0 (ECrash 0 (EAdvance 6000 true)))) - exp cfg).
Proof.
  split; [vm_compute; reflexivity|]. split; [vm_compute; reflexivity|].
  split; [vm_compute; reflexivity|].
  split; [intros (sd & (c & cs & msg & o' & E & _) & _); discriminate|].
  split; [intros (t & r & Ht & _); discriminate|].
  exists row0. split; [vm_compute; auto|]. split; [reflexivity|]. split; [reflexivity|].
  vm_compute. discriminate.
Qed.

End MbStableExamples.

Print Assumptions event_kept.
Print Assumptions mailbox_stable.
Print Assumptions expired_removes.
Print Assumptions last_close_removes.
Print Assumptions side_row_stable.
Print Assumptions keeper_stable.
Print Assumptions open_side_keeps_mailbox.
Print Assumptions mailbox_content_stable.
Print Assumptions mailbox_messages_stable_all.
Print Assumptions close_keeps_other_side.
Print Assumptions crash_chan_keeps.
Print Assumptions mailbox_stable_crash.
Print Assumptions mailbox_stable_all.
Print Assumptions mailbox_stable_run.
Print Assumptions MbStableExamples.other_side_close_nonvacuous.
Print Assumptions MbStableExamples.mailbox_stable_applied.
Print Assumptions MbStableExamples.close_keeps_other_side_applied.
Print Assumptions MbStableExamples.expiry_nonvacuous.
Print Assumptions MbStableExamples.expired_removes_applied.
Print Assumptions MbStableExamples.crash_nonvacuous.
