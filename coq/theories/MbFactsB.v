(** MbFactsB.v -- C08 (and the state part of C14): the complete effect of `close`. *)
From MW Require Import Base Store Monad Usage Server Websocket Service Findings
     Inv StoreFacts Hoare DbFactsA DbFactsB OpFacts ProtoFacts Obs.
From MW Require Import MbFactsA.
Local Open Scope list_scope.

(** does Mailbox.close(side, mood) on mailbox (a, h) delete it?  (it does when
    the side has a row and afterwards no side row says opened) *)
Definition close_deletes (d : chan_db) (a h side : string) (mood : option string) : bool :=
  match sel_mb d a h, sel_mbs d h side with
  | Some _, Some _ => negb (existsb mbs_opened (sel_mbs_all (upd_mbs_close d h side mood) h))
  | _, _ => false
  end.

(** the channel database after Mailbox.close: the side's row is marked closed
    with its mood; if that was the last open side, the mailbox row, its side
    rows, its messages, the nameplates pointing at it and their side rows are
    removed -- and nothing else *)
Definition close_db (d : chan_db) (a h side : string) (mood : option string) : chan_db :=
  match sel_mb d a h, sel_mbs d h side with
  | Some _, Some _ =>
      let d2 := upd_mbs_close d h side mood in
      if existsb mbs_opened (sel_mbs_all d2 h) then d2
      else mkChan
             (filter (fun n => negb (seqb (np_mbox n) h)) (nameplates d2))
             (filter (fun x => negb (existsb (fun n => (np_id n =? nps_npid x) && seqb (np_mbox n) h)
                                             (nameplates d2))) (np_sides d2))
             (filter (fun r => negb (seqb (mb_id r) h)) (mailboxes d2))
             (filter (fun r => negb (seqb (mbs_mbox r) h)) (mb_sides d2))
             (filter (fun r => negb (seqb (msg_mbox r) h)) (messages d2))
             (np_seq d2)
  | _, _ => d
  end.

(** * Auxiliary: the deleting half of close, on its own *)

(** what [close_delete_body] leaves of the database it finds *)
Definition close_del_db (d : chan_db) (h : string) : chan_db :=
  if existsb mbs_opened (sel_mbs_all d h) then d
  else mkChan
         (filter (fun n => negb (seqb (np_mbox n) h)) (nameplates d))
         (filter (fun x => negb (existsb (fun n => (np_id n =? nps_npid x) && seqb (np_mbox n) h)
                                         (nameplates d))) (np_sides d))
         (filter (fun r => negb (seqb (mb_id r) h)) (mailboxes d))
         (filter (fun r => negb (seqb (mbs_mbox r) h)) (mb_sides d))
         (filter (fun r => negb (seqb (msg_mbox r) h)) (messages d))
         (np_seq d).

Lemma close_db_unfold d a h side mood :
  close_db d a h side mood =
  match sel_mb d a h, sel_mbs d h side with
  | Some _, Some _ => close_del_db (upd_mbs_close d h side mood) h
  | _, _ => d
  end.
Proof. reflexivity. Qed.

Lemma close_deletes_unfold d a h side mood :
  close_deletes d a h side mood =
  match close_mark_body d a h side mood with
  | Some (_, d2) => negb (existsb mbs_opened (sel_mbs_all d2 h))
  | None => false
  end.
Proof.
  unfold close_deletes, close_mark_body.
  destruct (sel_mb d a h); [|reflexivity]. destruct (sel_mbs d h side); reflexivity.
Qed.

Lemma close_db_mark d a h side mood :
  close_db d a h side mood =
  match close_mark_body d a h side mood with
  | Some (_, d2) => close_del_db d2 h
  | None => d
  end.
Proof.
  rewrite close_db_unfold. unfold close_mark_body.
  destruct (sel_mb d a h); [|reflexivity]. destruct (sel_mbs d h side); reflexivity.
Qed.

(** list helpers *)

Lemma cl_filter_true {A} (p : A -> bool) l : (forall x, In x l -> p x = true) -> filter p l = l.
Proof. apply filter_all_true. Qed.

Lemma cl_filter_snoc_out {A} (p : A -> bool) l x :
  (forall y, In y l -> p y = true) -> p x = false -> filter p (l ++ [x]) = l.
Proof.
  intros Hl Hx. rewrite filter_app. cbn [filter]. rewrite Hx, app_nil_r.
  apply filter_all_true. exact Hl.
Qed.

Lemma cl_map_id_in {A} (f : A -> A) l : (forall x, In x l -> f x = x) -> map f l = l.
Proof.
  induction l as [|x l IH]; intros H; cbn [map]; [reflexivity|].
  rewrite (H x (or_introl eq_refl)). f_equal. apply IH. intros y Hy. apply H. now right.
Qed.

(** the ids of the nameplates pointing at [h], seen from a side row *)
Lemma existsb_ids_by_mbox l h k :
  existsb (Z.eqb k) (map np_id (filter (fun r => seqb (np_mbox r) h) l)) =
  existsb (fun n => (np_id n =? k) && seqb (np_mbox n) h) l.
Proof.
  induction l as [|n l IH]; cbn [filter map existsb]; [reflexivity|].
  destruct (seqb (np_mbox n) h); cbn [map existsb]; rewrite IH.
  - rewrite andb_true_r, (Z.eqb_sym k). reflexivity.
  - rewrite andb_false_r. reflexivity.
Qed.

(** deleting a list of nameplates, one [rm_np] at a time, in closed form *)
Lemma fold_rm_np ids : forall d,
  fold_left rm_np ids d =
  mkChan (filter (fun r => negb (existsb (Z.eqb (np_id r)) ids)) (nameplates d))
         (filter (fun x => negb (existsb (Z.eqb (nps_npid x)) ids)) (np_sides d))
         (mailboxes d) (mb_sides d) (messages d) (np_seq d).
Proof.
  induction ids as [|i rest IH]; intros d; cbn [fold_left].
  - cbn [existsb negb]. rewrite !filter_all_true by reflexivity. destruct d; reflexivity.
  - rewrite IH. unfold rm_np. cbn [nameplates np_sides mailboxes mb_sides messages np_seq].
    rewrite !filter_filter. f_equal; apply filter_ext; intros r; cbn [existsb];
      rewrite negb_orb; reflexivity.
Qed.

Section DelExact.
Variable cfg : config.

Lemma del_nameplates_body_exact a when pruned : forall ids d acc,
  DbInv d -> NoDup ids -> (forall i, In i ids -> np_exists d i = true) ->
  exists us, del_nameplates_body cfg d a ids when pruned acc = TxOk us (fold_left rm_np ids d).
Proof.
  induction ids as [|i rest IH]; intros d acc Hinv Hnd Hex.
  - exists acc. reflexivity.
  - inversion Hnd as [|? ? Hnin Hnd']; subst.
    assert (Hrec : forall acc', exists us,
      del_nameplates_body cfg (rm_np d i) a rest when pruned acc' =
      TxOk us (fold_left rm_np (i :: rest) d)).
    { intros acc'. apply IH; [apply rm_np_inv; exact Hinv|exact Hnd'|].
      intros j Hj. apply np_exists_rm_np; [apply Hex; now right|].
      intros Eq. subst j. contradiction. }
    cbn [del_nameplates_body]. rewrite del_np_rm.
    destruct (usage_on cfg).
    + destruct (summarize_nameplate (blur cfg) a (sel_nps_all d i) when pruned) as [u|] eqn:Es.
      * apply Hrec.
      * exfalso. apply UsageFacts.nameplate_summary_none in Es.
        apply (np_sided_rows d i Hinv); [apply Hex; now left|exact Es].
    + apply Hrec.
Qed.

(** the exact result of the deleting half of Mailbox.close *)
Lemma close_delete_body_exact d a h fornp when :
  DbInv d ->
  exists r, close_delete_body cfg d a h fornp when = TxOk r (close_del_db d h) /\
            (r = None <-> existsb mbs_opened (sel_mbs_all d h) = true).
Proof.
  intros Hinv. unfold close_delete_body, close_del_db. cbv zeta.
  destruct (existsb mbs_opened (sel_mbs_all d h)) eqn:Eo.
  - exists None. split; [reflexivity|]. split; reflexivity.
  - destruct (del_nameplates_body_exact a when false (map np_id (sel_np_by_mbox d h)) d [] Hinv)
      as [unps E1].
    + unfold sel_np_by_mbox. apply NoDup_map_filter. apply inv_np_id. exact Hinv.
    + intros i Hi. apply in_map_iff in Hi. destruct Hi as [n [En Hn]].
      apply sel_np_by_mbox_In in Hn. apply np_exists_iff. exists n. tauto.
    + rewrite E1. rewrite fold_rm_np.
      assert (En : filter (fun r => negb (existsb (Z.eqb (np_id r)) (map np_id (sel_np_by_mbox d h))))
                     (nameplates d) =
                   filter (fun n => negb (seqb (np_mbox n) h)) (nameplates d)).
      { apply filter_ext_in. intros n Hn. f_equal.
        unfold sel_np_by_mbox. rewrite existsb_ids_by_mbox.
        destruct (seqb (np_mbox n) h) eqn:Em.
        - apply existsb_exists. exists n. split; [exact Hn|]. rewrite Z.eqb_refl, Em. reflexivity.
        - apply existsb_false_iff. intros n' Hn'.
          destruct (np_id n' =? np_id n) eqn:Ei; [|reflexivity].
          apply Z.eqb_eq in Ei.
          assert (n' = n).
          { apply (NoDup_map_inj np_id (nameplates d)); [apply inv_np_id; exact Hinv| | |]; assumption. }
          subst n'. rewrite Em. reflexivity. }
      assert (Es : filter (fun x => negb (existsb (Z.eqb (nps_npid x)) (map np_id (sel_np_by_mbox d h))))
                     (np_sides d) =
                   filter (fun x => negb (existsb (fun n => (np_id n =? nps_npid x) && seqb (np_mbox n) h)
                                                  (nameplates d))) (np_sides d)).
      { apply filter_ext. intros x. unfold sel_np_by_mbox. rewrite existsb_ids_by_mbox. reflexivity. }
      rewrite En, Es.
      rewrite del_mailbox_body_rm.
      * eexists. split; [reflexivity|]. split; intros H; discriminate.
      * cbn [nameplates]. intros n Hn. apply filter_In in Hn. destruct Hn as [_ Hn].
        apply negb_true_iff in Hn. apply seqb_neq. exact Hn.
Qed.

End DelExact.

(** pure consequences *)

(** while another side still has it open, only the closer's own row changes *)
Lemma close_db_nonlast d a h side mood r :
  In r (mb_sides d) -> mbs_mbox r = h -> mbs_side r <> side -> mbs_opened r = true ->
  close_deletes d a h side mood = false /\
  (close_db d a h side mood = d \/ close_db d a h side mood = upd_mbs_close d h side mood).
Proof.
  intros Hin Hm Hs Ho. unfold close_deletes, close_db.
  destruct (sel_mb d a h); [|split; [reflexivity|left; reflexivity]].
  destruct (sel_mbs d h side); [|split; [reflexivity|left; reflexivity]].
  assert (E : existsb mbs_opened (sel_mbs_all (upd_mbs_close d h side mood) h) = true).
  { apply existsb_exists. exists r. split; [|exact Ho]. apply sel_mbs_all_In. split; [|exact Hm].
    unfold upd_mbs_close. cbn [mb_sides set_mb_sides]. apply in_map_iff. exists r.
    split; [|exact Hin].
    destruct (seqb (mbs_side r) side) eqn:E; [apply seqb_eq in E; contradiction|].
    rewrite andb_false_r. reflexivity. }
  cbv zeta. rewrite E. split; [reflexivity|right; reflexivity].
Qed.

(** closing a mailbox that does not exist (any more), on a fresh connection:
    open-then-close leaves the database exactly as it was *)
Lemma reclose_gone d a m side t mood :
  DbInv d -> ~ mb_alive d m ->
  close_db (open_db d a m side t) a m side mood = d.
Proof.
  intros Hinv Hna.
  assert (Hmb : forall r, In r (mailboxes d) -> mb_id r <> m).
  { intros r Hr E. apply Hna. exists r. auto. }
  assert (Hs : forall r, In r (mb_sides d) -> mbs_mbox r <> m).
  { intros r Hr E. destruct (inv_fk_mbs d Hinv r Hr) as [x [Hx Ex]]. apply (Hmb x Hx). congruence. }
  assert (Hn : forall n, In n (nameplates d) -> np_mbox n <> m).
  { intros n Hin E. destruct (inv_fk_np d Hinv n Hin) as [x [Hx [_ Ex]]]. apply (Hmb x Hx). congruence. }
  assert (Hg : forall r, In r (messages d) -> msg_mbox r <> m).
  { intros r Hr E. destruct (inv_msg d Hinv r Hr) as [x [Hx [_ Ex]]]. apply (Hmb x Hx). congruence. }
  assert (E1 : sel_mb d a m = None).
  { apply sel_mb_none. intros r Hr [_ E]. exact (Hmb r Hr E). }
  assert (E2 : sel_mbs d m side = None).
  { apply sel_mbs_none. intros r Hr [E _]. exact (Hs r Hr E). }
  assert (Eo : open_db d a m side t =
               mkChan (nameplates d) (np_sides d) (mailboxes d ++ [mkMb a m t false])
                      (mb_sides d ++ [mkMbs m true side t None]) (messages d) (np_seq d)).
  { unfold open_db. rewrite E1, E2. f_equal. rewrite map_app. cbn [map]. f_equal.
    - apply cl_map_id_in. intros r Hr. unfold touch_row.
      destruct (seqb (mb_id r) m) eqn:E; [apply seqb_eq in E; elim (Hmb r Hr E)|reflexivity].
    - unfold touch_row. cbn [mb_id mb_app mb_fornp]. rewrite seqb_refl. reflexivity. }
  rewrite Eo. clear Eo.
  set (d1 := mkChan (nameplates d) (np_sides d) (mailboxes d ++ [mkMb a m t false])
                    (mb_sides d ++ [mkMbs m true side t None]) (messages d) (np_seq d)).
  rewrite close_db_unfold.
  assert (F1 : sel_mb d1 a m = Some (mkMb a m t false)).
  { unfold sel_mb, d1. cbn [mailboxes]. apply find_snoc; [exact E1|].
    cbn [mb_app mb_id]. rewrite !seqb_refl. reflexivity. }
  assert (F2 : sel_mbs d1 m side = Some (mkMbs m true side t None)).
  { unfold sel_mbs, d1. cbn [mb_sides]. apply find_snoc; [exact E2|].
    cbn [mbs_mbox mbs_side]. rewrite !seqb_refl. reflexivity. }
  rewrite F1, F2.
  assert (Eu : upd_mbs_close d1 m side mood =
               mkChan (nameplates d) (np_sides d) (mailboxes d ++ [mkMb a m t false])
                      (mb_sides d ++ [mkMbs m false side t mood]) (messages d) (np_seq d)).
  { unfold upd_mbs_close, set_mb_sides, d1.
    cbn [nameplates np_sides mailboxes mb_sides messages np_seq]. f_equal.
    rewrite map_app. cbn [map mbs_mbox mbs_side mbs_added]. rewrite !seqb_refl. cbn [andb]. f_equal.
    apply cl_map_id_in. intros r Hr.
    destruct (seqb (mbs_mbox r) m) eqn:E; [apply seqb_eq in E; elim (Hs r Hr E)|reflexivity]. }
  rewrite Eu. clear Eu. unfold close_del_db.
  cbn [nameplates np_sides mailboxes mb_sides messages np_seq].
  assert (Ex : existsb mbs_opened
                 (sel_mbs_all (mkChan (nameplates d) (np_sides d) (mailboxes d ++ [mkMb a m t false])
                      (mb_sides d ++ [mkMbs m false side t mood]) (messages d) (np_seq d)) m) = false).
  { apply existsb_false_iff. intros r Hr. apply sel_mbs_all_In in Hr. cbn [mb_sides] in Hr.
    destruct Hr as [Hr Er]. apply in_app_or in Hr. destruct Hr as [Hr|[<-|[]]].
    - elim (Hs r Hr Er).
    - reflexivity. }
  rewrite Ex.
  rewrite (cl_filter_true _ (nameplates d)).
  2:{ intros n Hin. apply negb_true_iff, seqb_neq. exact (Hn n Hin). }
  rewrite (cl_filter_true _ (np_sides d)).
  2:{ intros x _. apply negb_true_iff. apply existsb_false_iff. intros n Hin.
      assert (En : seqb (np_mbox n) m = false) by (apply seqb_neq; exact (Hn n Hin)).
      rewrite En, andb_false_r. reflexivity. }
  rewrite (cl_filter_snoc_out _ (mailboxes d)).
  2:{ intros r Hr. apply negb_true_iff, seqb_neq. exact (Hmb r Hr). }
  2:{ cbn [mb_id]. rewrite seqb_refl. reflexivity. }
  rewrite (cl_filter_snoc_out _ (mb_sides d)).
  2:{ intros r Hr. apply negb_true_iff, seqb_neq. exact (Hs r Hr). }
  2:{ cbn [mbs_mbox]. rewrite seqb_refl. reflexivity. }
  rewrite (cl_filter_true _ (messages d)).
  2:{ intros r Hr. apply negb_true_iff, seqb_neq. exact (Hg r Hr). }
  destruct d; reflexivity.
Qed.

(** deletion removes nothing of any other mailbox or nameplate *)
Lemma close_db_others d a h side mood :
  DbInv d ->
  let d' := close_db d a h side mood in
  (forall r, In r (mailboxes d) -> mb_id r <> h -> In r (mailboxes d')) /\
  (forall r, In r (mb_sides d) -> mbs_mbox r <> h -> In r (mb_sides d')) /\
  (forall r, In r (messages d) -> msg_mbox r <> h -> In r (messages d')) /\
  (forall n, In n (nameplates d) -> np_mbox n <> h ->
             In n (nameplates d') /\
             forall x, In x (np_sides d) -> nps_npid x = np_id n -> In x (np_sides d')) /\
  (close_deletes d a h side mood = true ->
     ~ mb_alive d' h /\ (forall x, In x (messages d') -> msg_mbox x <> h) /\
     (forall n, In n (nameplates d') -> np_mbox n <> h)).
Proof.
  intros Hinv. cbv zeta. unfold close_deletes. rewrite close_db_unfold.
  destruct (sel_mb d a h) as [row|];
    [|split; [auto|split; [auto|split; [auto|split; [auto|discriminate]]]]].
  destruct (sel_mbs d h side) as [srow|];
    [|split; [auto|split; [auto|split; [auto|split; [auto|discriminate]]]]].
  set (d2 := upd_mbs_close d h side mood).
  assert (Hs2 : forall r, In r (mb_sides d) -> mbs_mbox r <> h -> In r (mb_sides d2)).
  { intros r Hr Hne. unfold d2, upd_mbs_close. cbn [mb_sides set_mb_sides].
    apply in_map_iff. exists r. split; [|exact Hr].
    destruct (seqb (mbs_mbox r) h) eqn:E; [apply seqb_eq in E; contradiction|reflexivity]. }
  unfold close_del_db.
  destruct (existsb mbs_opened (sel_mbs_all d2 h)) eqn:Eo.
  - split; [auto|]. split; [exact Hs2|]. split; [auto|]. split; [auto|]. discriminate.
  - cbn [nameplates np_sides mailboxes mb_sides messages np_seq].
    change (nameplates d2) with (nameplates d). change (np_sides d2) with (np_sides d).
    change (mailboxes d2) with (mailboxes d). change (messages d2) with (messages d).
    split; [|split; [|split; [|split]]].
    + intros r Hr Hne. apply filter_In. split; [exact Hr|]. apply negb_true_iff, seqb_neq. exact Hne.
    + intros r Hr Hne. apply filter_In. split; [exact (Hs2 r Hr Hne)|].
      apply negb_true_iff, seqb_neq. exact Hne.
    + intros r Hr Hne. apply filter_In. split; [exact Hr|]. apply negb_true_iff, seqb_neq. exact Hne.
    + intros n Hn Hne. split.
      * apply filter_In. split; [exact Hn|]. apply negb_true_iff, seqb_neq. exact Hne.
      * intros x Hx Ex. apply filter_In. split; [exact Hx|]. apply negb_true_iff.
        apply existsb_false_iff. intros n' Hn'.
        destruct (np_id n' =? nps_npid x) eqn:Ei; [|reflexivity].
        apply Z.eqb_eq in Ei.
        assert (n' = n).
        { apply (NoDup_map_inj np_id (nameplates d)); [apply inv_np_id; exact Hinv| | |];
            [assumption|assumption|congruence]. }
        subst n'. cbn [andb]. apply seqb_neq. exact Hne.
    + intros _. split; [|split].
      * intros [r [Hr Er]]. apply filter_In in Hr. destruct Hr as [_ Hr].
        apply negb_true_iff, seqb_neq in Hr. contradiction.
      * intros x Hx. apply filter_In in Hx. destruct Hx as [_ Hx].
        apply negb_true_iff, seqb_neq in Hx. exact Hx.
      * intros n Hn. apply filter_In in Hn. destruct Hn as [_ Hn].
        apply negb_true_iff, seqb_neq in Hn. exact Hn.
Qed.

(** * Auxiliary: logs, registries, subscriptions *)

(** frames of a newest-first log, in emission order *)
Definition lframes (l : list log_entry) : list (nat * frame) := frames_of (rev l).

Lemma cl_frames_of_app l1 l2 : frames_of (l1 ++ l2) = frames_of l1 ++ frames_of l2.
Proof.
  induction l1 as [|e l1 IH]; cbn [app frames_of]; [reflexivity|].
  destruct e; cbn [app]; rewrite IH; reflexivity.
Qed.

Lemma lframes_commit_chan d l : lframes (LCommitChan d :: l) = lframes l.
Proof. unfold lframes. cbn [rev]. rewrite cl_frames_of_app. cbn. apply app_nil_r. Qed.

Lemma lframes_commit_usage u l : lframes (LCommitUsage u :: l) = lframes l.
Proof. unfold lframes. cbn [rev]. rewrite cl_frames_of_app. cbn. apply app_nil_r. Qed.

Lemma lframes_frame c f b tx l : lframes (LFrame c f b tx :: l) = lframes l ++ [(c, f)].
Proof. unfold lframes. cbn [rev]. rewrite cl_frames_of_app. reflexivity. Qed.

Lemma cl_set_log_nil s : log s = [] -> set_log s [] = s.
Proof. destruct s; cbn; intros ->; reflexivity. Qed.

Lemma cl_lookup_update_same c cs l cs0 :
  lookup_conn c l = Some cs0 -> lookup_conn c (update_conn c cs l) = Some cs.
Proof.
  induction l as [|[c' cs'] l IH]; cbn [lookup_conn update_conn]; [discriminate|].
  destruct (Nat.eqb c c') eqn:E; cbn [lookup_conn]; rewrite E; [reflexivity|exact IH].
Qed.

Lemma cl_lookup_update_other c c' cs l :
  c' <> c -> lookup_conn c' (update_conn c cs l) = lookup_conn c' l.
Proof.
  intros Hne. induction l as [|[c1 cs1] l IH]; cbn [lookup_conn update_conn]; [reflexivity|].
  destruct (Nat.eqb c c1) eqn:E; cbn [lookup_conn].
  - apply Nat.eqb_eq in E. subst c1.
    destruct (Nat.eqb c' c) eqn:E'; [apply Nat.eqb_eq in E'; contradiction|reflexivity].
  - destruct (Nat.eqb c' c1); [reflexivity|exact IH].
Qed.

Lemma cl_lookup_map_if (g : nat -> bool) (h : conn_state -> conn_state) c l :
  lookup_conn c (map (fun p => if g (fst p) then (fst p, h (snd p)) else p) l) =
  match lookup_conn c l with
  | Some cs => Some (if g c then h cs else cs)
  | None => None
  end.
Proof.
  induction l as [|[c1 cs1] l IH]; cbn [lookup_conn map fst snd]; [reflexivity|].
  destruct (g c1) eqn:G; cbn [lookup_conn]; destruct (Nat.eqb c c1) eqn:E; try exact IH;
    apply Nat.eqb_eq in E; subst c1; rewrite G; reflexivity.
Qed.

Lemma cl_In_subs_of a m c l : In c (subs_of a m l) <-> In (a, m, c) l.
Proof.
  unfold subs_of. rewrite in_map_iff. split.
  - intros [[[a' m'] c'] [Hs Hin]]. cbn in Hs. subst c'.
    apply filter_In in Hin. destruct Hin as [Hin Hf]. cbn in Hf.
    apply andb_true_iff in Hf. destruct Hf as [Ha Hm].
    apply seqb_eq in Ha. apply seqb_eq in Hm. subst. exact Hin.
  - intros Hin. exists (a, m, c). split; [reflexivity|].
    apply filter_In. split; [exact Hin|]. cbn. rewrite !seqb_refl. reflexivity.
Qed.

Lemma cl_existsb_nat c l : existsb (Nat.eqb c) l = true <-> In c l.
Proof.
  rewrite existsb_exists. split.
  - intros [x [Hx E]]. apply Nat.eqb_eq in E. subst x. exact Hx.
  - intros H. exists c. split; [exact H|apply Nat.eqb_refl].
Qed.

(** removing the closer's own subscription first does not change what the
    mailbox-wide removal leaves *)
Lemma filter_mbox_after_own a h c (l : list (string * string * nat)) :
  filter (fun p => negb (seqb (fst (fst p)) a && seqb (snd (fst p)) h))
         (filter (fun p => negb (sub_is a h c p)) l) =
  filter (fun p => negb (seqb (fst (fst p)) a && seqb (snd (fst p)) h)) l.
Proof.
  rewrite filter_filter. apply filter_ext. intros p. unfold sub_is.
  destruct (seqb (fst (fst p)) a && seqb (snd (fst p)) h); cbn; [apply andb_false_r|reflexivity].
Qed.

Lemma In_after_own a h c c' (l : list (string * string * nat)) :
  c' <> c -> (In (a, h, c') (filter (fun p => negb (sub_is a h c p)) l) <-> In (a, h, c') l).
Proof.
  intros Hne. rewrite filter_In. split; [tauto|]. intros H. split; [exact H|].
  unfold sub_is. cbn [fst snd]. destruct (Nat.eqb c' c) eqn:E.
  - apply Nat.eqb_eq in E. contradiction.
  - rewrite andb_false_r. reflexivity.
Qed.

(** monad steps *)

Lemma bind_ret {A B} (x : A) (k : A -> M B) s : bind (ret x) k s = k x s.
Proof. reflexivity. Qed.

Lemma bind_get {B} (k : state -> M B) s : bind get k s = k s s.
Proof. reflexivity. Qed.

Lemma bind_assoc {A B C} (m : M A) (f : A -> M B) (k : B -> M C) s :
  bind (bind m f) k s = bind m (fun x => bind (f x) k) s.
Proof. unfold bind. destruct (m s); reflexivity. Qed.

(** [open_db] is the closed form of [open_body] *)
Lemma cl_existsb_snoc {A} (f : A -> bool) l x : f x = true -> existsb f (l ++ [x]) = true.
Proof. intros H. rewrite existsb_app. cbn. rewrite H. apply orb_true_iff. right. reflexivity. Qed.

Lemma cl_open_body_eval d a m side when :
  (open_body d a m side when = TxFail XIntegrity d /\ pk_clash d a m) \/
  open_body d a m side when = TxOk tt (open_db d a m side when).
Proof.
  unfold open_body, add_mailbox, open_db.
  destruct (sel_mb d a m) as [r|] eqn:Emb.
  - right. apply sel_mb_some in Emb. destruct Emb as [Hin [_ Hid]].
    assert (Hex : mb_exists d m = true) by (apply mb_exists_iff; eauto).
    unfold mailbox_open_body. destruct (sel_mbs d m side) eqn:Es.
    + reflexivity.
    + unfold ins_mbs. cbn [mbs_mbox]. rewrite Hex. reflexivity.
  - unfold ins_mb. cbn [mb_id]. destruct (mb_exists d m) eqn:Hex.
    + left. split; [reflexivity|]. split; [exact Hex|].
      intros Hh. apply has_mb_sel in Hh. destruct Hh as [r Hr]. congruence.
    + right. unfold mailbox_open_body.
      change (sel_mbs (set_mailboxes d (mailboxes d ++ [mkMb a m when false])) m side)
        with (sel_mbs d m side).
      destruct (sel_mbs d m side) eqn:Es.
      * reflexivity.
      * unfold ins_mbs. cbn [mbs_mbox].
        assert (Hex' : mb_exists (set_mailboxes d (mailboxes d ++ [mkMb a m when false])) m = true).
        { unfold mb_exists. cbn [mailboxes set_mailboxes]. apply cl_existsb_snoc. cbn. apply seqb_refl. }
        rewrite Hex'. reflexivity.
Qed.

Lemma cl_open_mailbox_eval a m side when s :
  open_mailbox a m side when s =
  match open_body (chan_w s) a m side when with
  | TxFail e d1 => Exn e (set_chan_w s d1)
  | TxOk _ d' =>
      let s2 := mkState d' d' (usage_w s) (usage_c s) (subs s) (conns s) (now s) (boot s)
                        (timer_start s) (next_due s)
                        (LCommitChan d' :: LCommitChan d' :: log s) in
      if (2 <? List.length (sel_mbs_all d' m))%nat then Exn XCrowded s2 else Ok tt s2
  end.
Proof.
  unfold open_mailbox, bind, tx, commit_chan, q, raise, ret.
  destruct (open_body (chan_w s) a m side when) as [u d'|e d1]; cbn -[Nat.ltb]; [|reflexivity].
  destruct (2 <? List.length (sel_mbs_all d' m))%nat; reflexivity.
Qed.

Lemma cl_drop_conn_frame c s :
  chan_w (drop_conn c s) = chan_w s /\ chan_c (drop_conn c s) = chan_c s /\
  log (drop_conn c s) = log s.
Proof.
  unfold drop_conn, on_close. rewrite bind_get_conn.
  destruct (c_mailbox (conn_of s c)); [|cbn; auto].
  destruct (c_bound (conn_of s c)) as [[a side]|]; [|cbn; auto].
  destruct (c_listening (conn_of s c)); cbn; auto.
Qed.

(** who else holds (a, h) after the registry rewrite of [stop_listeners] *)
Lemma holds_others_after s s' c a h del subs1 :
  SInv s ->
  (forall c', c' <> c ->
     lookup_conn c' (conns s') =
     match lookup_conn c' (conns s) with
     | Some x => Some (if del && existsb (Nat.eqb c') (subs_of a h subs1)
                       then stop_listener x else x)
     | None => None
     end) ->
  (forall c', c' <> c -> (In (a, h, c') subs1 <-> In (a, h, c') (subs s))) ->
  forall c' a' m', c' <> c ->
    (holds s' c' a' m' <-> holds s c' a' m' /\ ~ (del = true /\ a' = a /\ m' = h)).
Proof.
  intros Hinv Hlk Hsub c' a' m' Hne. unfold holds. rewrite (Hlk c' Hne).
  destruct (lookup_conn c' (conns s)) as [x|] eqn:El.
  2:{ split; [intros (cs0 & sd & H & _); discriminate|intros [(cs0 & sd & H & _) _]; discriminate]. }
  destruct del; cbn [andb].
  - destruct (existsb (Nat.eqb c') (subs_of a h subs1)) eqn:Ev.
    + apply cl_existsb_nat, cl_In_subs_of in Ev. apply (Hsub c' Hne) in Ev.
      pose proof (si_subs s Hinv _ Ev) as Hok. cbn in Hok.
      destruct Hok as [_ (x' & sd' & Hl' & Hb' & Hm')].
      rewrite El in Hl'. inversion Hl'; subst x'.
      split.
      * intros (cs0 & sd & H & Hb & Hm). inversion H; subst cs0. cbn in Hm. discriminate.
      * intros [(cs0 & sd & H & Hb & Hm) Hn]. inversion H; subst cs0. exfalso. apply Hn.
        split; [reflexivity|]. split; congruence.
    + split.
      * intros (cs0 & sd & H & Hb & Hm). inversion H; subst cs0.
        split; [exists x, sd; auto|]. intros (_ & -> & ->).
        pose proof (si_conns s Hinv c' x El) as Hok. unfold conn_ok in Hok. rewrite Hm in Hok.
        destruct Hok as (a0 & sd0 & Hb0 & _ & Hin). rewrite Hb in Hb0. inversion Hb0; subst a0 sd0.
        apply (Hsub c' Hne) in Hin. apply cl_In_subs_of, cl_existsb_nat in Hin. congruence.
      * intros [(cs0 & sd & H & Hb & Hm) _]. exists cs0, sd. auto.
  - split.
    + intros H. split; [exact H|]. intros (Hd & _). discriminate.
    + intros [H _]. exact H.
Qed.

Section CloseRun.
Variable cfg : config.

(** the exact effect of Mailbox.close as a function on states *)
Lemma mailbox_close_run a h side mood when s :
  DbInv (chan_w s) ->
  let del := close_deletes (chan_w s) a h side mood in
  exists s', mailbox_close cfg a h side mood when s = Ok tt s' /\
    chan_w s' = close_db (chan_w s) a h side mood /\
    (chan_c s = chan_w s -> chan_c s' = chan_w s') /\
    subs s' = (if del
               then filter (fun p => negb (seqb (fst (fst p)) a && seqb (snd (fst p)) h)) (subs s)
               else subs s) /\
    conns s' = (if del
                then map (fun p => if existsb (Nat.eqb (fst p)) (subs_of a h (subs s))
                                   then (fst p, stop_listener (snd p)) else p) (conns s)
                else conns s) /\
    lframes (log s') = lframes (log s).
Proof.
  intros Hinv. cbv zeta. rewrite close_deletes_unfold, close_db_mark. unfold mailbox_close.
  destruct (close_mark_body (chan_w s) a h side mood) as [[fornp d2]|] eqn:Ecm.
  - destruct (close_mark_body_ok _ _ _ _ _ _ _ Hinv Ecm) as [Hinv2 _].
    destruct (close_delete_body_exact cfg d2 a h fornp when Hinv2) as [r [Er Hr]].
    rewrite (bind_ok _ _ s (Some fornp) (set_chan_w s d2)) by (unfold tx; rewrite Ecm; reflexivity).
    cbv beta iota.
    erewrite bind_ok by reflexivity.
    erewrite bind_ok by (unfold tx; cbn [chan_w set_chan_w]; rewrite Er; reflexivity).
    destruct r as [[unps umbs]|].
    + destruct (existsb mbs_opened (sel_mbs_all d2 h)) eqn:Eo.
      { exfalso. destruct Hr as [_ Hr]. specialize (Hr eq_refl). discriminate. }
      cbn [negb]. destruct (usage_on cfg).
      * eexists. split; [reflexivity|]. cbn -[lframes].
        rewrite lframes_commit_chan, lframes_commit_usage, lframes_commit_chan. auto 10.
      * eexists. split; [reflexivity|]. cbn -[lframes]. rewrite !lframes_commit_chan. auto 10.
    + destruct Hr as [Hr _]. rewrite (Hr eq_refl). cbn [negb].
      eexists. split; [reflexivity|]. cbn -[lframes]. rewrite lframes_commit_chan.
      unfold close_del_db. rewrite (Hr eq_refl). auto 10.
  - rewrite (bind_ok _ _ s None (set_chan_w s (chan_w s))) by (unfold tx; rewrite Ecm; reflexivity).
    eexists. split; [reflexivity|]. cbn. auto 10.
Qed.

(** handle_close once the mailbox object is in hand and the connection's own
    listener is removed *)
Definition close_rest (c : nat) (a side : string) (mood : option string) (held : string)
           (when : Z) : M unit :=
  cs3 <- get_conn c ;;
  set_conn c (set_did_close cs3 true) ;;;
  mailbox_close cfg a held side mood when ;;;
  cs4 <- get_conn c ;;
  set_conn c (set_mailbox cs4 None) ;;;
  send c FClosed.

Lemma close_rest_run c a side mood held when s cs :
  DbInv (chan_w s) -> chan_c s = chan_w s -> lookup_conn c (conns s) = Some cs ->
  let del := close_deletes (chan_w s) a held side mood in
  exists s', close_rest c a side mood held when s = Ok tt s' /\
    chan_w s' = close_db (chan_w s) a held side mood /\ chan_c s' = chan_w s' /\
    subs s' = (if del
               then filter (fun p => negb (seqb (fst (fst p)) a && seqb (snd (fst p)) held)) (subs s)
               else subs s) /\
    lframes (log s') = lframes (log s) ++ [(c, FClosed)] /\
    (exists cs', lookup_conn c (conns s') = Some cs' /\ c_mailbox cs' = None /\
                 c_bound cs' = c_bound cs) /\
    (forall c', c' <> c ->
       lookup_conn c' (conns s') =
       match lookup_conn c' (conns s) with
       | Some x => Some (if del && existsb (Nat.eqb c') (subs_of a held (subs s))
                         then stop_listener x else x)
       | None => None
       end).
Proof.
  intros Hinv Hcl Hl. cbv zeta. unfold close_rest.
  rewrite bind_get_conn. unfold conn_of. rewrite Hl.
  set (cs3 := set_did_close cs true).
  set (s1 := set_conns s (update_conn c cs3 (conns s))).
  rewrite (bind_ok (set_conn c cs3) _ s tt s1) by reflexivity.
  destruct (mailbox_close_run a held side mood when s1 Hinv)
    as [s2 [E2 [Hw [Hc [Hsubs [Hconns Hfr]]]]]].
  change (chan_w s1) with (chan_w s) in *. change (chan_c s1) with (chan_c s) in *.
  change (subs s1) with (subs s) in *. change (log s1) with (log s) in *.
  rewrite (bind_ok _ _ s1 tt s2 E2).
  rewrite bind_get_conn.
  assert (Hl1 : lookup_conn c (conns s1) = Some cs3).
  { unfold s1. cbn [conns set_conns]. apply (cl_lookup_update_same c cs3 _ cs Hl). }
  assert (Hl2 : exists cs4, lookup_conn c (conns s2) = Some cs4 /\ c_bound cs4 = c_bound cs).
  { rewrite Hconns. destruct (close_deletes (chan_w s) a held side mood).
    - rewrite (cl_lookup_map_if (fun n => existsb (Nat.eqb n) (subs_of a held (subs s))) stop_listener), Hl1.
      eexists. split; [reflexivity|].
      destruct (existsb _ _); reflexivity.
    - rewrite Hl1. eexists. split; reflexivity. }
  destruct Hl2 as [cs4 [Hl2 Hb4]]. unfold conn_of. rewrite Hl2.
  eexists. split; [reflexivity|].
  cbn [chan_w chan_c subs conns log set_log set_conns].
  split; [exact Hw|]. split; [apply Hc; exact Hcl|]. split; [exact Hsubs|].
  split; [rewrite lframes_frame, Hfr; reflexivity|]. split.
  - exists (set_mailbox cs4 None). split; [apply (cl_lookup_update_same c _ _ cs4 Hl2)|].
    split; [reflexivity|exact Hb4].
  - intros c' Hne. rewrite (cl_lookup_update_other c c' _ _ Hne). rewrite Hconns.
    assert (Hl1' : lookup_conn c' (conns s1) = lookup_conn c' (conns s)).
    { unfold s1. cbn [conns set_conns]. apply cl_lookup_update_other. exact Hne. }
    destruct (close_deletes (chan_w s) a held side mood); cbn [andb].
    + rewrite (cl_lookup_map_if (fun n => existsb (Nat.eqb n) (subs_of a held (subs s))) stop_listener), Hl1'.
      reflexivity.
    + rewrite Hl1'. destruct (lookup_conn c' (conns s)); reflexivity.
Qed.

(** onMessage for a typed command: ack, dispatch, protocol errors answered *)
Lemma on_message_eval c msg o s t :
  m_type msg = Some t ->
  on_message cfg c msg o s =
  match dispatch cfg c t msg o (set_log s (LFrame c (FAck (m_id msg)) (is_clean s) (now s) :: log s)) with
  | Ok x s' => Ok x s'
  | Exn (XErr k) s' => send c (FError k msg) s'
  | Exn e s' => Exn e s'
  end.
Proof.
  intros Et. unfold on_message, try_catch. rewrite Et.
  rewrite (bind_ok _ _ s tt (set_log s (LFrame c (FAck (m_id msg)) (is_clean s) (now s) :: log s)))
    by reflexivity.
  destruct (dispatch cfg c t msg o _) as [[] s'|e s']; [reflexivity|].
  destruct e; reflexivity.
Qed.

(** the mailbox a well-formed close names *)
Lemma close_target cs msg (s : state) :
  name_mismatch (m_mailbox msg) (c_mailbox_id cs) = false ->
  exists m,
    match m_mailbox msg, c_mailbox_id cs with
    | Some m, Some m' => if seqb m m' then ret m else err
    | Some m, None => ret m
    | None, Some m' => ret m'
    | None, None => err
    end s = Ok m s /\ cmd_mbox cs msg = Some m.
Proof.
  unfold name_mismatch, cmd_mbox.
  destruct (m_mailbox msg) as [m0|], (c_mailbox_id cs) as [m1|]; intros H; try discriminate.
  - destruct (seqb m0 m1); [|discriminate]. exists m0. split; reflexivity.
  - exists m0. split; reflexivity.
  - exists m1. split; reflexivity.
Qed.

Lemma handle_close_held c a side msg s cs h :
  lookup_conn c (conns s) = Some cs -> c_did_close cs = false ->
  name_mismatch (m_mailbox msg) (c_mailbox_id cs) = false ->
  c_mailbox cs = Some h -> c_listening cs = true ->
  handle_close cfg c a side msg s =
  close_rest c a side (m_mood msg) h (now s)
    (set_conns (set_subs s (filter (fun p => negb (sub_is a h c p)) (subs s)))
               (update_conn c (set_listening cs false) (conns s))).
Proof.
  intros Hl Hdc Hnm Hmb Hlis. unfold handle_close.
  rewrite bind_get_conn. unfold conn_of. rewrite Hl, Hdc.
  destruct (close_target cs msg s Hnm) as [m [Em _]].
  rewrite (bind_ok _ _ s m s Em). rewrite bind_get. rewrite Hmb, bind_ret.
  rewrite bind_get_conn. unfold conn_of. rewrite Hl, Hlis.
  rewrite (bind_ok _ _ s tt
             (set_conns (set_subs s (filter (fun p => negb (sub_is a h c p)) (subs s)))
                        (update_conn c (set_listening cs false) (conns s)))) by reflexivity.
  reflexivity.
Qed.

Lemma handle_close_fresh_prefix c a side msg s cs m :
  lookup_conn c (conns s) = Some cs -> c_did_close cs = false ->
  name_mismatch (m_mailbox msg) (c_mailbox_id cs) = false -> cmd_mbox cs msg = Some m ->
  c_mailbox cs = None ->
  handle_close cfg c a side msg s =
  bind (catch_crowded (open_mailbox a m side (now s)))
       (fun _ =>
          bind (cs1 <- get_conn c ;; set_conn c (set_mailbox cs1 (Some m)) ;;; ret m)
               (fun held =>
                  cs2 <- get_conn c ;;
                  (if c_listening cs2
                   then remove_sub a held c ;;; set_conn c (set_listening cs2 false)
                   else ret tt) ;;;
                  close_rest c a side (m_mood msg) held (now s))) s.
Proof.
  intros Hl Hdc Hnm Hcm Hmb. unfold handle_close.
  rewrite bind_get_conn. unfold conn_of. rewrite Hl, Hdc.
  destruct (close_target cs msg s Hnm) as [m' [Em Hcm']].
  assert (m' = m) by congruence. subst m'.
  rewrite (bind_ok _ _ s m s Em). rewrite bind_get. rewrite Hmb.
  rewrite bind_assoc. reflexivity.
Qed.

Lemma handle_close_fresh_fail c a side msg s cs m d' :
  lookup_conn c (conns s) = Some cs -> c_did_close cs = false ->
  name_mismatch (m_mailbox msg) (c_mailbox_id cs) = false -> cmd_mbox cs msg = Some m ->
  c_mailbox cs = None ->
  open_body (chan_w s) a m side (now s) = TxFail XIntegrity d' ->
  handle_close cfg c a side msg s = Exn XIntegrity (set_chan_w s d').
Proof.
  intros Hl Hdc Hnm Hcm Hmb Hob.
  rewrite (handle_close_fresh_prefix c a side msg s cs m Hl Hdc Hnm Hcm Hmb).
  apply bind_exn. unfold catch_crowded, try_catch. rewrite cl_open_mailbox_eval, Hob. reflexivity.
Qed.

Lemma handle_close_fresh_ok c a side msg s cs m d1 :
  lookup_conn c (conns s) = Some cs -> c_did_close cs = false ->
  name_mismatch (m_mailbox msg) (c_mailbox_id cs) = false -> cmd_mbox cs msg = Some m ->
  c_mailbox cs = None -> c_listening cs = false ->
  open_body (chan_w s) a m side (now s) = TxOk tt d1 ->
  let s2 := mkState d1 d1 (usage_w s) (usage_c s) (subs s) (conns s) (now s) (boot s)
                    (timer_start s) (next_due s) (LCommitChan d1 :: LCommitChan d1 :: log s) in
  handle_close cfg c a side msg s =
  if (2 <? List.length (sel_mbs_all d1 m))%nat then Exn (XErr ErrCrowded) s2
  else close_rest c a side (m_mood msg) m (now s)
         (set_conns s2 (update_conn c (set_mailbox cs (Some m)) (conns s))).
Proof.
  intros Hl Hdc Hnm Hcm Hmb Hlis Hob s2.
  rewrite (handle_close_fresh_prefix c a side msg s cs m Hl Hdc Hnm Hcm Hmb).
  assert (Hcc : catch_crowded (open_mailbox a m side (now s)) s =
                if (2 <? List.length (sel_mbs_all d1 m))%nat then Exn (XErr ErrCrowded) s2
                else Ok tt s2).
  { unfold catch_crowded, try_catch. rewrite cl_open_mailbox_eval, Hob. cbv zeta. fold s2.
    destruct (2 <? List.length (sel_mbs_all d1 m))%nat; reflexivity. }
  destruct (2 <? List.length (sel_mbs_all d1 m))%nat.
  - apply bind_exn. exact Hcc.
  - rewrite (bind_ok _ _ s tt s2 Hcc).
    set (s3 := set_conns s2 (update_conn c (set_mailbox cs (Some m)) (conns s))).
    assert (E3 : (cs1 <- get_conn c ;; set_conn c (set_mailbox cs1 (Some m)) ;;; ret m) s2 = Ok m s3).
    { rewrite bind_get_conn. unfold conn_of. change (conns s2) with (conns s). rewrite Hl. reflexivity. }
    rewrite (bind_ok _ _ s2 m s3 E3).
    rewrite bind_get_conn. unfold conn_of.
    assert (Hl3 : lookup_conn c (conns s3) = Some (set_mailbox cs (Some m))).
    { unfold s3. cbn [conns set_conns]. apply (cl_lookup_update_same c _ _ cs Hl). }
    rewrite Hl3. cbn [c_listening set_mailbox]. rewrite Hlis. rewrite bind_ret. reflexivity.
Qed.

End CloseRun.

Section WithConfig.
Variable cfg : config.

(** * close on the connection that holds the mailbox: always `closed`, never fails *)
Theorem close_held_effect s c cs a side msg o h :
  SInv s -> log s = [] ->
  lookup_conn c (conns s) = Some cs -> c_bound cs = Some (a, side) -> c_mailbox cs = Some h ->
  m_type msg = Some TClose -> erroneous cs msg = false ->
  let '(s', ob) := step cfg s (EB (ECmd c msg o)) in
  let d := chan_w s in
  let del := close_deletes d a h side (m_mood msg) in
  o_exc ob = None /\
  frames_of (o_log ob) = [(c, FAck (m_id msg)); (c, FClosed)] /\
  chan_w s' = close_db d a h side (m_mood msg) /\ chan_c s' = chan_w s' /\
  subs s' = (if del
             then filter (fun p => negb (seqb (fst (fst p)) a && seqb (snd (fst p)) h)) (subs s)
             else filter (fun p => negb (sub_is a h c p)) (subs s)) /\
  (forall a' m', ~ holds s' c a' m') /\
  (forall c' a' m', c' <> c ->
     (holds s' c' a' m' <-> holds s c' a' m' /\ ~ (del = true /\ a' = a /\ m' = h))).
Proof.
  intros Hinv Hlog Hl Hb Hmb Ht Herr.
  pose proof (si_conns s Hinv c cs Hl) as Hok. unfold conn_ok in Hok. rewrite Hmb in Hok.
  destruct Hok as (a0 & sd0 & Hb0 & Hlis & Hin). rewrite Hb in Hb0. inversion Hb0; subst a0 sd0.
  destruct (si_clean s Hinv) as [Hcl _].
  assert (Hdc : c_did_close cs = false /\ name_mismatch (m_mailbox msg) (c_mailbox_id cs) = false).
  { unfold erroneous in Herr. rewrite Ht, Hb in Herr. apply orb_false_iff in Herr. exact Herr. }
  destruct Hdc as [Hdc Hnm].
  unfold step. rewrite (cl_set_log_nil s Hlog). unfold step_b.
  assert (Hhas : has_conn c s = true) by (unfold has_conn; rewrite Hl; reflexivity).
  rewrite Hhas.
  rewrite (on_message_eval cfg c msg o s TClose Ht).
  set (s0 := set_log s (LFrame c (FAck (m_id msg)) (is_clean s) (now s) :: log s)).
  assert (Hc0 : conn_of s0 c = cs).
  { unfold conn_of, s0. cbn [conns set_log]. rewrite Hl. reflexivity. }
  rewrite (dispatch_bound cfg c TClose msg o s0 a side)
    by (try discriminate; rewrite Hc0; exact Hb).
  rewrite (handle_close_held cfg c a side msg s0 cs h Hl Hdc Hnm Hmb Hlis).
  set (s1 := set_conns (set_subs s0 (filter (fun p => negb (sub_is a h c p)) (subs s0)))
                       (update_conn c (set_listening cs false) (conns s0))).
  destruct (close_rest_run cfg c a side (m_mood msg) h (now s0) s1 (set_listening cs false))
    as [s' [E [Hw [Hc [Hsubs [Hfr [Hown Hoth]]]]]]].
  { exact (si_db s Hinv). }
  { symmetry. exact Hcl. }
  { unfold s1. cbn [conns set_conns]. apply (cl_lookup_update_same c _ _ cs Hl). }
  rewrite E. cbv beta iota zeta. cbn [o_exc o_log chan_w chan_c subs set_log].
  change (chan_w s1) with (chan_w s) in *.
  change (subs s1) with (filter (fun p => negb (sub_is a h c p)) (subs s)) in *.
  split; [reflexivity|]. split.
  { unfold lframes in Hfr. rewrite Hfr.
    change (log s1) with (LFrame c (FAck (m_id msg)) (is_clean s) (now s) :: log s).
    rewrite Hlog. reflexivity. }
  split; [exact Hw|]. split; [exact Hc|]. split.
  { rewrite Hsubs. destruct (close_deletes (chan_w s) a h side (m_mood msg));
      [apply filter_mbox_after_own|reflexivity]. }
  split.
  { intros a' m' (cs0 & sd & H & _ & Hm). cbn [conns set_log] in H.
    destruct Hown as (cs' & Hl' & Hm' & _). rewrite Hl' in H. inversion H; subst cs0. congruence. }
  apply (holds_others_after s (set_log s' []) c a h _
           (filter (fun p => negb (sub_is a h c p)) (subs s)) Hinv).
  - intros c' Hne. cbn [conns set_log]. rewrite (Hoth c' Hne).
    unfold s1. cbn [conns set_conns set_subs]. rewrite (cl_lookup_update_other c c' _ _ Hne).
    reflexivity.
  - intros c' Hne. apply In_after_own. exact Hne.
Qed.

(** * close on a connection that does not hold the mailbox (a re-sent close):
    the mailbox is opened first (so a third side is refused `crowded`), then
    closed and answered `closed` *)
Theorem close_fresh_outcome s c cs a side msg o m :
  SInv s -> log s = [] ->
  lookup_conn c (conns s) = Some cs -> c_bound cs = Some (a, side) -> c_mailbox cs = None ->
  m_type msg = Some TClose -> erroneous cs msg = false -> cmd_mbox cs msg = Some m ->
  let '(s', ob) := step cfg s (EB (ECmd c msg o)) in
  let d := chan_w s in
  let d1 := open_db d a m side (now s) in
  let del := close_deletes d1 a m side (m_mood msg) in
  chan_c s' = chan_w s' /\
  ( (o_exc ob = Some XIntegrity /\ frames_of (o_log ob) = [(c, FAck (m_id msg))] /\
     chan_w s' = d /\ pk_clash d a m)
    \/
    (o_exc ob = None /\ (2 < List.length (sel_mbs_all d1 m))%nat /\
     frames_of (o_log ob) = [(c, FAck (m_id msg)); (c, FError ErrCrowded msg)] /\
     chan_w s' = d1 /\ subs s' = subs s)
    \/
    (o_exc ob = None /\ (List.length (sel_mbs_all d1 m) <= 2)%nat /\
     frames_of (o_log ob) = [(c, FAck (m_id msg)); (c, FClosed)] /\
     chan_w s' = close_db d1 a m side (m_mood msg) /\
     subs s' = (if del
                then filter (fun p => negb (seqb (fst (fst p)) a && seqb (snd (fst p)) m)) (subs s)
                else subs s) /\
     (forall a' m', ~ holds s' c a' m') /\
     (forall c' a' m', c' <> c ->
        (holds s' c' a' m' <-> holds s c' a' m' /\ ~ (del = true /\ a' = a /\ m' = m)))) ).
Proof.
  intros Hinv Hlog Hl Hb Hmb Ht Herr Hcm.
  pose proof (si_conns s Hinv c cs Hl) as Hlis. unfold conn_ok in Hlis. rewrite Hmb in Hlis.
  destruct (si_clean s Hinv) as [Hcl _].
  assert (Hdc : c_did_close cs = false /\ name_mismatch (m_mailbox msg) (c_mailbox_id cs) = false).
  { unfold erroneous in Herr. rewrite Ht, Hb in Herr. apply orb_false_iff in Herr. exact Herr. }
  destruct Hdc as [Hdc Hnm].
  unfold step. rewrite (cl_set_log_nil s Hlog). unfold step_b.
  assert (Hhas : has_conn c s = true) by (unfold has_conn; rewrite Hl; reflexivity).
  rewrite Hhas.
  rewrite (on_message_eval cfg c msg o s TClose Ht).
  set (s0 := set_log s (LFrame c (FAck (m_id msg)) (is_clean s) (now s) :: log s)).
  assert (Hc0 : conn_of s0 c = cs).
  { unfold conn_of, s0. cbn [conns set_log]. rewrite Hl. reflexivity. }
  rewrite (dispatch_bound cfg c TClose msg o s0 a side)
    by (try discriminate; rewrite Hc0; exact Hb).
  destruct (cl_open_body_eval (chan_w s) a m side (now s)) as [[Hf Hclash]|Hok].
  - rewrite (handle_close_fresh_fail cfg c a side msg s0 cs m (chan_w s) Hl Hdc Hnm Hcm Hmb Hf).
    cbv beta iota zeta.
    destruct (cl_drop_conn_frame c (set_chan_w s0 (chan_w s))) as [Dw [Dc Dl]].
    cbn [o_exc o_log chan_w chan_c log set_log]. rewrite Dw, Dc, Dl.
    split; [symmetry; exact Hcl|]. left. split; [reflexivity|].
    split; [|split; [reflexivity|exact Hclash]].
    cbn [log set_chan_w set_log s0]. rewrite Hlog. reflexivity.
  - pose proof (open_body_ok (chan_w s) a m side (now s) (si_db s Hinv)) as Hob.
    rewrite Hok in Hob. destruct Hob as [Hinv1 _].
    rewrite (handle_close_fresh_ok cfg c a side msg s0 cs m _ Hl Hdc Hnm Hcm Hmb Hlis Hok).
    set (d1 := open_db (chan_w s) a m side (now s)) in *.
    cbv zeta.
    set (s2 := mkState d1 d1 (usage_w s0) (usage_c s0) (subs s0) (conns s0) (now s0) (boot s0)
                       (timer_start s0) (next_due s0) (LCommitChan d1 :: LCommitChan d1 :: log s0)).
    destruct (2 <? List.length (sel_mbs_all d1 m))%nat eqn:E23.
    + unfold send. cbv beta iota zeta. cbn [o_exc o_log chan_w chan_c subs log set_log s2].
      split; [reflexivity|]. right; left. split; [reflexivity|].
      split; [apply Nat.ltb_lt; exact E23|]. split; [|split; reflexivity].
      cbn [log set_log s0]. rewrite Hlog. reflexivity.
    + set (s3 := set_conns s2 (update_conn c (set_mailbox cs (Some m)) (conns s0))).
      destruct (close_rest_run cfg c a side (m_mood msg) m (now s0) s3 (set_mailbox cs (Some m)))
        as [s' [E [Hw [Hc [Hsubs [Hfr [Hown Hoth]]]]]]].
      { exact Hinv1. }
      { reflexivity. }
      { unfold s3. cbn [conns set_conns]. apply (cl_lookup_update_same c _ _ cs Hl). }
      rewrite E. cbv beta iota zeta. cbn [o_exc o_log chan_w chan_c subs set_log].
      change (chan_w s3) with d1 in *. change (subs s3) with (subs s) in *.
      split; [exact Hc|]. right; right. split; [reflexivity|].
      split; [apply Nat.ltb_ge; exact E23|]. split.
      { unfold lframes in Hfr. rewrite Hfr.
        change (log s3) with (LCommitChan d1 :: LCommitChan d1 ::
                              LFrame c (FAck (m_id msg)) (is_clean s) (now s) :: log s).
        rewrite Hlog. reflexivity. }
      split; [exact Hw|]. split; [exact Hsubs|]. split.
      { intros a' m' (cs0 & sd & H & _ & Hm). cbn [conns set_log] in H.
        destruct Hown as (cs' & Hl' & Hm' & _). rewrite Hl' in H. inversion H; subst cs0. congruence. }
      apply (holds_others_after s (set_log s' []) c a m _ (subs s) Hinv).
      * intros c' Hne. cbn [conns set_log]. rewrite (Hoth c' Hne).
        unfold s3. cbn [conns set_conns s2]. rewrite (cl_lookup_update_other c c' _ _ Hne).
        reflexivity.
      * intros c' Hne. reflexivity.
Qed.

End WithConfig.
