(** Prop_C01.v -- C01: opening a mailbox replays every stored message, and
    nothing else.  Statements quoted by type from HistFacts.v, LifeFacts.v,
    MbFactsA.v (printed by [Check]). *)
From MW Require Import Base Store Monad Usage Server Websocket Service Findings Inv Obs
     ProtoFacts StepFacts MbFactsA LifeFacts HistFacts Corollaries CrashHist Inst_Params MbStable FlagBridge.
Local Open Scope list_scope.

(** after ANY history from the initial state without crash events (any number of
    apps, sides, connections, mailboxes; sweeps, clock advances and restarts
    included), a served open of (a, m) is sent, after its ack, exactly the
    [ledger] of (a, m) over that history, ordered by arrival time (messages with equal stamps in the
    model's tie order; SQLite leaves ties unspecified and the correspondence check
    compares them as multisets), and nothing else:
    every message added to that mailbox (with the adder's bound side, phase, body
    and id as submitted) since the mailbox row last came into existence -- the
    ledger is emptied whenever the mailbox has no row after an event (last close,
    expiry), so a deleted id that is opened again starts empty; messages of other
    mailboxes or apps never enter it *)
Theorem C01_open_replays_ledger : ltac:(let t := type of open_replays_ledger in exact t).
Proof. exact open_replays_ledger. Qed.
Check C01_open_replays_ledger.
Print Assumptions C01_open_replays_ledger.

(** the stored messages of (a, m) are exactly its ledger, from any well-formed state *)
Theorem C01_stored_is_ledger : ltac:(let t := type of stored_is_ledger in exact t).
Proof. exact stored_is_ledger. Qed.
Check C01_stored_is_ledger.
Print Assumptions C01_stored_is_ledger.

(** a mailbox without a row has an empty ledger *)
Theorem C01_ledger_reset_when_gone : ltac:(let t := type of ledger_reset_when_gone in exact t).
Proof. exact ledger_reset_when_gone. Qed.
Check C01_ledger_reset_when_gone.
Print Assumptions C01_ledger_reset_when_gone.

(** per event: the stored messages are the old ones whose mailbox still exists, in
    the same order, plus the one row a well-formed add stores; nothing else ever
    writes or removes a message *)
Theorem C01_messages_evolution : ltac:(let t := type of messages_evolution in exact t).
Proof. exact messages_evolution. Qed.
Check C01_messages_evolution.
Print Assumptions C01_messages_evolution.

(** per open: refused (crowded / KF1) with no message frame at all, or served with
    exactly [msg_sort (sel_msgs d a m)]: the rows of this app AND this mailbox id *)
Theorem C01_open_outcome : ltac:(let t := type of open_outcome in exact t).
Proof. exact open_outcome. Qed.
Check C01_open_outcome.
Print Assumptions C01_open_outcome.

(** every stored message has its mailbox (part of DbInv), in every reachable state *)
Theorem C01_no_orphans : ltac:(let t := type of crash_state_wf in exact t).
Proof. exact crash_state_wf. Qed.
Check C01_no_orphans.
Print Assumptions C01_no_orphans.


(** ** the same, for EVERY history -- crash events included (CrashHist.v)

    [ledger_c] counts an add that was cut short by a crash exactly when the crash came
    after the add's single commit ([ECrash (S k) (ECmd c add)]); a crash before it
    ([ECrash 0 ...]) or during any other command adds nothing.  With that, the stored
    messages of every mailbox after any history of commands, sweeps, restarts AND
    crashes at any commit boundary are its ledger, and a served open replays exactly
    the ledger *)
Theorem C01_messages_evolution_all : ltac:(let t := type of messages_evolution_all in exact t).
Proof. exact messages_evolution_all. Qed.
Check C01_messages_evolution_all.
Print Assumptions C01_messages_evolution_all.

Theorem C01_stored_is_ledger_all : ltac:(let t := type of stored_is_ledger_all in exact t).
Proof. exact stored_is_ledger_all. Qed.
Check C01_stored_is_ledger_all.
Print Assumptions C01_stored_is_ledger_all.

Theorem C01_open_replays_ledger_all : ltac:(let t := type of open_replays_ledger_all in exact t).
Proof. exact open_replays_ledger_all. Qed.
Check C01_open_replays_ledger_all.
Print Assumptions C01_open_replays_ledger_all.

Theorem C01_ledger_reset_when_gone_all : ltac:(let t := type of ledger_reset_when_gone_all in exact t).
Proof. exact ledger_reset_when_gone_all. Qed.
Check C01_ledger_reset_when_gone_all.
Print Assumptions C01_ledger_reset_when_gone_all.

(** on histories without crash events the two ledgers coincide *)
Theorem C01_ledger_c_no_crash : ltac:(let t := type of ledger_c_no_crash in exact t).
Proof. exact ledger_c_no_crash. Qed.
Print Assumptions C01_ledger_c_no_crash.

(** a message whose add was committed before the crash survives it and is replayed;
    one whose add crashed before its commit is lost *)
Example C01_crash_nonvacuous : ltac:(let t := type of crash_ledger_nonvacuous in exact t).
Proof. exact crash_ledger_nonvacuous. Qed.


(** the ledger is emptied "whenever the mailbox has no row"; a mailbox loses its row by
    nothing but its last close or its expiry (MbStable.v), over every history *)
Theorem C01_discarded_only_by_deletion : ltac:(let t := type of mailbox_stable_run in exact t).
Proof. exact mailbox_stable_run. Qed.
Print Assumptions C01_discarded_only_by_deletion.


(** two messages survive the adder's disconnect, another mailbox's traffic and a
    restart; after the last close the same id starts empty *)
Example C01_nonvacuous :
  let cfg := gen_cfg true false None in
  let o := mkOracle None (mkAO None []) in
  let bind s := mkCmd (Some TBind) None (Some "a") (Some s) None None None None None None None in
  let opn m := mkCmd (Some TOpen) None None None None (Some m) None None None None None in
  let add b := mkCmd (Some TAdd) None None None None None (Some "p") (Some b) None None None in
  let cls := mkCmd (Some TClose) None None None None None None None None None None in
  let h := [EB (EConnect 1); EB (ECmd 1 (bind "A") o); EB (ECmd 1 (opn "m") o);
            EB (ECmd 1 (add "one") o); EB (EAdvance 1 false); EB (ECmd 1 (add "two") o); EB (EDisconnect 1);
            EB (EConnect 2); EB (ECmd 2 (bind "A") o); EB (ECmd 2 (opn "other") o); EB (ECmd 2 (add "x") o);
            ERestart; EB (EConnect 3); EB (ECmd 3 (bind "B") o)] in
  let s := fst (run cfg (init cfg 0) h) in
  let '(s1, ob) := step cfg s (EB (ECmd 3 (opn "m") o)) in
  map snd (frames_of (o_log ob)) =
    [FAck None; FMessage "A" "p" "one" 0 None; FMessage "A" "p" "two" 1 None] /\
  ledger cfg (init cfg 0) h "a" "m" [] <> [].
Proof. vm_compute. split; [reflexivity|discriminate]. Qed.

(** * the adder's side is the side its connection bound with (quoted by type from FlagBridge.v) *)

(** `with the adder's side`: [bound_to] is the connection's own bind command *)
Theorem C01_bound_is_bind_cmd : ltac:(let t := type of bound_is_bind_cmd in exact t).
Proof. exact bound_is_bind_cmd. Qed.
Check C01_bound_is_bind_cmd.
Print Assumptions C01_bound_is_bind_cmd.

